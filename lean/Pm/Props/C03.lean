import Pm.ReplyProof
import Pm.QueryEx
import Pm.MatchOwn
/-! # C03 — status queries report exactly what the devices answered  (reply side: `client.c`)

About the real `finalReply` / `install` of `Pm/Daemon.lean`, for every command `c : CmdC` (any target list,
repetitions included, any arglist).  Vocabulary (definitions in `Pm/ReplyProof.lean`, all unfolding to the
expressions inside `finalReply`):

* `entriesOf c` — the arglist elements in the order `arglist_next` yields them: for each target name in order,
  the element found for it (a repeated target yields its element again);
* `onNodes c`, `offNodes c`, `unkNodes c` — the names of the entries with `state` 2, 1, 0: the three lists pushed
  into `hl_on`, `hl_off`, `hl_unknown`; each is then sorted and range-compressed by the hostlist mirror
  (`sortedRanged`), which is treated as opaque here.  `sortedRanged … = none` is the assert inside `hostlist_sort`
  (finding F19): `finalReply` is then `none`, the daemon is gone;
* `Covered c` — every target has an arglist element (true of commands made by `install`, `C03_fresh`).

What a device wrote into the arglist, and when, is the device side; the second half of this file (`## over whole runs`)
composes it with the reply side: the reply of a query shows, node by node, what the actions *of this very command* wrote. -/
namespace Pm.Props.C03
open Pm Pm.Client Pm.Daemon
open Pm.Daemon.Reply
open Pm.Dev2 (ActErr Arg)

/-- **Range-compressed `status` / `beacon` reply.**  The reply consists of the three `302` lines built from
    `onNodes`, `offNodes`, `unkNodes` and the terminal line (or nothing at all if a sort trips F19).
    If every state is one of the three enumerators (`state ≤ 2`; always so for arglists read from the store,
    `C03_states_in_range`), then:
    the three lists together are a rearrangement of the targets that have an arglist element, repetitions kept —
    so every listed node is a target, nothing is invented and nothing dropped;
    as sets of names they are pairwise disjoint (this needs no hypothesis);
    and if every target has an element the three lists together are a rearrangement of the target list itself. -/
theorem C03_partition (c : CmdC) (hc : c.com = .status ∨ c.com = .beacon) (hst : ∀ a ∈ c.args, a.state ≤ 2) :
    (finalReply false c =
      match sortedRanged (unkNodes c), sortedRanged (onNodes c), sortedRanged (offNodes c) with
      | some unk, some on, some off =>
          some (bstr "302 on:      " ++ on ++ crlf ++ bstr "302 off:     " ++ off ++ crlf ++ bstr "302 unknown: " ++ unk ++ crlf ++ qTerm c.error)
      | _, _, _ => none) ∧
    (onNodes c ++ offNodes c ++ unkNodes c).Perm (c.names.filter fun n => (c.args.find? (·.node == n)).isSome) ∧
    (∀ n, ¬ (n ∈ onNodes c ∧ n ∈ offNodes c) ∧ ¬ (n ∈ onNodes c ∧ n ∈ unkNodes c) ∧ ¬ (n ∈ offNodes c ∧ n ∈ unkNodes c)) ∧
    (Covered c → (onNodes c ++ offNodes c ++ unkNodes c).Perm c.names) := by
  refine ⟨finalReply_status_ranged c hc, ?_, lists_disjoint c, fun hcov => ?_⟩
  · rw [← entriesOf_nodes]; exact partition_perm c hst
  · rw [← entriesOf_nodes_covered c hcov]; exact partition_perm c hst

/-- The lists are what they are called: a name is in `onNodes` iff some entry for it has state 2, and so on. -/
theorem C03_lists_justified (c : CmdC) (n : Name) :
    (n ∈ onNodes c ↔ ∃ a ∈ entriesOf c, a.node = n ∧ a.state = 2) ∧
    (n ∈ offNodes c ↔ ∃ a ∈ entriesOf c, a.node = n ∧ a.state = 1) ∧
    (n ∈ unkNodes c ↔ ∃ a ∈ entriesOf c, a.node = n ∧ a.state = 0) :=
  ⟨mem_onNodes, mem_offNodes, mem_unkNodes⟩

/-- `ArgC.state` is a plain number in the model.  A value other than 0, 1, 2 would be shown as `unknown` by the
    expanded rendering and dropped from all three lists by the range-compressed one (the C `switch` has no
    `default`), so `C03_partition` is false without its hypothesis: -/
theorem C03_partition_counterexample :
    let c : CmdC := { com := .status, names := ["a".toList, "b".toList], pending := 1, error := false,
                      args := [{ node := "a".toList, state := 3, result := 0, val := none }, { node := "b".toList, state := 2, result := 0, val := none }] }
    Covered c ∧ onNodes c ++ offNodes c ++ unkNodes c = ["b".toList] ∧
    finalReply true c = some (bstr "303 a: unknown\r\n303 b: on\r\n103 Query complete\r\n") :=
  partition_out_of_range_counterexample

/-- …but such a value cannot occur: the arglist the reply functions read is the store's, mapped through `argC`,
    and `argC` only produces 0, 1, 2. -/
theorem C03_states_in_range (w : W) (k : CmdC) (err : ActErr) : ∀ a ∈ (withStore w k err).args, a.state ≤ 2 :=
  withStore_state_le w k err

/-- **Expanded (`-x`) reply and agreement.**  The reply is exactly one line `303 <node>: on|off|unknown` per entry,
    in target order, then the terminal line.  The word shown for an entry is `on` iff its node is in `onNodes`,
    `off` iff in `offNodes`, and (for a state in range) `unknown` iff in `unkNodes`: both renderings put every
    node in the same class. -/
theorem C03_x_agree (c : CmdC) (hc : c.com = .status ∨ c.com = .beacon) :
    finalReply true c =
      some ((entriesOf c).flatMap (fun a => bstr "303 " ++ ofChars a.node ++ bstr ": " ++ bstr (clsName a.state) ++ crlf) ++ qTerm c.error) ∧
    ∀ a ∈ entriesOf c,
      (clsName a.state = "on" ↔ a.node ∈ onNodes c) ∧ (clsName a.state = "off" ↔ a.node ∈ offNodes c) ∧
      (a.state ≤ 2 → (clsName a.state = "unknown" ↔ a.node ∈ unkNodes c)) :=
  ⟨finalReply_status_x c hc, fun a ha => cls_agree c a ha⟩

/-- the number of `303` lines is the number of targets when every target has an element -/
theorem C03_x_count (c : CmdC) (h : Covered c) : (entriesOf c).length = c.names.length ∧ (entriesOf c).map (·.node) = c.names :=
  ⟨length_entriesOf_covered c h, entriesOf_nodes_covered c h⟩

/-- **Terminal line.**  Whenever a `status`, `beacon` or `temp` reply is written (either rendering) it ends with
    `211 Query completed with errors` iff the command's error flag is set, and with `103 Query complete` iff it
    is not. -/
theorem C03_terminal (ex : Bool) (c : CmdC) (hc : c.com ∈ [Com.status, .beacon, .temp]) (r : Bytes) (hr : finalReply ex c = some r) :
    ((bstr "211 Query completed with errors" ++ crlf) <:+ r ↔ c.error = true) ∧
    ((bstr "103 Query complete" ++ crlf) <:+ r ↔ c.error = false) :=
  qTerm_suffix_iff r c.error (finalReply_query_suffix ex c ((isQueryCom_iff c.com).mpr hc) r hr)

/-- **Temperature reply** (after the repair of F11; `exprange` plays no part).  Each entry contributes in exactly
    one place: an entry with a value `v` gets its own line `303 <node>: <v>`, in target order; an entry without a
    value contributes no line of its own (`tempLine a = []`) and its node goes into `tempMissing`, the single list
    that — if non-empty — is sorted, range-compressed and shown in one trailing line `303 <ranged>: unknown`.
    The nodes with a value and the missing ones together are a rearrangement of the entries' nodes, and no name is
    in both.  The text after `: ` is the device's bytes or the literal `unknown`; there is no `(null)`. -/
theorem C03_temp_once (ex : Bool) (c : CmdC) (hc : c.com = .temp) :
    (finalReply ex c =
      if tempMissing c = [] then some ((entriesOf c).flatMap tempLine ++ qTerm c.error)
      else match sortedRanged (tempMissing c) with
        | some r => some ((entriesOf c).flatMap tempLine ++ (bstr "303 " ++ r ++ bstr ": unknown" ++ crlf) ++ qTerm c.error)
        | none => none) ∧
    (∀ a v, a.val = some v → tempLine a = bstr "303 " ++ ofChars a.node ++ bstr ": " ++ firstLine v ++ crlf) ∧
    (∀ a, a.val = none → tempLine a = []) ∧
    (tempValued c ++ tempMissing c).Perm ((entriesOf c).map (·.node)) ∧
    (∀ n, ¬ (n ∈ tempValued c ∧ n ∈ tempMissing c)) :=
  ⟨finalReply_temp ex c hc, fun _ _ h => tempLine_some h, fun _ h => tempLine_none h, temp_perm c, temp_disjoint c⟩

/-- **A new command starts from nothing** (`_create_command` + `arglist_create`).  When `install` accepts a request
    from a client without a command, the command records the request as given, with the error flag clear and
    `pending ≠ 0`, under the arglist id `w.alNext`, and the counter moves on.  The arglist stored under that id has
    one element per distinct target (byte form, first-occurrence order), each with state unknown, no result and no
    value; provided the target names are byte strings (true of every name that came from client input or the
    configuration through `toChars`) every target has an element, and the reply functions see state 0 / result 0 /
    no value everywhere. -/
theorem C03_fresh (w : W) (c : Cli) (com : Com) (names : List Name) (hc : c.cmd = none) (k : CmdC)
    (hk : (install w c com names).2.cmd = some k) :
    (k.com = com ∧ k.names = names ∧ k.error = false ∧ k.pending ≠ 0 ∧ k.al = w.alNext ∧
      (install w c com names).1.alNext = w.alNext + 1) ∧
    storeArgs (install w c com names).1 k.al = freshArgs (names.map ofChars) ∧
    (freshArgs (names.map ofChars)).map (·.node) = distinctOf (names.map ofChars) ∧
    (distinctOf (names.map ofChars)).Nodup ∧ (∀ b, b ∈ distinctOf (names.map ofChars) ↔ b ∈ names.map ofChars) ∧
    (∀ a ∈ freshArgs (names.map ofChars), a.state = .unknown ∧ a.result = .none ∧ a.val = none) ∧
    ((∀ n ∈ names, ByteName n) → ∀ err,
      Covered (withStore (install w c com names).1 k err) ∧
      ∀ a ∈ (withStore (install w c com names).1 k err).args, a.state = 0 ∧ a.result = 0 ∧ a.val = none) := by
  obtain ⟨h1, h2, h3, h4, h5, h6, h7⟩ := install_creates w c com names hc k hk
  exact ⟨⟨h1, h2, h3, h4, h5, h6⟩, h7, freshArgs_nodes _, nodup_distinctOf _, mem_distinctOf _,
    freshArgs_fresh _, fun hb err => install_covered w c com names hc k hk hb err⟩

/-- **The id is fresh.**  Invariant `Fresh w c`: every arglist id in the store, in a client's command (the table's
    and the client being served) and in a queued client action is below `w.alNext`.  (Login and ping actions have
    `clientId = 0` and carry the dummy id 0; they are exempt.)  Under it nothing refers to `w.alNext`, and
    `install` — accepted or refused — preserves it. -/
theorem C03_fresh_id (w : W) (c : Cli) (com : Com) (names : List Name) (h : Fresh w c) :
    ((w.store.lookup w.alNext = none) ∧ (∀ x ∈ w.clients, ∀ k, x.cmd = some k → k.al ≠ w.alNext) ∧
     (∀ k, c.cmd = some k → k.al ≠ w.alNext) ∧
     (∀ nd ∈ w.devs, ∀ a ∈ nd.2.acts, a.clientId ≠ 0 → a.arglist ≠ w.alNext)) ∧
    Fresh (install w c com names).1 (install w c com names).2 :=
  ⟨h.unreferenced, install_fresh w c com names h⟩

/-- names made of bytes survive the round trip through the store; everything `toChars` produces is such a name -/
theorem C03_byte_names : (∀ n, ByteName n → toChars (ofChars n) = n) ∧ (∀ b, ByteName (toChars b)) :=
  ⟨toChars_ofChars, byteName_toChars⟩

/-! ## non-vacuity: `status t1,t2,t1,t3,t4` — t1 on (asked twice), t2 off, t3 no answer, t4 on; one device failed -/
def exArgs : List ArgC := [
  { node := "t1".toList, state := 2, result := 0, val := some (bstr "ON") },
  { node := "t2".toList, state := 1, result := 0, val := some (bstr "OFF") },
  { node := "t3".toList, state := 0, result := 0, val := none },
  { node := "t4".toList, state := 2, result := 0, val := some (bstr "ON") }]
def exCmd : CmdC :=
  { com := .status, names := ["t1".toList, "t2".toList, "t1".toList, "t3".toList, "t4".toList], pending := 1, error := true, args := exArgs }

example : (∀ a ∈ exCmd.args, a.state ≤ 2) ∧ Covered exCmd := by decide +kernel
example : onNodes exCmd = ["t1".toList, "t1".toList, "t4".toList] ∧ offNodes exCmd = ["t2".toList] ∧ unkNodes exCmd = ["t3".toList] := by
  decide +kernel
example : finalReply true exCmd =
    some (bstr "303 t1: on\r\n303 t2: off\r\n303 t1: on\r\n303 t3: unknown\r\n303 t4: on\r\n211 Query completed with errors\r\n") := by
  decide +kernel
/-- the same arglist answered as a temperature query: t3 has no value -/
example : finalReply false { exCmd with com := .temp, error := false } =
    some (bstr "303 t1: ON\r\n303 t2: OFF\r\n303 t1: ON\r\n303 t4: ON\r\n303 t3: unknown\r\n103 Query complete\r\n") := by
  decide +kernel
example : tempValued { exCmd with com := .temp } = ["t1".toList, "t2".toList, "t1".toList, "t4".toList] ∧
    tempMissing { exCmd with com := .temp } = ["t3".toList] := by decide +kernel

/-! `install` accepting `status t1,t2,t1` from client 7 in a world with one device (two plugs, a per-plug status
    script), one stored arglist (id 4) and the counter at 5 -/
def dev0 : Pm.Dev2.Dev :=
  { plugs := [{ name := bstr "1", node := some (bstr "t1") }, { name := bstr "2", node := some (bstr "t2") }],
    scripts := fun n => if n == 2 then some [] else none,
    timeout := 0, acts := [], toBuf := [], fromBuf := [], xmStr := none, xmOffs := [], xmResult := false, xmUsed := false,
    args := [], nextUid := 0, shortCircuitDelay := false }
def wI : W :=
  { cfg := { plugs := [], has := [], nodes := [], version := [] }, clients := [{ id := 3, fd := 1000, cmd := some { com := .on, names := [], pending := 1, error := false, al := 4 } }],
    devs := [(bstr "pdu0", dev0)], store := [(4, [])], alNext := 5 }
def cI : Cli := { id := 7, fd := 1001 }
def namesI : List Name := ["t1".toList, "t2".toList, "t1".toList]

example : Fresh wI cI := by
  refine ⟨by decide, ?_, ?_, ?_⟩
  · intro x hx k hk
    simp only [wI, List.mem_singleton] at hx
    subst hx
    simp only [Option.some.injEq] at hk
    subst hk
    decide
  · intro k hk; cases hk
  · intro nd hnd a ha
    simp only [wI, List.mem_singleton] at hnd
    subst hnd
    cases ha
example : cI.cmd = none ∧ (∀ n ∈ namesI, ByteName n) := ⟨rfl, by decide⟩
example : ((install wI cI .status namesI).2.cmd.map fun k => (k.al, k.pending, k.error, k.names.length)) = some (5, 2, false, 3) := by
  decide +kernel
example : (storeArgs (install wI cI .status namesI).1 5).map (·.node) = [bstr "t1", bstr "t2"] ∧
    (install wI cI .status namesI).1.alNext = 6 := by decide +kernel

/-! ## over whole runs

**Runs.**  `PassX` = the kernel's answers of a pass (`PassIn`) together with the recorded `regexec` answers its device phase
will consume; `runX w qs` the world after the passes `qs`, `feed w rx` the world with the answers handed over (what the
driver does between passes) — the shared definitions of `Pm/RunX.lean`, also used by C02, C05, C06, C11 and C15.
(`Isolation.runPasses`, used by the older statements of the end-to-end part of `Props/C02`, is the special case in
which no pass brings an answer — there every `expect` after the first pass of the run fails; see `C03_run_defs`.)
`AliveX w qs`: no pass ends in a modelled assertion; `runFinsX w qs g`: the completions (device, outcome) the run reports
for client `g`.  `Inv` is the invariant of `C02_pending_is_queued`.

**The history of writes.**  `setplugstate` and `setresult` are the only statements that write an arglist.  A write event
`WEv` records: the device whose turn it was (`dev`), the action that executed the statement (`cid`, `al`, `com`: client id,
arglist id, script slot), the plug and node concerned, what was written (`kind`: a state or a result), the captured text
that was interpreted and stored as the cell's value (`text`) and the subject of the regex match it was cut from
(`subject`: the device's match register at that moment).  `runEvX w qs` is the list of the writes of the run, oldest first:
a *function of the run* defined beside the model (`Pm/QueryEv.lean`, `Pm/QueryRun.lean`: for every mirror function on the
path `_process_stmt` … `dev_post_poll` … `_select_loop` a ghost function with the same arguments and control flow; the
model is not touched), and faithful: the store after is the store before with the writes applied in order
(`C03_writes_are_the_store`).  `hist w qs A` = the writes of the run to arglist `A`.

**Reading the history.**  `lastState H n` / `lastText H n`: the state / the text of the last write of `H` that concerns node
`n` (`n` in byte form); `entryOf H n` the entry shown for target `n`: state = that of `lastState` (unknown if none), value =
`lastText`; `replyCmd k err H` the command as `finalReply` sees it: `k`'s targets, the flag `err`, and a *fresh* arglist for
`k`'s targets with the writes `H` applied.  `Mine cfg g A ev`: the write `ev` was made by an action of client `g` carrying
the arglist id `A`, in the turn of a device of the table `cfg` (`C03_write_spelled`). -/
section runs
open Pm.Daemon.QRun Pm.Daemon.E2E
open Pm.Dev2.QEv
open Pm.Dev2 (Dev Action Oracle Plug PState)

/-- what the vocabulary is -/
theorem C03_run_defs (w : W) (q : PassX) (qs : List PassX) (g A : Nat) :
    runX w (q :: qs) = runX (stepX w q) qs ∧ runX w [] = w ∧ stepX w q = (daemonPass (feed w q.rx) q.p).1 ∧
    (feed w q.rx).pendingX = w.pendingX ++ q.rx ∧
    runEvX w (q :: qs) = passEv (feed w q.rx) q.p ++ runEvX (stepX w q) qs ∧ runEvX w [] = [] ∧
    hist w qs A = (runEvX w qs).filter (fun ev => ev.al == A) ∧
    runFinsX w (q :: qs) g = passFins (feed w q.rx) q.p g ++ runFinsX (stepX w q) qs g ∧
    (AliveX w (q :: qs) ↔ passDead (feed w q.rx) q.p = false ∧ AliveX (stepX w q) qs) ∧
    (∀ ps : List PassIn, runX w (ps.map fun p => ⟨p, []⟩) = Isolation.runPasses w ps) :=
  ⟨rfl, rfl, rfl, rfl, rfl, rfl, rfl, rfl, Iff.rfl, fun ps => runX_runPasses w ps⟩

/-- **The history is faithful.**  One statement: the store after it is the store before with the statement's write (none, or
    one) applied.  One device's `dev_post_poll`: the store before with the turn's writes applied in order.  A pass: the store
    the client phase left (which writes no cell: it only opens fresh arglists under new ids, `C03_accepted_fresh`) with the
    writes of the device phase applied in order.  A run, for an arglist `A` that exists when it begins: what it was, with
    the writes of the run *to that arglist* applied in order — writes to other arglists do not count. -/
theorem C03_writes_are_the_store :
    (∀ (d : Dev) (a : Action) (o : Oracle) (now : Nat),
      (Pm.Dev2.processStmt d a o now).dev.args = (stmtEv d a o).foldl applyStore d.args) ∧
    (∀ (d : Dev) (env : Pm.Dev2.Env) (o : Oracle), (Pm.Dev2.postPoll d env o).1.dev.args = (postPollEv d env o).foldl applyStore d.args) ∧
    (∀ (w : W) (p : PassIn), (daemonPass w p).1.store = (passEv w p).foldl applyStore (cliPostPoll w p.acc p.envs).store) ∧
    (∀ (w : W) (qs : List PassX) (A : Nat), Inv w → AliveX w qs → A < w.alNext →
      storeArgs (runX w qs) A = (hist w qs A).foldl applyEv (storeArgs w A)) :=
  ⟨processStmt_args, postPoll_args, daemonPass_store, fun w qs A h ha hA => runX_cell w qs A h ha hA⟩

/-- what a write does to an arglist: the elements of the event's node get the state (or the result) and the text; every
    other element is left as it is -/
theorem C03_write_cells (as : List Pm.Dev2.Arg) (ev : WEv) :
    applyEv as ev = as.map (upd ev) ∧
    (∀ g, g.node ≠ ev.node → upd ev g = g) ∧
    (∀ g st, g.node = ev.node → ev.kind = .state st → upd ev g = { g with state := st, val := some ev.text }) ∧
    (∀ g r, g.node = ev.node → ev.kind = .result r → upd ev g = { g with result := r, val := some ev.text }) := by
  refine ⟨rfl, ?_, ?_, ?_⟩
  · intro g h; simp [upd, h]
  · intro g st h hk; simp [upd, h, hk]
  · intro g r h hk; simp [upd, h, hk]

/-- **A write, spelled out** (`Mine cfg g A ev`).  The write was made in the turn of a device `x` of the table (it carries the
    device's name), in a state `d` of that device (its own plug list), for an action `a` of client `g` that carries the
    arglist id `A`.  The statement `a` stood at is a `setplugstate` whose plug name — literal, capture or script argument —
    is a plug of the device wired to `ev.node`, or a `setresult` whose capture names such a plug; `ev.text` is the status
    capture of the device's last successful regex match (`subOf d`), a piece of that match's subject; the state (result)
    written is that of the first interpretation matching the text (`C08_first_matching_interp`).
    That the match was made during this command, by an `expect` of this very action, is `C03_match_is_own` (since fix e0ac8ce
    the match register is recycled whenever an action leaves the queue; before, see `C03_stale_match_f38_fixed`). -/
theorem C03_write_spelled (cfg : List (Bytes × List Plug)) (g A : Nat) (ev : WEv) (h : Mine cfg g A ev) :
    ev.cid = g ∧ ev.al = A ∧
    ∃ x ∈ cfg, ev.dev = x.1 ∧ ∃ (d : Dev) (a : Action) (o : Oracle) (plug : Plug),
      d.plugs = x.2 ∧ a.clientId = g ∧ a.arglist = A ∧ ev.com = a.com ∧
      plug ∈ x.2 ∧ plug.name = ev.plug ∧ plug.node = some ev.node ∧ ev.subject = d.xmStr ∧
      (∃ subj, d.xmStr = some subj ∧ ev.text <:+: subj) ∧
      ((∃ lit pm sm is pn, (Pm.Dev2.topCtx a).block[(Pm.Dev2.topCtx a).pos]? = some (Pm.Dev2.Stmt.setplugstate lit pm sm is) ∧
          Pm.Dev2.Interp.chosenName d lit pm (Pm.Dev2.Interp.ctxName (Pm.Dev2.topCtx a).plugs) = some pn ∧
          Pm.Dev2.findPlug d pn = some plug ∧ Pm.Dev2.subOf d sm = some ev.text ∧
          ev.kind = .state (Pm.Dev2.pickState Pm.Dev2.askRx ev.text is o []).2.1) ∨
       (∃ pm sm is pn, (Pm.Dev2.topCtx a).block[(Pm.Dev2.topCtx a).pos]? = some (Pm.Dev2.Stmt.setresult pm sm is) ∧
          Pm.Dev2.subOf d pm = some pn ∧ Pm.Dev2.findPlug d pn = some plug ∧ Pm.Dev2.subOf d sm = some ev.text ∧
          ev.kind = .result (Pm.Dev2.pickResult Pm.Dev2.askRx ev.text is o []).2.1)) :=
  mine_spelled h

/-- **A command accepted in a pass starts from nothing.**  If client `g` has no command (or is not there yet) when the pass
    begins, then whatever command `k` it has when the client phase of the pass is over has an arglist id that had not been
    handed out when the pass began, a clear error flag, and its arglist — as it stands in the store at that moment — is
    `freshArgs` of `k`'s own target list: one element per distinct target, state unknown, no result, no value
    (`C03_fresh`).  The client phase changes no arglist that already exists. -/
theorem C03_accepted_fresh (w : W) (p : PassIn) (g : Nat) (h : Inv w)
    (hidle : ∀ c k, cliRec w g = some c → c.cmd = some k → False) :
    (∀ c k, cliRec (cliPostPoll w p.acc p.envs) g = some c → c.cmd = some k →
      storeArgs (cliPostPoll w p.acc p.envs) k.al = freshArgs (k.names.map ofChars) ∧ w.alNext ≤ k.al ∧ k.error = false) ∧
    (∀ A, A < w.alNext → storeArgs (cliPostPoll w p.acc p.envs) A = storeArgs w A) := by
  refine ⟨fun c k hc hk => ?_, fun A hA => ?_⟩
  · obtain ⟨h1, h2⟩ := cliPostPoll_fresh_cells w p.acc p.envs g h hidle c k hc hk
    exact ⟨h1, h2, cliPostPoll_fresh w p.acc p.envs g h hidle c k hc hk⟩
  · unfold storeArgs; rw [(cliPostPoll_lookup w p.acc p.envs A h hA).1]

/-- **C03, justified — from the accepted request to the reply.**  Client `g` has no command in `w0` (invariant `Inv`).  In
    the client phase of pass `q0` a request of `g` is accepted: `k` is its command, `c1` its record, when that phase is
    over.  Passes `qs` follow, then pass `q`; no pass ends in an assertion; other clients come, go and ask what they like,
    devices answer, fail or stay silent.  Before `q` the command (identified by its arglist id, which is never reused) is
    still in progress, after it the client is there and idle.  Let `H = hist w0 (q0 :: qs ++ [q]) k.al` be the writes of the
    whole run to `k`'s arglist and `F` the completions the run reported for `g`.  Then:
    1. `F` has exactly `k.pending` elements: one per action the request enqueued;
    2. in pass `q` the client (`c2`: its record when the client phase of `q` is over) was sent the `305`/`308`/`309` lines of
       that pass, then the reply `r`, then the prompt, and nothing else; `r` is `finalReply` of `replyCmd k (F.any failed) H`:
       `k`'s targets, the error flag "some completion of the run failed", and the arglist a **fresh** one for `k`'s targets
       becomes under the writes `H` — the cells as they are after the last completion, and nothing the store held before
       the request, nothing written under another arglist id, enters;
    3. the entries of the reply (one `303` line each with `-x`; the members of the three lists without) are `entryOf H n`
       for the targets `n` in order: state and value of the *last* write of `H` for that node, `unknown` / no value if
       there is none (`C03_shown_only_if_written`);
    4. every write of `H` was made by an action of client `g` carrying `k`'s arglist id — an action this very request
       enqueued — in the turn of a device of the configuration (`C03_write_spelled`).
    (The target names are byte strings: true of every name that comes from client input through `toChars`,
    `C03_byte_names`.) -/
theorem C03_justified (w0 : W) (q0 : PassX) (qs : List PassX) (q : PassX) (g : Nat) (c1 : Cli) (k : CmdC) (c' : Cli)
    (hinv : Inv w0) (ha : AliveX w0 (q0 :: (qs ++ [q])))
    (hidle0 : ∀ c k, cliRec w0 g = some c → c.cmd = some k → False)
    (hc1 : cliRec (cliPostPoll (feed w0 q0.rx) q0.p.acc q0.p.envs) g = some c1) (hk : c1.cmd = some k)
    (hb : ∀ n ∈ k.names, ByteName n)
    (hbusy : ∃ c k', cliRec (runX w0 (q0 :: qs)) g = some c ∧ c.cmd = some k' ∧ k'.al = k.al)
    (hidle : cliRec (runX w0 (q0 :: (qs ++ [q]))) g = some c') (hnone : c'.cmd = none) :
    (runFinsX w0 (q0 :: (qs ++ [q])) g).length = k.pending ∧
    (∃ c2 r, cliRec (cliPostPoll (feed (runX w0 (q0 :: qs)) q.rx) q.p.acc q.p.envs) g = some c2 ∧
      finalReply c2.exprange (replyCmd k ((runFinsX w0 (q0 :: (qs ++ [q])) g).any failed) (hist w0 (q0 :: (qs ++ [q])) k.al)) = some r ∧
      c'.toBuf = c2.toBuf ++ passText (feed (runX w0 (q0 :: qs)) q.rx) q.p g ++ r ++ prompt) ∧
    entriesOf (replyCmd k ((runFinsX w0 (q0 :: (qs ++ [q])) g).any failed) (hist w0 (q0 :: (qs ++ [q])) k.al)) =
      k.names.map (entryOf (hist w0 (q0 :: (qs ++ [q])) k.al)) ∧
    (∀ ev ∈ hist w0 (q0 :: (qs ++ [q])) k.al, Mine (plugsOf w0.devs) g k.al ev) :=
  query_answer w0 q0 qs q g c1 k c' hinv ha hidle0 hc1 hk hb hbusy hidle hnone

/-- the same when the pass that accepts the request also answers it -/
theorem C03_justified_one_pass (w0 : W) (q0 : PassX) (g : Nat) (c1 : Cli) (k : CmdC) (c' : Cli)
    (hinv : Inv w0) (ha : AliveX w0 [q0])
    (hidle0 : ∀ c k, cliRec w0 g = some c → c.cmd = some k → False)
    (hc1 : cliRec (cliPostPoll (feed w0 q0.rx) q0.p.acc q0.p.envs) g = some c1) (hk : c1.cmd = some k)
    (hb : ∀ n ∈ k.names, ByteName n)
    (hidle : cliRec (runX w0 [q0]) g = some c') (hnone : c'.cmd = none) :
    (runFinsX w0 [q0] g).length = k.pending ∧
    (∃ r, finalReply c1.exprange (replyCmd k ((runFinsX w0 [q0] g).any failed) (hist w0 [q0] k.al)) = some r ∧
      c'.toBuf = c1.toBuf ++ passText (feed w0 q0.rx) q0.p g ++ r ++ prompt) ∧
    entriesOf (replyCmd k ((runFinsX w0 [q0] g).any failed) (hist w0 [q0] k.al)) = k.names.map (entryOf (hist w0 [q0] k.al)) ∧
    (∀ ev ∈ hist w0 [q0] k.al, Mine (plugsOf w0.devs) g k.al ev) :=
  query_answer_one_pass w0 q0 g c1 k c' hinv ha hidle0 hc1 hk hb hidle hnone

/-- what `replyCmd` and `entryOf` are -/
theorem C03_reply_defs (k : CmdC) (err : Bool) (H : List WEv) (n : Name) :
    replyCmd k err H = { k with error := err, args := (H.foldl applyEv (freshArgs (k.names.map ofChars))).map argC } ∧
    entryOf H n = { node := toChars (ofChars n), state := psNum ((lastState H (ofChars n)).getD .unknown),
                    result := prNum ((lastResult H (ofChars n)).getD .none), val := lastText H (ofChars n) } ∧
    lastState H (ofChars n) = (H.filterMap (stateOn (ofChars n))).getLast? ∧
    lastText H (ofChars n) = (H.filterMap (textOn (ofChars n))).getLast? :=
  ⟨rfl, rfl, rfl, rfl⟩

/-- **A node is shown on, off or with a value only if a write of the history says so.**  For a target `n` and the entry
    `entryOf H n` the reply shows for it:
    * shown `on` (state 2) only if some write of `H` for `n`'s node wrote the state `on`, and no later write of `H` wrote
      a state for that node; the same for `off`;
    * if no write of `H` wrote a state for `n`'s node, `n` is shown `unknown` (state 0);
    * a value `v` is shown only if some write of `H` for `n`'s node stored the text `v`, and no later write of `H`
      concerns that node;
    * if no write of `H` concerns `n`'s node at all, the entry is the fresh one: unknown, no result, no value. -/
theorem C03_shown_only_if_written (H : List WEv) (n : Name) :
    ((entryOf H n).state = 2 → ∃ pre ev post, H = pre ++ ev :: post ∧ ev.node = ofChars n ∧ ev.kind = .state .on ∧
        ∀ x ∈ post, stateOn (ofChars n) x = none) ∧
    ((entryOf H n).state = 1 → ∃ pre ev post, H = pre ++ ev :: post ∧ ev.node = ofChars n ∧ ev.kind = .state .off ∧
        ∀ x ∈ post, stateOn (ofChars n) x = none) ∧
    ((∀ ev ∈ H, stateOn (ofChars n) ev = none) → (entryOf H n).state = 0) ∧
    (∀ v, (entryOf H n).val = some v → ∃ pre ev post, H = pre ++ ev :: post ∧ ev.node = ofChars n ∧ ev.text = v ∧
        ∀ x ∈ post, x.node ≠ ofChars n) ∧
    ((∀ ev ∈ H, ev.node ≠ ofChars n) → (entryOf H n).state = 0 ∧ (entryOf H n).result = 0 ∧ (entryOf H n).val = none) := by
  refine ⟨fun h => lastState_some (entryOf_state_on.mp h), fun h => lastState_some (entryOf_state_off.mp h),
    fun h => entryOf_state_unk.mpr (Or.inl (lastState_none h)), fun v h => lastText_some h, fun h => ?_⟩
  have hs : ∀ ev ∈ H, stateOn (ofChars n) ev = none := fun ev hev => by simp [stateOn, h ev hev]
  have hr : lastResult H (ofChars n) = none := by
    unfold lastResult
    rw [List.getLast?_eq_none_iff, List.filterMap_eq_nil_iff]
    intro ev hev; simp [resultOn, h ev hev]
  refine ⟨entryOf_state_unk.mpr (Or.inl (lastState_none hs)), ?_, lastText_none h⟩
  show prNum ((lastResult H (ofChars n)).getD .none) = 0
  rw [hr]; rfl

/-- **C03, no memory.**  In the setting of `C03_justified`, for a target `n`: if no write of the run under *this command's*
    arglist id concerns `n`'s node, the entry of `n` is the fresh one — state unknown, no value — whatever any earlier query
    left for that node in its own arglist, and whatever the concurrent queries of other clients on the very same node wrote
    into theirs during the run (their writes carry other arglist ids and are not in `hist … k.al`). -/
theorem C03_no_memory (w0 : W) (q0 : PassX) (qs : List PassX) (q : PassX) (g : Nat) (c1 : Cli) (k : CmdC) (c' : Cli)
    (hinv : Inv w0) (ha : AliveX w0 (q0 :: (qs ++ [q])))
    (hidle0 : ∀ c k, cliRec w0 g = some c → c.cmd = some k → False)
    (hc1 : cliRec (cliPostPoll (feed w0 q0.rx) q0.p.acc q0.p.envs) g = some c1) (hk : c1.cmd = some k)
    (hb : ∀ n ∈ k.names, ByteName n)
    (hbusy : ∃ c k', cliRec (runX w0 (q0 :: qs)) g = some c ∧ c.cmd = some k' ∧ k'.al = k.al)
    (hidle : cliRec (runX w0 (q0 :: (qs ++ [q]))) g = some c') (hnone : c'.cmd = none)
    (n : Name) (hn : n ∈ k.names)
    (hnot : ∀ ev ∈ runEvX w0 (q0 :: (qs ++ [q])), ev.al = k.al → ev.node ≠ ofChars n) :
    ∃ e ∈ entriesOf (replyCmd k ((runFinsX w0 (q0 :: (qs ++ [q])) g).any failed) (hist w0 (q0 :: (qs ++ [q])) k.al)),
      e.node = n ∧ e.state = 0 ∧ e.val = none ∧
      ∀ e' ∈ entriesOf (replyCmd k ((runFinsX w0 (q0 :: (qs ++ [q])) g).any failed) (hist w0 (q0 :: (qs ++ [q])) k.al)),
        e'.node = n → e' = e := by
  obtain ⟨_, _, hent, _⟩ := query_answer w0 q0 qs q g c1 k c' hinv ha hidle0 hc1 hk hb hbusy hidle hnone
  rw [hent]
  have hno : ∀ ev ∈ hist w0 (q0 :: (qs ++ [q])) k.al, ev.node ≠ ofChars n := by
    intro ev hev
    obtain ⟨h1, h2⟩ := List.mem_filter.mp hev
    exact hnot ev h1 (by simpa using h2)
  obtain ⟨h1, _, h3⟩ := (C03_shown_only_if_written (hist w0 (q0 :: (qs ++ [q])) k.al) n).2.2.2.2 hno
  refine ⟨entryOf _ n, List.mem_map.mpr ⟨n, hn, rfl⟩, entryOf_node _ n (hb n hn), h1, h3, ?_⟩
  intro e' he' hen
  obtain ⟨m, hm, rfl⟩ := List.mem_map.mp he'
  rw [entryOf_node _ m (hb m hm)] at hen
  rw [hen]

/-- **C03, reply shape at run level.**  The command `replyCmd k err H` from which the reply of `C03_justified` is computed
    satisfies the hypotheses of `C03_partition` / `C03_x_agree` / `C03_temp_once` — every target has an arglist element,
    every state is one of the three enumerators — so the reply is the three `302` lines (or one `303` line per target, or
    the temperature lines) followed by the terminal line, and the three lists together are a rearrangement of the target
    list; and the lists can be read off the history: `on` = the targets whose last state write says `on`, `off` likewise,
    `unknown` = the rest; with a value = the targets some write concerns, without = the others. -/
theorem C03_reply_shape (k : CmdC) (err : Bool) (H : List WEv) (hb : ∀ n ∈ k.names, ByteName n) :
    Covered (replyCmd k err H) ∧ (∀ a ∈ (replyCmd k err H).args, a.state ≤ 2) ∧
    (replyCmd k err H).com = k.com ∧ (replyCmd k err H).names = k.names ∧ (replyCmd k err H).error = err ∧
    entriesOf (replyCmd k err H) = k.names.map (entryOf H) ∧
    (onNodes (replyCmd k err H) ++ offNodes (replyCmd k err H) ++ unkNodes (replyCmd k err H)).Perm k.names ∧
    onNodes (replyCmd k err H) = k.names.filter (fun n => lastState H (ofChars n) == some .on) ∧
    offNodes (replyCmd k err H) = k.names.filter (fun n => lastState H (ofChars n) == some .off) ∧
    unkNodes (replyCmd k err H) = k.names.filter (fun n => (lastState H (ofChars n)).getD .unknown == .unknown) ∧
    tempValued (replyCmd k err H) = k.names.filter (fun n => (lastText H (ofChars n)).isSome) ∧
    tempMissing (replyCmd k err H) = k.names.filter (fun n => (lastText H (ofChars n)).isNone) := by
  obtain ⟨l1, l2, l3, l4, l5⟩ := replyCmd_lists k err H hb
  have hcov := replyCmd_covered k err H hb
  have hst := replyCmd_states k err H
  exact ⟨hcov, hst, rfl, rfl, rfl, replyCmd_entries k err H hb,
    (C03_partition { replyCmd k err H with com := .status } (Or.inl rfl) hst).2.2.2 hcov, l1, l2, l3, l4, l5⟩

/-- **C03, unreachable is unknown.**  For the reply `r` of a query (`status`, `beacon`, `temp`) computed as in `C03_justified`
    from the completions `F` of the run and the history `H` of the command's arglist:
    * a target for whose node no action of the command got as far as a `setplugstate` that found its plug and its text —
      because the device could not be reached, the action timed out or was aborted behind a failed one, or the answer was
      missing — has no state write in `H`: it is in the `unknown` list and in neither of the others;
    * the reply ends with `211 Query completed with errors` exactly when some completion of the run for this client is a
      failure (expect time-out, connect or login time-out, aborted queue entry), and with `103 Query complete` exactly
      when all are successes. -/
theorem C03_unreachable_is_unknown (ex : Bool) (k : CmdC) (F : List (Bytes × Pm.Dev2.ActErr)) (H : List WEv) (r : Bytes)
    (hq : k.com ∈ [Com.status, .beacon, .temp]) (hb : ∀ n ∈ k.names, ByteName n)
    (hr : finalReply ex (replyCmd k (F.any failed) H) = some r) :
    (∀ n ∈ k.names, (∀ ev ∈ H, stateOn (ofChars n) ev = none) →
      n ∈ unkNodes (replyCmd k (F.any failed) H) ∧ n ∉ onNodes (replyCmd k (F.any failed) H) ∧
      n ∉ offNodes (replyCmd k (F.any failed) H)) ∧
    ((bstr "211 Query completed with errors" ++ crlf) <:+ r ↔ ∃ x ∈ F, x.2 ≠ .success) ∧
    ((bstr "103 Query complete" ++ crlf) <:+ r ↔ ∀ x ∈ F, x.2 = .success) := by
  refine ⟨?_, replyCmd_terminal ex k F H r hq hr⟩
  intro n hn hnone
  obtain ⟨l1, l2, l3, _⟩ := replyCmd_lists k (F.any failed) H hb
  have h0 := lastState_none hnone
  rw [l1, l2, l3]
  simp [List.mem_filter, hn, h0]

/-- **A device that cannot be talked to writes nothing.**  An iteration of `_process_action`'s loop that finds the device not
    connected (the head action waits for the connection, or its connect time-out strikes), or the head action's deadline
    passed (it is completed with a time-out, everything queued behind it is aborted), executes no statement and makes no
    write; the loop ends there.  So a node whose device was not connected, or whose action ran out of time before its
    `setplugstate`, has no write in the history of the command and is shown `unknown` (`C03_unreachable_is_unknown`). -/
theorem C03_failed_turn_writes_nothing (fuel : Nat) (c : Pm.Dev2.CS) (o : Oracle) (out : List Pm.Dev2.Out) (tmo : Option Nat)
    (h : c.dev.conn ≠ 2 ∨ ∃ a0 rest, c.dev.acts = a0 :: rest ∧
      c.env.now ≥ (Pm.Dev2.stamp c.env.now a0).timeStamp.getD c.env.now + c.dev.timeout) :
    processActionFEv fuel c o out tmo = [] ∧
    (Pm.Dev2.processActionF fuel c o out tmo).1.dev.args = c.dev.args := by
  have h1 := processActionFEv_nothing fuel c o out tmo h
  refine ⟨h1, ?_⟩
  rw [processActionF_args, h1]; rfl

/-- **Where the text of a write comes from: the device's match register.**  (`reg d` = the four fields of `dev->xmatch`.)
    1. A write made in the state a matching `expect` leaves carries, as its subject, the device's input buffer as it was when
       that `expect` matched (NUL shown as 0xff); its text is a piece of that subject (`C03_write_spelled`).
    2. No statement other than `expect` changes the register: between an action's `expect` and its `setplugstate` the
       captured text stays what it was.
    3. `_disconnect` empties the device's two buffers but leaves the register alone.  (Since fix e0ac8ce `_process_action`
       recycles it whenever an action leaves the queue — `C03_match_is_own`; `_disconnect` still does not, which only the
       login action that follows can notice: `C03_login_sees_stale_match_counterexample`.) -/
theorem C03_match_register :
    (∀ (d : Dev) (a a' : Action) (o o' : Oracle) (pat : Nat) (offs : List (Int × Int)), d.fromBuf ≠ [] →
      (Pm.Dev2.askRx o pat (Pm.Dev2.Interp.rxSubject d.fromBuf)).2.1 = some offs →
      ∀ ev ∈ stmtEv (Pm.Dev2.stmtExpect d a o pat).dev a' o', ev.subject = some (Pm.Dev2.Interp.rxSubject d.fromBuf)) ∧
    (∀ (d : Dev) (a : Action) (o : Oracle) (now : Nat),
      (∀ pat, (Pm.Dev2.topCtx a).block[(Pm.Dev2.topCtx a).pos]? ≠ some (.expect pat)) →
      reg (Pm.Dev2.processStmt d a o now).dev = reg d) ∧
    (∀ c : Pm.Dev2.CS, reg (Pm.Dev2.disconnectDev c).dev = reg c.dev) :=
  ⟨stmtEv_after_expect, processStmt_reg, disconnectDev_reg⟩

end runs

/-! ### non-vacuity: the run of `Pm/QueryEx.lean`

Device `A`, plug `1` ↦ node `a1`.  Client 1 connects (pass 1, world `Ex.w1`), sends `status a1` (pass `q2`: accepted, arglist 1);
client 2 connects and sends `status a1` too (pass `q3`: arglist 2); the device says `1 on` (pass `q4`): client 1 is answered.
Then the device says `1 off` (pass `q6`): client 2 is answered — same node, same time, another answer. -/
section examples
open Pm.Daemon.QRun Pm.Daemon.QRun.Ex Pm.Daemon.E2E Pm.Dev2.QEv

/-- the hypotheses of `C03_justified` hold for client 1 … -/
example : Inv w1 ∧ AliveX w1 (q2 :: ([q3] ++ [q4])) ∧ (∀ c k, cliRec w1 1 = some c → c.cmd = some k → False) ∧
    cliRec (cliPostPoll (feed w1 q2.rx) q2.p.acc q2.p.envs) 1 = some c1 ∧ c1.cmd = some k1 ∧ (∀ n ∈ k1.names, ByteName n) ∧
    (∃ c k', cliRec (runX w1 (q2 :: [q3])) 1 = some c ∧ c.cmd = some k' ∧ k'.al = k1.al) ∧
    cliRec (runX w1 (q2 :: ([q3] ++ [q4]))) 1 = some c4 ∧ c4.cmd = none :=
  ⟨inv1, alive4, idle1, hc1, hk1, k1_bytes, busy3, hc4, idle4⟩
/-- … the history of its arglist is the one write its own action made, from the device's line `1 on`, and it is shown `on: a1` -/
example : hist w1 (q2 :: ([q3] ++ [q4])) k1.al =
      [{ dev := [65], cid := 1, al := 1, com := 2, plug := [49], node := [97, 49], kind := .state .on, text := bstr "on",
         subject := some (bstr "1 on\n") }] ∧
    c4.toBuf = bstr "001 2\r\npowerman> 302 on:      a1\r\n302 off:     \r\n302 unknown: \r\n103 Query complete\r\npowerman> " :=
  ⟨hist4, buf4⟩
example : ∀ ev ∈ hist w1 (q2 :: ([q3] ++ [q4])) k1.al, Mine (plugsOf w1.devs) 1 k1.al ev :=
  (C03_justified w1 q2 [q3] q4 1 c1 k1 c4 inv1 alive4 idle1 hc1 hk1 k1_bytes busy3 hc4 idle4).2.2.2
/-- client 2, whose query on the same node ran at the same time: the run's writes are client 1's (`on`, arglist 1) and client
    2's (`off`, arglist 2); the history of client 2's arglist is its own write alone, and it is shown `off: a1` -/
example : Inv w2 ∧ AliveX w2 (q3 :: ([q4, q5] ++ [q6])) ∧ (∀ c k, cliRec w2 2 = some c → c.cmd = some k → False) ∧
    cliRec (cliPostPoll (feed w2 q3.rx) q3.p.acc q3.p.envs) 2 = some c2 ∧ c2.cmd = some k2 ∧ (∀ n ∈ k2.names, ByteName n) ∧
    (∃ c k', cliRec (runX w2 (q3 :: [q4, q5])) 2 = some c ∧ c.cmd = some k' ∧ k'.al = k2.al) ∧
    cliRec (runX w2 (q3 :: ([q4, q5] ++ [q6]))) 2 = some c6 ∧ c6.cmd = none :=
  ⟨inv2, alive6, idle2, hc2, hk2, k2_bytes, busy5, hc6, idle6⟩
example : (runEvX w2 (q3 :: ([q4, q5] ++ [q6]))).map (fun ev => (ev.cid, ev.al, ev.node, ev.kind, ev.text)) =
      [(1, 1, [97, 49], .state .on, bstr "on"), (2, 2, [97, 49], .state .off, bstr "off")] ∧
    (hist w2 (q3 :: ([q4, q5] ++ [q6])) k2.al).map (fun ev => (ev.cid, ev.al, ev.node, ev.kind, ev.text)) =
      [(2, 2, [97, 49], .state .off, bstr "off")] ∧
    c6.toBuf = bstr "001 2\r\npowerman> 302 on:      \r\n302 off:     a1\r\n302 unknown: \r\n103 Query complete\r\npowerman> " :=
  ⟨writes6, hist6, buf6⟩
/-- the device does not answer (instead of pass `q4`, nine seconds pass): no write, one failed completion — `unknown: a1`
    and the error code -/
example : AliveX w1 (q2 :: ([q3] ++ [qLate])) ∧ cliRec (runX w1 (q2 :: ([q3] ++ [qLate]))) 1 = some cL ∧ cL.cmd = none ∧
    hist w1 (q2 :: ([q3] ++ [qLate])) k1.al = [] ∧ runFinsX w1 (q2 :: ([q3] ++ [qLate])) 1 = [([65], .expfail)] ∧
    cL.toBuf = bstr ("001 2\r\npowerman> 308 A: action timed out waiting for expected response\r\n" ++
      "302 on:      \r\n302 off:     \r\n302 unknown: a1\r\n211 Query completed with errors\r\npowerman> ") :=
  ⟨aliveL, hcL, idleL, histL, finsL, bufL⟩
example : (entryOf ([] : List WEv) ['a', '1']).state = 0 ∧ (entryOf ([] : List WEv) ['a', '1']).val = none := by decide +kernel
example : (entryOf (hist w1 (q2 :: ([q3] ++ [q4])) k1.al) ['a', '1']).state = 2 := by decide +kernel

/-- **F38 repaired: the old witness of `C03_stale_match_counterexample` now shows `unknown`.**  Device `A` of the example with,
    in addition, a `beacon` script that is a `setplugstate` alone (no `expect` before it; the parser accepts such a script).
    Client 1's `status a1` has been answered `on` (world `B.w4`).  Before fix e0ac8ce the device's match register still held the
    subject `1 on` of that query's `expect`, and the `beacon a1` of pass `B.q5` — a pass that brings no event for the device's
    descriptor — was answered `on: a1`, which the device never reported.  Now `_process_action` has recycled the register when
    the status action left the queue (`xm_str = NULL`, `xm_used = false` in `B.w4`): all hypotheses of `C03_justified_one_pass`
    hold as before, the request is accepted and answered in this one pass, the history of its arglist is *empty* — the beacon
    action made no write — and the client is told `unknown: a1`. -/
theorem C03_stale_match_f38_fixed :
    Inv B.w4 ∧ AliveX B.w4 [B.q5] ∧ (∀ c k, cliRec B.w4 1 = some c → c.cmd = some k → False) ∧
    cliRec (cliPostPoll (feed B.w4 B.q5.rx) B.q5.p.acc B.q5.p.envs) 1 = some B.c5 ∧ B.c5.cmd = some B.k5 ∧
    (B.k5.com, B.k5.names, B.k5.al) = (Com.beacon, [['a', '1']], 2) ∧ (∀ n ∈ B.k5.names, ByteName n) ∧
    cliRec (runX B.w4 [B.q5]) 1 = some B.c6 ∧ B.c6.cmd = none ∧
    hist B.w4 [B.q5] B.k5.al = [] ∧
    (B.w4.devs.map fun nd => (nd.2.xmStr, nd.2.xmUsed, nd.2.fromBuf)) = [(none, false, [])] ∧
    ((runX B.w4 [B.q5]).devs.map fun nd => nd.2.fromBuf) = [[]] ∧ B.q5.p.envs.find? (·.fd == 2000) = none ∧
    B.c6.toBuf.drop B.c5.toBuf.length =
      bstr "302 on:      \r\n302 off:     \r\n302 unknown: a1\r\n103 Query complete\r\npowerman> " :=
  ⟨B.inv4, B.alive5, B.idle4, B.hc5, B.hk5, B.k5_is, B.k5_bytes, B.hc6, B.idle6, B.hist5, B.stale.1, B.stale.2.1, B.stale.2.2, B.buf6⟩

end examples

/-! ### the match object belongs to the action that filled it (fix e0ac8ce, finding F38) -/
section matchOwn
open Pm.Dev2 Pm.Dev2.MatchOwn Pm.Dev2.QEv

/-- **Every write of an action reads a match made by an `expect` of this same action, on this run of it.**
    `AtStart a`: the action stands where `_create_action` / `_rewind_action` put it — one context, at the first statement of the
    script, no `send`, `delay`, `if` or `foreach` in progress — and that first statement is not an `expect` (which recycles
    the match object itself).  `RegInv d`: every queued action has a well-formed context stack, a device that is not CONNECTED
    is not logged in, and **on a connected, logged-in device the match object is in use only while the head of the queue is
    past its start**.
    1. `RegInv` holds in every state the daemon can bring a device to from `dev_create` (`Login2.Reach`: the initial connect,
       passes of `dev_post_poll` with any kernel answers and any regex answers that do not end in a modelled abort, client
       commands, the store hand-over) — because `_process_action` recycles the match object whenever an action leaves the
       queue: on completion and in the error branch.
    2. Hence at the first statement of any action of a connected, logged-in device — new, or rewound by `_enqueue_login`
       and reached again after the reconnect and the login — the match object is empty: every `$N` reads as absent, and a
       `setplugstate` / `setresult` executed there changes nothing, calls no `regexec`, says nothing.
    3. A write (`stmtEv`) needs match data; so the head of the queue that makes a write is past its start: statements of
       *this* action have run since it was created or rewound.  Statements are executed for the head of the queue only
       (`processActionBody`), no statement but `expect` fills the match object (`C03_match_register`), the head stays the head
       until it leaves the queue — which recycles.  So the match a write reads was made by an `expect` of the writing action
       itself, after its (re)start.
    What this does not cover is the login action (no client, no arglist): `C03_login_sees_stale_match_counterexample`. -/
theorem C03_match_is_own :
    (∀ d0 d : Dev, Login2.Reach d0 d → d0.acts = [] → d0.loggedIn = false → RegInv d) ∧
    (∀ (d : Dev) (a : Action) (rest : List Action), RegInv d → d.conn = 2 → d.loggedIn = true → d.acts = a :: rest → AtStart a →
      d.xmUsed = false ∧ (∀ i, subOf d i = none) ∧
      (∀ o e lit pm sm is, (stmtSetplugstate d a o e lit pm sm is).dev = d ∧ (stmtSetplugstate d a o e lit pm sm is).oracle = o ∧
        (stmtSetplugstate d a o e lit pm sm is).out = []) ∧
      (∀ o pm sm is, (stmtSetresult d a o pm sm is).dev = d ∧ (stmtSetresult d a o pm sm is).oracle = o ∧
        (stmtSetresult d a o pm sm is).out = [])) ∧
    (∀ (d : Dev) (a : Action) (o : Oracle), stmtEv d a o ≠ [] → d.xmUsed = true) ∧
    (∀ (d : Dev) (a : Action) (rest : List Action) (o : Oracle), RegInv d → d.conn = 2 → d.loggedIn = true → d.acts = a :: rest →
      stmtEv d a o ≠ [] → ¬ AtStart a) := by
  refine ⟨fun d0 d h ha hl => Reach.regInv h (regInv_init d0 ha hl), ?_, stmtEv_needs_match, write_not_atStart⟩
  intro d a rest h hc hl ha hs
  have hu : d.xmUsed = false := h.clean hc hl (by intro a' rest' hx; rw [ha] at hx; cases hx; exact hs)
  exact ⟨hu, fun i => subOf_unused d i hu, fun o e lit pm sm is => stmtSetplugstate_unused d a o e lit pm sm is hu,
    fun o pm sm is => stmtSetresult_unused d a o pm sm is hu⟩

/-- non-vacuity: the device of `C03_login_sees_stale_match_counterexample` after its second pass is reachable from
    `dev_create`, so the invariant holds of it — connected, not yet logged in, the login action past its `expect` -/
example : RegInv MatchOwn.Ex.d2 ∧ MatchOwn.Ex.d2.xmUsed = true ∧ MatchOwn.Ex.d2.conn = 2 :=
  ⟨C03_match_is_own.1 _ _ MatchOwn.Ex.reach2 rfl rfl, MatchOwn.Ex.d2_is.1, MatchOwn.Ex.d2_is.2.1⟩
/-- non-vacuity of part 2: device `A` of the F38 witness, connected and logged in, with the beacon action — a `setplugstate`
    alone — at the head of its queue -/
example : ∃ (d : Dev) (a : Action), RegInv d ∧ d.conn = 2 ∧ d.loggedIn = true ∧ d.acts = [a] ∧ AtStart a :=
  ⟨{ Pm.Daemon.QRun.Ex.B.devB with acts := [Pm.Daemon.mkAction Pm.Daemon.QRun.Ex.B.devB 21 none 1 false 2 0] }, _,
   ⟨by intro a hm; simp at hm; subst hm; exact mkAction_stackOK _ _ _ _ _ _ _, by decide, by intro _ _ _; rfl⟩,
   rfl, rfl, rfl, ⟨_, rfl, rfl, rfl, rfl, by intro pat h; simp [Pm.Daemon.QRun.Ex.B.devB, Pm.Daemon.QRun.Ex.B.scripts] at h⟩⟩

/-- **What the fix does not cover: the login action after an i/o error** (`_counterexample` to "every action starts without
    match data").  `_disconnect` — reached from `_reconnect` after a read/write error or a hang-up — destroys a queued login
    action itself and does not recycle the match object; `_connect` then puts a new login action at the head.  Witness: a
    device whose login script is `setplugstate $1 $2; expect; send` (accepted by the parser, rejected by `specOK`), with a plug
    `o`.  Pass 2: the device says `ok`, the login's `expect` matches, its `send` waits.  Pass 3, two seconds later: end of
    file, `_reconnect` connects at once, and the state in which `_process_action` starts (`d3pre`) has the new login action at
    its first statement with the match object still holding `ok` from the old connection; its `setplugstate` makes a write
    event from it and `regexec` is called on the stale `k` (the oracle's one answer is consumed, nothing is left unasked).
    Harmless for the clients: a login action has no arglist (`arglist_find(NULL, …)` finds nothing) and no client, and the
    action behind it starts clean because the login either completes or fails — and both recycle (`C03_match_is_own`). -/
theorem C03_login_sees_stale_match_counterexample :
    Login2.Reach MatchOwn.Ex.d0 MatchOwn.Ex.d2 ∧ MatchOwn.Ex.d0.acts = [] ∧ MatchOwn.Ex.d0.loggedIn = false ∧
    MatchOwn.Ex.d3pre = (Login2.postPollPre MatchOwn.Ex.d2 MatchOwn.Ex.env3).1.dev ∧
    MatchOwn.Ex.d3pre.xmUsed = true ∧ MatchOwn.Ex.d3pre.xmStr = some [111, 107] ∧ MatchOwn.Ex.d3pre.conn = 2 ∧
    MatchOwn.Ex.d3pre.loggedIn = false ∧
    MatchOwn.Ex.d3pre.acts.map (fun a => (a.com, a.exec.length, (topCtx a).pos, (topCtx a).processing)) = [(0, 1, 0, false)] ∧
    (MatchOwn.Ex.d3pre.acts.flatMap fun a => (stmtEv MatchOwn.Ex.d3pre a MatchOwn.Ex.o3).map fun ev => (ev.cid, ev.al, ev.text, ev.subject)) =
      [(0, 0, [107], some [111, 107])] ∧
    (postPoll MatchOwn.Ex.d2 MatchOwn.Ex.env3 MatchOwn.Ex.o3).2.1.calls = [] ∧
    (postPoll MatchOwn.Ex.d2 MatchOwn.Ex.env3 MatchOwn.Ex.o3).2.2.1 = [] ∧
    (postPoll MatchOwn.Ex.d2 MatchOwn.Ex.env3 MatchOwn.Ex.o3).1.aborted = false :=
  ⟨MatchOwn.Ex.reach2, rfl, rfl, rfl, MatchOwn.Ex.d3pre_is⟩

end matchOwn

end Pm.Props.C03
