import Pm.TelnetPass
/-! # C09 — the byte streams between the daemon and its devices and clients are carried faithfully

What expect patterns are matched against is exactly the byte stream the device sent on the current connection — in
order, nothing lost or duplicated — with telnet command sequences removed and doubled 0xFF restored, independent of
how the stream was split into reads (NUL is presented as 0xFF); nothing received on an earlier connection is visible
after a reconnect.  Symmetrically, bytes queued for a device or client are delivered exactly once and in order
however the writes are split.

All statements are for every byte stream, every segmentation, every device state: no bounds.  The model keeps
`fromBuf`/`toBuf` as unbounded lists, so "while unconsumed data stays within buffer capacity" is the model's standing
assumption (the cbuf wrap of `MAX_DEV_BUF` is not modelled).

Sections: 1 segmentation independence ▸ 2 what the decoder keeps (specification without the state machine) ▸
3 the read side: `_handle_ready_device`, `_process_expect`, any interleaving ▸ 4 reconnects ▸ 5 the write side ▸
6 whole passes of `dev_post_poll` and runs of passes (the property as an invariant of the daemon loop). -/
namespace Pm.Props.C09
open Pm.Dev2
open Pm.Dev2.Tel Pm.Daemon.Tel

/-- a device with nothing configured and nothing pending, for the examples -/
def dev0 : Dev :=
  { plugs := [], scripts := fun _ => none, timeout := 0, acts := [], toBuf := [], fromBuf := [], xmStr := none,
    xmOffs := [], xmResult := false, xmUsed := false, args := [], nextUid := 0, shortCircuitDelay := false }

/-! ## 1. segmentation independence -/

/-- `_telnet_preprocess` is exactly: continue the ideal decoder (`decodeFrom` = one fold of `telnetStep`) on the newly
    read bytes from the state the device carries; append what it keeps to `fromBuf`, its option replies to `toBuf`;
    carry the state it ends in.  Nothing already in `fromBuf` is looked at again (the repair of F4). -/
theorem C09_filter_is_decoder (d : Dev) (new : Bytes) :
    telnetFilter d new =
      { d with tstate := (decodeFrom d.tstate d.tcmd new).st, tcmd := (decodeFrom d.tstate d.tcmd new).cmd,
               fromBuf := d.fromBuf ++ (decodeFrom d.tstate d.tcmd new).kept,
               toBuf := d.toBuf ++ (decodeFrom d.tstate d.tcmd new).replies } :=
  telnetFilter_eq d new

/-- Two reads delivering `a` then `b` leave the device — decoder state, pending bytes, queued replies, everything —
    exactly as one read delivering `a ++ b` would, whatever was pending and whatever state the decoder was in. -/
theorem C09_split (d : Dev) (a b : Bytes) : telnetFilter (telnetFilter d a) b = telnetFilter d (a ++ b) :=
  telnetFilter_append d a b

/-- The same for any number of reads: only the concatenation of the chunks matters. -/
theorem C09_split_chunks (d : Dev) (chunks : List Bytes) :
    chunks.foldl telnetFilter d = telnetFilter d chunks.flatten :=
  telnetFilter_chunks d chunks

/-- Hence two segmentations of the same stream cannot be told apart. -/
theorem C09_segmentation_independent (d : Dev) (c1 c2 : List Bytes) (h : c1.flatten = c2.flatten) :
    c1.foldl telnetFilter d = c2.foldl telnetFilter d := by
  rw [C09_split_chunks, C09_split_chunks, h]

/-- the F4 witness stream `a b IAC | DO ECHO c \n`: split inside the command, the script now sees `a b c \n`, and
    `WONT ECHO` is queued once -/
example : (telnetFilter (telnetFilter dev0 [97, 98, 255]) [253, 1, 99, 10]).fromBuf = [97, 98, 99, 10] := by decide
example : (telnetFilter dev0 [97, 98, 255, 253, 1, 99, 10]).fromBuf = [97, 98, 99, 10] := by decide
example : (telnetFilter (telnetFilter dev0 [97, 98, 255]) [253, 1, 99, 10]).toBuf = [255, 252, 1] := by decide
/-- the second F4 witness: an escaped 0xFF still unconsumed when the next read arrives is no longer eaten -/
example : (telnetFilter (telnetFilter dev0 [120, 255, 255, 121]) [122]).fromBuf = [120, 255, 121, 122] := by decide
/-- byte by byte -/
example : ([[97], [98], [255], [253], [1], [99], [10]].foldl telnetFilter dev0).fromBuf = [97, 98, 99, 10] := by decide

/-! ## 2. what the decoder keeps -/

/-- The ideal decoder (`decode s` = one fold of `telnetStep` over the whole stream from the state of a fresh
    connection) against a specification written by recursion on the stream, with no state machine in it:
    `strip` maps `IAC IAC ↦ 0xFF`, `IAC (DO|DONT|WILL|WONT) o ↦ ε`, `IAC x ↦ ε` for any other `x`, a command cut off by
    the end of the stream `↦ ε`, and every other byte to itself; `answers` collects the replies (`DO o ↦ WILL o` for
    SGA and TM, `WONT o` for the ten options refused, nothing else); `pendingTail` is the cut-off command.
    Holds for every stream, also those that end inside a command. -/
theorem C09_decode_spec (s : Bytes) :
    (decode s).kept = strip s ∧ (decode s).replies = answers s ∧ (decode s).st = (pendingTail s).length ∧
    ((decode s).st = 2 → pendingTail s = [255, (decode s).cmd]) :=
  ⟨decode_kept s, decode_replies s, decode_st s, decode_cmd s⟩

/-- A stream that does not end inside a command leaves the decoder at rest. -/
theorem C09_decode_complete (s : Bytes) (h : pendingTail s = []) : (decode s).st = 0 := by
  rw [decode_st, h]; rfl

/-- The carried state is exactly the cut-off command: continuing after `s` on `t` keeps what the specification keeps
    of `t` with that command put back in front.  So the specification itself is compositional. -/
theorem C09_decode_resume (s t : Bytes) :
    (decodeFrom (decode s).st (decode s).cmd t).kept = strip (pendingTail s ++ t) ∧
    strip (s ++ t) = strip s ++ strip (pendingTail s ++ t) :=
  ⟨decodeFrom_resume_kept s t, strip_append s t⟩

/-- The cut-off command is nothing, a lone `IAC`, or `IAC` and one of the four option commands. -/
theorem C09_pending_shapes (s : Bytes) :
    pendingTail s = [] ∨ pendingTail s = [255] ∨ ∃ c, c ≠ 255 ∧ isOptCmd c = true ∧ pendingTail s = [255, c] :=
  pendingTail_cases s

/-- Bytes other than IAC pass unchanged: a stream without 0xFF is kept as it is, answers nothing and leaves the
    decoder at rest. -/
theorem C09_decode_clean (s : Bytes) (h : 255 ∉ s) :
    (decode s).kept = s ∧ (decode s).replies = [] ∧ (decode s).st = 0 := by
  refine ⟨by rw [decode_kept, strip_clean s h], by rw [decode_replies, answers_clean s h], ?_⟩
  rw [decode_st, pendingTail_clean s h]; rfl

/-- Nothing is invented: never more bytes kept than received. -/
theorem C09_decode_no_longer (s : Bytes) : (decode s).kept.length ≤ s.length := by
  rw [decode_kept]; exact strip_length_le s

example : strip [97, 255, 255, 98, 255, 253, 1, 99, 255, 241, 10, 0] = [97, 255, 98, 99, 10, 0] := by decide
example : answers [97, 255, 253, 1, 255, 253, 3, 255, 251, 1, 255, 253, 99] = [255, 252, 1, 255, 251, 3] := by decide
example : pendingTail [97, 255, 253] = [255, 253] ∧ pendingTail [97, 255] = [255] ∧ pendingTail [97, 255, 241] = [] := by decide
example : (decode [97, 98, 255, 253, 1, 99, 10]).kept = [97, 98, 99, 10] := by decide
example : (255 : UInt8) ∉ [97, 98, 0, 10, 254] := by decide

/-! ## 3. the read side -/

/-- `_handle_ready_device` when poll reports the descriptor readable (and not writable) and `read` returns `bs`:
    `fromBuf` becomes the old `fromBuf` followed by what the decoder keeps of `bs`, continued from the state the device
    carries (tcp), or followed by `bs` itself (coprocess); no I/O error is reported. -/
theorem C09_read_side (c : CS) (bs : Bytes) (h : ReadyOk c)
    (hout : c.env.revents &&& 2 = 0) (hin : c.env.revents &&& 1 ≠ 0)
    (hr : c.env.read = some (some bs)) (hbs : bs ≠ []) :
    handleReady c = ({ c with sys := c.sys ++ [.read bs.length], dev := absorb c.dev bs }, false) ∧
    (absorb c.dev bs).fromBuf = c.dev.fromBuf ++ keptOf c.dev bs ∧
    (c.dev.isPipe = false → keptOf c.dev bs = (decodeFrom c.dev.tstate c.dev.tcmd bs).kept ∧
        absorb c.dev bs = telnetFilter c.dev bs) ∧
    (c.dev.isPipe = true → keptOf c.dev bs = bs) := by
  refine ⟨handleReady_read_only c bs h hout hin hr hbs, absorb_fromBuf _ _, ?_, ?_⟩
  · intro hp; simp [keptOf, absorb, hp]
  · intro hp; simp [keptOf, hp]

/-- the hypotheses are satisfiable: a connected tcp device, readable, the F4 stream's second half arriving while the
    decoder is inside a command -/
example :
    (handleReady { dev := { dev0 with conn := 2, fd := some 7, tstate := 1, fromBuf := [97, 98] },
                   env := { now := 0, revents := 1, sockets := [], connects := [], soerrs := [],
                            read := some (some [253, 1, 99, 10]), writeOk := true },
                   sys := [] }).1.dev.fromBuf = [97, 98, 99, 10] := by decide

/-- and the entry conditions `ReadyOk` hold of that state -/
example :
    ReadyOk { dev := { dev0 with conn := 2, fd := some 7, tstate := 1, fromBuf := [97, 98] },
              env := { now := 0, revents := 1, sockets := [], connects := [], soerrs := [],
                       read := some (some [253, 1, 99, 10]), writeOk := true },
              sys := [] } := ⟨by decide, by decide, by decide, by decide, by decide⟩

/-- The same when the descriptor is also writable, connected, with output queued, and the `write` succeeds: `toBuf`
    goes out whole first, then the bytes read are taken in. -/
theorem C09_read_side_after_write (c : CS) (bs : Bytes) (h : ReadyOk c)
    (hout : c.env.revents &&& 2 ≠ 0) (hin : c.env.revents &&& 1 ≠ 0) (hc : c.dev.conn ≠ 1) (hb : c.dev.toBuf ≠ [])
    (hw : c.env.writeOk = true) (hr : c.env.read = some (some bs)) (hbs : bs ≠ []) :
    handleReady c =
      ({ c with sys := c.sys ++ [.write c.dev.toBuf true, .read bs.length],
                dev := absorb { c.dev with toBuf := [] } bs }, false) :=
  handleReady_write_read c bs h hout hin hc hb hw hr hbs

/-- Every call of `_handle_ready_device`, no hypotheses: seen from the read side (transport, decoder state, pending
    bytes) either nothing happened, or the read branch ran and took in exactly the bytes `read` returned, or a
    connection attempt completed — then nothing was read and the decoder was put at rest. -/
theorem C09_read_side_all_cases (c : CS) :
    rview (handleReady c).1.dev = rview c.dev ∧ (handleReady c).1.dev.statConnects = c.dev.statConnects ∨
    (∃ bs, c.env.read = some (some bs) ∧ bs ≠ [] ∧ c.env.revents &&& 1 ≠ 0 ∧ (handleReady c).2 = false ∧
       (handleReady c).1.dev.conn = c.dev.conn ∧ (handleReady c).1.dev.statConnects = c.dev.statConnects ∧
       rview (handleReady c).1.dev = (rview c.dev).read bs) ∨
    (c.dev.conn = 1 ∧ (handleReady c).1.dev.conn = 2 ∧ (handleReady c).2 = false ∧
       (handleReady c).1.dev.statConnects = c.dev.statConnects + 1 ∧
       rview (handleReady c).1.dev = { rview c.dev with st := 0, cmd := 0 }) :=
  handleReady_view c

/-- `_process_expect` with nothing pending asks nothing and changes nothing. -/
theorem C09_expect_empty (d : Dev) (a : Action) (o : Oracle) (pat : Nat) (h : d.fromBuf = []) :
    (stmtExpect d a o pat).dev.fromBuf = [] ∧ (stmtExpect d a o pat).oracle = o ∧
    (stmtExpect d a o pat).finished = false :=
  stmtExpect_empty d a o pat h

/-- With bytes pending, the regex engine is asked once, and the subject it is given is the whole pending buffer with
    every NUL shown as 0xFF (`present`; same length, so offsets mean the same in both).  No match: the buffer is left
    alone and the statement stalls. -/
theorem C09_expect_nomatch (d : Dev) (a : Action) (o : Oracle) (pat : Nat) (h : d.fromBuf ≠ [])
    (hn : (askRx o pat (present d.fromBuf)).2.1 = none) :
    (stmtExpect d a o pat).dev.fromBuf = d.fromBuf ∧
    (stmtExpect d a o pat).oracle = (askRx o pat (present d.fromBuf)).1 ∧
    (stmtExpect d a o pat).finished = false :=
  stmtExpect_nomatch d a o pat h hn

/-- A match whose whole-match end offset is `eo` consumes exactly the first `eo` pending bytes: what stays is the old
    buffer without that prefix, in order; the match object keeps the subject as presented. -/
theorem C09_expect_match (d : Dev) (a : Action) (o : Oracle) (pat : Nat) (offs : List (Int × Int)) (h : d.fromBuf ≠ [])
    (hm : (askRx o pat (present d.fromBuf)).2.1 = some offs) :
    (stmtExpect d a o pat).dev.fromBuf = d.fromBuf.drop (offs.headD (0, 0)).2.toNat ∧
    (stmtExpect d a o pat).oracle = (askRx o pat (present d.fromBuf)).1 ∧
    (stmtExpect d a o pat).finished = true ∧
    (stmtExpect d a o pat).dev.xmStr = some (present d.fromBuf) ∧ (stmtExpect d a o pat).dev.xmOffs = offs :=
  stmtExpect_match d a o pat offs h hm

/-- how the subject relates to the buffer -/
theorem C09_present (buf : Bytes) :
    (present buf).length = buf.length ∧ (∀ k, (present buf).take k = present (buf.take k)) ∧
    (0 ∉ buf → present buf = buf) :=
  ⟨present_length buf, present_take buf, present_of_no_nul buf⟩

example : present [97, 0, 255, 10] = [97, 255, 255, 10] := by decide
/-- a match of the first three of four pending bytes -/
example :
    (stmtExpect { dev0 with fromBuf := [111, 107, 10, 62] } default ⟨[⟨5, [111, 107, 10, 62], some [(0, 3)]⟩]⟩ 5).dev.fromBuf
      = [62] := by decide

/-- no match: four bytes pending, one of them NUL — the engine is asked about `o k 0xFF >` and everything stays -/
example :
    (stmtExpect { dev0 with fromBuf := [111, 107, 0, 62] } default ⟨[⟨5, [111, 107, 255, 62], none⟩]⟩ 5).dev.fromBuf
      = [111, 107, 0, 62] ∧
    (stmtExpect { dev0 with fromBuf := [111, 107, 0, 62] } default ⟨[⟨5, [111, 107, 255, 62], none⟩]⟩ 5).out.length = 0 := by
  decide

/-- In every case `_process_expect` does nothing to the read side but drop a prefix of the pending bytes. -/
theorem C09_expect_consumes_prefix (d : Dev) (a : Action) (o : Oracle) (pat : Nat) :
    ∃ k, rview (stmtExpect d a o pat).dev = (rview d).consume k :=
  stmtExpect_view d a o pat

/-- Any interleaving of reads (the stream cut anywhere) and consumes (any counts, also more than is pending) on one
    connection: everything consumed, followed by what is still pending, is what a single read of the whole stream
    would have left pending had nothing been consumed; and the decoder ends in the same state. -/
theorem C09_interleaving (v : RView) (evs : List Ev) :
    consumedBy v evs ++ (evs.foldl RView.step v).buf = (v.read (readsOf evs)).buf ∧
    (evs.foldl RView.step v).st = (v.read (readsOf evs)).st ∧
    (evs.foldl RView.step v).cmd = (v.read (readsOf evs)).cmd ∧
    (evs.foldl RView.step v).isPipe = v.isPipe :=
  trace_conservation v evs

/-- On a fresh tcp connection: consumed ++ pending = `strip` of everything the device sent. -/
theorem C09_interleaving_tcp (evs : List Ev) :
    consumedBy .freshTcp evs ++ (evs.foldl RView.step .freshTcp).buf = strip (readsOf evs) :=
  trace_tcp evs

/-- On a fresh coprocess connection the decoder is the identity: consumed ++ pending = everything the coprocess
    wrote (whatever the telnet fields hold: they are not used). -/
theorem C09_interleaving_pipe (st : Nat) (cmd : UInt8) (evs : List Ev) :
    consumedBy (.freshPipe st cmd) evs ++ (evs.foldl RView.step (.freshPipe st cmd)).buf = readsOf evs :=
  trace_pipe st cmd evs

example :
    consumedBy .freshTcp [.read [97, 98, 255], .consume 1, .read [253, 1, 99], .consume 2, .read [10]] = [97, 98, 99] ∧
    ([Ev.read [97, 98, 255], .consume 1, .read [253, 1, 99], .consume 2, .read [10]].foldl RView.step .freshTcp).buf = [10] := by
  decide

/-- The same on the model's own functions: from any state of an established connection, after any sequence of
    `_handle_ready_device` calls (any kernel answers) and `_process_expect` calls (any pattern, any answer of the regex
    engine), the bytes the expects removed followed by `fromBuf` are the old `fromBuf` followed by the decoder's
    output — continued from the state carried at the start — on the concatenation of everything `read` delivered;
    the carried state is the one that concatenation leads to; the connection is still the same one. -/
theorem C09_interleaving_model (d : Dev) (h2 : d.conn = 2) (ops : List Op) :
    opsConsumed d ops ++ (ops.foldl Op.run d).fromBuf = d.fromBuf ++ keptOf d (opsTaken d ops) ∧
    rview (ops.foldl Op.run d) = { (rview d).read (opsTaken d ops) with buf := (ops.foldl Op.run d).fromBuf } ∧
    (ops.foldl Op.run d).conn = 2 :=
  ops_conservation d h2 ops

/-- `readTaken`, the bytes a call takes in, is what the system-call log records as read. -/
theorem C09_taken_is_logged (c : CS) (h : readTaken c ≠ []) :
    ∃ pre, (handleReady c).1.sys = pre ++ [.read (readTaken c).length] :=
  handleReady_taken_sys c h

/-! ## 4. reconnects -/

/-- `_disconnect` empties both buffers: nothing received stays visible, nothing queued is sent later. -/
theorem C09_disconnect_flushes (c : CS) :
    (disconnectDev c).dev.fromBuf = [] ∧ (disconnectDev c).dev.toBuf = [] ∧ (disconnectDev c).dev.conn = 0 :=
  ⟨(disconnectDev_clean c).1, (disconnectDev_clean c).2.1, (disconnectDev_clean c).2.2.1⟩

/-- `tcp_finish_connect_one`: success brings the connection up with the decoder at rest (`_telnet_init`) and touches
    nothing else on the read side; failure changes nothing in the device. -/
theorem C09_finish_connect (c : CS) :
    ((finishConnectOne c).2 = true ∧
        (finishConnectOne c).1.dev = { c.dev with conn := 2, statConnects := c.dev.statConnects + 1, tstate := 0, tcmd := 0 }) ∨
    ((finishConnectOne c).2 = false ∧ (finishConnectOne c).1.dev = c.dev) :=
  finishConnectOne_cases c

/-- `_reconnect` on a device that was connected or connecting — whatever follows (back-off, an attempt in progress,
    a new connection at once, either transport): both buffers are empty, and a tcp connection that is up afterwards
    has its decoder at rest.  Nothing received on the earlier connection is visible on the new one. -/
theorem C09_reconnect_clean (c : CS) (tmo : Option Time) (h : c.dev.conn ≠ 0) :
    (reconnectDev c tmo).1.dev.fromBuf = [] ∧ (reconnectDev c tmo).1.dev.toBuf = [] ∧
    ((reconnectDev c tmo).1.dev.conn = 2 → (reconnectDev c tmo).1.dev.isPipe = false →
      (reconnectDev c tmo).1.dev.tstate = 0 ∧ (reconnectDev c tmo).1.dev.tcmd = 0) :=
  ⟨(reconnectDev_clean c tmo h).1, (reconnectDev_clean c tmo h).2.1, (reconnectDev_clean c tmo h).2.2.2⟩

/-- `_reconnect` / `_connect` on a device that was not connected leave the buffers as they are and, if a tcp
    connection comes up, start it with the decoder at rest. -/
theorem C09_connect_fresh (c : CS) (tmo : Option Time) (h : c.dev.conn = 0) :
    (reconnectDev c tmo).1.dev.fromBuf = c.dev.fromBuf ∧ (reconnectDev c tmo).1.dev.toBuf = c.dev.toBuf ∧
    ((reconnectDev c tmo).1.dev.conn = 2 → (reconnectDev c tmo).1.dev.isPipe = false →
      (reconnectDev c tmo).1.dev.tstate = 0 ∧ (reconnectDev c tmo).1.dev.tcmd = 0) :=
  ⟨(reconnectDev_idle c tmo h).1, (reconnectDev_idle c tmo h).2.1, (reconnectDev_idle c tmo h).2.2.2⟩

/-- The remaining way a connection comes up — a pending `connect` completing in `_handle_ready_device`: the decoder
    is at rest and nothing is read in that call. -/
theorem C09_connect_completes_fresh (c : CS) (h : c.dev.conn ≠ 2) (h2 : (handleReady c).1.dev.conn = 2) :
    (handleReady c).1.dev.tstate = 0 ∧ (handleReady c).1.dev.tcmd = 0 ∧
    (handleReady c).1.dev.fromBuf = c.dev.fromBuf :=
  handleReady_up c h h2

/-- non-vacuity: a connection with a half-received command and pending bytes, I/O error handling reconnects at once -/
example :
    let c : CS := { dev := { dev0 with conn := 2, fd := some 7, tstate := 2, tcmd := 253, fromBuf := [1, 2, 3], toBuf := [4] },
                    env := { now := 0, revents := 0, sockets := [8], connects := [0], soerrs := [0], read := none, writeOk := true },
                    sys := [] }
    (reconnectDev c none).1.dev.conn = 2 ∧ (reconnectDev c none).1.dev.fromBuf = [] ∧
    (reconnectDev c none).1.dev.toBuf = [] ∧ (reconnectDev c none).1.dev.tstate = 0 := by decide

/-! ## 5. the write side -/

/-- Device: the `write` issued by `_handle_ready_device` carries all of `toBuf`; if it succeeds `toBuf` is empty
    afterwards, if it fails `toBuf` is unchanged and an I/O error is returned (the caller reconnects, which flushes). -/
theorem C09_device_write (c : CS) (h : ReadyOk c)
    (hout : c.env.revents &&& 2 ≠ 0) (hin : c.env.revents &&& 1 = 0) (hc : c.dev.conn ≠ 1) (hb : c.dev.toBuf ≠ []) :
    handleReady c =
      if c.env.writeOk then
        ({ c with sys := c.sys ++ [.write c.dev.toBuf true], dev := { c.dev with toBuf := [] } }, false)
      else ({ c with sys := c.sys ++ [.write c.dev.toBuf false] }, true) :=
  handleReady_write_only c h hout hin hc hb

example :
    (handleReady { dev := { dev0 with conn := 2, fd := some 7, toBuf := [111, 110, 10] },
                   env := { now := 0, revents := 2, sockets := [], connects := [], soerrs := [], read := none, writeOk := true },
                   sys := [] }).1.dev.toBuf = [] := by decide

/-- Device, every call of `_handle_ready_device`, no hypotheses: the bytes written successfully so far followed by
    `toBuf` change only by growing at the end, by the telnet option replies to what this call read.  So between
    reconnects every queued byte reaches the descriptor once, in order. -/
theorem C09_device_write_conserved (c : CS) :
    ∃ bs, devWritten (handleReady c).1.sys ++ (handleReady c).1.dev.toBuf =
      devWritten c.sys ++ c.dev.toBuf ++ repliesOf c.dev bs :=
  handleReady_write_conserve c

/-- Device: `_process_send` queues at the end of `toBuf`. -/
theorem C09_send_appends (d : Dev) (a : Action) (o : Oracle) (e : ExecCtx) (fmt : Bytes) :
    ∃ s, (stmtSend d a o e fmt).dev.toBuf = d.toBuf ++ s :=
  stmtSend_appends d a o e fmt

open Pm.Daemon in
/-- Client, one `_handle_write`: the payload of the `write` it issues (none, a prefix, or everything) followed by what
    stays queued is what was queued — for every capacity of the descriptor, blocking or not, failing or not. -/
theorem C09_client_write_step (w : W) (c : Cli) :
    written c.fd (handleWrite w c).1.sys ++ (handleWrite w c).2.toBuf = written c.fd w.sys ++ c.toBuf ∧
    (handleWrite w c).2.fd = c.fd :=
  handleWrite_conserve w c

open Pm.Daemon in
/-- Client, any sequence of write opportunities with any capacities, interleaved with the daemon queueing more output:
    the bytes written to the client's descriptor followed by what is still queued are the bytes queued, in order, each
    exactly once; and nothing of it goes to another descriptor. -/
theorem C09_client_write (w : W) (c : Cli) (evs : List WEv) :
    written c.fd (evs.foldl wstep (w, c)).1.sys ++ (evs.foldl wstep (w, c)).2.toBuf =
      written c.fd w.sys ++ c.toBuf ++ putsOf evs :=
  (client_write_conservation w c evs).1

open Pm.Daemon in
theorem C09_client_write_private (w : W) (c : Cli) (fd : Nat) (h : fd ≠ c.fd) :
    written fd (handleWrite w c).1.sys = written fd w.sys :=
  handleWrite_other w c fd h

open Pm.Daemon in
/-- ten bytes queued, capacities 3, 0-is-not-offered, 4, then more output queued, then 100 -/
example :
    let w : W := { cfg := { plugs := [], has := [], nodes := [], version := [] }, clients := [] }
    let c : Cli := { id := 1, fd := 5, toBuf := [0, 1, 2, 3, 4, 5, 6, 7, 8, 9] }
    let r := [WEv.cap 3, .cap 4, .put [10, 11], .cap 100].foldl wstep (w, c)
    written 5 r.1.sys = [0, 1, 2, 3, 4, 5, 6, 7, 8, 9, 10, 11] ∧ r.2.toBuf = [] := by decide

/-! ## 6. whole passes of `dev_post_poll`, and any number of them -/

/-- `_process_action` — any fuel, queue, scripts, answers of the regex engine, kernel answers — does only two things to
    the read side: it consumes a prefix of the pending bytes on the same connection (connection count, transport and
    decoder state untouched), or it reconnects, after which nothing is pending and a connection that is up is a new,
    counted one whose decoder is at rest. -/
theorem C09_process_action_read_side (fuel : Nat) (c : CS) (o : Oracle) (out : List Out) (tmo : Option Time) :
    SameConn c.dev (processActionF fuel c o out tmo).1.dev ∨ Reconn c.dev (processActionF fuel c o out tmo).1.dev :=
  processActionF_passRel fuel c o out tmo

/-- One whole pass on an established connection: either the connection is still the same one and the read side is
    the old one advanced by exactly the bytes the descriptor delivered in this pass (`passTaken`), minus a prefix the
    expects consumed; or the device reconnected and nothing of the old connection is left. -/
theorem C09_pass_connected (d : Dev) (env : Env) (o : Oracle) (h2 : d.conn = 2) :
    ((postPoll d env o).1.dev.conn = 2 ∧ (postPoll d env o).1.dev.statConnects = d.statConnects ∧
      ∃ k, rview (postPoll d env o).1.dev = ((rview d).read (passTaken d env)).consume k) ∨
    Reconn d (postPoll d env o).1.dev :=
  postPoll_connected d env o h2

/-- One whole pass keeps "not connected ⇒ nothing pending and nothing queued", provided the descriptor delivers
    nothing while its connection is not up (`EnvOk`). -/
theorem C09_pass_quiet (d : Dev) (env : Env) (o : Oracle) (hq : Quiet d) (hr : d.conn ≠ 2 → passTaken d env = []) :
    Quiet (postPoll d env o).1.dev :=
  postPoll_quiet d env o hq hr

/-- One whole pass starting without a connection ends with nothing pending; a connection it brings up is a new one
    with the decoder at rest. -/
theorem C09_pass_fresh (d : Dev) (env : Env) (o : Oracle) (hq : Quiet d) (hr : d.conn ≠ 2 → passTaken d env = [])
    (hn : d.conn ≠ 2) : Reconn d (postPoll d env o).1.dev :=
  postPoll_fresh d env o hq hr hn

/-- The property as an invariant of the daemon's loop.  Run any number of passes, each with its own kernel answers and
    regex answers; carry along, as a ghost, the stream `S` the descriptor has delivered on the connection that is up
    (reset whenever that connection is not the same any more).  Then at every point: while a connection is up,
    `fromBuf` is `strip S` (tcp) or `S` (coprocess) minus a consumed prefix — so what expects are matched against is
    exactly the decoded stream of the current connection, in order, nothing lost, nothing duplicated, nothing from an
    earlier connection — and the decoder is in the state `S` leads to; while none is up, both buffers are empty. -/
theorem C09_run (s : Dev × Bytes) (ps : List (Env × Oracle)) (hg : Good s) (hr : RunOk s ps) :
    Good (ps.foldl passStep s) :=
  run_good s ps hg hr

/-- a device that is not connected and has empty buffers is a good start (the ghost stream is empty) -/
theorem C09_run_start (d : Dev) (hc : d.conn ≠ 2) (hf : d.fromBuf = []) (ht : d.toBuf = []) : Good (d, []) :=
  good_initial d hc hf ht

/-- `EnvOk` holds as soon as poll never reports a connecting socket readable without reporting it writable; a device
    that is not connected at all, or a pass without POLLIN, delivers nothing anyway. -/
theorem C09_envok_sufficient (d : Dev) (env : Env) :
    (d.conn = 0 → passTaken d env = []) ∧ (env.revents &&& 1 = 0 → passTaken d env = []) ∧
    (d.conn = 1 → env.revents &&& 2 ≠ 0 → passTaken d env = []) :=
  ⟨passTaken_of_not_connected d env, passTaken_of_no_pollin d env, passTaken_of_connecting_pollout d env⟩

/-- a device whose login script is `expect 1; send "x"` -/
def devR : Dev :=
  { dev0 with scripts := fun n => if n = 0 then some [.expect 1, .send [120]] else none, timeout := 1000000 }

def envR (rev : Nat) (rd : Option (Option Bytes)) : Env :=
  { now := 0, revents := rev, sockets := [7], connects := [0], soerrs := [0], read := rd, writeOk := true }

/-- three passes: connect at once; `a IAC DO` arrives, no match; `ECHO b` arrives, the expect matches one byte -/
def runR : List (Env × Oracle) :=
  [ (envR 0 none, ⟨[]⟩),
    (envR 1 (some (some [97, 255, 253])), ⟨[⟨1, [97], none⟩]⟩),
    (envR 1 (some (some [1, 98])), ⟨[⟨1, [97, 98], some [(0, 1)]⟩]⟩) ]

/-- non-vacuity of `C09_run`: the run is admissible, ends connected with ghost stream `a IAC DO ECHO b`, `b` pending
    (`a` consumed), and `WONT ECHO` followed by the login script's `x` queued for the device -/
example : RunOk (devR, []) runR := by
  simp only [RunOk, runR]
  refine ⟨?_, ?_, ?_, trivial⟩ <;> unfold EnvOk <;> decide +kernel
example :
    (runR.foldl passStep (devR, [])).1.conn = 2 ∧ (runR.foldl passStep (devR, [])).2 = [97, 255, 253, 1, 98] ∧
    (runR.foldl passStep (devR, [])).1.fromBuf = [98] ∧ (runR.foldl passStep (devR, [])).1.toBuf = [255, 252, 1, 120] := by
  decide +kernel

/-- `EnvOk` cannot be dropped: if poll reports a *connecting* socket readable but not writable, `_handle_ready_device`
    reads (the code, like the model, tests only `connect_state != NOT_CONNECTED` there) and runs the bytes through the
    decoder in whatever state the previous connection left it — here inside a command, so `IAC a` from the new peer is
    kept as `0xFF a` instead of being dropped — and they stay pending while no connection is up. -/
theorem C09_envok_needed_witness :
    let d : Dev := { dev0 with conn := 1, fd := some 7, tstate := 1 }
    let env : Env := { now := 0, revents := 1, sockets := [], connects := [], soerrs := [],
                       read := some (some [255, 97]), writeOk := true }
    Quiet d ∧ (postPoll d env ⟨[]⟩).1.dev.conn = 1 ∧ (postPoll d env ⟨[]⟩).1.dev.fromBuf = [255, 97] ∧
    strip [255, 97] = [] := by
  refine ⟨fun _ => ⟨rfl, rfl⟩, ?_, ?_, ?_⟩ <;> decide +kernel

end Pm.Props.C09
