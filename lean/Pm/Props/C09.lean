import Pm.SerialProof
import Pm.TelnetPass
import Pm.CapProof
import Pm.CbufRingRun
import Pm.ToBufProps
import Pm.StdioCli
/-! # C09 — the byte streams between the daemon and its devices and clients are carried faithfully

What expect patterns are matched against is exactly the byte stream the device sent on the current connection — in
order, nothing lost or duplicated — with telnet command sequences removed and doubled 0xFF restored, independent of
how the stream was split into reads (NUL is presented as 0xFF); nothing received on an earlier connection is visible
after a reconnect.  Symmetrically, bytes queued for a device or client are delivered exactly once and in order
however the writes are split.

All statements are for every byte stream, every segmentation, every device state: no bounds.

Capacity is modelled on the read side (section 7): the input buffers are liblsd circular buffers (`Pm/Cbuf.lean`:
`size` starts at 1024, grows in chunks when the buffer is full, up to 64 KiB for a device and 1 MiB for a client, never
shrinks).  One `read` asks for the free space (a chunk of 1000 when there is none), so what a pass takes in is a *prefix*
of what the kernel has (`readOf`, `readTaken`; the rest stays in the kernel for the next pass), and only a buffer that is
full at its maximal size overwrites its oldest unread bytes (`dropOf`, `readDropped`).  "While unconsumed data stays
within buffer capacity" is therefore no longer a standing assumption but a hypothesis that can be read off the theorems:
`readDropped = 0` unless `fromBuf.length = fromSize = max` (`C09_no_loss_below_max`), and the overwritten bytes are
exactly the oldest ones (`C09_overflow_drops_oldest`).  On the write side the buffer on the way *to* a device, `dev->to`, is
a cbuf of `MAX_DEV_BUF` = 65536 bytes in overwrite mode too: what `_process_send` and the telnet answers queue beyond that
overwrites the oldest *unsent* bytes (`clipTo`; section 8: `C09_device_out_capacity`, `C09_device_out_no_loss_below_max`,
`C09_device_out_overflow_drops_oldest`); a device `write` takes what the kernel has room for (`C09_device_short_write`).
The statements of sections 1 and 5 that read `toBuf ++ …` before this capacity was modelled now read `clipTo (toBuf ++ …)`,
each with its old form as a corollary under the explicit no-overflow hypothesis (`…_below`).

Sections: 1 segmentation independence ▸ 2 what the decoder keeps (specification without the state machine) ▸
3 the read side: `_handle_ready_device`, `_process_expect`, any interleaving ▸ 4 reconnects ▸ 5 the write side ▸
6 whole passes of `dev_post_poll` and runs of passes (the property as an invariant of the daemon loop) ▸
7 capacity: what is read is a prefix, the size invariant, no loss below the maximum, the exact loss at the maximum,
short writes ▸ 8 the capacity of the device output buffer ▸ 9 the ring itself: liblsd's `cbuf.c` at index level (`Pm/CbufRing.lean`: `data`, `i_in`, `i_out`, `i_rep`,
`got_wrap`, two-piece copies, `cbuf_grow`'s re-layout) refines the byte queue with the size rule used in sections 1–7 ▸ 10 serial devices. -/
namespace Pm.Props.C09
open Pm.Dev2
open Pm.Dev2.Tel Pm.Daemon.Tel
open Pm.Dev2.Cap
open Pm.Dev2.Login2 (telnetReplies readyReplies sentBytes postPollReady postPollPre)
open Pm.Dev2.Interp (sendText)
open Pm.Dev2.ToBufP

/-- a device with nothing configured and nothing pending, for the examples -/
def dev0 : Dev :=
  { plugs := [], scripts := fun _ => none, timeout := 0, acts := [], toBuf := [], fromBuf := [], xmStr := none,
    xmOffs := [], xmResult := false, xmUsed := false, args := [], nextUid := 0, shortCircuitDelay := false }

/-! ## 1. segmentation independence -/

/-- `_telnet_preprocess` is exactly: continue the ideal decoder (`decodeFrom` = one fold of `telnetStep`) on the newly
    read bytes from the state the device carries; append what it keeps to `fromBuf`, queue its option replies in `toBuf`;
    carry the state it ends in.  Nothing already in `fromBuf` is looked at again (the repair of F4).
    (Changed when the capacity of `dev->to` was modelled: `toBuf := clipTo (d.toBuf ++ …)` where it read `d.toBuf ++ …`: of
    more than 65536 queued bytes the oldest give way.  Below the limit: `C09_filter_is_decoder_below`.) -/
theorem C09_filter_is_decoder (d : Dev) (new : Bytes) :
    telnetFilter d new =
      { d with tstate := (decodeFrom d.tstate d.tcmd new).st, tcmd := (decodeFrom d.tstate d.tcmd new).cmd,
               fromBuf := d.fromBuf ++ (decodeFrom d.tstate d.tcmd new).kept,
               toBuf := clipTo (d.toBuf ++ (decodeFrom d.tstate d.tcmd new).replies) } :=
  telnetFilter_eq d new

/-- the statement as it read before, under the explicit no-overflow hypothesis -/
theorem C09_filter_is_decoder_below (d : Dev) (new : Bytes)
    (hfit : (d.toBuf ++ (decodeFrom d.tstate d.tcmd new).replies).length ≤ 65536) :
    telnetFilter d new =
      { d with tstate := (decodeFrom d.tstate d.tcmd new).st, tcmd := (decodeFrom d.tstate d.tcmd new).cmd,
               fromBuf := d.fromBuf ++ (decodeFrom d.tstate d.tcmd new).kept,
               toBuf := d.toBuf ++ (decodeFrom d.tstate d.tcmd new).replies } := by
  rw [telnetFilter_eq, clipTo_of_le _ hfit]

/-- non-vacuity of the no-overflow hypothesis: three answer bytes behind an empty queue -/
example : (dev0.toBuf ++ (decodeFrom dev0.tstate dev0.tcmd [255, 253, 1]).replies).length ≤ 65536 := by decide

/-- Two reads delivering `a` then `b` leave the device — decoder state, pending bytes, queued replies, everything —
    exactly as one read delivering `a ++ b` would, whatever was pending and whatever state the decoder was in. -/
theorem C09_split (d : Dev) (a b : Bytes) : telnetFilter (telnetFilter d a) b = telnetFilter d (a ++ b) :=
  telnetFilter_append d a b

/-- The same for any number of reads: only the concatenation of the chunks matters.
    (The hypothesis — the output buffer is within its capacity to begin with, as every reachable one is:
    `C09_device_out_capacity` — was added with the capacity of `dev->to`; it is needed for the empty list of chunks only, where
    the right-hand side is `telnetFilter d []`, which writes `clipTo d.toBuf`.  `C09_split` holds beyond the limit too:
    overwriting writes compose, `clipTo_clipTo_append`.) -/
theorem C09_split_chunks (d : Dev) (chunks : List Bytes) (hcap : d.toBuf.length ≤ 65536) :
    chunks.foldl telnetFilter d = telnetFilter d chunks.flatten :=
  telnetFilter_chunks d chunks hcap

/-- Hence two segmentations of the same stream cannot be told apart — also when the replies overflow the output buffer. -/
theorem C09_segmentation_independent (d : Dev) (c1 c2 : List Bytes) (h : c1.flatten = c2.flatten)
    (hcap : d.toBuf.length ≤ 65536) :
    c1.foldl telnetFilter d = c2.foldl telnetFilter d := by
  rw [C09_split_chunks _ _ hcap, C09_split_chunks _ _ hcap, h]

/-- the F4 witness stream `a b IAC | DO ECHO c \n`: split inside the command, the script now sees `a b c \n`, and
    `WONT ECHO` is queued once -/
example : (telnetFilter (telnetFilter dev0 [97, 98, 255]) [253, 1, 99, 10]).fromBuf = [97, 98, 99, 10] := by decide
example : (telnetFilter dev0 [97, 98, 255, 253, 1, 99, 10]).fromBuf = [97, 98, 99, 10] := by decide
example : (telnetFilter (telnetFilter dev0 [97, 98, 255]) [253, 1, 99, 10]).toBuf = [255, 252, 1] := by decide
/-- the second F4 witness: an escaped 0xFF still unconsumed when the next read arrives is no longer eaten -/
example : (telnetFilter (telnetFilter dev0 [120, 255, 255, 121]) [122]).fromBuf = [120, 255, 121, 122] := by decide
/-- byte by byte -/
example : ([[97], [98], [255], [253], [1], [99], [10]].foldl telnetFilter dev0).fromBuf = [97, 98, 99, 10] := by decide

/-! ## 2. what the decoder keeps -/

/-- The ideal decoder (`decode s` = one fold of `telnetStep` over the whole stream from the state of a fresh
    connection) against a specification written by recursion on the stream, with no state machine in it:
    `strip` maps `IAC IAC ↦ 0xFF`, `IAC (DO|DONT|WILL|WONT) o ↦ ε`, `IAC x ↦ ε` for any other `x`, a command cut off by
    the end of the stream `↦ ε`, and every other byte to itself; `answers` collects the replies (`DO o ↦ WILL o` for
    SGA and TM, `WONT o` for the ten options refused, nothing else); `pendingTail` is the cut-off command.
    Holds for every stream, also those that end inside a command. -/
theorem C09_decode_spec (s : Bytes) :
    (decode s).kept = strip s ∧ (decode s).replies = answers s ∧ (decode s).st = (pendingTail s).length ∧
    ((decode s).st = 2 → pendingTail s = [255, (decode s).cmd]) :=
  ⟨decode_kept s, decode_replies s, decode_st s, decode_cmd s⟩

/-- A stream that does not end inside a command leaves the decoder at rest. -/
theorem C09_decode_complete (s : Bytes) (h : pendingTail s = []) : (decode s).st = 0 := by
  rw [decode_st, h]; rfl

/-- The carried state is exactly the cut-off command: continuing after `s` on `t` keeps what the specification keeps
    of `t` with that command put back in front.  So the specification itself is compositional. -/
theorem C09_decode_resume (s t : Bytes) :
    (decodeFrom (decode s).st (decode s).cmd t).kept = strip (pendingTail s ++ t) ∧
    strip (s ++ t) = strip s ++ strip (pendingTail s ++ t) :=
  ⟨decodeFrom_resume_kept s t, strip_append s t⟩

/-- The cut-off command is nothing, a lone `IAC`, or `IAC` and one of the four option commands. -/
theorem C09_pending_shapes (s : Bytes) :
    pendingTail s = [] ∨ pendingTail s = [255] ∨ ∃ c, c ≠ 255 ∧ isOptCmd c = true ∧ pendingTail s = [255, c] :=
  pendingTail_cases s

/-- Bytes other than IAC pass unchanged: a stream without 0xFF is kept as it is, answers nothing and leaves the
    decoder at rest. -/
theorem C09_decode_clean (s : Bytes) (h : 255 ∉ s) :
    (decode s).kept = s ∧ (decode s).replies = [] ∧ (decode s).st = 0 := by
  refine ⟨by rw [decode_kept, strip_clean s h], by rw [decode_replies, answers_clean s h], ?_⟩
  rw [decode_st, pendingTail_clean s h]; rfl

/-- Nothing is invented: never more bytes kept than received. -/
theorem C09_decode_no_longer (s : Bytes) : (decode s).kept.length ≤ s.length := by
  rw [decode_kept]; exact strip_length_le s

example : strip [97, 255, 255, 98, 255, 253, 1, 99, 255, 241, 10, 0] = [97, 255, 98, 99, 10, 0] := by decide
example : answers [97, 255, 253, 1, 255, 253, 3, 255, 251, 1, 255, 253, 99] = [255, 252, 1, 255, 251, 3] := by decide
example : pendingTail [97, 255, 253] = [255, 253] ∧ pendingTail [97, 255] = [255] ∧ pendingTail [97, 255, 241] = [] := by decide
example : (decode [97, 98, 255, 253, 1, 99, 10]).kept = [97, 98, 99, 10] := by decide
example : (255 : UInt8) ∉ [97, 98, 0, 10, 254] := by decide

/-! ## 3. the read side -/

/-- `_handle_ready_device` when poll reports the descriptor readable (and not writable) and the kernel has `bs` to hand
    out.  The bytes *read* are `readOf c.dev bs`, the prefix of `bs` the input buffer asks for (`C09_read_is_prefix`);
    `devClip c.dev bs` is the device after the capacity half of the `read`: the buffer has grown if it was full and its
    `dropOf c.dev bs` oldest bytes have given way (none below `MAX_DEV_BUF`, `C09_no_loss_below_max`).  Then `fromBuf`
    becomes that `fromBuf` followed by what the decoder keeps of the bytes read, continued from the state the device
    carries (tcp), or followed by the bytes read themselves (coprocess); the `read` is logged with the number of bytes
    read; no I/O error is reported. -/
theorem C09_read_side (c : CS) (bs : Bytes) (h : ReadyOk c)
    (hout : c.env.revents &&& 2 = 0) (hin : c.env.revents &&& 1 ≠ 0)
    (hr : c.env.read = some (some bs)) (hbs : bs ≠ []) :
    handleReady c = ({ c with env := { c.env with read := some (some (readOf c.dev bs)) },
                              sys := c.sys ++ [.read (readOf c.dev bs).length],
                              dev := absorb (devClip c.dev bs) (readOf c.dev bs) }, false) ∧
    (absorb (devClip c.dev bs) (readOf c.dev bs)).fromBuf =
      c.dev.fromBuf.drop (dropOf c.dev bs) ++ keptOf c.dev (readOf c.dev bs) ∧
    (c.dev.isPipe = false → keptOf c.dev (readOf c.dev bs) = (decodeFrom c.dev.tstate c.dev.tcmd (readOf c.dev bs)).kept ∧
        absorb (devClip c.dev bs) (readOf c.dev bs) = telnetFilter (devClip c.dev bs) (readOf c.dev bs)) ∧
    (c.dev.isPipe = true → keptOf c.dev (readOf c.dev bs) = readOf c.dev bs) ∧
    readOf c.dev bs <+: bs ∧ readOf c.dev bs ≠ [] := by
  refine ⟨handleReady_read_only c bs h hout hin hr hbs, ?_, ?_, ?_, readOf_prefix _ _, readOf_ne_nil _ _ hbs⟩
  · rw [absorb_fromBuf]; rfl
  · intro hp
    have hp' : (devClip c.dev bs).isPipe = false := hp
    simp [keptOf, absorb, hp, hp']
  · intro hp; simp [keptOf, hp]

/-- the hypotheses are satisfiable: a connected tcp device, readable, the F4 stream's second half arriving while the
    decoder is inside a command -/
example :
    (handleReady { dev := { dev0 with conn := 2, fd := some 7, tstate := 1, fromBuf := [97, 98] },
                   env := { now := 0, revents := 1, sockets := [], connects := [], soerrs := [],
                            read := some (some [253, 1, 99, 10]), writeOk := true },
                   sys := [] }).1.dev.fromBuf = [97, 98, 99, 10] := by decide

/-- and the entry conditions `ReadyOk` hold of that state -/
example :
    ReadyOk { dev := { dev0 with conn := 2, fd := some 7, tstate := 1, fromBuf := [97, 98] },
              env := { now := 0, revents := 1, sockets := [], connects := [], soerrs := [],
                       read := some (some [253, 1, 99, 10]), writeOk := true },
              sys := [] } := ⟨by decide, by decide, by decide, by decide, by decide⟩

/-- The same when the descriptor is also writable, connected, with output queued, and the `write` succeeds (the kernel
    takes `wcap ≥ 1` bytes): the first `wcap` bytes of `toBuf` go out first — the rest stays queued —, then the bytes
    read are taken in. -/
theorem C09_read_side_after_write (c : CS) (bs : Bytes) (h : ReadyOk c)
    (hout : c.env.revents &&& 2 ≠ 0) (hin : c.env.revents &&& 1 ≠ 0) (hc : c.dev.conn ≠ 1) (hb : c.dev.toBuf ≠ [])
    (hw : c.env.writeOk = true) (hcap : c.env.wcap ≠ 0) (hr : c.env.read = some (some bs)) (hbs : bs ≠ []) :
    handleReady c =
      ({ c with env := { c.env with read := some (some (readOf c.dev bs)) },
                sys := c.sys ++ [.write (c.dev.toBuf.take c.env.wcap) true, .read (readOf c.dev bs).length],
                dev := absorb (devClip { c.dev with toBuf := c.dev.toBuf.drop c.env.wcap } bs) (readOf c.dev bs) }, false) :=
  handleReady_write_read c bs h hout hin hc hb hw hcap hr hbs

/-- Every call of `_handle_ready_device`, no hypotheses: seen from the read side (transport, decoder state, pending
    bytes) either nothing happened, or the read branch ran — the kernel had `bs`, the `dropOf c.dev bs` oldest pending
    bytes were overwritten (none unless the buffer is full at `MAX_DEV_BUF`) and exactly the bytes read, `readOf c.dev bs`,
    were taken in —, or a connection attempt completed — then nothing was read and the decoder was put at rest. -/
theorem C09_read_side_all_cases (c : CS) :
    rview (handleReady c).1.dev = rview c.dev ∧ (handleReady c).1.dev.statConnects = c.dev.statConnects ∨
    (∃ bs, c.env.read = some (some bs) ∧ bs ≠ [] ∧ c.env.revents &&& 1 ≠ 0 ∧ (handleReady c).2 = false ∧
       (handleReady c).1.dev.conn = c.dev.conn ∧ (handleReady c).1.dev.statConnects = c.dev.statConnects ∧
       rview (handleReady c).1.dev = ((rview c.dev).consume (dropOf c.dev bs)).read (readOf c.dev bs)) ∨
    (c.dev.conn = 1 ∧ (handleReady c).1.dev.conn = 2 ∧ (handleReady c).2 = false ∧
       (handleReady c).1.dev.statConnects = c.dev.statConnects + 1 ∧
       rview (handleReady c).1.dev = { rview c.dev with st := 0, cmd := 0 }) :=
  handleReady_view c

/-- `_process_expect` with nothing pending asks nothing and changes nothing. -/
theorem C09_expect_empty (d : Dev) (a : Action) (o : Oracle) (pat : Nat) (h : d.fromBuf = []) :
    (stmtExpect d a o pat).dev.fromBuf = [] ∧ (stmtExpect d a o pat).oracle = o ∧
    (stmtExpect d a o pat).finished = false :=
  stmtExpect_empty d a o pat h

/-- With bytes pending, the regex engine is asked once, and the subject it is given is the whole pending buffer with
    every NUL shown as 0xFF (`present`; same length, so offsets mean the same in both).  No match: the buffer is left
    alone and the statement stalls. -/
theorem C09_expect_nomatch (d : Dev) (a : Action) (o : Oracle) (pat : Nat) (h : d.fromBuf ≠ [])
    (hn : (askRx o pat (present d.fromBuf)).2.1 = none) :
    (stmtExpect d a o pat).dev.fromBuf = d.fromBuf ∧
    (stmtExpect d a o pat).oracle = (askRx o pat (present d.fromBuf)).1 ∧
    (stmtExpect d a o pat).finished = false :=
  stmtExpect_nomatch d a o pat h hn

/-- A match whose whole-match end offset is `eo` consumes exactly the first `eo` pending bytes: what stays is the old
    buffer without that prefix, in order; the match object keeps the subject as presented. -/
theorem C09_expect_match (d : Dev) (a : Action) (o : Oracle) (pat : Nat) (offs : List (Int × Int)) (h : d.fromBuf ≠ [])
    (hm : (askRx o pat (present d.fromBuf)).2.1 = some offs) :
    (stmtExpect d a o pat).dev.fromBuf = d.fromBuf.drop (offs.headD (0, 0)).2.toNat ∧
    (stmtExpect d a o pat).oracle = (askRx o pat (present d.fromBuf)).1 ∧
    (stmtExpect d a o pat).finished = true ∧
    (stmtExpect d a o pat).dev.xmStr = some (present d.fromBuf) ∧ (stmtExpect d a o pat).dev.xmOffs = offs :=
  stmtExpect_match d a o pat offs h hm

/-- how the subject relates to the buffer -/
theorem C09_present (buf : Bytes) :
    (present buf).length = buf.length ∧ (∀ k, (present buf).take k = present (buf.take k)) ∧
    (0 ∉ buf → present buf = buf) :=
  ⟨present_length buf, present_take buf, present_of_no_nul buf⟩

example : present [97, 0, 255, 10] = [97, 255, 255, 10] := by decide
/-- a match of the first three of four pending bytes -/
example :
    (stmtExpect { dev0 with fromBuf := [111, 107, 10, 62] } default ⟨[⟨5, [111, 107, 10, 62], some [(0, 3)]⟩]⟩ 5).dev.fromBuf
      = [62] := by decide

/-- no match: four bytes pending, one of them NUL — the engine is asked about `o k 0xFF >` and everything stays -/
example :
    (stmtExpect { dev0 with fromBuf := [111, 107, 0, 62] } default ⟨[⟨5, [111, 107, 255, 62], none⟩]⟩ 5).dev.fromBuf
      = [111, 107, 0, 62] ∧
    (stmtExpect { dev0 with fromBuf := [111, 107, 0, 62] } default ⟨[⟨5, [111, 107, 255, 62], none⟩]⟩ 5).out.length = 0 := by
  decide

/-- In every case `_process_expect` does nothing to the read side but drop a prefix of the pending bytes. -/
theorem C09_expect_consumes_prefix (d : Dev) (a : Action) (o : Oracle) (pat : Nat) :
    ∃ k, rview (stmtExpect d a o pat).dev = (rview d).consume k :=
  stmtExpect_view d a o pat

/-- Any interleaving of reads (the stream cut anywhere) and consumes (any counts, also more than is pending) on one
    connection: everything consumed, followed by what is still pending, is what a single read of the whole stream
    would have left pending had nothing been consumed; and the decoder ends in the same state. -/
theorem C09_interleaving (v : RView) (evs : List Ev) :
    consumedBy v evs ++ (evs.foldl RView.step v).buf = (v.read (readsOf evs)).buf ∧
    (evs.foldl RView.step v).st = (v.read (readsOf evs)).st ∧
    (evs.foldl RView.step v).cmd = (v.read (readsOf evs)).cmd ∧
    (evs.foldl RView.step v).isPipe = v.isPipe :=
  trace_conservation v evs

/-- On a fresh tcp connection: consumed ++ pending = `strip` of everything the device sent. -/
theorem C09_interleaving_tcp (evs : List Ev) :
    consumedBy .freshTcp evs ++ (evs.foldl RView.step .freshTcp).buf = strip (readsOf evs) :=
  trace_tcp evs

/-- On a fresh coprocess connection the decoder is the identity: consumed ++ pending = everything the coprocess
    wrote (whatever the telnet fields hold: they are not used). -/
theorem C09_interleaving_pipe (st : Nat) (cmd : UInt8) (evs : List Ev) :
    consumedBy (.freshPipe st cmd) evs ++ (evs.foldl RView.step (.freshPipe st cmd)).buf = readsOf evs :=
  trace_pipe st cmd evs

example :
    consumedBy .freshTcp [.read [97, 98, 255], .consume 1, .read [253, 1, 99], .consume 2, .read [10]] = [97, 98, 99] ∧
    ([Ev.read [97, 98, 255], .consume 1, .read [253, 1, 99], .consume 2, .read [10]].foldl RView.step .freshTcp).buf = [10] := by
  decide

/-- The same on the model's own functions: from any state of an established connection, after any sequence of
    `_handle_ready_device` calls (any kernel answers) and `_process_expect` calls (any pattern, any answer of the regex
    engine), the bytes removed from the head of `fromBuf` (`opsConsumed`: what the expects matched and — only in calls
    that found the buffer full at `MAX_DEV_BUF`, `C09_no_loss_below_max` — what a `read` overwrote, in the order in which
    they went) followed by `fromBuf` are the old `fromBuf` followed by the decoder's output — continued from the state
    carried at the start — on the concatenation of everything that was read (`opsTaken`: the prefixes `readTaken` of what
    the kernel had in each call); the carried state is the one that concatenation leads to; the connection is still the
    same one. -/
theorem C09_interleaving_model (d : Dev) (h2 : d.conn = 2) (ops : List Op) :
    opsConsumed d ops ++ (ops.foldl Op.run d).fromBuf = d.fromBuf ++ keptOf d (opsTaken d ops) ∧
    rview (ops.foldl Op.run d) = { (rview d).read (opsTaken d ops) with buf := (ops.foldl Op.run d).fromBuf } ∧
    (ops.foldl Op.run d).conn = 2 :=
  ops_conservation d h2 ops

/-- `readTaken`, the bytes a call takes in, is what the system-call log records as read: the `Y read <fd> <n>` line of a
    pass shows the number of bytes read (the clipped prefix), not what the kernel had. -/
theorem C09_taken_is_logged (c : CS) (h : readTaken c ≠ []) :
    ∃ pre, (handleReady c).1.sys = pre ++ [.read (readTaken c).length] :=
  handleReady_taken_sys c h

/-! ## 4. reconnects -/

/-- `_disconnect` empties both buffers: nothing received stays visible, nothing queued is sent later. -/
theorem C09_disconnect_flushes (c : CS) :
    (disconnectDev c).dev.fromBuf = [] ∧ (disconnectDev c).dev.toBuf = [] ∧ (disconnectDev c).dev.conn = 0 :=
  ⟨(disconnectDev_clean c).1, (disconnectDev_clean c).2.1, (disconnectDev_clean c).2.2.1⟩

/-- `tcp_finish_connect_one`: success brings the connection up with the decoder at rest (`_telnet_init`) and touches
    nothing else on the read side; failure changes nothing in the device. -/
theorem C09_finish_connect (c : CS) :
    ((finishConnectOne c).2 = true ∧
        (finishConnectOne c).1.dev = { c.dev with conn := 2, statConnects := c.dev.statConnects + 1, tstate := 0, tcmd := 0 }) ∨
    ((finishConnectOne c).2 = false ∧ (finishConnectOne c).1.dev = c.dev) :=
  finishConnectOne_cases c

/-- `_reconnect` on a device that was connected or connecting — whatever follows (back-off, an attempt in progress,
    a new connection at once, either transport): both buffers are empty, and a tcp connection that is up afterwards
    has its decoder at rest.  Nothing received on the earlier connection is visible on the new one. -/
theorem C09_reconnect_clean (c : CS) (tmo : Option Time) (h : c.dev.conn ≠ 0) :
    (reconnectDev c tmo).1.dev.fromBuf = [] ∧ (reconnectDev c tmo).1.dev.toBuf = [] ∧
    ((reconnectDev c tmo).1.dev.conn = 2 → (reconnectDev c tmo).1.dev.isPipe = false →
      (reconnectDev c tmo).1.dev.tstate = 0 ∧ (reconnectDev c tmo).1.dev.tcmd = 0) :=
  ⟨(reconnectDev_clean c tmo h).1, (reconnectDev_clean c tmo h).2.1, (reconnectDev_clean c tmo h).2.2.2⟩

/-- `_reconnect` / `_connect` on a device that was not connected leave the buffers as they are and, if a tcp
    connection comes up, start it with the decoder at rest. -/
theorem C09_connect_fresh (c : CS) (tmo : Option Time) (h : c.dev.conn = 0) :
    (reconnectDev c tmo).1.dev.fromBuf = c.dev.fromBuf ∧ (reconnectDev c tmo).1.dev.toBuf = c.dev.toBuf ∧
    ((reconnectDev c tmo).1.dev.conn = 2 → (reconnectDev c tmo).1.dev.isPipe = false →
      (reconnectDev c tmo).1.dev.tstate = 0 ∧ (reconnectDev c tmo).1.dev.tcmd = 0) :=
  ⟨(reconnectDev_idle c tmo h).1, (reconnectDev_idle c tmo h).2.1, (reconnectDev_idle c tmo h).2.2.2⟩

/-- The remaining way a connection comes up — a pending `connect` completing in `_handle_ready_device`: the decoder
    is at rest and nothing is read in that call. -/
theorem C09_connect_completes_fresh (c : CS) (h : c.dev.conn ≠ 2) (h2 : (handleReady c).1.dev.conn = 2) :
    (handleReady c).1.dev.tstate = 0 ∧ (handleReady c).1.dev.tcmd = 0 ∧
    (handleReady c).1.dev.fromBuf = c.dev.fromBuf :=
  handleReady_up c h h2

/-- non-vacuity: a connection with a half-received command and pending bytes, I/O error handling reconnects at once -/
example :
    let c : CS := { dev := { dev0 with conn := 2, fd := some 7, tstate := 2, tcmd := 253, fromBuf := [1, 2, 3], toBuf := [4] },
                    env := { now := 0, revents := 0, sockets := [8], connects := [0], soerrs := [0], read := none, writeOk := true },
                    sys := [] }
    (reconnectDev c none).1.dev.conn = 2 ∧ (reconnectDev c none).1.dev.fromBuf = [] ∧
    (reconnectDev c none).1.dev.toBuf = [] ∧ (reconnectDev c none).1.dev.tstate = 0 := by decide

/-! ## 5. the write side -/

/-- Device: the `write` issued by `_handle_ready_device` (`cbuf_read_to_fd (dev->to, fd, -1)`) offers all of `toBuf`; the
    kernel takes the first `wcap` bytes, which leave `toBuf`, and the rest stays queued for the next pass — a short write
    is not an error; if the kernel takes nothing (`wcap = 0`: `EAGAIN`) or the `write` fails (`writeOk = false`: `EPIPE`),
    `toBuf` is unchanged and an I/O error is returned (the caller reconnects, which flushes).  With `wcap ≥ |toBuf|` this
    is "everything goes out and `toBuf` is empty" (`List.take_of_length_le`, `List.drop_eq_nil_of_le`). -/
theorem C09_device_write (c : CS) (h : ReadyOk c)
    (hout : c.env.revents &&& 2 ≠ 0) (hin : c.env.revents &&& 1 = 0) (hc : c.dev.conn ≠ 1) (hb : c.dev.toBuf ≠ []) :
    handleReady c =
      if c.env.writeOk then
        if c.env.wcap == 0 then ({ c with sys := c.sys ++ [.write [] true] }, true)
        else ({ c with sys := c.sys ++ [.write (c.dev.toBuf.take c.env.wcap) true],
                       dev := { c.dev with toBuf := c.dev.toBuf.drop c.env.wcap } }, false)
      else ({ c with sys := c.sys ++ [.write c.dev.toBuf false] }, true) :=
  handleReady_write_only c h hout hin hc hb

example :
    (handleReady { dev := { dev0 with conn := 2, fd := some 7, toBuf := [111, 110, 10] },
                   env := { now := 0, revents := 2, sockets := [], connects := [], soerrs := [], read := none, writeOk := true },
                   sys := [] }).1.dev.toBuf = [] := by decide

/-- Device, every call of `_handle_ready_device`, any capacity of the descriptor: a successful `write` moves a front piece
    `wr` of `toBuf` to the descriptor (`wr = []` otherwise), the rest `kept` stays queued, and the telnet option replies to what
    this call read are queued behind it.  So what has been *written* is never lost, repeated or reordered however short the
    writes; what is *queued* loses bytes only at its old end and only beyond the capacity of `dev->to` (`clipTo`: the last
    65536 bytes).
    Changed when the capacity was modelled: the statement read
    `devWritten sys' ++ toBuf' = devWritten sys ++ toBuf ++ replies` ("written ++ queued only grows at its end"), which is
    false beyond 64 KiB (`C09_device_write_conserved_old_counterexample`); it still holds whenever the buffer does not
    overflow: `C09_device_write_conserved_below`.  The hypothesis is the capacity invariant (`C09_device_out_capacity`). -/
theorem C09_device_write_conserved (c : CS) (hcap : c.dev.toBuf.length ≤ 65536) :
    ∃ bs wr kept, wr ++ kept = c.dev.toBuf ∧ devWritten (handleReady c).1.sys = devWritten c.sys ++ wr ∧
      (handleReady c).1.dev.toBuf = clipTo (kept ++ repliesOf c.dev bs) :=
  handleReady_write_conserve c hcap

/-- The statement as it read before, under the explicit no-overflow hypothesis — what was queued and the replies fit the
    buffer together — or, what is easier to observe, the buffer is not full afterwards. -/
theorem C09_device_write_conserved_below (c : CS) (hcap : c.dev.toBuf.length ≤ 65536) :
    ∃ bs, ((c.dev.toBuf ++ repliesOf c.dev bs).length ≤ 65536 ∨ (handleReady c).1.dev.toBuf.length < 65536 →
      devWritten (handleReady c).1.sys ++ (handleReady c).1.dev.toBuf =
        devWritten c.sys ++ c.dev.toBuf ++ repliesOf c.dev bs) :=
  handleReady_write_conserve_below c hcap

/-- non-vacuity: the device of the short-write example below is within the capacity, and not full afterwards -/
example :
    let c : CS := { dev := { dev0 with conn := 2, fd := some 7, toBuf := [111, 110, 10] },
                    env := { now := 0, revents := 2, sockets := [], connects := [], soerrs := [], read := none, writeOk := true, wcap := 2 },
                    sys := [] }
    c.dev.toBuf.length ≤ 65536 ∧ (handleReady c).1.dev.toBuf.length < 65536 := by decide

/-- Device: `_process_send` queues at the end of `toBuf` (changed with the capacity of `dev->to`: `clipTo (d.toBuf ++ s)` where
    it read `d.toBuf ++ s`; the hypothesis is the capacity invariant, needed for the visits that queue nothing). -/
theorem C09_send_appends (d : Dev) (a : Action) (o : Oracle) (e : ExecCtx) (fmt : Bytes) (hcap : d.toBuf.length ≤ 65536) :
    ∃ s, (stmtSend d a o e fmt).dev.toBuf = clipTo (d.toBuf ++ s) :=
  stmtSend_appends d a o e fmt hcap

/-- Device: below the limit `_process_send` appends (the statement as it read before). -/
theorem C09_send_appends_below (d : Dev) (a : Action) (o : Oracle) (e : ExecCtx) (fmt : Bytes) (hcap : d.toBuf.length ≤ 65536) :
    ∃ s, (stmtSend d a o e fmt).dev.toBuf = clipTo (d.toBuf ++ s) ∧
      ((d.toBuf ++ s).length ≤ 65536 → (stmtSend d a o e fmt).dev.toBuf = d.toBuf ++ s) :=
  stmtSend_appends_below d a o e fmt hcap

open Pm.Daemon in
/-- Client, one `_handle_write`: the payload of the `write` it issues (none, a prefix, or everything) followed by what
    stays queued is what was queued — for every capacity of the descriptor, blocking or not, failing or not. -/
theorem C09_client_write_step (w : W) (c : Cli) :
    written c.fd (handleWrite w c).1.sys ++ (handleWrite w c).2.toBuf = written c.fd w.sys ++ c.toBuf ∧
    (handleWrite w c).2.fd = c.fd :=
  handleWrite_conserve w c

open Pm.Daemon in
/-- Client, any sequence of write opportunities with any capacities, interleaved with the daemon queueing more output:
    the bytes written to the client's descriptor followed by what is still queued are the bytes queued, in order, each
    exactly once; and nothing of it goes to another descriptor. -/
theorem C09_client_write (w : W) (c : Cli) (evs : List WEv) :
    written c.fd (evs.foldl wstep (w, c)).1.sys ++ (evs.foldl wstep (w, c)).2.toBuf =
      written c.fd w.sys ++ c.toBuf ++ putsOf evs :=
  (client_write_conservation w c evs).1

open Pm.Daemon in
theorem C09_client_write_private (w : W) (c : Cli) (fd : Nat) (h : fd ≠ c.fd) :
    written fd (handleWrite w c).1.sys = written fd w.sys :=
  handleWrite_other w c fd h

open Pm.Daemon in
/-- ten bytes queued, capacities 3, 0-is-not-offered, 4, then more output queued, then 100 -/
example :
    let w : W := { cfg := { plugs := [], has := [], nodes := [], version := [] }, clients := [] }
    let c : Cli := { id := 1, fd := 5, toBuf := [0, 1, 2, 3, 4, 5, 6, 7, 8, 9] }
    let r := [WEv.cap 3, .cap 4, .put [10, 11], .cap 100].foldl wstep (w, c)
    written 5 r.1.sys = [0, 1, 2, 3, 4, 5, 6, 7, 8, 9, 10, 11] ∧ r.2.toBuf = [] := by decide

/-! ## 6. whole passes of `dev_post_poll`, and any number of them -/

/-- `_process_action` — any fuel, queue, scripts, answers of the regex engine, kernel answers — does only two things to
    the read side: it consumes a prefix of the pending bytes on the same connection (connection count, transport and
    decoder state untouched), or it reconnects, after which nothing is pending and a connection that is up is a new,
    counted one whose decoder is at rest. -/
theorem C09_process_action_read_side (fuel : Nat) (c : CS) (o : Oracle) (out : List Out) (tmo : Option Time) :
    SameConn c.dev (processActionF fuel c o out tmo).1.dev ∨ Reconn c.dev (processActionF fuel c o out tmo).1.dev :=
  processActionF_passRel fuel c o out tmo

/-- One whole pass on an established connection: either the connection is still the same one and the read side is
    the old one — less its `passDropped d env` oldest pending bytes, overwritten by the `read` (0 unless the input buffer is
    full at `MAX_DEV_BUF`: `C09_pass_no_loss`) — advanced by exactly the bytes read from the descriptor in this pass
    (`passTaken`, a prefix of what the kernel had), minus a prefix the expects consumed; or the device reconnected and
    nothing of the old connection is left. -/
theorem C09_pass_connected (d : Dev) (env : Env) (o : Oracle) (h2 : d.conn = 2) :
    ((postPoll d env o).1.dev.conn = 2 ∧ (postPoll d env o).1.dev.statConnects = d.statConnects ∧
      ∃ k, rview (postPoll d env o).1.dev =
        (((rview d).consume (passDropped d env)).read (passTaken d env)).consume k) ∨
    Reconn d (postPoll d env o).1.dev :=
  postPoll_connected d env o h2

/-- One whole pass keeps "not connected ⇒ nothing pending and nothing queued", provided the descriptor delivers
    nothing while its connection is not up (`EnvOk`). -/
theorem C09_pass_quiet (d : Dev) (env : Env) (o : Oracle) (hq : Quiet d) (hr : d.conn ≠ 2 → passTaken d env = []) :
    Quiet (postPoll d env o).1.dev :=
  postPoll_quiet d env o hq hr

/-- One whole pass starting without a connection ends with nothing pending; a connection it brings up is a new one
    with the decoder at rest. -/
theorem C09_pass_fresh (d : Dev) (env : Env) (o : Oracle) (hq : Quiet d) (hr : d.conn ≠ 2 → passTaken d env = [])
    (hn : d.conn ≠ 2) : Reconn d (postPoll d env o).1.dev :=
  postPoll_fresh d env o hq hr hn

/-- The property as an invariant of the daemon's loop.  Run any number of passes, each with its own kernel answers and
    regex answers; carry along, as a ghost, the stream `S` the daemon has read from the descriptor on the connection that
    is up (`passTaken` of each pass, appended; reset whenever that connection is not the same any more).  Then at every
    point: while a connection is up, `fromBuf` is `strip S` (tcp) or `S` (coprocess) minus a prefix — what the expects
    consumed and, only in passes whose `read` found `MAX_DEV_BUF` unconsumed bytes pending, the oldest bytes that `read`
    overwrote (`passDropped`, 0 otherwise: `C09_pass_no_loss`) — so what expects are matched against is exactly the
    decoded stream of the current connection, in order, nothing duplicated, nothing from an earlier connection, nothing
    lost while the unconsumed data stays within the buffer's capacity — and the decoder is in the state `S` leads to;
    while none is up, both buffers are empty. -/
theorem C09_run (s : Dev × Bytes) (ps : List (Env × Oracle)) (hg : Good s) (hr : RunOk s ps) :
    Good (ps.foldl passStep s) :=
  run_good s ps hg hr

/-- a device that is not connected and has empty buffers is a good start (the ghost stream is empty) -/
theorem C09_run_start (d : Dev) (hc : d.conn ≠ 2) (hf : d.fromBuf = []) (ht : d.toBuf = []) : Good (d, []) :=
  good_initial d hc hf ht

/-- `EnvOk` holds as soon as poll never reports a connecting socket readable without reporting it writable; a device
    that is not connected at all, or a pass without POLLIN, delivers nothing anyway. -/
theorem C09_envok_sufficient (d : Dev) (env : Env) :
    (d.conn = 0 → passTaken d env = []) ∧ (env.revents &&& 1 = 0 → passTaken d env = []) ∧
    (d.conn = 1 → env.revents &&& 2 ≠ 0 → passTaken d env = []) :=
  ⟨passTaken_of_not_connected d env, passTaken_of_no_pollin d env, passTaken_of_connecting_pollout d env⟩

/-- a device whose login script is `expect 1; send "x"` -/
def devR : Dev :=
  { dev0 with scripts := fun n => if n = 0 then some [.expect 1, .send [120]] else none, timeout := 1000000 }

def envR (rev : Nat) (rd : Option (Option Bytes)) : Env :=
  { now := 0, revents := rev, sockets := [7], connects := [0], soerrs := [0], read := rd, writeOk := true }

/-- three passes: connect at once; `a IAC DO` arrives, no match; `ECHO b` arrives, the expect matches one byte -/
def runR : List (Env × Oracle) :=
  [ (envR 0 none, ⟨[]⟩),
    (envR 1 (some (some [97, 255, 253])), ⟨[⟨1, [97], none⟩]⟩),
    (envR 1 (some (some [1, 98])), ⟨[⟨1, [97, 98], some [(0, 1)]⟩]⟩) ]

/-- non-vacuity of `C09_run`: the run is admissible, ends connected with ghost stream `a IAC DO ECHO b`, `b` pending
    (`a` consumed), and `WONT ECHO` followed by the login script's `x` queued for the device -/
example : RunOk (devR, []) runR := by
  simp only [RunOk, runR]
  refine ⟨?_, ?_, ?_, trivial⟩ <;> unfold EnvOk <;> decide +kernel
example :
    (runR.foldl passStep (devR, [])).1.conn = 2 ∧ (runR.foldl passStep (devR, [])).2 = [97, 255, 253, 1, 98] ∧
    (runR.foldl passStep (devR, [])).1.fromBuf = [98] ∧ (runR.foldl passStep (devR, [])).1.toBuf = [255, 252, 1, 120] := by
  decide +kernel

/-- `EnvOk` cannot be dropped: if poll reports a *connecting* socket readable but not writable, `_handle_ready_device`
    reads (the code, like the model, tests only `connect_state != NOT_CONNECTED` there) and runs the bytes through the
    decoder in whatever state the previous connection left it — here inside a command, so `IAC a` from the new peer is
    kept as `0xFF a` instead of being dropped — and they stay pending while no connection is up. -/
theorem C09_envok_needed_witness :
    let d : Dev := { dev0 with conn := 1, fd := some 7, tstate := 1 }
    let env : Env := { now := 0, revents := 1, sockets := [], connects := [], soerrs := [],
                       read := some (some [255, 97]), writeOk := true }
    Quiet d ∧ (postPoll d env ⟨[]⟩).1.dev.conn = 1 ∧ (postPoll d env ⟨[]⟩).1.dev.fromBuf = [255, 97] ∧
    strip [255, 97] = [] := by
  refine ⟨fun _ => ⟨rfl, rfl⟩, ?_, ?_, ?_⟩ <;> decide +kernel

/-! ## 7. capacity

`Pm.Cbuf.readPlan size used max avail = (n, size', dropped)` is `cbuf_write_from_fd (cb, fd, -1, &dropped)` for a buffer of
`size` bytes holding `used` unread ones when the kernel has `avail` bytes: `n = min (size - used, or 1000 if that is 0)
avail` bytes are read, the buffer has grown to `size'` (only when it was full; before the `read`, also when the `read`
then fails), and the `dropped` oldest unread bytes are overwritten.  Devices: `devReadPlan`, `readOf`, `dropOf`,
`readTaken c`/`readDropped c` (what a call of `_handle_ready_device` reads/overwrites: `[]`/`0` when its read branch is not
reached), `max = MAX_DEV_BUF = 65536`.  Clients: `cliRead` is the read stage of `clientPass` (`C09_client_pass_stages`),
`cliTaken`/`cliDropped`/`cliSizeAfter`, `max = MAX_CLIENT_BUF = 1048576`.  Helper lemmas: `Pm/CapProof.lean`,
`Pm/Dev2Clip.lean`, `Pm/Cbuf.lean`. -/

/-- the constants -/
theorem C09_buffer_sizes : devBufMax = 65536 ∧ Pm.Daemon.cliBufMax = 1048576 ∧ dev0.fromSize = 1024 ∧
    ({ id := 1, fd := 1000 } : Pm.Daemon.Cli).fromSize = 1024 := ⟨rfl, rfl, rfl, rfl⟩

/-- **What a pass takes in is a prefix of what the kernel offered, of the planned length — device.**  Every call of
    `_handle_ready_device`, every state, every kernel answer: the input buffer afterwards is the old one, less its
    `readDropped c` oldest bytes, followed by what the daemon keeps (`keptOf`: all of it on a coprocess, the telnet
    decoder's output on tcp) of the bytes read, `readTaken c`; and when the kernel had `bs`, the bytes read are nothing
    (the read branch was not reached) or the first `(readPlan …).1` bytes of `bs`. -/
theorem C09_read_is_prefix (c : CS) :
    (handleReady c).1.dev.fromBuf = c.dev.fromBuf.drop (readDropped c) ++ keptOf c.dev (readTaken c) ∧
    (∀ bs, c.env.read = some (some bs) →
      readTaken c <+: bs ∧
      (readTaken c = [] ∨
       readTaken c = bs.take (Pm.Cbuf.readPlan c.dev.fromSize c.dev.fromBuf.length 65536 bs.length).1)) ∧
    ((∀ bs, c.env.read ≠ some (some bs)) → readTaken c = []) :=
  ⟨handleReady_fromBuf c, fun bs hr => ⟨readTaken_isPrefix c bs hr, readTaken_prefix c bs hr⟩, readTaken_nodata c⟩

/-- `readOf d bs`, the bytes one `read` takes when the kernel has `bs`, spelled out -/
theorem C09_readOf (d : Dev) (bs : Bytes) :
    readOf d bs = bs.take (Pm.Cbuf.readPlan d.fromSize d.fromBuf.length 65536 bs.length).1 ∧
    (readOf d bs).length = (Pm.Cbuf.readPlan d.fromSize d.fromBuf.length 65536 bs.length).1 ∧
    (bs ≠ [] → readOf d bs ≠ []) :=
  ⟨rfl, readOf_length d bs, readOf_ne_nil d bs⟩

/-- 1020 bytes pending in the initial buffer of 1024: of ten bytes offered, four are read; the buffer does not grow -/
example : readOf { dev0 with fromBuf := List.replicate 1020 97 } [1, 2, 3, 4, 5, 6, 7, 8, 9, 10] = [1, 2, 3, 4] ∧
    sizeAfter { dev0 with fromBuf := List.replicate 1020 97 } [1, 2, 3, 4, 5, 6, 7, 8, 9, 10] = 1024 := by decide +kernel
/-- the buffer full: it grows (to 2983) and a chunk is asked for -/
example : readOf { dev0 with fromBuf := List.replicate 1024 97 } [1, 2, 3] = [1, 2, 3] ∧
    sizeAfter { dev0 with fromBuf := List.replicate 1024 97 } [1, 2, 3] = 2983 ∧
    dropOf { dev0 with fromBuf := List.replicate 1024 97 } [1, 2, 3] = 0 := by decide +kernel

open Pm.Daemon Pm.Daemon.ClientPf Pm.Daemon.Cap in
/-- **The same for a client.**  `clientPass` is: the descriptor's error bits; the read stage `cliRead`; `_handle_write`;
    `_handle_input`; the destruction of a client that has quit. -/
theorem C09_client_pass_stages (w : W) (c : Cli) (e : Option FdEnv) :
    clientPass w c e =
      (if cpRev c e &&& 8 != 0 || cpRev c e &&& 16 != 0 then cpDead w c else
       let r1 := if cpRev c e &&& 1 != 0 || cpRev c e &&& 4 != 0 then cliRead w c e else (w, c)
       let r2 := if cpRev c e &&& 2 != 0 then handleWrite r1.1 r1.2 else r1
       cpTail (handleInput r2.1 r2.2)) :=
  clientPass_stages w c e

open Pm.Daemon Pm.Daemon.ClientPf Pm.Daemon.Cap in
/-- The read stage: the input buffer loses its `cliDropped c e` oldest bytes and gains `cliTaken c e`, a prefix of what
    the kernel offered (`e.data`) of the planned length (the kernel has nothing to offer on an error, `rk = 1`, or at end
    of file, `rk = 2`); the size becomes the planned one; one `read` is logged, with the number of bytes taken (0 at end
    of file, -1 on an error or when nothing was there); the client is marked as having quit when nothing was taken. -/
theorem C09_client_read_is_prefix (w : W) (c : Cli) (e : FdEnv) :
    (cliRead w c (some e)).2.fromBuf = c.fromBuf.drop (cliDropped c e) ++ cliTaken c e ∧
    (cliRead w c (some e)).2.fromSize = cliSizeAfter c e ∧
    cliTaken c e <+: e.data ∧
    (cliTaken c e).length =
      (Pm.Cbuf.readPlan c.fromSize c.fromBuf.length 1048576 (if e.rk == 1 || e.rk == 2 then 0 else e.data.length)).1 ∧
    (cliRead w c (some e)).1.sys = w.sys ++ [Sys.read c.fd
      (if e.rk == 1 then -1 else if e.rk == 2 then 0 else if (cliTaken c e).isEmpty then -1 else ((cliTaken c e).length : Int))] ∧
    (cliRead w c (some e)).2.quit = (c.quit || (cliTaken c e).isEmpty) :=
  ⟨(cliRead_spec w c e).1, (cliRead_spec w c e).2.1, cliTaken_prefix c e, cliTaken_length c e, (cliRead_spec w c e).2.2.1,
    (cliRead_spec w c e).2.2.2⟩

open Pm.Daemon Pm.Daemon.Cap in
/-- a client with 1020 bytes pending (no line feed among them) in its initial buffer of 1024: of `quit\n` four bytes are
    read in this pass; the line is completed — and answered — in the next -/
example :
    let c : Cli := { id := 1, fd := 1000, fromBuf := List.replicate 1020 97 }
    let e : FdEnv := { fd := 1000, rev := 1, rk := 0, data := bstr "quit\n", cap := 0 }
    cliTaken c e = bstr "quit" ∧ cliDropped c e = 0 ∧ cliSizeAfter c e = 1024 := by decide +kernel

/-- **Capacity — device.**  `fromBuf.length ≤ fromSize`, `1024 ≤ fromSize ≤ 65536` (`DevCap`) is an invariant of
    `_handle_ready_device` and of a whole pass of `dev_post_poll` (any scripts, oracle, kernel answers, reconnects: the
    cbuf is created once in `dev_create` and survives them), and the size never decreases. -/
theorem C09_capacity (c : CS) (d : Dev) (env : Env) (o : Oracle) :
    (DevCap c.dev → DevCap (handleReady c).1.dev ∧ c.dev.fromSize ≤ (handleReady c).1.dev.fromSize) ∧
    (DevCap d → DevCap (postPoll d env o).1.dev ∧ d.fromSize ≤ (postPoll d env o).1.dev.fromSize) :=
  ⟨handleReady_cap c, postPoll_cap d env o⟩

/-- `DevCap`, spelled out; a device as `dev_create` leaves it satisfies it -/
theorem C09_capacity_def (d : Dev) :
    DevCap d ↔ d.fromBuf.length ≤ d.fromSize ∧ 1024 ≤ d.fromSize ∧ d.fromSize ≤ 65536 :=
  ⟨fun h => ⟨h.fits, h.min, h.max⟩, fun h => ⟨h.1, h.2.1, h.2.2⟩⟩
example : DevCap dev0 := ⟨by decide, by decide, by decide⟩
example : DevCap { dev0 with fromBuf := List.replicate 1024 97 } := ⟨by decide +kernel, by decide, by decide⟩

open Pm.Daemon Pm.Daemon.Cap in
/-- **Capacity — client.**  `fromBuf.length ≤ fromSize`, `1024 ≤ fromSize ≤ 1048576` (`CliCap`) holds of a client that
    survives its share of a pass if it held before, and the size has not decreased. -/
theorem C09_capacity_client (w : W) (c : Cli) (e : Option FdEnv) (c' : Cli) (h : CliCap c)
    (hc : (clientPass w c e).2 = some c') : CliCap c' ∧ c.fromSize ≤ c'.fromSize :=
  clientPass_cap w c e c' h hc

open Pm.Daemon Pm.Daemon.Cap in
theorem C09_capacity_client_def (c : Cli) :
    CliCap c ↔ c.fromBuf.length ≤ c.fromSize ∧ 1024 ≤ c.fromSize ∧ c.fromSize ≤ 1048576 :=
  ⟨fun h => ⟨h.fits, h.min, h.max⟩, fun h => ⟨h.1, h.2.1, h.2.2⟩⟩
open Pm.Daemon Pm.Daemon.Cap in
example : CliCap { id := 1, fd := 1000 } := ⟨by decide, by decide, by decide⟩

/-- **Nothing is lost below the maximal size — device.**  If the buffer was not full, or is still smaller than
    `MAX_DEV_BUF` after the call, no pending byte is overwritten: the input buffer afterwards is the old one followed by
    what the daemon keeps of the bytes read (the telnet-filtered bytes read on tcp). -/
theorem C09_no_loss_below_max (c : CS) (hf : c.dev.fromBuf.length ≤ c.dev.fromSize)
    (h : c.dev.fromBuf.length < c.dev.fromSize ∨ (handleReady c).1.dev.fromSize < 65536) :
    readDropped c = 0 ∧ (handleReady c).1.dev.fromBuf = c.dev.fromBuf ++ keptOf c.dev (readTaken c) := by
  have h0 : readDropped c = 0 := by
    rcases h with h | h
    · exact readDropped_of_room c h
    · exact readDropped_below_max c hf h
  refine ⟨h0, ?_⟩
  rw [handleReady_fromBuf, h0, List.drop_zero]

/-- … over a whole pass of `dev_post_poll` (`passDropped` is the loss term of `C09_pass_connected`) -/
theorem C09_pass_no_loss (d : Dev) (env : Env) (o : Oracle) (hf : d.fromBuf.length ≤ d.fromSize)
    (h : d.fromBuf.length < d.fromSize ∨ (postPoll d env o).1.dev.fromSize < 65536) : passDropped d env = 0 :=
  passDropped_zero d env o hf h

open Pm.Daemon Pm.Daemon.Cap in
/-- **Nothing is lost below the maximal size — client.** -/
theorem C09_client_no_loss_below_max (w : W) (c : Cli) (e : FdEnv) (hf : c.fromBuf.length ≤ c.fromSize)
    (h : c.fromBuf.length < c.fromSize ∨ cliSizeAfter c e < 1048576) :
    cliDropped c e = 0 ∧ (cliRead w c (some e)).2.fromBuf = c.fromBuf ++ cliTaken c e := by
  have h0 : cliDropped c e = 0 := by
    rcases h with h | h
    · exact cliDropped_of_room c e h
    · exact cliDropped_below_max c e hf h
  refine ⟨h0, ?_⟩
  rw [(cliRead_spec w c e).1, h0, List.drop_zero]

/-- **At the maximal size the oldest bytes give way — device.**  In general the number of bytes overwritten is the number
    of bytes read less the room there is after growing (or nothing); and when `MAX_DEV_BUF` unconsumed bytes are pending,
    a `read` asks for a chunk of 1000, takes what the kernel has of it, and exactly as many of the *oldest* pending bytes
    are lost: the buffer afterwards is the old one without its first `|readTaken c|` bytes, followed by what is kept of
    the bytes read (`device.c` logs "lost %d chars due to buffer wrap"; expects now see a stream with a hole). -/
theorem C09_overflow_drops_oldest (c : CS) :
    (readDropped c = (readTaken c).length - ((handleReady c).1.dev.fromSize - c.dev.fromBuf.length) ∨ readDropped c = 0) ∧
    (c.dev.fromSize = 65536 → c.dev.fromBuf.length = 65536 →
      readDropped c = (readTaken c).length ∧ (readTaken c).length ≤ 1000 ∧
      (∀ bs, c.env.read = some (some bs) → readTaken c = [] ∨ readTaken c = bs.take 1000) ∧
      (handleReady c).1.dev.fromBuf = c.dev.fromBuf.drop (readTaken c).length ++ keptOf c.dev (readTaken c)) := by
  refine ⟨readDropped_eq c, fun hs hfull => ?_⟩
  obtain ⟨h1, h2, h3⟩ := readDropped_full c hs hfull
  exact ⟨h1, h2, h3, by rw [handleReady_fromBuf, h1]⟩

/-- `Cap.Ex.fullPipe`: a connected coprocess device whose buffer holds 65536 unconsumed bytes (all `a`), readable, the kernel
    has `x y z`: the three oldest `a` are gone, the buffer is still 65536 bytes long and ends in `x y z` -/
example :
    Cap.Ex.fullPipe.dev.fromBuf = List.replicate 65536 97 ∧ Cap.Ex.fullPipe.dev.fromSize = 65536 ∧
    Cap.Ex.fullPipe.env.read = some (some [120, 121, 122]) ∧ DevCap Cap.Ex.fullPipe.dev ∧
    readDropped Cap.Ex.fullPipe = 3 ∧ readTaken Cap.Ex.fullPipe = [120, 121, 122] ∧
    (handleReady Cap.Ex.fullPipe).1.dev.fromBuf = List.replicate 65533 97 ++ [120, 121, 122] ∧
    (handleReady Cap.Ex.fullPipe).1.dev.fromSize = 65536 :=
  ⟨rfl, rfl, rfl, Cap.Ex.fullPipe_cap, Cap.Ex.fullPipe_spec.1, Cap.Ex.fullPipe_spec.2.1, Cap.Ex.fullPipe_spec.2.2.1,
    Cap.Ex.fullPipe_spec.2.2.2⟩

open Pm.Daemon Pm.Daemon.Cap in
/-- **At the maximal size the oldest bytes give way — client.**  (A client that sends a megabyte without a line feed.) -/
theorem C09_client_overflow_drops_oldest (w : W) (c : Cli) (e : FdEnv) :
    cliDropped c e = (cliTaken c e).length - (cliSizeAfter c e - c.fromBuf.length) ∧
    (c.fromSize = 1048576 → c.fromBuf.length = 1048576 →
      cliSizeAfter c e = 1048576 ∧ cliDropped c e = (cliTaken c e).length ∧
      cliTaken c e = (if e.rk == 1 || e.rk == 2 then [] else e.data.take 1000) ∧
      (cliRead w c (some e)).2.fromBuf = c.fromBuf.drop (cliTaken c e).length ++ cliTaken c e) := by
  refine ⟨cliDropped_eq c e, fun hs hfull => ?_⟩
  obtain ⟨h1, h2, h3⟩ := cli_full c e hs hfull
  exact ⟨h1, h2, h3, by rw [(cliRead_spec w c e).1, h2]⟩

/-- **The device's short write.**  The descriptor is reported writable (and not readable), the device is connected,
    something is queued and the `write` does not fail.  If the kernel takes `wcap ≥ 1` bytes, no error is reported, one
    `write` of the first `min wcap |toBuf|` bytes is logged, and these bytes followed by what stays queued are what was
    queued: nothing lost, repeated or reordered.  If it takes nothing (`wcap = 0`, `EAGAIN`), an empty write is logged, the
    queue is as it was and an i/o error is reported (`_handle_write`: `n < 0` — the caller reconnects, which flushes the
    queue: `C09_reconnect_clean`). -/
theorem C09_device_short_write (c : CS) (h : ReadyOk c) (hout : c.env.revents &&& 2 ≠ 0) (hin : c.env.revents &&& 1 = 0)
    (hc : c.dev.conn ≠ 1) (hb : c.dev.toBuf ≠ []) (hw : c.env.writeOk = true) :
    (c.env.wcap ≠ 0 → (handleReady c).2 = false ∧
      ∃ wr, wr ≠ [] ∧ wr.length = min c.env.wcap c.dev.toBuf.length ∧ (handleReady c).1.sys = c.sys ++ [.write wr true] ∧
        wr ++ (handleReady c).1.dev.toBuf = c.dev.toBuf) ∧
    (c.env.wcap = 0 → (handleReady c).2 = true ∧ (handleReady c).1.sys = c.sys ++ [.write [] true] ∧
      (handleReady c).1.dev.toBuf = c.dev.toBuf) :=
  short_write c h hout hin hc hb hw

/-- `on\n` queued, the descriptor takes two bytes: `on` goes out, the line feed waits -/
example :
    let c : CS := { dev := { dev0 with conn := 2, fd := some 7, toBuf := [111, 110, 10] },
                    env := { now := 0, revents := 2, sockets := [], connects := [], soerrs := [], read := none, writeOk := true,
                             wcap := 2 },
                    sys := [] }
    (handleReady c).1.dev.toBuf = [10] ∧ (handleReady c).2 = false ∧ devWritten (handleReady c).1.sys = [111, 110] := by
  decide
/-- the same with a descriptor that takes nothing: i/o error, nothing written, nothing lost (yet) -/
example :
    let c : CS := { dev := { dev0 with conn := 2, fd := some 7, toBuf := [111, 110, 10] },
                    env := { now := 0, revents := 2, sockets := [], connects := [], soerrs := [], read := none, writeOk := true,
                             wcap := 0 },
                    sys := [] }
    (handleReady c).1.dev.toBuf = [111, 110, 10] ∧ (handleReady c).2 = true := by decide

/-! ## 8. the capacity of the device output buffer

`dev->to = cbuf_create(MIN_DEV_BUF, MAX_DEV_BUF)` (device.c, `dev_create`) is a liblsd circular buffer in its default overwrite
mode (`CBUF_WRAP_MANY`): `cbuf_write` always stores all the bytes it is given, growing the buffer up to 65536 bytes, and beyond
that the oldest *unsent* bytes are overwritten (`cbuf_writer`: `dropped = n - nfree`).  Its writers are `_process_send` (which
logs "buffer overrun" and goes on: finding F33 was the assertion that used to be here) and `_telnet_sendopt` (a 3-byte answer to
every `IAC DO x` received); `_handle_write` drains it.  A tcp device that does not read while it floods `IAC DO x` fills it:
21 846 triples queue 65 538 bytes.  In the model `clipTo b` = the last 65536 bytes of `b` (`clipTo_eq_drop`) is applied where
these two queue their bytes; `toDropped old s = |old ++ s| - 65536` is the `dropped` count of the write. -/

/-- **The capacity is an invariant.**  `toBuf.length ≤ 65536` holds of the buffer of a new device (empty), is kept by
    `_handle_ready_device`, by `_process_action` (any fuel), by a whole `dev_post_poll` pass, by `_connect`, `_reconnect`
    (`_disconnect` empties the buffer), and hence over any run of passes, whatever the kernel and the regex engine answer. -/
theorem C09_device_out_capacity :
    (∀ c : CS, c.dev.toBuf.length ≤ 65536 → (handleReady c).1.dev.toBuf.length ≤ 65536) ∧
    (∀ (fuel : Nat) (c : CS) (o : Oracle) (out : List Out) (tmo : Option Time), c.dev.toBuf.length ≤ 65536 →
        (processActionF fuel c o out tmo).1.dev.toBuf.length ≤ 65536) ∧
    (∀ (c : CS) (o : Oracle) (out : List Out) (tmo : Option Time), c.dev.toBuf.length ≤ 65536 →
        (processAction c o out tmo).1.dev.toBuf.length ≤ 65536) ∧
    (∀ (d : Dev) (env : Env) (o : Oracle), d.toBuf.length ≤ 65536 → (postPoll d env o).1.dev.toBuf.length ≤ 65536) ∧
    (∀ c : CS, c.dev.toBuf.length ≤ 65536 → (connectDev c).dev.toBuf.length ≤ 65536) ∧
    (∀ (c : CS) (tmo : Option Time), c.dev.toBuf.length ≤ 65536 → (reconnectDev c tmo).1.dev.toBuf.length ≤ 65536) ∧
    (∀ (s : Dev × Bytes) (ps : List (Env × Oracle)), s.1.toBuf.length ≤ 65536 → (ps.foldl passStep s).1.toBuf.length ≤ 65536) :=
  ⟨Pm.Dev2.Login2.handleReady_cap, Pm.Dev2.Login2.processActionF_cap, Pm.Dev2.Login2.processAction_cap,
   Pm.Dev2.Login2.postPoll_cap, connectDev_cap, reconnectDev_cap, run_cap⟩

/-- the two writers never leave more than 65536 bytes queued, whatever was queued before (within the capacity or not) -/
theorem C09_device_out_capacity_writers (d : Dev) (a : Action) (o : Oracle) (e : ExecCtx) (fmt s bs : Bytes)
    (hp : e.processing = false) (hs : sendText fmt e.plugs = some s) :
    (stmtSend d a o e fmt).dev.toBuf.length ≤ 65536 ∧ (telnetFilter d bs).toBuf.length ≤ 65536 := by
  refine ⟨?_, Pm.Dev2.Login2.telnetFilter_cap d bs⟩
  rw [(Pm.Dev2.Interp.stmtSend_fresh d a o e fmt s hp hs).1]; exact clipTo_length_le _

/-- non-vacuity: a new device starts within the capacity; the full device of the witnesses is at it -/
example : dev0.toBuf.length ≤ 65536 ∧ fullDev.toBuf.length = 65536 := ⟨by decide, fullDev_len⟩

/-- **Nothing is lost below the maximum.**  A whole `dev_post_poll` pass in which what is queued, the telnet answers the pass
    can add (`readyReplies`: those to the bytes the `read` hands over on a tcp device) and the texts the pass's `send`
    statements queue fit the buffer together: what a successful `write` delivered in this pass (`wr`, a prefix of the queue,
    logged) followed by what is queued afterwards is exactly what was queued before, then the answers, then the texts, in
    this order — delivered ++ queued = everything queued — unless the pass disconnected (i/o error before `_process_action`: just
    the texts are queued; error branch of `_process_action`: the queue is empty). -/
theorem C09_device_out_no_loss_below_max (d : Dev) (env : Env) (o : Oracle)
    (hfit : d.toBuf.length + (readyReplies { dev := d, env := env, sys := [] }).length +
      (sentBytes (postPoll d env o).2.2.1).length ≤ 65536) :
    ∃ wr reply,
      (wr = [] ∨ Sys.write wr true ∈ (postPollReady d env).1.sys) ∧ wr <+: d.toBuf ∧
      (reply = [] ∨ ∃ bs, env.read = some (some bs) ∧ d.isPipe = false ∧
        reply = telnetReplies d.tstate d.tcmd (readOf d bs)) ∧
      (wr ++ (postPoll d env o).1.dev.toBuf = d.toBuf ++ reply ++ sentBytes (postPoll d env o).2.2.1 ∨
       ((postPoll d env o).1.dev.toBuf = sentBytes (postPoll d env o).2.2.1 ∧
          (postPollReady d env).2 = true ∧ (postPollReady d env).1.dev.conn ≠ 0) ∨
       ((postPoll d env o).1.dev.toBuf = [] ∧ (postPollPre d env).1.dev.conn = 2 ∧
          ((postPoll d env o).1.dev.conn ≠ 2 ∨
           (postPoll d env o).1.dev.retryCount = (postPollPre d env).1.dev.retryCount + 1))) :=
  postPoll_no_loss d env o hfit

/-- the same for one `_handle_ready_device` in the log's terms, with the criterion a trace can be checked against: whenever
    the buffer is *not full* afterwards (fewer than 65536 bytes queued), written-so-far ++ queued has only grown at its end -/
theorem C09_device_out_no_loss_not_full (c : CS) (hcap : c.dev.toBuf.length ≤ 65536)
    (hnf : (handleReady c).1.dev.toBuf.length < 65536) :
    ∃ bs, devWritten (handleReady c).1.sys ++ (handleReady c).1.dev.toBuf =
      devWritten c.sys ++ c.dev.toBuf ++ repliesOf c.dev bs := by
  obtain ⟨bs, h⟩ := handleReady_write_conserve_below c hcap
  exact ⟨bs, h (Or.inr hnf)⟩

/-- non-vacuity of the hypothesis of `C09_device_out_no_loss_below_max` (and the first case: three answer bytes are queued) -/
example :
    let d : Dev := { dev0 with conn := 2, fd := some 7, toBuf := [111, 110, 10] }
    let env : Env := { now := 0, revents := 1, sockets := [], connects := [], soerrs := [], read := some (some [255, 253, 1]), writeOk := true }
    d.toBuf.length + (readyReplies { dev := d, env := env, sys := [] }).length + (sentBytes (postPoll d env ⟨[]⟩).2.2.1).length = 6 ∧
    (postPoll d env ⟨[]⟩).1.dev.toBuf = [111, 110, 10, 255, 252, 1] := by decide +kernel

/-- **Beyond the maximum exactly the oldest queued bytes are lost** — the exact statement for each of the two writers and for
    `_handle_ready_device`.
    (1) A first-visit `send` of a text `s` of at most 65536 bytes: the `toDropped d.toBuf s = |toBuf| + |s| - 65536` oldest queued
    bytes give way and the text is queued whole; with the buffer exactly full (`|toBuf| = 65536`) that is exactly `|s|` bytes.
    (2) Of a text longer than the buffer only its last 65536 bytes are queued and nothing older stays.
    (3) The telnet answers to the bytes `bs` read: the same, with the answers in the place of the text.
    (4) `_handle_ready_device` with the descriptor readable and not writable, the buffer exactly full: the answers `r` to what was
    read push out exactly the `|r|` oldest queued bytes.
    Nothing else is lost, nothing is reordered: what stays is a suffix of what was queued, followed by what was written. -/
theorem C09_device_out_overflow_drops_oldest :
    (∀ (d : Dev) (a : Action) (o : Oracle) (e : ExecCtx) (fmt s : Bytes), e.processing = false → sendText fmt e.plugs = some s →
        s.length ≤ 65536 →
        (stmtSend d a o e fmt).dev.toBuf = d.toBuf.drop (toDropped d.toBuf s) ++ s ∧
        (d.toBuf.length = 65536 → (stmtSend d a o e fmt).dev.toBuf = d.toBuf.drop s.length ++ s)) ∧
    (∀ (d : Dev) (a : Action) (o : Oracle) (e : ExecCtx) (fmt s : Bytes), e.processing = false → sendText fmt e.plugs = some s →
        65536 ≤ s.length → (stmtSend d a o e fmt).dev.toBuf = s.drop (s.length - 65536)) ∧
    (∀ (d : Dev) (bs : Bytes), (telnetReplies d.tstate d.tcmd bs).length ≤ 65536 →
        (telnetFilter d bs).toBuf =
          d.toBuf.drop (toDropped d.toBuf (telnetReplies d.tstate d.tcmd bs)) ++ telnetReplies d.tstate d.tcmd bs ∧
        (d.toBuf.length = 65536 → (telnetFilter d bs).toBuf =
          d.toBuf.drop (telnetReplies d.tstate d.tcmd bs).length ++ telnetReplies d.tstate d.tcmd bs)) ∧
    (∀ (c : CS) (bs : Bytes), ReadyOk c → c.env.revents &&& 2 = 0 → c.env.revents &&& 1 ≠ 0 →
        c.env.read = some (some bs) → bs ≠ [] → c.dev.toBuf.length = 65536 →
        (repliesOf c.dev (readOf c.dev bs)).length ≤ 65536 →
        (handleReady c).1.dev.toBuf =
          c.dev.toBuf.drop (repliesOf c.dev (readOf c.dev bs)).length ++ repliesOf c.dev (readOf c.dev bs)) :=
  ⟨fun d a o e fmt s hp hs hl => ⟨stmtSend_drops_oldest d a o e fmt s hp hs hl, fun hf => stmtSend_full d a o e fmt s hp hs hf hl⟩,
   fun d a o e fmt s hp hs hl => by rw [stmtSend_long d a o e fmt s hp hs hl, clipTo_eq_drop],
   fun d bs hl => ⟨telnetFilter_drops_oldest d bs hl, fun hf => telnetFilter_full d bs hf hl⟩,
   fun c bs h hout hin hr hbs hf hl => handleReady_read_full c bs h hout hin hr hbs hf hl⟩

/-- the `dropped` count is what `cbuf_write` reports: `max 0 (|old| + |s| - 65536)`, positive exactly when the write overruns -/
theorem C09_device_out_dropped (old s : Bytes) :
    toDropped old s = old.length + s.length - 65536 ∧ (toOverrun old s = true ↔ 0 < toDropped old s) :=
  ⟨by unfold toDropped; rw [List.length_append], toOverrun_iff old s⟩

/-- non-vacuity, (1) and (4) at the limit: against 65536 queued bytes a `send "l\n"` loses the two oldest, an `IAC DO ECHO`
    read (answer `IAC WONT ECHO`) loses the three oldest -/
example (a : Action) (o : Oracle) :
    (stmtSend fullDev a o sendCtx [108, 10]).dev.toBuf = fullDev.toBuf.drop 2 ++ [108, 10] ∧
    (handleReady stormC).1.dev.toBuf = (List.replicate 65536 7).drop 3 ++ [255, 252, 1] :=
  ⟨(send_append_counterexample a o).2.2.2, stormC_toBuf⟩

/-- **The old statement of the write side is false beyond 64 KiB.**  `C09_device_write_conserved` read, before the capacity was
    modelled, "written so far ++ queued only grows at its end, by the answers to what was read".  On the full device whose
    descriptor delivers one `IAC DO ECHO` and is not writable there is no `bs` for which this holds: three queued bytes are gone.
    (The C code does the same: the correspondence run reaches this state with a telnet storm, `lib/daemon.py`.) -/
theorem C09_device_write_conserved_old_counterexample :
    stormC.dev.toBuf.length ≤ 65536 ∧
    ¬ ∃ bs, devWritten (handleReady stormC).1.sys ++ (handleReady stormC).1.dev.toBuf =
      devWritten stormC.sys ++ stormC.dev.toBuf ++ repliesOf stormC.dev bs :=
  ⟨Nat.le_of_eq fullDev_len, write_conserved_old_counterexample⟩

/-! ## 9. the ring: `liblsd/cbuf.c` at index level refines the byte queue

`Pm/CbufRing.lean` mirrors `cbuf.c` line by line with its indices (compared with the real code op by op by
`lib/cbuflayer.py`).  `Ring.valid` is `cbuf_is_valid` (every assertion of it); `Ring.contents` reads the unread bytes off
the array from `i_out` to `i_in` modulo `size + 1`.  The theorems below say that, for **every** ring state that satisfies
`cbuf_is_valid` — any size, any fill level, wrapped or not, with or without replay region — every operation keeps
`cbuf_is_valid`, fires none of the other assertions of `cbuf.c`, and does to `contents` what a plain byte queue with the
documented overwrite rule does; the size follows `Pm.Cbuf.growTo`, the rule the daemon model of section 7 uses.
Descriptors are inputs: `Src` / `Dst` say what each `read` / `write` call will answer, so "for all short reads and short
writes" is a universal quantifier.  Not modelled: `int` overflow (sizes are naturals), `realloc` failure, the replay
functions (unused by powerman; `i_rep` and `got_wrap` are maintained and their assertions proved). -/

section ring
open Pm.CbufRing

/-- eight slots (+ the sentinel), six bytes written, five dropped, five more written: the unread bytes `6 7 \n 9 \n 11` lie
    across the end of the array (`i_out = 5`, `i_in = 2`) — the ring the examples below use -/
def wrappedRing : Ring :=
  match CbufRing.create 8 8 with
  | none => default
  | some r => (CbufRing.write (CbufRing.drop (CbufRing.write r [1, 2, 3, 4, 5, 6]).ring 5).2.1 [7, 10, 9, 10, 11]).ring

example : wrappedRing.valid = true ∧ wrappedRing.size = 8 ∧ wrappedRing.i_out = 5 ∧ wrappedRing.i_in = 2 ∧ wrappedRing.used = 6 ∧
    wrappedRing.contents = [6, 7, 10, 9, 10, 11] := by decide

/-- the same with room to CbufRing.grow (8 → 32), wrapped, full: the next write must CbufRing.grow a wrapped ring -/
def wrappedFull : Ring :=
  match CbufRing.create 8 32 with
  | none => default
  | some r => (CbufRing.write (CbufRing.drop (CbufRing.write r [1, 2, 3, 4, 5, 6]).ring 5).2.1 [7, 10, 9, 10, 11, 12, 13]).ring

example : wrappedFull.valid = true ∧ wrappedFull.size = 8 ∧ wrappedFull.used = 8 ∧ wrappedFull.i_out = 5 ∧ wrappedFull.i_in = 4 ∧
    wrappedFull.contents = [6, 7, 10, 9, 10, 11, 12, 13] := by decide

/-- `cbuf_create (min, max)` with `min > 0` gives a ring that satisfies `cbuf_is_valid`, holds nothing, has size `min`
    and limit `max (min, max)`, in mode `CBUF_WRAP_MANY`. -/
theorem C09_ring_create (mn mx : Int) (h : 0 < mn) :
    ∃ r, CbufRing.create mn mx = some r ∧ r.valid = true ∧ r.contents = [] ∧ r.size = mn.toNat ∧ r.minsize = mn.toNat ∧
      r.maxsize = (if mx > mn then mx.toNat else mn.toNat) ∧ r.overwrite = .wrapMany := by
  obtain ⟨r, hr⟩ := create_some mn mx h
  have hf := create_fields mn mx r hr
  exact ⟨r, hr, (valid_iff r).mpr (create_valid mn mx r hr), create_contents mn mx r hr, hf.1, hf.2.1, hf.2.2.1, hf.2.2.2.2⟩

example : ∃ r, CbufRing.create 1024 65536 = some r ∧ r.size = 1024 ∧ r.maxsize = 65536 := by
  obtain ⟨r, h1, _, _, h2, _, h3, _⟩ := C09_ring_create 1024 65536 (by decide)
  exact ⟨r, h1, h2, h3⟩

/-- **The assertions of `cbuf.c` can never fire.**  Start from any ring that satisfies `cbuf_is_valid` (for instance a
    fresh one) and make any sequence of calls of the API powerman uses — `cbuf_opt_set`, `cbuf_flush`, `cbuf_drop`,
    `cbuf_peek`, `cbuf_write`, `cbuf_write_from_fd`, `cbuf_read_to_fd`, `cbuf_read_line` — with any arguments, any data, any
    answers of the descriptors: `cbuf_is_valid` holds at the end (hence after every call), and every assertion evaluated
    on the way (`cbuf_is_valid` at entry and exit, and the inner ones: `len > 0`, `len <= cb->used` in `cbuf_dropper`,
    `i_dst == (i_in + n) % (size + 1)` in `cbuf_writer`, `m > cb->alloc` in `cbuf_grow`, `l == m` in `cbuf_read_line`, …) held. -/
theorem C09_ring_asserts_never_fire (r : Ring) (ops : List CbufRing.Op) (h : r.valid = true) :
    (CbufRing.run r ops).1.valid = true ∧ (CbufRing.run r ops).2 = true :=
  ⟨(valid_iff _).mpr (run_valid r ops ((valid_iff r).mp h)).1, (run_valid r ops ((valid_iff r).mp h)).2⟩

example : (CbufRing.run wrappedFull [.wr [1, 2, 3], .rdFd (-1) { out := [], caps := [2, -1] }, .wrFd (-1) { avail := [9, 9], caps := [1], eof := false },
    .rdLine 100 1, .dropN 1000, .flushAll]).2 = true := by decide

/-- Through any call the limits stay what they were and the size never shrinks (`cbuf_shrink` is not implemented). -/
theorem C09_ring_size_monotone (r : Ring) (op : CbufRing.Op) (h : r.valid = true) :
    (op.apply r).1.maxsize = r.maxsize ∧ (op.apply r).1.minsize = r.minsize ∧ r.size ≤ (op.apply r).1.size ∧
      (op.apply r).1.size ≤ r.maxsize := by
  have hv := (valid_iff r).mp h
  have h1 := Op.apply_size r op hv
  have h2 := (Op.apply_valid r op hv).1.le_max
  exact ⟨h1.1, h1.2.1, h1.2.2, by rw [← h1.1]; exact h2⟩

/-- `cbuf_peek (cb, buf, len)`: `min len used` is returned and `buf` receives exactly the first `len` unread bytes, also
    when they lie across the end of the array (two `memcpy`s); the ring is not touched (the model's `peek` returns no
    ring: `cbuf_reader` only reads it — the harness confirms this on the real code after every peek). -/
theorem C09_ring_peek (r : Ring) (len : Int) (h : r.valid = true) (hl : 0 ≤ len) :
    CbufRing.peek r len = (((min len.toNat r.used : Nat) : Int), r.contents.take len.toNat, true) := by
  obtain ⟨h1, _, h3⟩ := peek_spec r len ((valid_iff r).mp h)
  obtain ⟨h4, h5⟩ := h3 hl
  exact Prod.ext h4 (Prod.ext h5 h1)

/-- four bytes from `i_out = 5` in an array of nine slots: `6 7 \n 9` with the wrap after the third -/
example : CbufRing.peek wrappedRing 5 = (5, [6, 7, 10, 9, 10], true) := by decide

/-- `cbuf_drop (cb, len)`: `min len used` (`used` for -1) is returned and exactly that many of the oldest unread bytes
    are gone; the rest is unchanged and in order. -/
theorem C09_ring_drop (r : Ring) (len : Int) (h : r.valid = true) (hl : -1 ≤ len) :
    (CbufRing.drop r len).1 = (dropCount r len : Nat) ∧
    (CbufRing.drop r len).2.1.contents = r.contents.drop (dropCount r len) ∧ dropCount r len ≤ r.used := by
  obtain ⟨_, _, _, h4⟩ := drop_spec r len ((valid_iff r).mp h)
  exact ⟨(h4 hl).1, (h4 hl).2, by unfold dropCount; split <;> omega⟩

example : (CbufRing.drop wrappedRing 4).2.1.contents = [10, 11] ∧ (CbufRing.drop wrappedRing 4).2.1.i_out = 0 := by decide
example : (CbufRing.drop wrappedRing 100).1 = 6 ∧ (CbufRing.drop wrappedRing 100).2.1.contents = [] := by decide

/-- `cbuf_read_to_fd (cb, fd, len)` — "bytes queued for a device or client are delivered exactly once and in order
    however the writes are split": whatever each `write` call on the descriptor accepts (everything, a part, nothing,
    an error; the first piece up to the end of the array and then an error on the second …), if the return value is
    `n > 0` then exactly the first `n` unread bytes were written to the descriptor, in order, and exactly these `n` left
    the ring; if the return value is `≤ 0` nothing was written and the ring is as it was.  So what was written so far
    followed by what is still unread is always what was queued. -/
theorem C09_ring_read_to_fd (r : Ring) (len : Int) (d : Dst) (h : r.valid = true) (hl : -1 ≤ len) :
    (0 < (CbufRing.readToFd r len d).1 →
      (CbufRing.readToFd r len d).1 ≤ (min (readLen r len) r.used : Nat) ∧
      (CbufRing.readToFd r len d).2.2.1.out = d.out ++ r.contents.take (CbufRing.readToFd r len d).1.toNat ∧
      (CbufRing.readToFd r len d).2.1.contents = r.contents.drop (CbufRing.readToFd r len d).1.toNat) ∧
    ((CbufRing.readToFd r len d).1 ≤ 0 → (CbufRing.readToFd r len d).2.2.1.out = d.out ∧ (CbufRing.readToFd r len d).2.1 = r) ∧
    (CbufRing.readToFd r len d).2.2.1.out ++ (CbufRing.readToFd r len d).2.1.contents = d.out ++ r.contents := by
  obtain ⟨_, _, _, h4⟩ := readToFd_spec r len d ((valid_iff r).mp h)
  obtain ⟨h5, h6, h7⟩ := h4 hl
  refine ⟨fun hp => ⟨h5, (h6 hp).1, (h6 hp).2⟩, h7, ?_⟩
  by_cases hp : 0 < (CbufRing.readToFd r len d).1
  · rw [(h6 hp).1, (h6 hp).2, List.append_assoc, List.take_append_drop]
  · rw [(h7 (by omega)).1, (h7 (by omega)).2]

/-- the descriptor takes the first piece (`6 7 \n 9`, up to the end of the array) and refuses the second `write`: four
    bytes are reported and gone, `\n 11` stays -/
example : (CbufRing.readToFd wrappedRing (-1) { out := [], caps := [4, -1] }).1 = 4 ∧
    (CbufRing.readToFd wrappedRing (-1) { out := [], caps := [4, -1] }).2.2.1.out = [6, 7, 10, 9] ∧
    (CbufRing.readToFd wrappedRing (-1) { out := [], caps := [4, -1] }).2.1.contents = [10, 11] := by decide
/-- both pieces go out with two `write` calls -/
example : (CbufRing.readToFd wrappedRing (-1) { out := [], caps := [] }).2.2.1.out = [6, 7, 10, 9, 10, 11] := by decide
/-- a descriptor that takes nothing: -1, nothing lost -/
example : (CbufRing.readToFd wrappedRing (-1) { out := [], caps := [-1] }).1 = -1 ∧
    (CbufRing.readToFd wrappedRing (-1) { out := [], caps := [-1] }).2.1.contents = wrappedRing.contents := by decide

/-- `cbuf_grow (cb, n)`, `n > 0`: the unread bytes are the same before and after, also when the ring is wrapped and the
    part from `i_rep` to the old end of the array is moved to the new end (`memmove`, `i_out` and `i_rep` relocated); the
    new size is `Pm.Cbuf.growTo size n maxsize` — the size rule of the daemon model — and the return value is the
    difference. -/
theorem C09_ring_grow (r : Ring) (n : Nat) (h : r.valid = true) (hn : 0 < n) :
    (CbufRing.grow r n).1.valid = true ∧ (CbufRing.grow r n).2.2 = true ∧ (CbufRing.grow r n).1.contents = r.contents ∧
    (CbufRing.grow r n).1.size = Pm.Cbuf.growTo r.size n r.maxsize ∧ (CbufRing.grow r n).2.1 = Pm.Cbuf.growTo r.size n r.maxsize - r.size ∧
    (CbufRing.grow r n).1.used = r.used := by
  have hv := (valid_iff r).mp h
  obtain ⟨g1, g2, g3, g4, g5, g6, _⟩ := grow_spec r n hv hn
  rw [grownSize_eq_growTo r n hv] at g4 g5
  exact ⟨(valid_iff _).mpr g1, g2, g3, g4, g5, g6⟩

/-- a wrapped, full ring of 8 grows to 32: `8 6 7` at the end of the old array move to the end of the new one -/
example : (CbufRing.grow wrappedFull 3).1.size = 32 ∧ (CbufRing.grow wrappedFull 3).1.i_out = 29 ∧ (CbufRing.grow wrappedFull 3).1.i_in = 4 ∧
    (CbufRing.grow wrappedFull 3).1.contents = wrappedFull.contents := by decide

/-- `cbuf_write (cb, src, len, &dropped)` in every overwrite mode.  The buffer first grows (if `len` exceeds the free
    space and `size < maxsize`) to `sizeAfter` = `growTo`; with `l` the length the mode allows (`clipOf`: all of it for
    `CBUF_WRAP_MANY`, at most `size` for `CBUF_WRAP_ONCE`, at most the free space for `CBUF_NO_DROP`) the return value is `l`,
    the unread bytes are the old ones followed by the first `l` bytes of `src`, minus the oldest `used + l - size` if that
    is positive, and exactly that number is stored in `dropped`. -/
theorem C09_ring_write (r : Ring) (src : List UInt8) (l : Nat) (h : r.valid = true)
    (hc : clipOf r.overwrite (sizeAfter r src.length) r.used src.length = some l) :
    (CbufRing.write r src).rc = (l : Nat) ∧
    (CbufRing.write r src).ring.contents =
      (r.contents ++ src.take l).drop (r.used + l - min (r.used + l) (sizeAfter r src.length)) ∧
    (CbufRing.write r src).ndropped = r.used + l - sizeAfter r src.length ∧
    (CbufRing.write r src).ring.size = sizeAfter r src.length :=
  let w := write_spec r src ((valid_iff r).mp h)
  ⟨(w.2.2.2.2.2.2.2 l hc).1, (w.2.2.2.2.2.2.2 l hc).2.1, (w.2.2.2.2.2.2.2 l hc).2.2.1, w.2.2.1⟩

/-- The mode powerman runs in (`CBUF_WRAP_MANY`, the default; it never calls `cbuf_opt_set`): everything is written; what
    is unread afterwards is the old unread bytes followed by the new ones with the oldest `dropped` bytes removed, where
    `dropped = used + len - size'`; and bytes are dropped **only** by a buffer that has reached `maxsize`. -/
theorem C09_ring_write_wrap_many (r : Ring) (src : List UInt8) (h : r.valid = true) (hm : r.overwrite = .wrapMany) :
    (CbufRing.write r src).rc = (src.length : Nat) ∧
    (CbufRing.write r src).ring.contents = (r.contents ++ src).drop (CbufRing.write r src).ndropped ∧
    (CbufRing.write r src).ndropped = r.used + src.length - (CbufRing.write r src).ring.size ∧
    (0 < (CbufRing.write r src).ndropped → (CbufRing.write r src).ring.size = r.maxsize) ∧
    (r.used + src.length ≤ r.maxsize → (CbufRing.write r src).ndropped = 0 ∧
      (CbufRing.write r src).ring.contents = r.contents ++ src) := by
  have hv := (valid_iff r).mp h
  have hc : clipOf r.overwrite (sizeAfter r src.length) r.used src.length = some src.length := by rw [hm]; rfl
  obtain ⟨w1, w2, w3, w4⟩ := C09_ring_write r src src.length h hc
  rw [List.take_length] at w2
  have hd : r.used + src.length - min (r.used + src.length) (sizeAfter r src.length) = r.used + src.length - sizeAfter r src.length := by omega
  rw [hd] at w2
  refine ⟨w1, by rw [w2, w3], by rw [w3, w4], fun hp => ?_, fun hfit => ?_⟩
  · rw [w4]; exact sizeAfter_max_of_lt r src.length hv (by omega)
  · have := sizeAfter_fits r src.length hv hfit
    have h0 : r.used + src.length - sizeAfter r src.length = 0 := by omega
    exact ⟨by rw [w3, h0], by rw [w2, h0]; rfl⟩

/-- **The ring is a byte queue bounded by `maxsize`** (default mode): after `cbuf_write` of `src` the unread bytes are the
    last `maxsize` bytes of (old unread bytes ++ `src`) — all of them if they are no more than `maxsize` — and the number
    reported dropped is `used + len - maxsize`: the growth steps, the position of the data in the array, wraps and
    re-layouts are invisible.  This is the rule the plain Python queue of `lib/cbuflayer.py` checks on the real code. -/
theorem C09_ring_write_is_queue (r : Ring) (src : List UInt8) (h : r.valid = true) (hm : r.overwrite = .wrapMany) :
    (CbufRing.write r src).rc = (src.length : Nat) ∧
    (CbufRing.write r src).ndropped = r.used + src.length - r.maxsize ∧
    (CbufRing.write r src).ring.contents = (r.contents ++ src).drop (r.used + src.length - r.maxsize) := by
  have hv := (valid_iff r).mp h
  obtain ⟨w1, w2, w3, _, _⟩ := C09_ring_write_wrap_many r src h hm
  have hc : clipOf r.overwrite (sizeAfter r src.length) r.used src.length = some src.length := by rw [hm]; rfl
  have hsz := (C09_ring_write r src src.length h hc).2.2.2
  rw [hsz] at w3
  have hd := dropped_eq r src.length src.length hv (Nat.le_refl _)
  exact ⟨w1, by rw [w3, hd], by rw [w2, w3, hd]⟩

/-- the wrapped ring of 8 with 6 unread takes 4 more bytes: it is at its maximum, the two oldest bytes go -/
example : (CbufRing.write wrappedRing [21, 22, 23, 24]).ndropped = 2 ∧
    (CbufRing.write wrappedRing [21, 22, 23, 24]).ring.contents = [10, 9, 10, 11, 21, 22, 23, 24] := by decide
/-- 30 bytes into a ring of 8: the copy loop goes round the array four times, the last 8 bytes stay -/
example : (CbufRing.write wrappedRing (List.range 30 |>.map UInt8.ofNat)).ring.contents = [22, 23, 24, 25, 26, 27, 28, 29] ∧
    (CbufRing.write wrappedRing (List.range 30 |>.map UInt8.ofNat)).ndropped = 28 := by decide
/-- the full wrapped ring that may still grow: it grows (wrapped) and nothing is lost -/
example : (CbufRing.write wrappedFull [21, 22, 23]).ndropped = 0 ∧ (CbufRing.write wrappedFull [21, 22, 23]).ring.size = 32 ∧
    (CbufRing.write wrappedFull [21, 22, 23]).ring.contents = [6, 7, 10, 9, 10, 11, 12, 13, 21, 22, 23] := by decide
/-- `CBUF_NO_DROP` on a buffer that cannot grow: only what fits is written -/
example : (CbufRing.write (CbufRing.optSet wrappedRing 0).2 [21, 22, 23, 24]).rc = 2 ∧
    (CbufRing.write (CbufRing.optSet wrappedRing 0).2 [21, 22, 23, 24]).ring.contents = [6, 7, 10, 9, 10, 11, 21, 22] := by decide

/-- `cbuf_write_from_fd (cb, fd, len, &dropped)` — "exactly the byte stream the device sent, in order, nothing lost or
    duplicated while unconsumed data stays within buffer capacity, independent of how the stream was split into reads":
    whatever each `read` call hands out (short reads, `EAGAIN`, end of file), a return value `n > 0` means that exactly the
    next `n` bytes of the descriptor were consumed and appended to the unread bytes — after which the oldest
    `dropped = used + n - maxsize` are gone (0 while the unread data stays within `maxsize`) — and what the descriptor still
    holds is the rest; a return value `≤ 0` means nothing was consumed and nothing changed but (possibly) the size: the
    buffer grows *before* the first `read`. -/
theorem C09_ring_write_from_fd (r : Ring) (len : Int) (s : Src) (h : r.valid = true) (hl : -1 ≤ len) :
    (CbufRing.writeFromFd r len s).ring.size = sizeAfter r (fdLen r len) ∧
    ((CbufRing.writeFromFd r len s).rc ≤ 0 →
      (CbufRing.writeFromFd r len s).ring.contents = r.contents ∧ (CbufRing.writeFromFd r len s).g.pending = s.avail ∧
      (CbufRing.writeFromFd r len s).ndropped = 0) ∧
    (0 < (CbufRing.writeFromFd r len s).rc →
      ∃ n, (CbufRing.writeFromFd r len s).rc = (n : Nat) ∧ n ≤ fdLen r len ∧ n ≤ s.avail.length ∧
        (CbufRing.writeFromFd r len s).ring.contents =
          (r.contents ++ s.avail.take n).drop (CbufRing.writeFromFd r len s).ndropped ∧
        (CbufRing.writeFromFd r len s).g.pending = s.avail.drop n ∧
        (CbufRing.writeFromFd r len s).ndropped = r.used + n - r.maxsize ∧
        (0 < (CbufRing.writeFromFd r len s).ndropped → sizeAfter r (fdLen r len) = r.maxsize)) := by
  have hv := (valid_iff r).mp h
  obtain ⟨_, _, _, h4⟩ := writeFromFd_spec r len s hv
  obtain ⟨f1, _, _, _, f5, f6⟩ := h4 hl
  refine ⟨f1, f5, fun hp => ?_⟩
  obtain ⟨n, n1, n2, n3, n4, n5, n6, n7, n8⟩ := f6 hp
  refine ⟨n, n1, n3, n4, ?_, n7, by rw [n8]; exact dropped_eq r _ n hv n3, fun hd => ?_⟩
  · rw [n6, n8]; congr 1; omega
  · rw [n8] at hd
    by_cases hfit : r.used + fdLen r len ≤ r.maxsize
    · have := sizeAfter_fits r (fdLen r len) hv hfit; omega
    · have hlt : sizeAfter r (fdLen r len) < r.used + fdLen r len := by
        have := (growStep_spec r (fdLen r len) hv).2.2.2.2.2.2.2.2.2.2; omega
      exact sizeAfter_max_of_lt r (fdLen r len) hv hlt

/-- a descriptor with five bytes that hands out at most two per `read`: the wrapped ring (2 free of 8) asks for 2 and gets
    them with one call; the other three stay in the descriptor -/
example : (CbufRing.writeFromFd wrappedRing (-1) { avail := [31, 32, 33, 34, 35], caps := [2], eof := false }).rc = 2 ∧
    (CbufRing.writeFromFd wrappedRing (-1) { avail := [31, 32, 33, 34, 35], caps := [2], eof := false }).ring.contents = [6, 7, 10, 9, 10, 11, 31, 32] ∧
    (CbufRing.writeFromFd wrappedRing (-1) { avail := [31, 32, 33, 34, 35], caps := [2], eof := false }).g.pending = [33, 34, 35] := by decide

/-- **The tie to sections 1–7.**  For the call the daemon makes — `cbuf_write_from_fd (cb, fd, -1, &dropped)`, default
    mode, the descriptor handing out what it has — the ring's size afterwards, the byte count and the dropped count are
    exactly `Pm.Cbuf.readPlan size used maxsize avail`, the rule the daemon model applies to its byte-list buffers
    (`C09_capacity`, `C09_no_loss_below_max`, `C09_overflow_drops_oldest`). -/
theorem C09_ring_read_plan (r : Ring) (s : Src) (h : r.valid = true) (hm : r.overwrite = .wrapMany) (hc : s.caps = []) :
    (CbufRing.writeFromFd r (-1) s).ring.size = (Pm.Cbuf.readPlan r.size r.used r.maxsize s.avail.length).2.1 ∧
    (0 < (Pm.Cbuf.readPlan r.size r.used r.maxsize s.avail.length).1 →
      (CbufRing.writeFromFd r (-1) s).rc = ((Pm.Cbuf.readPlan r.size r.used r.maxsize s.avail.length).1 : Nat) ∧
      (CbufRing.writeFromFd r (-1) s).ndropped = (Pm.Cbuf.readPlan r.size r.used r.maxsize s.avail.length).2.2) ∧
    ((Pm.Cbuf.readPlan r.size r.used r.maxsize s.avail.length).1 = 0 →
      (CbufRing.writeFromFd r (-1) s).rc ≤ 0 ∧ (CbufRing.writeFromFd r (-1) s).ndropped = 0) :=
  writeFromFd_readPlan r s ((valid_iff r).mp h) hm hc

/-- the full wrapped ring asks for a chunk of 1000, grows to its maximum of 32 first, and reads what is there -/
example : Pm.Cbuf.readPlan 8 8 32 5 = (5, 32, 0) ∧
    (CbufRing.writeFromFd wrappedFull (-1) { avail := [1, 2, 3, 4, 5], caps := [], eof := false }).rc = 5 ∧
    (CbufRing.writeFromFd wrappedFull (-1) { avail := [1, 2, 3, 4, 5], caps := [], eof := false }).ring.size = 32 := by decide

/-- `cbuf_read_line (cb, buf, len, lines)`: the return value is what `cbuf_find_unread_line` finds on the unread bytes
    (`findLineSpec`: for `lines > 0` the bytes up to and including the `lines`-th line feed, or 0 if there are fewer —
    all or none; for -1 the complete lines among the first `len - 1` bytes); `buf` receives the first `min n (len - 1)` of
    these bytes and exactly the first `n` unread bytes leave the ring (a line longer than `buf` is cut and its tail
    discarded, as `cbuf.h` documents); with `n = 0` nothing changes. -/
theorem C09_ring_read_line (r : Ring) (len lines : Int) (h : r.valid = true) (hl : 0 ≤ len) (hn : 1 ≤ lines ∨ lines = -1) :
    (CbufRing.readLine r len lines).1 = ((findLineSpec r.contents (len - 1) lines).1 : Nat) ∧
    (CbufRing.readLine r len lines).2.2.1.contents = r.contents.drop (findLineSpec r.contents (len - 1) lines).1 ∧
    (0 < (findLineSpec r.contents (len - 1) lines).1 → 0 < len →
      (CbufRing.readLine r len lines).2.1 = some (r.contents.take (min (findLineSpec r.contents (len - 1) lines).1 (len - 1).toNat))) ∧
    (findLineSpec r.contents (len - 1) lines).1 ≤ r.used := by
  have hv := (valid_iff r).mp h
  obtain ⟨_, _, _, h4⟩ := readLine_spec r len lines hv
  obtain ⟨s1, s2, s3⟩ := h4 (by omega)
  have h0 : ¬ lines = 0 := by omega
  simp only [h0, ↓reduceIte] at s1 s2
  refine ⟨s1, s2, fun hp hlen => ?_, ?_⟩
  · rw [s3]; simp [h0, hp, hlen]
  · have := findLineSpec_le r.contents (len - 1) lines
    rw [hv.contents_length] at this; exact this

/-- The call `client.c` makes (`lines = 1`): if the unread bytes contain a line feed, the first line — everything up to
    and including it — is returned in `buf` and leaves the ring, wherever in the array it lies; otherwise 0 is returned
    and nothing changes. -/
theorem C09_ring_read_one_line (r : Ring) (len : Int) (h : r.valid = true) (hl : 0 ≤ len) :
    (10 ∈ r.contents → ((r.contents.takeWhile (· != 10)).length + 1 : Nat) < len →
      (CbufRing.readLine r len 1).1 = (((r.contents.takeWhile (· != 10)).length + 1 : Nat) : Int) ∧
      (CbufRing.readLine r len 1).2.1 = some (r.contents.takeWhile (· != 10) ++ [10]) ∧
      (CbufRing.readLine r len 1).2.2.1.contents = (r.contents.dropWhile (· != 10)).drop 1) ∧
    (10 ∉ r.contents → (CbufRing.readLine r len 1).1 = 0 ∧ (CbufRing.readLine r len 1).2.1 = none ∧
      (CbufRing.readLine r len 1).2.2.1.contents = r.contents) :=
  readLine_one r len ((valid_iff r).mp h) hl

/-- the line `6 7 \n` starts at slot 5 of 9 and ends at slot 7; the next one, `9 \n`, lies across the end of the array -/
example : (CbufRing.readLine wrappedRing 100 1).1 = 3 ∧ (CbufRing.readLine wrappedRing 100 1).2.1 = some [6, 7, 10] ∧
    (CbufRing.readLine wrappedRing 100 1).2.2.1.contents = [9, 10, 11] := by decide
example : (CbufRing.readLine (CbufRing.readLine wrappedRing 100 1).2.2.1 100 1).2.1 = some [9, 10] ∧
    (CbufRing.readLine (CbufRing.readLine wrappedRing 100 1).2.2.1 100 1).2.2.1.contents = [11] := by decide
/-- two lines at once, all or none -/
example : (CbufRing.readLine wrappedRing 100 2).1 = 5 ∧ (CbufRing.readLine wrappedRing 100 3).1 = 0 := by decide
/-- a buffer of 3 for a line of 3: two bytes and the NUL fit, the line feed is dropped with the line -/
example : (CbufRing.readLine wrappedRing 3 1).1 = 3 ∧ (CbufRing.readLine wrappedRing 3 1).2.1 = some [6, 7] ∧
    (CbufRing.readLine wrappedRing 3 1).2.2.1.contents = [9, 10, 11] := by decide

/-- `cbuf_flush` empties the ring and keeps it valid (this is what a reconnect does to both buffers of a device). -/
theorem C09_ring_flush (r : Ring) (h : r.valid = true) : (CbufRing.flush r).valid = true ∧ (CbufRing.flush r).contents = [] :=
  ⟨(valid_iff _).mpr (flush_valid r ((valid_iff r).mp h)), flush_contents r ((valid_iff r).mp h)⟩

example : (CbufRing.flush wrappedRing).contents = [] ∧ (CbufRing.flush wrappedRing).i_in = 0 := by decide

end ring

end Pm.Props.C09

/-! ## 10. Serial devices (`device_serial.c`)

Between a serial device and the buffers of sections 1–7 sits the kernel's tty line discipline, configured by
`_serial_setup`.  `Pm/Serial.lean` models the flags string (`sscanf`), `_serial_setup` edit by edit over this platform's
`termios` constants (generated), and what the Linux line discipline does to bytes as a function of the flags
(`ttyOut`, `ttyIn`: output post-processing, input mapping, flow-control and signal characters, canonical editing, echo);
the correspondence layer `serial` runs the real code on a pseudo-terminal and pushes bytes through the real kernel.
All statements are for **every** previous state of the tty and every byte string. -/
namespace Pm.Props.C09
open Pm.Serial Pm.Generated.Termios

/-- the settings of a freshly opened Linux tty (`tty_std_termios`): `ICRNL IXON`, `OPOST ONLCR`, `B38400 CS8 CREAD`,
    `ISIG ICANON ECHO ECHOE ECHOK ECHOCTL ECHOKE IEXTEN` -/
def cookedTty : Termios := { iflag := 0x500, oflag := 5, cflag := 0xbf, lflag := 0x8a3b }

/-- **Daemon → device, raw.**  Whatever state the tty was in and whatever (accepted) parameters are asked for, after
    `_serial_setup` every byte string written reaches the line exactly as written: no CR inserted before LF, no CR↔NL
    mapping, no tab expansion, no case mapping, NUL and 0xFF included. -/
theorem C09_serial_raw_out (t t' : Termios) (p : Params) (h : serialSetup t p = some t') (bs : Bytes) :
    ttyOut t' bs = bs :=
  ttyOut_raw (serialSetup_raw h).2.2 bs

/-- **Device → daemon, raw.**  After `_serial_setup` every byte string that arrives is handed to `read` exactly as it
    arrived, and nothing is echoed back to the device: no CR/NL mapping, no stripping of the eighth bit, XON/XOFF, ^C, ^\, ^Z,
    DEL, ^D, NUL and 0xFF are data, nothing waits for an end of line. -/
theorem C09_serial_raw_in (t t' : Termios) (p : Params) (h : serialSetup t p = some t') (bs : Bytes) :
    ttyIn t' bs = (bs, []) :=
  ttyIn_raw (serialSetup_raw h).1 (serialSetup_raw h).2.1 bs

/-- a tty in the cooked state, the default flags `9600,8n1`: `on\n`, a tab, XOFF, ^C, 0xFF and NUL pass both ways -/
example : ∃ t', serialSetup cookedTty defaults = some t' ∧ t'.oflag = 4 ∧ t'.cflag = 0xbd ∧
    ttyOut t' [111, 110, 10, 9, 19, 3, 255, 0] = [111, 110, 10, 9, 19, 3, 255, 0] ∧
    ttyIn t' [111, 110, 13, 10, 9, 19, 3, 255, 0] = ([111, 110, 13, 10, 9, 19, 3, 255, 0], []) := ⟨_, rfl, by decide⟩
/-- the theorems are not vacuous and the model discriminates: in the cooked state itself `\n` goes out as `\r\n`, a
    received `\r` is read as `\n`, a line is held back until its end, XOFF and ^C are swallowed, everything is echoed.
    Had `_serial_setup` left `OPOST` alone (`c_lflag &= ~OPOST` in place of `c_oflag &= ~OPOST`), a CR would go out before every LF. -/
example : ttyOut cookedTty [111, 110, 10] = [111, 110, 13, 10] ∧ ttyIn cookedTty [111, 107, 13, 111] = ([111, 107, 10], [111, 107, 13, 10, 111]) ∧
    ttyIn cookedTty [97, 19, 98, 10] = ([97, 98, 10], []) ∧ ttyIn cookedTty [97, 3, 98, 10] = ([98, 10], [94, 67, 98, 13, 10]) ∧
    ttyOut { cookedTty with iflag := 0, lflag := 0 } [111, 110, 10] = [111, 110, 13, 10] := by decide

/-- **Which flags matter (input).**  The input side is transparent — `ttyIn t bs = (bs, [])` for every byte string — as soon as
    `ISTRIP INLCR IGNCR ICRNL IXON PARMRK` are clear in `c_iflag`, `IUCLC` is clear or `IEXTEN` is, and `ISIG ICANON ECHO` are
    clear in `c_lflag`; the other flags (`IGNBRK BRKINT IGNPAR INPCK IXANY IXOFF IMAXBEL IUTF8`, `ECHOE ECHOK ECHONL ECHOCTL ECHOKE NOFLSH
    TOSTOP EXTPROC` …) and all control characters may be anything.  `_serial_setup` gets there by zeroing both words. -/
theorem C09_serial_raw_in_flags (t : Termios) (h : RawIn t) (bs : Bytes) : ttyIn t bs = (bs, []) :=
  ttyIn_of_rawIn h bs

/-- **None of the ten conditions can be dropped**: with exactly one of the flags set on an otherwise all-zero tty, some input
    is altered, swallowed, held back or echoed.  (`0xC1`→`A`; LF→CR; CR dropped; CR→LF; `A`→`a`; XOFF swallowed; `0xFF` doubled; ^C
    swallowed; `a` held back until the end of the line; `a` echoed.) -/
theorem C09_serial_raw_in_flags_minimal :
    let z (i l : Nat) : Termios := { iflag := i, oflag := 0, cflag := 0, lflag := l }
    ttyIn (z ISTRIP 0) [0xc1] = ([0x41], []) ∧ ttyIn (z INLCR 0) [10] = ([13], []) ∧ ttyIn (z IGNCR 0) [13] = ([], []) ∧
    ttyIn (z ICRNL 0) [13] = ([10], []) ∧ ttyIn (z IUCLC IEXTEN) [65] = ([97], []) ∧ ttyIn (z IXON 0) [19] = ([], []) ∧
    ttyIn (z PARMRK 0) [255] = ([255, 255], []) ∧ ttyIn (z 0 ISIG) [3] = ([], []) ∧ ttyIn (z 0 ICANON) [97] = ([], []) ∧
    ttyIn (z 0 ECHO) [97] = ([97], [97]) := by decide

/-- **Which flags matter (output).**  Output is passed as written when `OPOST` is clear, and also when it is set but none of
    `ONLCR OCRNL ONOCR OLCUC` is and tabs are not expanded (the delay and fill flags change nothing on Linux). -/
theorem C09_serial_raw_out_flags (t : Termios) (h : flag t.oflag OPOST = false ∨ PlainOut t) (bs : Bytes) : ttyOut t bs = bs :=
  ttyOut_of_plain h bs

/-- … and each of the five alters some output under `OPOST`: LF→CR LF; CR→LF; CR at column 0 dropped; `a`→`A`; a tab becomes
    eight blanks -/
theorem C09_serial_raw_out_flags_minimal :
    let z (o : Nat) : Termios := { iflag := 0, oflag := OPOST ||| o, cflag := 0, lflag := 0 }
    ttyOut (z ONLCR) [10] = [13, 10] ∧ ttyOut (z OCRNL) [13] = [10] ∧ ttyOut (z ONOCR) [13] = [] ∧ ttyOut (z OLCUC) [97] = [65] ∧
    ttyOut (z XTABS) [9] = [32, 32, 32, 32, 32, 32, 32, 32] := by decide

/-- a tty with every flag that does not matter set, and odd control characters: still transparent -/
example : RawIn { iflag := IGNBRK ||| BRKINT ||| IGNPAR ||| INPCK ||| IXANY ||| IXOFF ||| IMAXBEL ||| IUTF8 ||| IUCLC, oflag := 0, cflag := 0,
                  lflag := ECHOE ||| ECHOK ||| ECHONL ||| ECHOCTL ||| ECHOKE ||| NOFLSH ||| TOSTOP ||| EXTPROC, vintr := 97, vstop := 98, verase := 99 } := by
  constructor <;> decide

/-- **The character format is the one asked for.**  After `_serial_setup` with parameters `(baud, databits, parity,
    stopbits)`: the speed constant in `c_cflag` (what `cfgetispeed`/`cfgetospeed` report) and in `c_ispeed`/`c_ospeed` is
    the `B…` constant that <termios.h> gives to `baud` bits per second; the size bits say 7 resp. 8 data bits; `CSTOPB` is
    set exactly for 2 stop bits; `PARENB` is clear for `n`/`N`, set with `PARODD` clear for `e`/`E`, set with `PARODD` set
    for `o`/`O`. -/
theorem C09_serial_params (t t' : Termios) (p : Params) (h : serialSetup t p = some t') :
    (∃ n b : Nat, (n : Int) = p.baud ∧ (n, b) ∈ stdBaud ∧ cfgetospeed t' = b ∧ cfgetispeed t' = b ∧ t'.ispeed = b ∧ t'.ospeed = b) ∧
    ((p.databits = 7 ∧ charBits t' = 7) ∨ (p.databits = 8 ∧ charBits t' = 8)) ∧
    ((p.stopbits = 1 ∧ flag t'.cflag CSTOPB = false) ∨ (p.stopbits = 2 ∧ flag t'.cflag CSTOPB = true)) ∧
    ((parityNone p.parity = true ∧ flag t'.cflag PARENB = false) ∨
     (parityEven p.parity = true ∧ flag t'.cflag PARENB = true ∧ flag t'.cflag PARODD = false) ∨
     (parityOdd p.parity = true ∧ flag t'.cflag PARENB = true ∧ flag t'.cflag PARODD = true)) := by
  obtain ⟨⟨n, b, hn, -, hs, hc, hi, ho⟩, hd, hst, hp, -⟩ := serialSetup_cflag h
  refine ⟨⟨n, b, hn, hs, hc, ?_, hi, ho⟩, ?_, ?_, ?_⟩
  · simp [cfgetispeed, (serialSetup_raw h).1, hc]
  · rcases hd with ⟨h7, hz⟩ | ⟨h8, hz⟩
    · exact .inl ⟨h7, charBits_of_CS7 hz⟩
    · exact .inr ⟨h8, charBits_of_CS8 hz⟩
  · rcases hst with ⟨h1, hz⟩ | ⟨h2, hz⟩
    · exact .inl ⟨h1, by simp [flag, hz]⟩
    · exact .inr ⟨h2, by simp [flag, hz]; decide⟩
  · rcases hp with ⟨h1, hz⟩ | ⟨-, h2, hz, hz'⟩ | ⟨-, -, h3, hz, hz'⟩
    · exact .inl ⟨h1, by simp [flag, hz]⟩
    · exact .inr (.inl ⟨h2, by simp [flag, hz]; decide, by simp [flag, hz']⟩)
    · exact .inr (.inr ⟨h3, by simp [flag, hz]; decide, by simp [flag, hz']; decide⟩)

/-- `115200,7e2` on a tty in the cooked state: B115200, 7 bits, even parity, two stop bits -/
example : ∃ t', serialSetup cookedTty ⟨115200, 7, 101, 2⟩ = some t' ∧ cfgetospeed t' = 4098 ∧ charBits t' = 7 ∧
    flag t'.cflag PARENB = true ∧ flag t'.cflag PARODD = false ∧ flag t'.cflag CSTOPB = true := ⟨_, rfl, by decide⟩

/-- **Nothing else is touched.**  Every other bit of `c_cflag` (`CREAD`, `CLOCAL`, `HUPCL`, `CRTSCTS`, …) is as it was,
    `c_oflag` only loses `OPOST`, `VMIN` is set to 1 and `VTIME` to 0 whatever they were, and the other control characters are
    as they were. -/
theorem C09_serial_keeps (t t' : Termios) (p : Params) (h : serialSetup t p = some t') :
    (∀ k, (CBAUD ||| CSIZE ||| CSTOPB ||| PARENB ||| PARODD) &&& k = 0 → t'.cflag &&& k = t.cflag &&& k) ∧
    t'.oflag = clr t.oflag OPOST ∧ t'.vmin = 1 ∧ t'.vtime = 0 ∧
    t'.vintr = t.vintr ∧ t'.vquit = t.vquit ∧ t'.verase = t.verase ∧ t'.vkill = t.vkill ∧ t'.veof = t.veof ∧
    t'.vstart = t.vstart ∧ t'.vstop = t.vstop ∧ t'.vsusp = t.vsusp ∧ t'.veol = t.veol :=
  ⟨(serialSetup_cflag h).2.2.2.2, serialSetup_rest h⟩

/-- **What `_serial_setup` refuses, and with which message.**  It succeeds exactly when the baud is in the table
    (300 … 460800), the data bits are 7 or 8, the stop bits 1 or 2 and the parity one of `n N e E o O`; otherwise it
    reports the first of baud, data bits, stop bits, parity that is not supported and the tty is left as it was. -/
theorem C09_serial_setup_rejects (t : Termios) (p : Params) :
    ((∃ t', serialSetup t p = some t') ↔ GoodParams p) ∧
    (serialSetupE t p = .error .baud ↔ ¬ ∃ n ∈ supportedBauds, (n : Int) = p.baud) ∧
    (serialSetupE t p = .error .databits ↔ (∃ n ∈ supportedBauds, (n : Int) = p.baud) ∧ ¬(p.databits = 7 ∨ p.databits = 8)) ∧
    (serialSetupE t p = .error .stopbits ↔ (∃ n ∈ supportedBauds, (n : Int) = p.baud) ∧ (p.databits = 7 ∨ p.databits = 8) ∧ ¬(p.stopbits = 1 ∨ p.stopbits = 2)) ∧
    (serialSetupE t p = .error .parity ↔ (∃ n ∈ supportedBauds, (n : Int) = p.baud) ∧ (p.databits = 7 ∨ p.databits = 8) ∧ (p.stopbits = 1 ∨ p.stopbits = 2) ∧
        ¬(parityNone p.parity = true ∨ parityEven p.parity = true ∨ parityOdd p.parity = true)) :=
  ⟨serialSetup_isSome_iff t p, (serialSetupE_error t p).1, (serialSetupE_error t p).2.1, (serialSetupE_error t p).2.2.1, (serialSetupE_error t p).2.2.2.1⟩

example : supportedBauds = [300, 1200, 2400, 4800, 9600, 19200, 38400, 57600, 115200, 230400, 460800] := by decide
example : serialSetupE cookedTty ⟨14400, 9, 120, 3⟩ = .error .baud ∧ serialSetupE cookedTty ⟨9600, 9, 120, 3⟩ = .error .databits ∧
    serialSetupE cookedTty ⟨9600, 8, 120, 3⟩ = .error .stopbits ∧ serialSetupE cookedTty ⟨9600, 8, 120, 1⟩ = .error .parity := by decide

/-- **What the flags parser refuses: nothing.**  `sscanf(flags, "%d,%d%c%d", …)` is followed by
    `assert(n >= EOF && n <= 4)`, and the return value is always one of `EOF` = -1, 0, …, 4: no flags string makes the assertion
    fail (`parseFlags s` is never `none`), and the parameters `serial_connect` goes on with are the four variables as the
    `sscanf` left them — what was not matched keeps its default; values that name no format are refused later by
    `_serial_setup` (`C09_serial_setup_rejects`).  `EOF` is answered exactly for the strings that consist of white space only up to
    their end, the empty string included. -/
theorem C09_serial_flags_rejected (s : Bytes) :
    parseFlags s ≠ none ∧ parseFlags s = some (sscanfFlags (cstr s)).2 ∧
    (-1 ≤ (sscanfFlags (cstr s)).1 ∧ (sscanfFlags (cstr s)).1 ≤ 4) ∧
    ((sscanfFlags (cstr s)).1 < 0 ↔ (cstr s).all isSpace = true) :=
  ⟨by rw [parseFlags_some]; simp, parseFlags_some s, sscanfFlags_range _, sscanfFlags_neg_iff _⟩

/-- **A device line without flags means `9600,8N1`.**  `serial_create` stores `""` for it; that string, and every string
    that is blank up to its end, gets past the parser with the four defaults `baud = 9600, databits = 8, parity = 'N',
    stopbits = 1`, which `_serial_setup` accepts from every state of the tty.  (Before fix d5bec1f the assertion read `n >= 0`,
    `sscanf("")` answers `EOF` = -1, and such a device aborted the daemon at connect time — reproduced then on the real code by the
    `serial` layer and with the real `powermand`.) -/
theorem C09_serial_no_flags_fixed :
    defaults = ⟨9600, 8, 78, 1⟩ ∧ parseFlags [] = some defaults ∧
    (∀ s, (cstr s).all isSpace = true → parseFlags s = some defaults) ∧
    (∀ t, ∃ t', serialSetup t defaults = some t') :=
  ⟨rfl, by decide, fun _ h => parseFlags_blank h,
   fun t => (serialSetup_isSome_iff t defaults).mpr (by unfold GoodParams; decide)⟩

/-- blank, tab and newline, blank then NUL then junk: defaults; `x` too (zero matches) -/
example : parseFlags [32] = some defaults ∧ parseFlags [9, 10, 32] = some defaults ∧ parseFlags [32, 0, 55] = some defaults ∧
    parseFlags [120] = some defaults ∧ sscanfFlags [] = (-1, defaults) ∧ sscanfFlags [120] = (0, defaults) := by decide

/-- **A flags string in its documented shape is read as written**: `<digits>,<digits><c><digits>` with a byte `c` that
    is neither a digit nor NUL, numbers below 2³¹ — all four values are those of the string. -/
theorem C09_serial_flags_read {b d s : Bytes} {c : UInt8} (hb : Digits b (44 :: (d ++ c :: s))) (hd : Digits d (c :: s)) (hs : Digits s [])
    (hc : c ≠ 0) : parseFlags (b ++ 44 :: (d ++ c :: s)) = some ⟨digitsVal b, digitsVal d, c, digitsVal s⟩ :=
  parseFlags_full hb hd hs hc

/-- `9600,8n1`, `115200,7e2`; partial strings keep defaults; `%c` takes a blank for the parity; a baud beyond `int` wraps -/
example : parseFlags [57, 54, 48, 48, 44, 56, 110, 49] = some ⟨9600, 8, 110, 1⟩ ∧
    parseFlags [49, 49, 53, 50, 48, 48, 44, 55, 101, 50] = some ⟨115200, 7, 101, 2⟩ ∧
    parseFlags [49, 50, 48, 48] = some ⟨1200, 8, 78, 1⟩ ∧ parseFlags [49, 50, 48, 48, 44, 55] = some ⟨1200, 7, 78, 1⟩ ∧
    parseFlags [57, 54, 48, 48, 44, 56, 32, 110, 49] = some ⟨9600, 8, 32, 1⟩ ∧
    parseFlags [52, 50, 57, 52, 57, 55, 54, 56, 57, 54, 44, 56, 110, 49] = some ⟨9600, 8, 110, 1⟩ := by decide

/-- **Seven data bits: exactly what happens.**  The line discipline is as transparent as with eight
    (`C09_serial_raw_out`/`_in` do not depend on the size); below it, a port set to `databits = 7` sends and receives the low
    seven bits of each byte, so bytes below 0x80 pass unaltered and 0x80…0xFF lose their top bit; with `databits = 8` every byte
    passes. (A pseudo-terminal has no such layer and keeps `CS8` whatever is asked.) -/
theorem C09_serial_wire (t t' : Termios) (p : Params) (h : serialSetup t p = some t') (bs : Bytes) :
    (p.databits = 8 → uartTx t' bs = bs) ∧
    (p.databits = 7 → uartTx t' bs = bs.map (· &&& 127) ∧ ((∀ b ∈ bs, b.toNat < 128) → uartTx t' bs = bs)) := by
  rcases (C09_serial_params t t' p h).2.1 with ⟨h7, hc⟩ | ⟨h8, hc⟩
  · refine ⟨fun e => by omega, fun _ => ⟨uartTx_7 hc bs, fun ha => ?_⟩⟩
    rw [uartTx_7 hc, map_and_127_ascii bs ha]
  · exact ⟨fun _ => uartTx_8 hc bs, fun e => by omega⟩

/-- **Receiving on a real port**, under the hypothesis the full statement does not have: the receiver was enabled
    (`CREAD`) in the state `_serial_setup` started from.  Then 8 data bits deliver every byte, 7 the low seven bits. -/
theorem C09_serial_uart_rx_partial (t t' : Termios) (p : Params) (h : serialSetup t p = some t') (hr : flag t.cflag CREAD = true) (bs : Bytes) :
    (p.databits = 8 → (ttyIn t' (uartRx t' bs)).1 = bs) ∧ (p.databits = 7 → (ttyIn t' (uartRx t' bs)).1 = bs.map (· &&& 127)) := by
  have hr' : flag t'.cflag CREAD = true := by rw [serialSetup_CREAD h, hr]
  rcases (C09_serial_params t t' p h).2.1 with ⟨h7, hc⟩ | ⟨h8, hc⟩
  · exact ⟨fun e => by omega, fun _ => by rw [C09_serial_raw_in t t' p h, uartRx_7 hr' hc]⟩
  · exact ⟨fun _ => by rw [C09_serial_raw_in t t' p h, uartRx_8 hr' hc], fun e => by omega⟩

/-- **`_serial_setup` never sets `CREAD` (nor `CLOCAL`).**  From a state with the receiver disabled — all-zero flag words, as
    a program that builds its `termios` from scratch leaves them — the port is configured "successfully" and nothing the
    device sends is ever received.  Not observable on a pseudo-terminal (it forces `CREAD`); follows from
    `C09_serial_keeps`. -/
theorem C09_serial_cread_counterexample :
    ∃ t t', serialSetup t defaults = some t' ∧ flag t'.cflag CREAD = false ∧ uartRx t' [79, 75, 13, 10] = [] :=
  ⟨{ iflag := 0, oflag := 0, cflag := 0, lflag := 0 }, _, rfl, by decide⟩

/-- **`poll` after the set-up.**  Whatever `VMIN`/`VTIME` (and everything else) the tty was left with, after
    `_serial_setup` the descriptor polls readable as soon as a single byte has arrived — and not before. -/
theorem C09_serial_poll (t t' : Termios) (p : Params) (h : serialSetup t p = some t') (bs : Bytes) :
    (bs ≠ [] → pollReadable t' bs = true) ∧ pollReadable t' [] = false :=
  ⟨serialSetup_poll_ok h bs, by rw [serialSetup_poll h]; rfl⟩

/-- **F36 repaired.**  The witness of the former `C09_serial_vmin_counterexample` — a tty left with `VMIN = 10`, `VTIME = 0`
    by a program that read the port in blocks, the three bytes `OK\n` arriving — now polls readable: `_serial_setup` sets
    `c_cc[VMIN] = 1`, `c_cc[VTIME] = 0` (fix 1c18a0c).  Before, `poll`, in which the daemon waits, stayed silent until ten bytes had
    accumulated and the `expect` timed out (reproduced then on the real code and kernel, and with the real `powermand`). -/
theorem C09_serial_vmin_f36_fixed :
    ∃ t', serialSetup { cookedTty with vmin := 10 } defaults = some t' ∧ t'.vmin = 1 ∧ t'.vtime = 0 ∧
      ttyIn t' [79, 75, 10] = ([79, 75, 10], []) ∧ pollReadable t' [79, 75, 10] = true ∧
      pollReadable { t' with vmin := 10 } [79, 75, 10] = false :=
  ⟨_, rfl, by decide⟩

/-! ## The `--stdio` client: input and output are two descriptors (`Pm/StdioCli.lean`) -/

section Stdio
open Pm.Daemon Pm.Daemon.Stdio

/-- **Write side, `--stdio` client.**  One `_handle_write`: the bytes handed to the *output* descriptor followed by what stays
    queued is what was queued before — nothing lost, duplicated or reordered, whatever the descriptor's capacity, blocking or
    not, failing or not — and no other descriptor (the input descriptor in particular) is written to. -/
theorem C09_stdio_conserve (ofd : Nat) (w : W) (c : Cli) :
    Pm.Daemon.Tel.written ofd (handleWriteIO ofd w c).1.sys ++ (handleWriteIO ofd w c).2.toBuf = Pm.Daemon.Tel.written ofd w.sys ++ c.toBuf ∧
    (∀ fd, fd ≠ ofd → Pm.Daemon.Tel.written fd (handleWriteIO ofd w c).1.sys = Pm.Daemon.Tel.written fd w.sys) :=
  ⟨(handleWriteIO_conserve ofd w c).1, (handleWriteIO_conserve ofd w c).2.2⟩

/-- **The final flush goes to the output descriptor.**  The `quit` request of the `--stdio` client: unless the output descriptor
    fails (`cap < 0`), everything queued so far and `101 Goodbye` are handed to `ofd` in one `write`, however little it can take
    at once (`blocks` says whether the daemon has to sleep for it), and the queue is empty when the client is destroyed. -/
theorem C09_stdio_quit_flush (ofd : Nat) (w : W) (c : Cli) (hcap : ¬ capOf w ofd < 0) :
    (ClientPf.plQuit w { c with fd := ofd }).2.toBuf = [] ∧
    (ClientPf.plQuit w { c with fd := ofd }).1.sys =
      w.sys ++ [Sys.write ofd (c.toBuf ++ ClientPf.render [ClientPf.item101]) false
                 (capOf w ofd < ((c.toBuf ++ ClientPf.render [ClientPf.item101]).length : Int))] :=
  ⟨(quit_flush ofd w c hcap).1, (quit_flush ofd w c hcap).2.2⟩

/-- **Every request line of the `--stdio` client is answered on the output descriptor, once and in order.**  `_handle_input`
    for a client whose output is `ofd`: unless the daemon exits (the sort assertion, F19), the stream of the output descriptor
    — what was written to `ofd` followed by what waits in `to` — grows by exactly one answer chunk per complete line of the
    input buffer, in the order of the lines; and every system call made on the way (the final flush of `quit`) is on `ofd`. -/
theorem C09_stdio_answers (ofd : Nat) (w : W) (c : Cli) :
    ((handleInputIO ofd w c).1.exited = true ∨
     ∃ chunks : List (List ClientPf.Item), chunks.length = (ClientPf.linesOf c.fromBuf).1.length ∧
       ClientPf.written (handleInputIO ofd w c).1.sys ofd ++ (handleInputIO ofd w c).2.toBuf =
         ClientPf.written w.sys ofd ++ c.toBuf ++ ClientPf.render chunks.flatten ∧
       (∀ ch ∈ chunks, ClientPf.AnswerChunk ch)) ∧
    (∃ ext, (handleInputIO ofd w c).1.sys = w.sys ++ ext ∧ ∀ s ∈ ext, Isolation.sysFd s = some ofd) ∧
    (handleInputIO ofd w c).2.fd = c.fd := by
  obtain ⟨ext, hiso, _⟩ := Isolation.handleInput_iso w { c with fd := ofd }
  refine ⟨?_, ⟨ext, hiso.sys, hiso.sysfd⟩, rfl⟩
  rcases ClientPf.handleInput_answers w { c with fd := ofd } with h | ⟨chunks, hl, hout, hch, _⟩
  · exact Or.inl h
  · refine Or.inr ⟨chunks, hl, ?_, hch⟩
    have hfd : (handleInput w { c with fd := ofd }).2.fd = ofd := hiso.fd
    simp only [ClientPf.outOf, hfd] at hout
    exact hout

/-- **A whole `cli_post_poll` of the `--stdio` daemon, for every set of poll events** (readable, writable, hang-up, error,
    invalid, on either descriptor, with any data and any capacity): every `write` among the system calls of the pass is on the
    output descriptor.  Nothing queued for the client can end up on its input descriptor or on another descriptor. -/
theorem C09_stdio_writes_only_out (ofd : Nat) (w : W) (envs : List FdEnv) :
    ∀ s ∈ (cliPostPollIO ofd w envs).sys, Isolation.isWrite s = true → Isolation.sysFd s = some ofd :=
  cliPostPollIO_writes ofd w envs

/-- non-vacuity: a client with 5 bytes queued, an output descriptor (1001) that can take 2 of them: all 18 bytes (queue and
    farewell) are written to 1001, none to the input descriptor 1000, and the call is marked as one that sleeps -/
example :
    Pm.Daemon.Tel.written 1001 (handleInputIO 1001 { cfg := { plugs := [], has := [], nodes := [], version := [] }, clients := [], caps := [(1001, 2)] }
        { id := 1, fd := 1000, toBuf := [1, 2, 3, 4, 5], fromBuf := Pm.Daemon.bstr "quit\n" }).1.sys = [1, 2, 3, 4, 5] ++ Pm.Daemon.bstr "101 Goodbye\r\n" ∧
    Pm.Daemon.Tel.written 1000 (handleInputIO 1001 { cfg := { plugs := [], has := [], nodes := [], version := [] }, clients := [], caps := [(1001, 2)] }
        { id := 1, fd := 1000, toBuf := [1, 2, 3, 4, 5], fromBuf := Pm.Daemon.bstr "quit\n" }).1.sys = [] ∧
    (handleInputIO 1001 { cfg := { plugs := [], has := [], nodes := [], version := [] }, clients := [], caps := [(1001, 2)] }
        { id := 1, fd := 1000, toBuf := [1, 2, 3, 4, 5], fromBuf := Pm.Daemon.bstr "quit\n" }).2.toBuf = [] ∧
    (handleInputIO 1001 { cfg := { plugs := [], has := [], nodes := [], version := [] }, clients := [], caps := [(1001, 2)] }
        { id := 1, fd := 1000, toBuf := [1, 2, 3, 4, 5], fromBuf := Pm.Daemon.bstr "quit\n" }).2.fd = 1000 := by decide +kernel

end Stdio

end Pm.Props.C09
