import Pm.TelnetPass
import Pm.CapProof
import Pm.ToBufProps
/-! # C09 — the byte streams between the daemon and its devices and clients are carried faithfully

What expect patterns are matched against is exactly the byte stream the device sent on the current connection — in
order, nothing lost or duplicated — with telnet command sequences removed and doubled 0xFF restored, independent of
how the stream was split into reads (NUL is presented as 0xFF); nothing received on an earlier connection is visible
after a reconnect.  Symmetrically, bytes queued for a device or client are delivered exactly once and in order
however the writes are split.

All statements are for every byte stream, every segmentation, every device state: no bounds.

Capacity is modelled on the read side (section 7): the input buffers are liblsd circular buffers (`Pm/Cbuf.lean`:
`size` starts at 1024, grows in chunks when the buffer is full, up to 64 KiB for a device and 1 MiB for a client, never
shrinks).  One `read` asks for the free space (a chunk of 1000 when there is none), so what a pass takes in is a *prefix*
of what the kernel has (`readOf`, `readTaken`; the rest stays in the kernel for the next pass), and only a buffer that is
full at its maximal size overwrites its oldest unread bytes (`dropOf`, `readDropped`).  "While unconsumed data stays
within buffer capacity" is therefore no longer a standing assumption but a hypothesis that can be read off the theorems:
`readDropped = 0` unless `fromBuf.length = fromSize = max` (`C09_no_loss_below_max`), and the overwritten bytes are
exactly the oldest ones (`C09_overflow_drops_oldest`).  On the write side the buffer on the way *to* a device, `dev->to`, is
a cbuf of `MAX_DEV_BUF` = 65536 bytes in overwrite mode too: what `_process_send` and the telnet answers queue beyond that
overwrites the oldest *unsent* bytes (`clipTo`; section 8: `C09_device_out_capacity`, `C09_device_out_no_loss_below_max`,
`C09_device_out_overflow_drops_oldest`); a device `write` takes what the kernel has room for (`C09_device_short_write`).
The statements of sections 1 and 5 that read `toBuf ++ …` before this capacity was modelled now read `clipTo (toBuf ++ …)`,
each with its old form as a corollary under the explicit no-overflow hypothesis (`…_below`).

Sections: 1 segmentation independence ▸ 2 what the decoder keeps (specification without the state machine) ▸
3 the read side: `_handle_ready_device`, `_process_expect`, any interleaving ▸ 4 reconnects ▸ 5 the write side ▸
6 whole passes of `dev_post_poll` and runs of passes (the property as an invariant of the daemon loop) ▸
7 capacity: what is read is a prefix, the size invariant, no loss below the maximum, the exact loss at the maximum,
short writes ▸ 8 the capacity of the device output buffer. -/
namespace Pm.Props.C09
open Pm.Dev2
open Pm.Dev2.Tel Pm.Daemon.Tel
open Pm.Dev2.Cap
open Pm.Dev2.Login2 (telnetReplies readyReplies sentBytes postPollReady postPollPre)
open Pm.Dev2.Interp (sendText)
open Pm.Dev2.ToBufP

/-- a device with nothing configured and nothing pending, for the examples -/
def dev0 : Dev :=
  { plugs := [], scripts := fun _ => none, timeout := 0, acts := [], toBuf := [], fromBuf := [], xmStr := none,
    xmOffs := [], xmResult := false, xmUsed := false, args := [], nextUid := 0, shortCircuitDelay := false }

/-! ## 1. segmentation independence -/

/-- `_telnet_preprocess` is exactly: continue the ideal decoder (`decodeFrom` = one fold of `telnetStep`) on the newly
    read bytes from the state the device carries; append what it keeps to `fromBuf`, queue its option replies in `toBuf`;
    carry the state it ends in.  Nothing already in `fromBuf` is looked at again (the repair of F4).
    (Changed when the capacity of `dev->to` was modelled: `toBuf := clipTo (d.toBuf ++ …)` where it read `d.toBuf ++ …`: of
    more than 65536 queued bytes the oldest give way.  Below the limit: `C09_filter_is_decoder_below`.) -/
theorem C09_filter_is_decoder (d : Dev) (new : Bytes) :
    telnetFilter d new =
      { d with tstate := (decodeFrom d.tstate d.tcmd new).st, tcmd := (decodeFrom d.tstate d.tcmd new).cmd,
               fromBuf := d.fromBuf ++ (decodeFrom d.tstate d.tcmd new).kept,
               toBuf := clipTo (d.toBuf ++ (decodeFrom d.tstate d.tcmd new).replies) } :=
  telnetFilter_eq d new

/-- the statement as it read before, under the explicit no-overflow hypothesis -/
theorem C09_filter_is_decoder_below (d : Dev) (new : Bytes)
    (hfit : (d.toBuf ++ (decodeFrom d.tstate d.tcmd new).replies).length ≤ 65536) :
    telnetFilter d new =
      { d with tstate := (decodeFrom d.tstate d.tcmd new).st, tcmd := (decodeFrom d.tstate d.tcmd new).cmd,
               fromBuf := d.fromBuf ++ (decodeFrom d.tstate d.tcmd new).kept,
               toBuf := d.toBuf ++ (decodeFrom d.tstate d.tcmd new).replies } := by
  rw [telnetFilter_eq, clipTo_of_le _ hfit]

/-- non-vacuity of the no-overflow hypothesis: three answer bytes behind an empty queue -/
example : (dev0.toBuf ++ (decodeFrom dev0.tstate dev0.tcmd [255, 253, 1]).replies).length ≤ 65536 := by decide

/-- Two reads delivering `a` then `b` leave the device — decoder state, pending bytes, queued replies, everything —
    exactly as one read delivering `a ++ b` would, whatever was pending and whatever state the decoder was in. -/
theorem C09_split (d : Dev) (a b : Bytes) : telnetFilter (telnetFilter d a) b = telnetFilter d (a ++ b) :=
  telnetFilter_append d a b

/-- The same for any number of reads: only the concatenation of the chunks matters.
    (The hypothesis — the output buffer is within its capacity to begin with, as every reachable one is:
    `C09_device_out_capacity` — was added with the capacity of `dev->to`; it is needed for the empty list of chunks only, where
    the right-hand side is `telnetFilter d []`, which writes `clipTo d.toBuf`.  `C09_split` holds beyond the limit too:
    overwriting writes compose, `clipTo_clipTo_append`.) -/
theorem C09_split_chunks (d : Dev) (chunks : List Bytes) (hcap : d.toBuf.length ≤ 65536) :
    chunks.foldl telnetFilter d = telnetFilter d chunks.flatten :=
  telnetFilter_chunks d chunks hcap

/-- Hence two segmentations of the same stream cannot be told apart — also when the replies overflow the output buffer. -/
theorem C09_segmentation_independent (d : Dev) (c1 c2 : List Bytes) (h : c1.flatten = c2.flatten)
    (hcap : d.toBuf.length ≤ 65536) :
    c1.foldl telnetFilter d = c2.foldl telnetFilter d := by
  rw [C09_split_chunks _ _ hcap, C09_split_chunks _ _ hcap, h]

/-- the F4 witness stream `a b IAC | DO ECHO c \n`: split inside the command, the script now sees `a b c \n`, and
    `WONT ECHO` is queued once -/
example : (telnetFilter (telnetFilter dev0 [97, 98, 255]) [253, 1, 99, 10]).fromBuf = [97, 98, 99, 10] := by decide
example : (telnetFilter dev0 [97, 98, 255, 253, 1, 99, 10]).fromBuf = [97, 98, 99, 10] := by decide
example : (telnetFilter (telnetFilter dev0 [97, 98, 255]) [253, 1, 99, 10]).toBuf = [255, 252, 1] := by decide
/-- the second F4 witness: an escaped 0xFF still unconsumed when the next read arrives is no longer eaten -/
example : (telnetFilter (telnetFilter dev0 [120, 255, 255, 121]) [122]).fromBuf = [120, 255, 121, 122] := by decide
/-- byte by byte -/
example : ([[97], [98], [255], [253], [1], [99], [10]].foldl telnetFilter dev0).fromBuf = [97, 98, 99, 10] := by decide

/-! ## 2. what the decoder keeps -/

/-- The ideal decoder (`decode s` = one fold of `telnetStep` over the whole stream from the state of a fresh
    connection) against a specification written by recursion on the stream, with no state machine in it:
    `strip` maps `IAC IAC ↦ 0xFF`, `IAC (DO|DONT|WILL|WONT) o ↦ ε`, `IAC x ↦ ε` for any other `x`, a command cut off by
    the end of the stream `↦ ε`, and every other byte to itself; `answers` collects the replies (`DO o ↦ WILL o` for
    SGA and TM, `WONT o` for the ten options refused, nothing else); `pendingTail` is the cut-off command.
    Holds for every stream, also those that end inside a command. -/
theorem C09_decode_spec (s : Bytes) :
    (decode s).kept = strip s ∧ (decode s).replies = answers s ∧ (decode s).st = (pendingTail s).length ∧
    ((decode s).st = 2 → pendingTail s = [255, (decode s).cmd]) :=
  ⟨decode_kept s, decode_replies s, decode_st s, decode_cmd s⟩

/-- A stream that does not end inside a command leaves the decoder at rest. -/
theorem C09_decode_complete (s : Bytes) (h : pendingTail s = []) : (decode s).st = 0 := by
  rw [decode_st, h]; rfl

/-- The carried state is exactly the cut-off command: continuing after `s` on `t` keeps what the specification keeps
    of `t` with that command put back in front.  So the specification itself is compositional. -/
theorem C09_decode_resume (s t : Bytes) :
    (decodeFrom (decode s).st (decode s).cmd t).kept = strip (pendingTail s ++ t) ∧
    strip (s ++ t) = strip s ++ strip (pendingTail s ++ t) :=
  ⟨decodeFrom_resume_kept s t, strip_append s t⟩

/-- The cut-off command is nothing, a lone `IAC`, or `IAC` and one of the four option commands. -/
theorem C09_pending_shapes (s : Bytes) :
    pendingTail s = [] ∨ pendingTail s = [255] ∨ ∃ c, c ≠ 255 ∧ isOptCmd c = true ∧ pendingTail s = [255, c] :=
  pendingTail_cases s

/-- Bytes other than IAC pass unchanged: a stream without 0xFF is kept as it is, answers nothing and leaves the
    decoder at rest. -/
theorem C09_decode_clean (s : Bytes) (h : 255 ∉ s) :
    (decode s).kept = s ∧ (decode s).replies = [] ∧ (decode s).st = 0 := by
  refine ⟨by rw [decode_kept, strip_clean s h], by rw [decode_replies, answers_clean s h], ?_⟩
  rw [decode_st, pendingTail_clean s h]; rfl

/-- Nothing is invented: never more bytes kept than received. -/
theorem C09_decode_no_longer (s : Bytes) : (decode s).kept.length ≤ s.length := by
  rw [decode_kept]; exact strip_length_le s

example : strip [97, 255, 255, 98, 255, 253, 1, 99, 255, 241, 10, 0] = [97, 255, 98, 99, 10, 0] := by decide
example : answers [97, 255, 253, 1, 255, 253, 3, 255, 251, 1, 255, 253, 99] = [255, 252, 1, 255, 251, 3] := by decide
example : pendingTail [97, 255, 253] = [255, 253] ∧ pendingTail [97, 255] = [255] ∧ pendingTail [97, 255, 241] = [] := by decide
example : (decode [97, 98, 255, 253, 1, 99, 10]).kept = [97, 98, 99, 10] := by decide
example : (255 : UInt8) ∉ [97, 98, 0, 10, 254] := by decide

/-! ## 3. the read side -/

/-- `_handle_ready_device` when poll reports the descriptor readable (and not writable) and the kernel has `bs` to hand
    out.  The bytes *read* are `readOf c.dev bs`, the prefix of `bs` the input buffer asks for (`C09_read_is_prefix`);
    `devClip c.dev bs` is the device after the capacity half of the `read`: the buffer has grown if it was full and its
    `dropOf c.dev bs` oldest bytes have given way (none below `MAX_DEV_BUF`, `C09_no_loss_below_max`).  Then `fromBuf`
    becomes that `fromBuf` followed by what the decoder keeps of the bytes read, continued from the state the device
    carries (tcp), or followed by the bytes read themselves (coprocess); the `read` is logged with the number of bytes
    read; no I/O error is reported. -/
theorem C09_read_side (c : CS) (bs : Bytes) (h : ReadyOk c)
    (hout : c.env.revents &&& 2 = 0) (hin : c.env.revents &&& 1 ≠ 0)
    (hr : c.env.read = some (some bs)) (hbs : bs ≠ []) :
    handleReady c = ({ c with env := { c.env with read := some (some (readOf c.dev bs)) },
                              sys := c.sys ++ [.read (readOf c.dev bs).length],
                              dev := absorb (devClip c.dev bs) (readOf c.dev bs) }, false) ∧
    (absorb (devClip c.dev bs) (readOf c.dev bs)).fromBuf =
      c.dev.fromBuf.drop (dropOf c.dev bs) ++ keptOf c.dev (readOf c.dev bs) ∧
    (c.dev.isPipe = false → keptOf c.dev (readOf c.dev bs) = (decodeFrom c.dev.tstate c.dev.tcmd (readOf c.dev bs)).kept ∧
        absorb (devClip c.dev bs) (readOf c.dev bs) = telnetFilter (devClip c.dev bs) (readOf c.dev bs)) ∧
    (c.dev.isPipe = true → keptOf c.dev (readOf c.dev bs) = readOf c.dev bs) ∧
    readOf c.dev bs <+: bs ∧ readOf c.dev bs ≠ [] := by
  refine ⟨handleReady_read_only c bs h hout hin hr hbs, ?_, ?_, ?_, readOf_prefix _ _, readOf_ne_nil _ _ hbs⟩
  · rw [absorb_fromBuf]; rfl
  · intro hp
    have hp' : (devClip c.dev bs).isPipe = false := hp
    simp [keptOf, absorb, hp, hp']
  · intro hp; simp [keptOf, hp]

/-- the hypotheses are satisfiable: a connected tcp device, readable, the F4 stream's second half arriving while the
    decoder is inside a command -/
example :
    (handleReady { dev := { dev0 with conn := 2, fd := some 7, tstate := 1, fromBuf := [97, 98] },
                   env := { now := 0, revents := 1, sockets := [], connects := [], soerrs := [],
                            read := some (some [253, 1, 99, 10]), writeOk := true },
                   sys := [] }).1.dev.fromBuf = [97, 98, 99, 10] := by decide

/-- and the entry conditions `ReadyOk` hold of that state -/
example :
    ReadyOk { dev := { dev0 with conn := 2, fd := some 7, tstate := 1, fromBuf := [97, 98] },
              env := { now := 0, revents := 1, sockets := [], connects := [], soerrs := [],
                       read := some (some [253, 1, 99, 10]), writeOk := true },
              sys := [] } := ⟨by decide, by decide, by decide, by decide, by decide⟩

/-- The same when the descriptor is also writable, connected, with output queued, and the `write` succeeds (the kernel
    takes `wcap ≥ 1` bytes): the first `wcap` bytes of `toBuf` go out first — the rest stays queued —, then the bytes
    read are taken in. -/
theorem C09_read_side_after_write (c : CS) (bs : Bytes) (h : ReadyOk c)
    (hout : c.env.revents &&& 2 ≠ 0) (hin : c.env.revents &&& 1 ≠ 0) (hc : c.dev.conn ≠ 1) (hb : c.dev.toBuf ≠ [])
    (hw : c.env.writeOk = true) (hcap : c.env.wcap ≠ 0) (hr : c.env.read = some (some bs)) (hbs : bs ≠ []) :
    handleReady c =
      ({ c with env := { c.env with read := some (some (readOf c.dev bs)) },
                sys := c.sys ++ [.write (c.dev.toBuf.take c.env.wcap) true, .read (readOf c.dev bs).length],
                dev := absorb (devClip { c.dev with toBuf := c.dev.toBuf.drop c.env.wcap } bs) (readOf c.dev bs) }, false) :=
  handleReady_write_read c bs h hout hin hc hb hw hcap hr hbs

/-- Every call of `_handle_ready_device`, no hypotheses: seen from the read side (transport, decoder state, pending
    bytes) either nothing happened, or the read branch ran — the kernel had `bs`, the `dropOf c.dev bs` oldest pending
    bytes were overwritten (none unless the buffer is full at `MAX_DEV_BUF`) and exactly the bytes read, `readOf c.dev bs`,
    were taken in —, or a connection attempt completed — then nothing was read and the decoder was put at rest. -/
theorem C09_read_side_all_cases (c : CS) :
    rview (handleReady c).1.dev = rview c.dev ∧ (handleReady c).1.dev.statConnects = c.dev.statConnects ∨
    (∃ bs, c.env.read = some (some bs) ∧ bs ≠ [] ∧ c.env.revents &&& 1 ≠ 0 ∧ (handleReady c).2 = false ∧
       (handleReady c).1.dev.conn = c.dev.conn ∧ (handleReady c).1.dev.statConnects = c.dev.statConnects ∧
       rview (handleReady c).1.dev = ((rview c.dev).consume (dropOf c.dev bs)).read (readOf c.dev bs)) ∨
    (c.dev.conn = 1 ∧ (handleReady c).1.dev.conn = 2 ∧ (handleReady c).2 = false ∧
       (handleReady c).1.dev.statConnects = c.dev.statConnects + 1 ∧
       rview (handleReady c).1.dev = { rview c.dev with st := 0, cmd := 0 }) :=
  handleReady_view c

/-- `_process_expect` with nothing pending asks nothing and changes nothing. -/
theorem C09_expect_empty (d : Dev) (a : Action) (o : Oracle) (pat : Nat) (h : d.fromBuf = []) :
    (stmtExpect d a o pat).dev.fromBuf = [] ∧ (stmtExpect d a o pat).oracle = o ∧
    (stmtExpect d a o pat).finished = false :=
  stmtExpect_empty d a o pat h

/-- With bytes pending, the regex engine is asked once, and the subject it is given is the whole pending buffer with
    every NUL shown as 0xFF (`present`; same length, so offsets mean the same in both).  No match: the buffer is left
    alone and the statement stalls. -/
theorem C09_expect_nomatch (d : Dev) (a : Action) (o : Oracle) (pat : Nat) (h : d.fromBuf ≠ [])
    (hn : (askRx o pat (present d.fromBuf)).2.1 = none) :
    (stmtExpect d a o pat).dev.fromBuf = d.fromBuf ∧
    (stmtExpect d a o pat).oracle = (askRx o pat (present d.fromBuf)).1 ∧
    (stmtExpect d a o pat).finished = false :=
  stmtExpect_nomatch d a o pat h hn

/-- A match whose whole-match end offset is `eo` consumes exactly the first `eo` pending bytes: what stays is the old
    buffer without that prefix, in order; the match object keeps the subject as presented. -/
theorem C09_expect_match (d : Dev) (a : Action) (o : Oracle) (pat : Nat) (offs : List (Int × Int)) (h : d.fromBuf ≠ [])
    (hm : (askRx o pat (present d.fromBuf)).2.1 = some offs) :
    (stmtExpect d a o pat).dev.fromBuf = d.fromBuf.drop (offs.headD (0, 0)).2.toNat ∧
    (stmtExpect d a o pat).oracle = (askRx o pat (present d.fromBuf)).1 ∧
    (stmtExpect d a o pat).finished = true ∧
    (stmtExpect d a o pat).dev.xmStr = some (present d.fromBuf) ∧ (stmtExpect d a o pat).dev.xmOffs = offs :=
  stmtExpect_match d a o pat offs h hm

/-- how the subject relates to the buffer -/
theorem C09_present (buf : Bytes) :
    (present buf).length = buf.length ∧ (∀ k, (present buf).take k = present (buf.take k)) ∧
    (0 ∉ buf → present buf = buf) :=
  ⟨present_length buf, present_take buf, present_of_no_nul buf⟩

example : present [97, 0, 255, 10] = [97, 255, 255, 10] := by decide
/-- a match of the first three of four pending bytes -/
example :
    (stmtExpect { dev0 with fromBuf := [111, 107, 10, 62] } default ⟨[⟨5, [111, 107, 10, 62], some [(0, 3)]⟩]⟩ 5).dev.fromBuf
      = [62] := by decide

/-- no match: four bytes pending, one of them NUL — the engine is asked about `o k 0xFF >` and everything stays -/
example :
    (stmtExpect { dev0 with fromBuf := [111, 107, 0, 62] } default ⟨[⟨5, [111, 107, 255, 62], none⟩]⟩ 5).dev.fromBuf
      = [111, 107, 0, 62] ∧
    (stmtExpect { dev0 with fromBuf := [111, 107, 0, 62] } default ⟨[⟨5, [111, 107, 255, 62], none⟩]⟩ 5).out.length = 0 := by
  decide

/-- In every case `_process_expect` does nothing to the read side but drop a prefix of the pending bytes. -/
theorem C09_expect_consumes_prefix (d : Dev) (a : Action) (o : Oracle) (pat : Nat) :
    ∃ k, rview (stmtExpect d a o pat).dev = (rview d).consume k :=
  stmtExpect_view d a o pat

/-- Any interleaving of reads (the stream cut anywhere) and consumes (any counts, also more than is pending) on one
    connection: everything consumed, followed by what is still pending, is what a single read of the whole stream
    would have left pending had nothing been consumed; and the decoder ends in the same state. -/
theorem C09_interleaving (v : RView) (evs : List Ev) :
    consumedBy v evs ++ (evs.foldl RView.step v).buf = (v.read (readsOf evs)).buf ∧
    (evs.foldl RView.step v).st = (v.read (readsOf evs)).st ∧
    (evs.foldl RView.step v).cmd = (v.read (readsOf evs)).cmd ∧
    (evs.foldl RView.step v).isPipe = v.isPipe :=
  trace_conservation v evs

/-- On a fresh tcp connection: consumed ++ pending = `strip` of everything the device sent. -/
theorem C09_interleaving_tcp (evs : List Ev) :
    consumedBy .freshTcp evs ++ (evs.foldl RView.step .freshTcp).buf = strip (readsOf evs) :=
  trace_tcp evs

/-- On a fresh coprocess connection the decoder is the identity: consumed ++ pending = everything the coprocess
    wrote (whatever the telnet fields hold: they are not used). -/
theorem C09_interleaving_pipe (st : Nat) (cmd : UInt8) (evs : List Ev) :
    consumedBy (.freshPipe st cmd) evs ++ (evs.foldl RView.step (.freshPipe st cmd)).buf = readsOf evs :=
  trace_pipe st cmd evs

example :
    consumedBy .freshTcp [.read [97, 98, 255], .consume 1, .read [253, 1, 99], .consume 2, .read [10]] = [97, 98, 99] ∧
    ([Ev.read [97, 98, 255], .consume 1, .read [253, 1, 99], .consume 2, .read [10]].foldl RView.step .freshTcp).buf = [10] := by
  decide

/-- The same on the model's own functions: from any state of an established connection, after any sequence of
    `_handle_ready_device` calls (any kernel answers) and `_process_expect` calls (any pattern, any answer of the regex
    engine), the bytes removed from the head of `fromBuf` (`opsConsumed`: what the expects matched and — only in calls
    that found the buffer full at `MAX_DEV_BUF`, `C09_no_loss_below_max` — what a `read` overwrote, in the order in which
    they went) followed by `fromBuf` are the old `fromBuf` followed by the decoder's output — continued from the state
    carried at the start — on the concatenation of everything that was read (`opsTaken`: the prefixes `readTaken` of what
    the kernel had in each call); the carried state is the one that concatenation leads to; the connection is still the
    same one. -/
theorem C09_interleaving_model (d : Dev) (h2 : d.conn = 2) (ops : List Op) :
    opsConsumed d ops ++ (ops.foldl Op.run d).fromBuf = d.fromBuf ++ keptOf d (opsTaken d ops) ∧
    rview (ops.foldl Op.run d) = { (rview d).read (opsTaken d ops) with buf := (ops.foldl Op.run d).fromBuf } ∧
    (ops.foldl Op.run d).conn = 2 :=
  ops_conservation d h2 ops

/-- `readTaken`, the bytes a call takes in, is what the system-call log records as read: the `Y read <fd> <n>` line of a
    pass shows the number of bytes read (the clipped prefix), not what the kernel had. -/
theorem C09_taken_is_logged (c : CS) (h : readTaken c ≠ []) :
    ∃ pre, (handleReady c).1.sys = pre ++ [.read (readTaken c).length] :=
  handleReady_taken_sys c h

/-! ## 4. reconnects -/

/-- `_disconnect` empties both buffers: nothing received stays visible, nothing queued is sent later. -/
theorem C09_disconnect_flushes (c : CS) :
    (disconnectDev c).dev.fromBuf = [] ∧ (disconnectDev c).dev.toBuf = [] ∧ (disconnectDev c).dev.conn = 0 :=
  ⟨(disconnectDev_clean c).1, (disconnectDev_clean c).2.1, (disconnectDev_clean c).2.2.1⟩

/-- `tcp_finish_connect_one`: success brings the connection up with the decoder at rest (`_telnet_init`) and touches
    nothing else on the read side; failure changes nothing in the device. -/
theorem C09_finish_connect (c : CS) :
    ((finishConnectOne c).2 = true ∧
        (finishConnectOne c).1.dev = { c.dev with conn := 2, statConnects := c.dev.statConnects + 1, tstate := 0, tcmd := 0 }) ∨
    ((finishConnectOne c).2 = false ∧ (finishConnectOne c).1.dev = c.dev) :=
  finishConnectOne_cases c

/-- `_reconnect` on a device that was connected or connecting — whatever follows (back-off, an attempt in progress,
    a new connection at once, either transport): both buffers are empty, and a tcp connection that is up afterwards
    has its decoder at rest.  Nothing received on the earlier connection is visible on the new one. -/
theorem C09_reconnect_clean (c : CS) (tmo : Option Time) (h : c.dev.conn ≠ 0) :
    (reconnectDev c tmo).1.dev.fromBuf = [] ∧ (reconnectDev c tmo).1.dev.toBuf = [] ∧
    ((reconnectDev c tmo).1.dev.conn = 2 → (reconnectDev c tmo).1.dev.isPipe = false →
      (reconnectDev c tmo).1.dev.tstate = 0 ∧ (reconnectDev c tmo).1.dev.tcmd = 0) :=
  ⟨(reconnectDev_clean c tmo h).1, (reconnectDev_clean c tmo h).2.1, (reconnectDev_clean c tmo h).2.2.2⟩

/-- `_reconnect` / `_connect` on a device that was not connected leave the buffers as they are and, if a tcp
    connection comes up, start it with the decoder at rest. -/
theorem C09_connect_fresh (c : CS) (tmo : Option Time) (h : c.dev.conn = 0) :
    (reconnectDev c tmo).1.dev.fromBuf = c.dev.fromBuf ∧ (reconnectDev c tmo).1.dev.toBuf = c.dev.toBuf ∧
    ((reconnectDev c tmo).1.dev.conn = 2 → (reconnectDev c tmo).1.dev.isPipe = false →
      (reconnectDev c tmo).1.dev.tstate = 0 ∧ (reconnectDev c tmo).1.dev.tcmd = 0) :=
  ⟨(reconnectDev_idle c tmo h).1, (reconnectDev_idle c tmo h).2.1, (reconnectDev_idle c tmo h).2.2.2⟩

/-- The remaining way a connection comes up — a pending `connect` completing in `_handle_ready_device`: the decoder
    is at rest and nothing is read in that call. -/
theorem C09_connect_completes_fresh (c : CS) (h : c.dev.conn ≠ 2) (h2 : (handleReady c).1.dev.conn = 2) :
    (handleReady c).1.dev.tstate = 0 ∧ (handleReady c).1.dev.tcmd = 0 ∧
    (handleReady c).1.dev.fromBuf = c.dev.fromBuf :=
  handleReady_up c h h2

/-- non-vacuity: a connection with a half-received command and pending bytes, I/O error handling reconnects at once -/
example :
    let c : CS := { dev := { dev0 with conn := 2, fd := some 7, tstate := 2, tcmd := 253, fromBuf := [1, 2, 3], toBuf := [4] },
                    env := { now := 0, revents := 0, sockets := [8], connects := [0], soerrs := [0], read := none, writeOk := true },
                    sys := [] }
    (reconnectDev c none).1.dev.conn = 2 ∧ (reconnectDev c none).1.dev.fromBuf = [] ∧
    (reconnectDev c none).1.dev.toBuf = [] ∧ (reconnectDev c none).1.dev.tstate = 0 := by decide

/-! ## 5. the write side -/

/-- Device: the `write` issued by `_handle_ready_device` (`cbuf_read_to_fd (dev->to, fd, -1)`) offers all of `toBuf`; the
    kernel takes the first `wcap` bytes, which leave `toBuf`, and the rest stays queued for the next pass — a short write
    is not an error; if the kernel takes nothing (`wcap = 0`: `EAGAIN`) or the `write` fails (`writeOk = false`: `EPIPE`),
    `toBuf` is unchanged and an I/O error is returned (the caller reconnects, which flushes).  With `wcap ≥ |toBuf|` this
    is "everything goes out and `toBuf` is empty" (`List.take_of_length_le`, `List.drop_eq_nil_of_le`). -/
theorem C09_device_write (c : CS) (h : ReadyOk c)
    (hout : c.env.revents &&& 2 ≠ 0) (hin : c.env.revents &&& 1 = 0) (hc : c.dev.conn ≠ 1) (hb : c.dev.toBuf ≠ []) :
    handleReady c =
      if c.env.writeOk then
        if c.env.wcap == 0 then ({ c with sys := c.sys ++ [.write [] true] }, true)
        else ({ c with sys := c.sys ++ [.write (c.dev.toBuf.take c.env.wcap) true],
                       dev := { c.dev with toBuf := c.dev.toBuf.drop c.env.wcap } }, false)
      else ({ c with sys := c.sys ++ [.write c.dev.toBuf false] }, true) :=
  handleReady_write_only c h hout hin hc hb

example :
    (handleReady { dev := { dev0 with conn := 2, fd := some 7, toBuf := [111, 110, 10] },
                   env := { now := 0, revents := 2, sockets := [], connects := [], soerrs := [], read := none, writeOk := true },
                   sys := [] }).1.dev.toBuf = [] := by decide

/-- Device, every call of `_handle_ready_device`, any capacity of the descriptor: a successful `write` moves a front piece
    `wr` of `toBuf` to the descriptor (`wr = []` otherwise), the rest `kept` stays queued, and the telnet option replies to what
    this call read are queued behind it.  So what has been *written* is never lost, repeated or reordered however short the
    writes; what is *queued* loses bytes only at its old end and only beyond the capacity of `dev->to` (`clipTo`: the last
    65536 bytes).
    Changed when the capacity was modelled: the statement read
    `devWritten sys' ++ toBuf' = devWritten sys ++ toBuf ++ replies` ("written ++ queued only grows at its end"), which is
    false beyond 64 KiB (`C09_device_write_conserved_old_counterexample`); it still holds whenever the buffer does not
    overflow: `C09_device_write_conserved_below`.  The hypothesis is the capacity invariant (`C09_device_out_capacity`). -/
theorem C09_device_write_conserved (c : CS) (hcap : c.dev.toBuf.length ≤ 65536) :
    ∃ bs wr kept, wr ++ kept = c.dev.toBuf ∧ devWritten (handleReady c).1.sys = devWritten c.sys ++ wr ∧
      (handleReady c).1.dev.toBuf = clipTo (kept ++ repliesOf c.dev bs) :=
  handleReady_write_conserve c hcap

/-- The statement as it read before, under the explicit no-overflow hypothesis — what was queued and the replies fit the
    buffer together — or, what is easier to observe, the buffer is not full afterwards. -/
theorem C09_device_write_conserved_below (c : CS) (hcap : c.dev.toBuf.length ≤ 65536) :
    ∃ bs, ((c.dev.toBuf ++ repliesOf c.dev bs).length ≤ 65536 ∨ (handleReady c).1.dev.toBuf.length < 65536 →
      devWritten (handleReady c).1.sys ++ (handleReady c).1.dev.toBuf =
        devWritten c.sys ++ c.dev.toBuf ++ repliesOf c.dev bs) :=
  handleReady_write_conserve_below c hcap

/-- non-vacuity: the device of the short-write example below is within the capacity, and not full afterwards -/
example :
    let c : CS := { dev := { dev0 with conn := 2, fd := some 7, toBuf := [111, 110, 10] },
                    env := { now := 0, revents := 2, sockets := [], connects := [], soerrs := [], read := none, writeOk := true, wcap := 2 },
                    sys := [] }
    c.dev.toBuf.length ≤ 65536 ∧ (handleReady c).1.dev.toBuf.length < 65536 := by decide

/-- Device: `_process_send` queues at the end of `toBuf` (changed with the capacity of `dev->to`: `clipTo (d.toBuf ++ s)` where
    it read `d.toBuf ++ s`; the hypothesis is the capacity invariant, needed for the visits that queue nothing). -/
theorem C09_send_appends (d : Dev) (a : Action) (o : Oracle) (e : ExecCtx) (fmt : Bytes) (hcap : d.toBuf.length ≤ 65536) :
    ∃ s, (stmtSend d a o e fmt).dev.toBuf = clipTo (d.toBuf ++ s) :=
  stmtSend_appends d a o e fmt hcap

/-- Device: below the limit `_process_send` appends (the statement as it read before). -/
theorem C09_send_appends_below (d : Dev) (a : Action) (o : Oracle) (e : ExecCtx) (fmt : Bytes) (hcap : d.toBuf.length ≤ 65536) :
    ∃ s, (stmtSend d a o e fmt).dev.toBuf = clipTo (d.toBuf ++ s) ∧
      ((d.toBuf ++ s).length ≤ 65536 → (stmtSend d a o e fmt).dev.toBuf = d.toBuf ++ s) :=
  stmtSend_appends_below d a o e fmt hcap

open Pm.Daemon in
/-- Client, one `_handle_write`: the payload of the `write` it issues (none, a prefix, or everything) followed by what
    stays queued is what was queued — for every capacity of the descriptor, blocking or not, failing or not. -/
theorem C09_client_write_step (w : W) (c : Cli) :
    written c.fd (handleWrite w c).1.sys ++ (handleWrite w c).2.toBuf = written c.fd w.sys ++ c.toBuf ∧
    (handleWrite w c).2.fd = c.fd :=
  handleWrite_conserve w c

open Pm.Daemon in
/-- Client, any sequence of write opportunities with any capacities, interleaved with the daemon queueing more output:
    the bytes written to the client's descriptor followed by what is still queued are the bytes queued, in order, each
    exactly once; and nothing of it goes to another descriptor. -/
theorem C09_client_write (w : W) (c : Cli) (evs : List WEv) :
    written c.fd (evs.foldl wstep (w, c)).1.sys ++ (evs.foldl wstep (w, c)).2.toBuf =
      written c.fd w.sys ++ c.toBuf ++ putsOf evs :=
  (client_write_conservation w c evs).1

open Pm.Daemon in
theorem C09_client_write_private (w : W) (c : Cli) (fd : Nat) (h : fd ≠ c.fd) :
    written fd (handleWrite w c).1.sys = written fd w.sys :=
  handleWrite_other w c fd h

open Pm.Daemon in
/-- ten bytes queued, capacities 3, 0-is-not-offered, 4, then more output queued, then 100 -/
example :
    let w : W := { cfg := { plugs := [], has := [], nodes := [], version := [] }, clients := [] }
    let c : Cli := { id := 1, fd := 5, toBuf := [0, 1, 2, 3, 4, 5, 6, 7, 8, 9] }
    let r := [WEv.cap 3, .cap 4, .put [10, 11], .cap 100].foldl wstep (w, c)
    written 5 r.1.sys = [0, 1, 2, 3, 4, 5, 6, 7, 8, 9, 10, 11] ∧ r.2.toBuf = [] := by decide

/-! ## 6. whole passes of `dev_post_poll`, and any number of them -/

/-- `_process_action` — any fuel, queue, scripts, answers of the regex engine, kernel answers — does only two things to
    the read side: it consumes a prefix of the pending bytes on the same connection (connection count, transport and
    decoder state untouched), or it reconnects, after which nothing is pending and a connection that is up is a new,
    counted one whose decoder is at rest. -/
theorem C09_process_action_read_side (fuel : Nat) (c : CS) (o : Oracle) (out : List Out) (tmo : Option Time) :
    SameConn c.dev (processActionF fuel c o out tmo).1.dev ∨ Reconn c.dev (processActionF fuel c o out tmo).1.dev :=
  processActionF_passRel fuel c o out tmo

/-- One whole pass on an established connection: either the connection is still the same one and the read side is
    the old one — less its `passDropped d env` oldest pending bytes, overwritten by the `read` (0 unless the input buffer is
    full at `MAX_DEV_BUF`: `C09_pass_no_loss`) — advanced by exactly the bytes read from the descriptor in this pass
    (`passTaken`, a prefix of what the kernel had), minus a prefix the expects consumed; or the device reconnected and
    nothing of the old connection is left. -/
theorem C09_pass_connected (d : Dev) (env : Env) (o : Oracle) (h2 : d.conn = 2) :
    ((postPoll d env o).1.dev.conn = 2 ∧ (postPoll d env o).1.dev.statConnects = d.statConnects ∧
      ∃ k, rview (postPoll d env o).1.dev =
        (((rview d).consume (passDropped d env)).read (passTaken d env)).consume k) ∨
    Reconn d (postPoll d env o).1.dev :=
  postPoll_connected d env o h2

/-- One whole pass keeps "not connected ⇒ nothing pending and nothing queued", provided the descriptor delivers
    nothing while its connection is not up (`EnvOk`). -/
theorem C09_pass_quiet (d : Dev) (env : Env) (o : Oracle) (hq : Quiet d) (hr : d.conn ≠ 2 → passTaken d env = []) :
    Quiet (postPoll d env o).1.dev :=
  postPoll_quiet d env o hq hr

/-- One whole pass starting without a connection ends with nothing pending; a connection it brings up is a new one
    with the decoder at rest. -/
theorem C09_pass_fresh (d : Dev) (env : Env) (o : Oracle) (hq : Quiet d) (hr : d.conn ≠ 2 → passTaken d env = [])
    (hn : d.conn ≠ 2) : Reconn d (postPoll d env o).1.dev :=
  postPoll_fresh d env o hq hr hn

/-- The property as an invariant of the daemon's loop.  Run any number of passes, each with its own kernel answers and
    regex answers; carry along, as a ghost, the stream `S` the daemon has read from the descriptor on the connection that
    is up (`passTaken` of each pass, appended; reset whenever that connection is not the same any more).  Then at every
    point: while a connection is up, `fromBuf` is `strip S` (tcp) or `S` (coprocess) minus a prefix — what the expects
    consumed and, only in passes whose `read` found `MAX_DEV_BUF` unconsumed bytes pending, the oldest bytes that `read`
    overwrote (`passDropped`, 0 otherwise: `C09_pass_no_loss`) — so what expects are matched against is exactly the
    decoded stream of the current connection, in order, nothing duplicated, nothing from an earlier connection, nothing
    lost while the unconsumed data stays within the buffer's capacity — and the decoder is in the state `S` leads to;
    while none is up, both buffers are empty. -/
theorem C09_run (s : Dev × Bytes) (ps : List (Env × Oracle)) (hg : Good s) (hr : RunOk s ps) :
    Good (ps.foldl passStep s) :=
  run_good s ps hg hr

/-- a device that is not connected and has empty buffers is a good start (the ghost stream is empty) -/
theorem C09_run_start (d : Dev) (hc : d.conn ≠ 2) (hf : d.fromBuf = []) (ht : d.toBuf = []) : Good (d, []) :=
  good_initial d hc hf ht

/-- `EnvOk` holds as soon as poll never reports a connecting socket readable without reporting it writable; a device
    that is not connected at all, or a pass without POLLIN, delivers nothing anyway. -/
theorem C09_envok_sufficient (d : Dev) (env : Env) :
    (d.conn = 0 → passTaken d env = []) ∧ (env.revents &&& 1 = 0 → passTaken d env = []) ∧
    (d.conn = 1 → env.revents &&& 2 ≠ 0 → passTaken d env = []) :=
  ⟨passTaken_of_not_connected d env, passTaken_of_no_pollin d env, passTaken_of_connecting_pollout d env⟩

/-- a device whose login script is `expect 1; send "x"` -/
def devR : Dev :=
  { dev0 with scripts := fun n => if n = 0 then some [.expect 1, .send [120]] else none, timeout := 1000000 }

def envR (rev : Nat) (rd : Option (Option Bytes)) : Env :=
  { now := 0, revents := rev, sockets := [7], connects := [0], soerrs := [0], read := rd, writeOk := true }

/-- three passes: connect at once; `a IAC DO` arrives, no match; `ECHO b` arrives, the expect matches one byte -/
def runR : List (Env × Oracle) :=
  [ (envR 0 none, ⟨[]⟩),
    (envR 1 (some (some [97, 255, 253])), ⟨[⟨1, [97], none⟩]⟩),
    (envR 1 (some (some [1, 98])), ⟨[⟨1, [97, 98], some [(0, 1)]⟩]⟩) ]

/-- non-vacuity of `C09_run`: the run is admissible, ends connected with ghost stream `a IAC DO ECHO b`, `b` pending
    (`a` consumed), and `WONT ECHO` followed by the login script's `x` queued for the device -/
example : RunOk (devR, []) runR := by
  simp only [RunOk, runR]
  refine ⟨?_, ?_, ?_, trivial⟩ <;> unfold EnvOk <;> decide +kernel
example :
    (runR.foldl passStep (devR, [])).1.conn = 2 ∧ (runR.foldl passStep (devR, [])).2 = [97, 255, 253, 1, 98] ∧
    (runR.foldl passStep (devR, [])).1.fromBuf = [98] ∧ (runR.foldl passStep (devR, [])).1.toBuf = [255, 252, 1, 120] := by
  decide +kernel

/-- `EnvOk` cannot be dropped: if poll reports a *connecting* socket readable but not writable, `_handle_ready_device`
    reads (the code, like the model, tests only `connect_state != NOT_CONNECTED` there) and runs the bytes through the
    decoder in whatever state the previous connection left it — here inside a command, so `IAC a` from the new peer is
    kept as `0xFF a` instead of being dropped — and they stay pending while no connection is up. -/
theorem C09_envok_needed_witness :
    let d : Dev := { dev0 with conn := 1, fd := some 7, tstate := 1 }
    let env : Env := { now := 0, revents := 1, sockets := [], connects := [], soerrs := [],
                       read := some (some [255, 97]), writeOk := true }
    Quiet d ∧ (postPoll d env ⟨[]⟩).1.dev.conn = 1 ∧ (postPoll d env ⟨[]⟩).1.dev.fromBuf = [255, 97] ∧
    strip [255, 97] = [] := by
  refine ⟨fun _ => ⟨rfl, rfl⟩, ?_, ?_, ?_⟩ <;> decide +kernel

/-! ## 7. capacity

`Pm.Cbuf.readPlan size used max avail = (n, size', dropped)` is `cbuf_write_from_fd (cb, fd, -1, &dropped)` for a buffer of
`size` bytes holding `used` unread ones when the kernel has `avail` bytes: `n = min (size - used, or 1000 if that is 0)
avail` bytes are read, the buffer has grown to `size'` (only when it was full; before the `read`, also when the `read`
then fails), and the `dropped` oldest unread bytes are overwritten.  Devices: `devReadPlan`, `readOf`, `dropOf`,
`readTaken c`/`readDropped c` (what a call of `_handle_ready_device` reads/overwrites: `[]`/`0` when its read branch is not
reached), `max = MAX_DEV_BUF = 65536`.  Clients: `cliRead` is the read stage of `clientPass` (`C09_client_pass_stages`),
`cliTaken`/`cliDropped`/`cliSizeAfter`, `max = MAX_CLIENT_BUF = 1048576`.  Helper lemmas: `Pm/CapProof.lean`,
`Pm/Dev2Clip.lean`, `Pm/Cbuf.lean`. -/

/-- the constants -/
theorem C09_buffer_sizes : devBufMax = 65536 ∧ Pm.Daemon.cliBufMax = 1048576 ∧ dev0.fromSize = 1024 ∧
    ({ id := 1, fd := 1000 } : Pm.Daemon.Cli).fromSize = 1024 := ⟨rfl, rfl, rfl, rfl⟩

/-- **What a pass takes in is a prefix of what the kernel offered, of the planned length — device.**  Every call of
    `_handle_ready_device`, every state, every kernel answer: the input buffer afterwards is the old one, less its
    `readDropped c` oldest bytes, followed by what the daemon keeps (`keptOf`: all of it on a coprocess, the telnet
    decoder's output on tcp) of the bytes read, `readTaken c`; and when the kernel had `bs`, the bytes read are nothing
    (the read branch was not reached) or the first `(readPlan …).1` bytes of `bs`. -/
theorem C09_read_is_prefix (c : CS) :
    (handleReady c).1.dev.fromBuf = c.dev.fromBuf.drop (readDropped c) ++ keptOf c.dev (readTaken c) ∧
    (∀ bs, c.env.read = some (some bs) →
      readTaken c <+: bs ∧
      (readTaken c = [] ∨
       readTaken c = bs.take (Pm.Cbuf.readPlan c.dev.fromSize c.dev.fromBuf.length 65536 bs.length).1)) ∧
    ((∀ bs, c.env.read ≠ some (some bs)) → readTaken c = []) :=
  ⟨handleReady_fromBuf c, fun bs hr => ⟨readTaken_isPrefix c bs hr, readTaken_prefix c bs hr⟩, readTaken_nodata c⟩

/-- `readOf d bs`, the bytes one `read` takes when the kernel has `bs`, spelled out -/
theorem C09_readOf (d : Dev) (bs : Bytes) :
    readOf d bs = bs.take (Pm.Cbuf.readPlan d.fromSize d.fromBuf.length 65536 bs.length).1 ∧
    (readOf d bs).length = (Pm.Cbuf.readPlan d.fromSize d.fromBuf.length 65536 bs.length).1 ∧
    (bs ≠ [] → readOf d bs ≠ []) :=
  ⟨rfl, readOf_length d bs, readOf_ne_nil d bs⟩

/-- 1020 bytes pending in the initial buffer of 1024: of ten bytes offered, four are read; the buffer does not grow -/
example : readOf { dev0 with fromBuf := List.replicate 1020 97 } [1, 2, 3, 4, 5, 6, 7, 8, 9, 10] = [1, 2, 3, 4] ∧
    sizeAfter { dev0 with fromBuf := List.replicate 1020 97 } [1, 2, 3, 4, 5, 6, 7, 8, 9, 10] = 1024 := by decide +kernel
/-- the buffer full: it grows (to 2983) and a chunk is asked for -/
example : readOf { dev0 with fromBuf := List.replicate 1024 97 } [1, 2, 3] = [1, 2, 3] ∧
    sizeAfter { dev0 with fromBuf := List.replicate 1024 97 } [1, 2, 3] = 2983 ∧
    dropOf { dev0 with fromBuf := List.replicate 1024 97 } [1, 2, 3] = 0 := by decide +kernel

open Pm.Daemon Pm.Daemon.ClientPf Pm.Daemon.Cap in
/-- **The same for a client.**  `clientPass` is: the descriptor's error bits; the read stage `cliRead`; `_handle_write`;
    `_handle_input`; the destruction of a client that has quit. -/
theorem C09_client_pass_stages (w : W) (c : Cli) (e : Option FdEnv) :
    clientPass w c e =
      (if cpRev c e &&& 8 != 0 || cpRev c e &&& 16 != 0 then cpDead w c else
       let r1 := if cpRev c e &&& 1 != 0 || cpRev c e &&& 4 != 0 then cliRead w c e else (w, c)
       let r2 := if cpRev c e &&& 2 != 0 then handleWrite r1.1 r1.2 else r1
       cpTail (handleInput r2.1 r2.2)) :=
  clientPass_stages w c e

open Pm.Daemon Pm.Daemon.ClientPf Pm.Daemon.Cap in
/-- The read stage: the input buffer loses its `cliDropped c e` oldest bytes and gains `cliTaken c e`, a prefix of what
    the kernel offered (`e.data`) of the planned length (the kernel has nothing to offer on an error, `rk = 1`, or at end
    of file, `rk = 2`); the size becomes the planned one; one `read` is logged, with the number of bytes taken (0 at end
    of file, -1 on an error or when nothing was there); the client is marked as having quit when nothing was taken. -/
theorem C09_client_read_is_prefix (w : W) (c : Cli) (e : FdEnv) :
    (cliRead w c (some e)).2.fromBuf = c.fromBuf.drop (cliDropped c e) ++ cliTaken c e ∧
    (cliRead w c (some e)).2.fromSize = cliSizeAfter c e ∧
    cliTaken c e <+: e.data ∧
    (cliTaken c e).length =
      (Pm.Cbuf.readPlan c.fromSize c.fromBuf.length 1048576 (if e.rk == 1 || e.rk == 2 then 0 else e.data.length)).1 ∧
    (cliRead w c (some e)).1.sys = w.sys ++ [Sys.read c.fd
      (if e.rk == 1 then -1 else if e.rk == 2 then 0 else if (cliTaken c e).isEmpty then -1 else ((cliTaken c e).length : Int))] ∧
    (cliRead w c (some e)).2.quit = (c.quit || (cliTaken c e).isEmpty) :=
  ⟨(cliRead_spec w c e).1, (cliRead_spec w c e).2.1, cliTaken_prefix c e, cliTaken_length c e, (cliRead_spec w c e).2.2.1,
    (cliRead_spec w c e).2.2.2⟩

open Pm.Daemon Pm.Daemon.Cap in
/-- a client with 1020 bytes pending (no line feed among them) in its initial buffer of 1024: of `quit\n` four bytes are
    read in this pass; the line is completed — and answered — in the next -/
example :
    let c : Cli := { id := 1, fd := 1000, fromBuf := List.replicate 1020 97 }
    let e : FdEnv := { fd := 1000, rev := 1, rk := 0, data := bstr "quit\n", cap := 0 }
    cliTaken c e = bstr "quit" ∧ cliDropped c e = 0 ∧ cliSizeAfter c e = 1024 := by decide +kernel

/-- **Capacity — device.**  `fromBuf.length ≤ fromSize`, `1024 ≤ fromSize ≤ 65536` (`DevCap`) is an invariant of
    `_handle_ready_device` and of a whole pass of `dev_post_poll` (any scripts, oracle, kernel answers, reconnects: the
    cbuf is created once in `dev_create` and survives them), and the size never decreases. -/
theorem C09_capacity (c : CS) (d : Dev) (env : Env) (o : Oracle) :
    (DevCap c.dev → DevCap (handleReady c).1.dev ∧ c.dev.fromSize ≤ (handleReady c).1.dev.fromSize) ∧
    (DevCap d → DevCap (postPoll d env o).1.dev ∧ d.fromSize ≤ (postPoll d env o).1.dev.fromSize) :=
  ⟨handleReady_cap c, postPoll_cap d env o⟩

/-- `DevCap`, spelled out; a device as `dev_create` leaves it satisfies it -/
theorem C09_capacity_def (d : Dev) :
    DevCap d ↔ d.fromBuf.length ≤ d.fromSize ∧ 1024 ≤ d.fromSize ∧ d.fromSize ≤ 65536 :=
  ⟨fun h => ⟨h.fits, h.min, h.max⟩, fun h => ⟨h.1, h.2.1, h.2.2⟩⟩
example : DevCap dev0 := ⟨by decide, by decide, by decide⟩
example : DevCap { dev0 with fromBuf := List.replicate 1024 97 } := ⟨by decide +kernel, by decide, by decide⟩

open Pm.Daemon Pm.Daemon.Cap in
/-- **Capacity — client.**  `fromBuf.length ≤ fromSize`, `1024 ≤ fromSize ≤ 1048576` (`CliCap`) holds of a client that
    survives its share of a pass if it held before, and the size has not decreased. -/
theorem C09_capacity_client (w : W) (c : Cli) (e : Option FdEnv) (c' : Cli) (h : CliCap c)
    (hc : (clientPass w c e).2 = some c') : CliCap c' ∧ c.fromSize ≤ c'.fromSize :=
  clientPass_cap w c e c' h hc

open Pm.Daemon Pm.Daemon.Cap in
theorem C09_capacity_client_def (c : Cli) :
    CliCap c ↔ c.fromBuf.length ≤ c.fromSize ∧ 1024 ≤ c.fromSize ∧ c.fromSize ≤ 1048576 :=
  ⟨fun h => ⟨h.fits, h.min, h.max⟩, fun h => ⟨h.1, h.2.1, h.2.2⟩⟩
open Pm.Daemon Pm.Daemon.Cap in
example : CliCap { id := 1, fd := 1000 } := ⟨by decide, by decide, by decide⟩

/-- **Nothing is lost below the maximal size — device.**  If the buffer was not full, or is still smaller than
    `MAX_DEV_BUF` after the call, no pending byte is overwritten: the input buffer afterwards is the old one followed by
    what the daemon keeps of the bytes read (the telnet-filtered bytes read on tcp). -/
theorem C09_no_loss_below_max (c : CS) (hf : c.dev.fromBuf.length ≤ c.dev.fromSize)
    (h : c.dev.fromBuf.length < c.dev.fromSize ∨ (handleReady c).1.dev.fromSize < 65536) :
    readDropped c = 0 ∧ (handleReady c).1.dev.fromBuf = c.dev.fromBuf ++ keptOf c.dev (readTaken c) := by
  have h0 : readDropped c = 0 := by
    rcases h with h | h
    · exact readDropped_of_room c h
    · exact readDropped_below_max c hf h
  refine ⟨h0, ?_⟩
  rw [handleReady_fromBuf, h0, List.drop_zero]

/-- … over a whole pass of `dev_post_poll` (`passDropped` is the loss term of `C09_pass_connected`) -/
theorem C09_pass_no_loss (d : Dev) (env : Env) (o : Oracle) (hf : d.fromBuf.length ≤ d.fromSize)
    (h : d.fromBuf.length < d.fromSize ∨ (postPoll d env o).1.dev.fromSize < 65536) : passDropped d env = 0 :=
  passDropped_zero d env o hf h

open Pm.Daemon Pm.Daemon.Cap in
/-- **Nothing is lost below the maximal size — client.** -/
theorem C09_client_no_loss_below_max (w : W) (c : Cli) (e : FdEnv) (hf : c.fromBuf.length ≤ c.fromSize)
    (h : c.fromBuf.length < c.fromSize ∨ cliSizeAfter c e < 1048576) :
    cliDropped c e = 0 ∧ (cliRead w c (some e)).2.fromBuf = c.fromBuf ++ cliTaken c e := by
  have h0 : cliDropped c e = 0 := by
    rcases h with h | h
    · exact cliDropped_of_room c e h
    · exact cliDropped_below_max c e hf h
  refine ⟨h0, ?_⟩
  rw [(cliRead_spec w c e).1, h0, List.drop_zero]

/-- **At the maximal size the oldest bytes give way — device.**  In general the number of bytes overwritten is the number
    of bytes read less the room there is after growing (or nothing); and when `MAX_DEV_BUF` unconsumed bytes are pending,
    a `read` asks for a chunk of 1000, takes what the kernel has of it, and exactly as many of the *oldest* pending bytes
    are lost: the buffer afterwards is the old one without its first `|readTaken c|` bytes, followed by what is kept of
    the bytes read (`device.c` logs "lost %d chars due to buffer wrap"; expects now see a stream with a hole). -/
theorem C09_overflow_drops_oldest (c : CS) :
    (readDropped c = (readTaken c).length - ((handleReady c).1.dev.fromSize - c.dev.fromBuf.length) ∨ readDropped c = 0) ∧
    (c.dev.fromSize = 65536 → c.dev.fromBuf.length = 65536 →
      readDropped c = (readTaken c).length ∧ (readTaken c).length ≤ 1000 ∧
      (∀ bs, c.env.read = some (some bs) → readTaken c = [] ∨ readTaken c = bs.take 1000) ∧
      (handleReady c).1.dev.fromBuf = c.dev.fromBuf.drop (readTaken c).length ++ keptOf c.dev (readTaken c)) := by
  refine ⟨readDropped_eq c, fun hs hfull => ?_⟩
  obtain ⟨h1, h2, h3⟩ := readDropped_full c hs hfull
  exact ⟨h1, h2, h3, by rw [handleReady_fromBuf, h1]⟩

/-- `Cap.Ex.fullPipe`: a connected coprocess device whose buffer holds 65536 unconsumed bytes (all `a`), readable, the kernel
    has `x y z`: the three oldest `a` are gone, the buffer is still 65536 bytes long and ends in `x y z` -/
example :
    Cap.Ex.fullPipe.dev.fromBuf = List.replicate 65536 97 ∧ Cap.Ex.fullPipe.dev.fromSize = 65536 ∧
    Cap.Ex.fullPipe.env.read = some (some [120, 121, 122]) ∧ DevCap Cap.Ex.fullPipe.dev ∧
    readDropped Cap.Ex.fullPipe = 3 ∧ readTaken Cap.Ex.fullPipe = [120, 121, 122] ∧
    (handleReady Cap.Ex.fullPipe).1.dev.fromBuf = List.replicate 65533 97 ++ [120, 121, 122] ∧
    (handleReady Cap.Ex.fullPipe).1.dev.fromSize = 65536 :=
  ⟨rfl, rfl, rfl, Cap.Ex.fullPipe_cap, Cap.Ex.fullPipe_spec.1, Cap.Ex.fullPipe_spec.2.1, Cap.Ex.fullPipe_spec.2.2.1,
    Cap.Ex.fullPipe_spec.2.2.2⟩

open Pm.Daemon Pm.Daemon.Cap in
/-- **At the maximal size the oldest bytes give way — client.**  (A client that sends a megabyte without a line feed.) -/
theorem C09_client_overflow_drops_oldest (w : W) (c : Cli) (e : FdEnv) :
    cliDropped c e = (cliTaken c e).length - (cliSizeAfter c e - c.fromBuf.length) ∧
    (c.fromSize = 1048576 → c.fromBuf.length = 1048576 →
      cliSizeAfter c e = 1048576 ∧ cliDropped c e = (cliTaken c e).length ∧
      cliTaken c e = (if e.rk == 1 || e.rk == 2 then [] else e.data.take 1000) ∧
      (cliRead w c (some e)).2.fromBuf = c.fromBuf.drop (cliTaken c e).length ++ cliTaken c e) := by
  refine ⟨cliDropped_eq c e, fun hs hfull => ?_⟩
  obtain ⟨h1, h2, h3⟩ := cli_full c e hs hfull
  exact ⟨h1, h2, h3, by rw [(cliRead_spec w c e).1, h2]⟩

/-- **The device's short write.**  The descriptor is reported writable (and not readable), the device is connected,
    something is queued and the `write` does not fail.  If the kernel takes `wcap ≥ 1` bytes, no error is reported, one
    `write` of the first `min wcap |toBuf|` bytes is logged, and these bytes followed by what stays queued are what was
    queued: nothing lost, repeated or reordered.  If it takes nothing (`wcap = 0`, `EAGAIN`), an empty write is logged, the
    queue is as it was and an i/o error is reported (`_handle_write`: `n < 0` — the caller reconnects, which flushes the
    queue: `C09_reconnect_clean`). -/
theorem C09_device_short_write (c : CS) (h : ReadyOk c) (hout : c.env.revents &&& 2 ≠ 0) (hin : c.env.revents &&& 1 = 0)
    (hc : c.dev.conn ≠ 1) (hb : c.dev.toBuf ≠ []) (hw : c.env.writeOk = true) :
    (c.env.wcap ≠ 0 → (handleReady c).2 = false ∧
      ∃ wr, wr ≠ [] ∧ wr.length = min c.env.wcap c.dev.toBuf.length ∧ (handleReady c).1.sys = c.sys ++ [.write wr true] ∧
        wr ++ (handleReady c).1.dev.toBuf = c.dev.toBuf) ∧
    (c.env.wcap = 0 → (handleReady c).2 = true ∧ (handleReady c).1.sys = c.sys ++ [.write [] true] ∧
      (handleReady c).1.dev.toBuf = c.dev.toBuf) :=
  short_write c h hout hin hc hb hw

/-- `on\n` queued, the descriptor takes two bytes: `on` goes out, the line feed waits -/
example :
    let c : CS := { dev := { dev0 with conn := 2, fd := some 7, toBuf := [111, 110, 10] },
                    env := { now := 0, revents := 2, sockets := [], connects := [], soerrs := [], read := none, writeOk := true,
                             wcap := 2 },
                    sys := [] }
    (handleReady c).1.dev.toBuf = [10] ∧ (handleReady c).2 = false ∧ devWritten (handleReady c).1.sys = [111, 110] := by
  decide
/-- the same with a descriptor that takes nothing: i/o error, nothing written, nothing lost (yet) -/
example :
    let c : CS := { dev := { dev0 with conn := 2, fd := some 7, toBuf := [111, 110, 10] },
                    env := { now := 0, revents := 2, sockets := [], connects := [], soerrs := [], read := none, writeOk := true,
                             wcap := 0 },
                    sys := [] }
    (handleReady c).1.dev.toBuf = [111, 110, 10] ∧ (handleReady c).2 = true := by decide

/-! ## 8. the capacity of the device output buffer

`dev->to = cbuf_create(MIN_DEV_BUF, MAX_DEV_BUF)` (device.c, `dev_create`) is a liblsd circular buffer in its default overwrite
mode (`CBUF_WRAP_MANY`): `cbuf_write` always stores all the bytes it is given, growing the buffer up to 65536 bytes, and beyond
that the oldest *unsent* bytes are overwritten (`cbuf_writer`: `dropped = n - nfree`).  Its writers are `_process_send` (which
logs "buffer overrun" and goes on: finding F33 was the assertion that used to be here) and `_telnet_sendopt` (a 3-byte answer to
every `IAC DO x` received); `_handle_write` drains it.  A tcp device that does not read while it floods `IAC DO x` fills it:
21 846 triples queue 65 538 bytes.  In the model `clipTo b` = the last 65536 bytes of `b` (`clipTo_eq_drop`) is applied where
these two queue their bytes; `toDropped old s = |old ++ s| - 65536` is the `dropped` count of the write. -/

/-- **The capacity is an invariant.**  `toBuf.length ≤ 65536` holds of the buffer of a new device (empty), is kept by
    `_handle_ready_device`, by `_process_action` (any fuel), by a whole `dev_post_poll` pass, by `_connect`, `_reconnect`
    (`_disconnect` empties the buffer), and hence over any run of passes, whatever the kernel and the regex engine answer. -/
theorem C09_device_out_capacity :
    (∀ c : CS, c.dev.toBuf.length ≤ 65536 → (handleReady c).1.dev.toBuf.length ≤ 65536) ∧
    (∀ (fuel : Nat) (c : CS) (o : Oracle) (out : List Out) (tmo : Option Time), c.dev.toBuf.length ≤ 65536 →
        (processActionF fuel c o out tmo).1.dev.toBuf.length ≤ 65536) ∧
    (∀ (c : CS) (o : Oracle) (out : List Out) (tmo : Option Time), c.dev.toBuf.length ≤ 65536 →
        (processAction c o out tmo).1.dev.toBuf.length ≤ 65536) ∧
    (∀ (d : Dev) (env : Env) (o : Oracle), d.toBuf.length ≤ 65536 → (postPoll d env o).1.dev.toBuf.length ≤ 65536) ∧
    (∀ c : CS, c.dev.toBuf.length ≤ 65536 → (connectDev c).dev.toBuf.length ≤ 65536) ∧
    (∀ (c : CS) (tmo : Option Time), c.dev.toBuf.length ≤ 65536 → (reconnectDev c tmo).1.dev.toBuf.length ≤ 65536) ∧
    (∀ (s : Dev × Bytes) (ps : List (Env × Oracle)), s.1.toBuf.length ≤ 65536 → (ps.foldl passStep s).1.toBuf.length ≤ 65536) :=
  ⟨Pm.Dev2.Login2.handleReady_cap, Pm.Dev2.Login2.processActionF_cap, Pm.Dev2.Login2.processAction_cap,
   Pm.Dev2.Login2.postPoll_cap, connectDev_cap, reconnectDev_cap, run_cap⟩

/-- the two writers never leave more than 65536 bytes queued, whatever was queued before (within the capacity or not) -/
theorem C09_device_out_capacity_writers (d : Dev) (a : Action) (o : Oracle) (e : ExecCtx) (fmt s bs : Bytes)
    (hp : e.processing = false) (hs : sendText fmt e.plugs = some s) :
    (stmtSend d a o e fmt).dev.toBuf.length ≤ 65536 ∧ (telnetFilter d bs).toBuf.length ≤ 65536 := by
  refine ⟨?_, Pm.Dev2.Login2.telnetFilter_cap d bs⟩
  rw [(Pm.Dev2.Interp.stmtSend_fresh d a o e fmt s hp hs).1]; exact clipTo_length_le _

/-- non-vacuity: a new device starts within the capacity; the full device of the witnesses is at it -/
example : dev0.toBuf.length ≤ 65536 ∧ fullDev.toBuf.length = 65536 := ⟨by decide, fullDev_len⟩

/-- **Nothing is lost below the maximum.**  A whole `dev_post_poll` pass in which what is queued, the telnet answers the pass
    can add (`readyReplies`: those to the bytes the `read` hands over on a tcp device) and the texts the pass's `send`
    statements queue fit the buffer together: what a successful `write` delivered in this pass (`wr`, a prefix of the queue,
    logged) followed by what is queued afterwards is exactly what was queued before, then the answers, then the texts, in
    this order — delivered ++ queued = everything queued — unless the pass disconnected (i/o error before `_process_action`: just
    the texts are queued; error branch of `_process_action`: the queue is empty). -/
theorem C09_device_out_no_loss_below_max (d : Dev) (env : Env) (o : Oracle)
    (hfit : d.toBuf.length + (readyReplies { dev := d, env := env, sys := [] }).length +
      (sentBytes (postPoll d env o).2.2.1).length ≤ 65536) :
    ∃ wr reply,
      (wr = [] ∨ Sys.write wr true ∈ (postPollReady d env).1.sys) ∧ wr <+: d.toBuf ∧
      (reply = [] ∨ ∃ bs, env.read = some (some bs) ∧ d.isPipe = false ∧
        reply = telnetReplies d.tstate d.tcmd (readOf d bs)) ∧
      (wr ++ (postPoll d env o).1.dev.toBuf = d.toBuf ++ reply ++ sentBytes (postPoll d env o).2.2.1 ∨
       ((postPoll d env o).1.dev.toBuf = sentBytes (postPoll d env o).2.2.1 ∧
          (postPollReady d env).2 = true ∧ (postPollReady d env).1.dev.conn ≠ 0) ∨
       ((postPoll d env o).1.dev.toBuf = [] ∧ (postPollPre d env).1.dev.conn = 2 ∧
          ((postPoll d env o).1.dev.conn ≠ 2 ∨
           (postPoll d env o).1.dev.retryCount = (postPollPre d env).1.dev.retryCount + 1))) :=
  postPoll_no_loss d env o hfit

/-- the same for one `_handle_ready_device` in the log's terms, with the criterion a trace can be checked against: whenever
    the buffer is *not full* afterwards (fewer than 65536 bytes queued), written-so-far ++ queued has only grown at its end -/
theorem C09_device_out_no_loss_not_full (c : CS) (hcap : c.dev.toBuf.length ≤ 65536)
    (hnf : (handleReady c).1.dev.toBuf.length < 65536) :
    ∃ bs, devWritten (handleReady c).1.sys ++ (handleReady c).1.dev.toBuf =
      devWritten c.sys ++ c.dev.toBuf ++ repliesOf c.dev bs := by
  obtain ⟨bs, h⟩ := handleReady_write_conserve_below c hcap
  exact ⟨bs, h (Or.inr hnf)⟩

/-- non-vacuity of the hypothesis of `C09_device_out_no_loss_below_max` (and the first case: three answer bytes are queued) -/
example :
    let d : Dev := { dev0 with conn := 2, fd := some 7, toBuf := [111, 110, 10] }
    let env : Env := { now := 0, revents := 1, sockets := [], connects := [], soerrs := [], read := some (some [255, 253, 1]), writeOk := true }
    d.toBuf.length + (readyReplies { dev := d, env := env, sys := [] }).length + (sentBytes (postPoll d env ⟨[]⟩).2.2.1).length = 6 ∧
    (postPoll d env ⟨[]⟩).1.dev.toBuf = [111, 110, 10, 255, 252, 1] := by decide +kernel

/-- **Beyond the maximum exactly the oldest queued bytes are lost** — the exact statement for each of the two writers and for
    `_handle_ready_device`.
    (1) A first-visit `send` of a text `s` of at most 65536 bytes: the `toDropped d.toBuf s = |toBuf| + |s| - 65536` oldest queued
    bytes give way and the text is queued whole; with the buffer exactly full (`|toBuf| = 65536`) that is exactly `|s|` bytes.
    (2) Of a text longer than the buffer only its last 65536 bytes are queued and nothing older stays.
    (3) The telnet answers to the bytes `bs` read: the same, with the answers in the place of the text.
    (4) `_handle_ready_device` with the descriptor readable and not writable, the buffer exactly full: the answers `r` to what was
    read push out exactly the `|r|` oldest queued bytes.
    Nothing else is lost, nothing is reordered: what stays is a suffix of what was queued, followed by what was written. -/
theorem C09_device_out_overflow_drops_oldest :
    (∀ (d : Dev) (a : Action) (o : Oracle) (e : ExecCtx) (fmt s : Bytes), e.processing = false → sendText fmt e.plugs = some s →
        s.length ≤ 65536 →
        (stmtSend d a o e fmt).dev.toBuf = d.toBuf.drop (toDropped d.toBuf s) ++ s ∧
        (d.toBuf.length = 65536 → (stmtSend d a o e fmt).dev.toBuf = d.toBuf.drop s.length ++ s)) ∧
    (∀ (d : Dev) (a : Action) (o : Oracle) (e : ExecCtx) (fmt s : Bytes), e.processing = false → sendText fmt e.plugs = some s →
        65536 ≤ s.length → (stmtSend d a o e fmt).dev.toBuf = s.drop (s.length - 65536)) ∧
    (∀ (d : Dev) (bs : Bytes), (telnetReplies d.tstate d.tcmd bs).length ≤ 65536 →
        (telnetFilter d bs).toBuf =
          d.toBuf.drop (toDropped d.toBuf (telnetReplies d.tstate d.tcmd bs)) ++ telnetReplies d.tstate d.tcmd bs ∧
        (d.toBuf.length = 65536 → (telnetFilter d bs).toBuf =
          d.toBuf.drop (telnetReplies d.tstate d.tcmd bs).length ++ telnetReplies d.tstate d.tcmd bs)) ∧
    (∀ (c : CS) (bs : Bytes), ReadyOk c → c.env.revents &&& 2 = 0 → c.env.revents &&& 1 ≠ 0 →
        c.env.read = some (some bs) → bs ≠ [] → c.dev.toBuf.length = 65536 →
        (repliesOf c.dev (readOf c.dev bs)).length ≤ 65536 →
        (handleReady c).1.dev.toBuf =
          c.dev.toBuf.drop (repliesOf c.dev (readOf c.dev bs)).length ++ repliesOf c.dev (readOf c.dev bs)) :=
  ⟨fun d a o e fmt s hp hs hl => ⟨stmtSend_drops_oldest d a o e fmt s hp hs hl, fun hf => stmtSend_full d a o e fmt s hp hs hf hl⟩,
   fun d a o e fmt s hp hs hl => by rw [stmtSend_long d a o e fmt s hp hs hl, clipTo_eq_drop],
   fun d bs hl => ⟨telnetFilter_drops_oldest d bs hl, fun hf => telnetFilter_full d bs hf hl⟩,
   fun c bs h hout hin hr hbs hf hl => handleReady_read_full c bs h hout hin hr hbs hf hl⟩

/-- the `dropped` count is what `cbuf_write` reports: `max 0 (|old| + |s| - 65536)`, positive exactly when the write overruns -/
theorem C09_device_out_dropped (old s : Bytes) :
    toDropped old s = old.length + s.length - 65536 ∧ (toOverrun old s = true ↔ 0 < toDropped old s) :=
  ⟨by unfold toDropped; rw [List.length_append], toOverrun_iff old s⟩

/-- non-vacuity, (1) and (4) at the limit: against 65536 queued bytes a `send "l\n"` loses the two oldest, an `IAC DO ECHO`
    read (answer `IAC WONT ECHO`) loses the three oldest -/
example (a : Action) (o : Oracle) :
    (stmtSend fullDev a o sendCtx [108, 10]).dev.toBuf = fullDev.toBuf.drop 2 ++ [108, 10] ∧
    (handleReady stormC).1.dev.toBuf = (List.replicate 65536 7).drop 3 ++ [255, 252, 1] :=
  ⟨(send_append_counterexample a o).2.2.2, stormC_toBuf⟩

/-- **The old statement of the write side is false beyond 64 KiB.**  `C09_device_write_conserved` read, before the capacity was
    modelled, "written so far ++ queued only grows at its end, by the answers to what was read".  On the full device whose
    descriptor delivers one `IAC DO ECHO` and is not writable there is no `bs` for which this holds: three queued bytes are gone.
    (The C code does the same: the correspondence run reaches this state with a telnet storm, `lib/daemon.py`.) -/
theorem C09_device_write_conserved_old_counterexample :
    stormC.dev.toBuf.length ≤ 65536 ∧
    ¬ ∃ bs, devWritten (handleReady stormC).1.sys ++ (handleReady stormC).1.dev.toBuf =
      devWritten stormC.sys ++ stormC.dev.toBuf ++ repliesOf stormC.dev bs :=
  ⟨Nat.le_of_eq fullDev_len, write_conserved_old_counterexample⟩

end Pm.Props.C09
