import Pm.EnqProof
/-! # C01 — a request commands only the plugs of the nodes it names

"For every on/off/cycle/reset/flash/unflash request, the (device, plug) pairs that receive a device command are a
subset of the image of the client's target expression (after alias and host-range expansion) under the configured
node-to-plug map, and each device is addressed with the plug name configured for that node.  A whole-device
(`*_all`) power script is run only when every plug of that device is mapped to a node named in the request; devices
none of whose nodes were named receive no command on behalf of that request."

What is proved, about the definitions of `Pm/Daemon.lean` themselves (`enqueue` = `dev_enqueue_actions` +
`_enqueue_targeted_actions` for one device, `install` = `_create_command` + `dev_check_actions` + the loop of
`dev_enqueue_actions`, `parseLine` = `_parse_input`) and of `Pm/Dev2.lean` (`stmtSend` = `_process_send`), for every
device (any plug list, any script table), every command slot and every target list:

* `C01_appends`           — `enqueue` only appends to the queue, and what it appends is the value of an explicit
                            function `newActs` of the plug list, the script table and the request (history-freedom);
* `C01_subset`            — plug list of a singlet/ranged action ⊆ plugs of this device mapped to named nodes;
* `C01_commanded`         — for a power command every plug an appended action *can* command (all plugs for `_all`) is such a plug;
* `C01_all_only_if_complete`, `C01_all_query` — the `_all` rule for power commands, and what holds for queries;
* `C01_uninvolved`, `C01_install_uninvolved` — a device no node of which is named is left exactly as it was;
* `C01_kind`              — only the requested command or its `_all`/`_ranged` variant, for the requesting client;
* `C01_count`, `C01_install_involved` — the count is the number of actions; an involved device that passed the
                            capability check gets at least one (F15 repaired);
* `C01_wire_*`            — what a `send` writes: the configured plug name / the ranged plug names / no name;
* `C01_request`           — the target list `install` receives from `_parse_input` is `conf_exp_aliases` of the expansion of
                            the host range the client typed (every name a configured node), or all configured nodes for a
                            bare query;
* `C01_alias_expansion`, `C01_alias_identity`, `C01_alias_members`, `C01_alias_multiset` — what `conf_exp_aliases` computes:
                            the closed form of its loop, the identity without aliases, membership, the result as a multiset;
* `C01_validated`         — the targets an installed command carries (in the client's command and in every action) are
                            exactly that list;
* `C01_alias_only_members`, `C01_alias_subset` — a plug is commanded only if its node is a typed name that is not an alias
                            name, or a host of a typed alias;
* `C01_alias_no_recursion` — a host of an alias that is itself the name of an alias is kept as it is, not expanded;
* `C01_too_long_never_acts` — a request line of `CP_LINEMAX` (131072) bytes or more is refused (203) before it is looked
                            at: no device receives anything on its behalf, whatever it says;
* `C01_foreach_in_singlet_counterexample` — the limit: a singlet script containing `foreachplug` walks all plugs.

`conf_exp_aliases` is mirrored on expanded name lists (`expAliases`, `Pm/Daemon.lean`; helper lemmas `Pm/AliasProof.lean`):
`hostlist_delete_host` is "erase the first occurrence", `hostlist_push_list` is "append".  The theorems about
`enqueue`/`install` hold for an arbitrary target list; `C01_validated` says which list `_parse_input` passes. -/
namespace Pm.Props.C01
open Pm Pm.Client Pm.Daemon
open Pm.Daemon.Enq
open Pm.Daemon.AliasPf (isAlias membersOf standsFor exAls exNested)
open Pm.Dev2 (Dev Action Stmt Plug ExecCtx Oracle Out stmtSend hsprintf rangedNames topCtx clipTo)

/-- The six power commands are exactly the commands that are not queries (`_is_query_action`). -/
theorem C01_power_commands (com : Com) :
    isQuery (comIdx com) = false ↔ com ∈ [Com.on, .off, .cycle, .reset, .flash, .unflash] :=
  isQuery_comIdx com

/-- History-freedom.  `dev_enqueue_actions` changes nothing of a device but its queue, it only appends to the queue,
    and the appended actions are `newActs d.plugs d.scripts com targets cid tele al`: they depend on the configured
    plugs and scripts of the device and on the request, not on what is queued, buffered, or on the connection. -/
theorem C01_appends (d : Dev) (com : Nat) (targets : List Bytes) (cid : Nat) (tele : Bool) (al : Nat) :
    (enqueue d com targets cid tele al).1.acts = d.acts ++ newActs d.plugs d.scripts com targets cid tele al ∧
    (enqueue d com targets cid tele al).1 = { d with acts := (enqueue d com targets cid tele al).1.acts } :=
  ⟨enqueue_acts d com targets cid tele al, enqueue_frame d com targets cid tele al⟩

/-- Every appended action has one execution context: the script in the slot `a.com` (which exists) at its first
    statement, nothing in progress, with `a.outerPlugs` as its plug list. -/
theorem C01_fresh (d : Dev) (com : Nat) (targets : List Bytes) (cid : Nat) (tele : Bool) (al : Nat) :
    ∀ a ∈ newActs d.plugs d.scripts com targets cid tele al,
      a.exec = [{ block := (d.scripts a.com).getD [], pos := 0, plugs := a.outerPlugs, plugItr := none, plugCopy := none,
                  processing := false }] ∧ (d.scripts a.com).isSome = true :=
  fun _ h => newActs_exec h

/-- First sentence.  An appended action that carries a plug list (singlet or ranged) lists only plugs of this device
    that are mapped to a node named in the request.  (Holds for queries too.) -/
theorem C01_subset (d : Dev) (com : Nat) (targets : List Bytes) (cid : Nat) (tele : Bool) (al : Nat) :
    ∀ a ∈ newActs d.plugs d.scripts com targets cid tele al, ∀ ps, a.outerPlugs = some ps →
      ∀ p ∈ ps, p ∈ d.plugs ∧ ∃ n, p.node = some n ∧ n ∈ targets :=
  fun _ h _ hps => newActs_subset h hps

/-- Sharper form: the plug list is one targeted plug (singlet action, slot `com`), or absent (`_all`, slot `allOf com`),
    or all targeted plugs in configuration order (ranged, slot `rangedOf com`). -/
theorem C01_shape (d : Dev) (com : Nat) (targets : List Bytes) (cid : Nat) (tele : Bool) (al : Nat) :
    ∀ a ∈ newActs d.plugs d.scripts com targets cid tele al,
      (∃ p, p ∈ d.plugs.filter (tgt targets) ∧ a.outerPlugs = some [p] ∧ a.com = com) ∨
      (a.outerPlugs = none ∧ allOf com = some a.com) ∨
      (a.outerPlugs = some (d.plugs.filter (tgt targets)) ∧ rangedOf com = some a.com) :=
  fun _ h => newActs_plugs_shape h

/-- First and second sentence together, for a power command: every plug an appended action can command
    (`Action.commanded`: its plug list, or every plug of the device for an `_all` action) is a plug of this device
    mapped to a node named in the request. -/
theorem C01_commanded (d : Dev) (com : Nat) (targets : List Bytes) (cid : Nat) (tele : Bool) (al : Nat)
    (hq : isQuery com = false) :
    ∀ a ∈ newActs d.plugs d.scripts com targets cid tele al,
      ∀ p ∈ a.commanded d, p ∈ d.plugs ∧ ∃ n, p.node = some n ∧ n ∈ targets :=
  fun _ h => newActs_commanded hq h

/-- Second sentence (the "antisocial" rule).  If an action without a plug list is appended for a power command, it is
    the `_all` variant of that command and EVERY plug of the device is mapped to a node named in the request — in
    particular the device has no unused plug. -/
theorem C01_all_only_if_complete (d : Dev) (com : Nat) (targets : List Bytes) (cid : Nat) (tele : Bool) (al : Nat)
    (hq : isQuery com = false) :
    ∀ a ∈ newActs d.plugs d.scripts com targets cid tele al, a.outerPlugs = none →
      allOf com = some a.com ∧
      d.plugs.all (fun p => match p.node with | some n => targets.contains n | none => false) = true ∧
      ∀ p ∈ d.plugs, ∃ n, p.node = some n ∧ n ∈ targets := by
  intro a h hn
  obtain ⟨hc, hall⟩ := newActs_all h hn
  rcases hall with hall | ⟨hq', _⟩
  · exact ⟨hc, hall, (all_tgt_iff d.plugs targets).mp hall⟩
  · rw [hq] at hq'; cases hq'

/-- What holds for queries: the `_all` variant of a query script is used when every plug is targeted, or — for a
    partial target — when the device has no singlet script for that query.  (Within the property, which speaks of
    power scripts; a status query for part of a device may read the whole device.) -/
theorem C01_all_query (d : Dev) (com : Nat) (targets : List Bytes) (cid : Nat) (tele : Bool) (al : Nat) :
    ∀ a ∈ newActs d.plugs d.scripts com targets cid tele al, a.outerPlugs = none →
      allOf com = some a.com ∧
      (d.plugs.all (fun p => match p.node with | some n => targets.contains n | none => false) = true ∨
       (isQuery com = true ∧ (d.scripts com).isSome = false)) :=
  fun _ h hn => newActs_all h hn

/-- Third sentence, one device.  If no plug of the device is mapped to a node named in the request,
    `dev_enqueue_actions` returns the device unchanged and counts nothing. -/
theorem C01_uninvolved (d : Dev) (com : Nat) (targets : List Bytes) (cid : Nat) (tele : Bool) (al : Nat)
    (h : ∀ p ∈ d.plugs, ∀ n, p.node = some n → n ∉ targets) :
    enqueue d com targets cid tele al = (d, 0) :=
  enqueue_uninvolved com cid tele al ((needsDev_false_iff d targets).mpr h)

/-- Third sentence, the whole request.  Whatever `install` does with a request, the device at any position of the
    device list that the request does not involve (`_command_needs_device` false) is afterwards exactly what it was:
    queue, buffers, connection state, retry counter. -/
theorem C01_install_uninvolved (w : W) (c : Cli) (com : Com) (names : List Name) (i : Nat) (nd : Bytes × Dev)
    (hi : w.devs[i]? = some nd) (h : needsDev nd.2 (names.map ofChars) = false) :
    (install w c com names).1.devs[i]? = some nd :=
  install_uninvolved w c com names i nd hi h

/-- The whole request, any device: it keeps its name, plugs and scripts, and its queue is either untouched (request
    refused) or extended by `newActs` for this request — to which all theorems above apply. -/
theorem C01_install_device (w : W) (c : Cli) (com : Com) (names : List Name) (i : Nat) (nd : Bytes × Dev)
    (hi : w.devs[i]? = some nd) :
    ∃ d', (install w c com names).1.devs[i]? = some (nd.1, d') ∧ d'.plugs = nd.2.plugs ∧ d'.scripts = nd.2.scripts ∧
      (d'.acts = nd.2.acts ∨
       d'.acts = nd.2.acts ++ newActs nd.2.plugs nd.2.scripts (comIdx com) (names.map ofChars) c.id c.telemetry w.alNext) :=
  install_device w c com names i nd hi

/-- Only the requested command.  Every appended action runs the script of the requested command itself, of its `_all`
    variant or of its `_ranged` variant (a request for `off` never enqueues `on`), and carries the client id,
    argument list and telemetry flag of the request. -/
theorem C01_kind (d : Dev) (com : Nat) (targets : List Bytes) (cid : Nat) (tele : Bool) (al : Nat) :
    ∀ a ∈ newActs d.plugs d.scripts com targets cid tele al,
      (a.com = com ∨ allOf com = some a.com ∨ rangedOf com = some a.com) ∧
      a.clientId = cid ∧ a.arglist = al ∧ a.telemetry = tele :=
  fun _ h => newActs_kind h

/-- The returned count is the number of appended actions; and (F15 repaired) a device the request involves and that
    passed `_command_handled_by_device` is never silently skipped: its count is positive. -/
theorem C01_count (d : Dev) (com : Nat) (targets : List Bytes) (cid : Nat) (tele : Bool) (al : Nat) :
    (enqueue d com targets cid tele al).2 = (newActs d.plugs d.scripts com targets cid tele al).length ∧
    (needsDev d targets = true → handles d com targets = true → 0 < (enqueue d com targets cid tele al).2) := by
  refine ⟨enqueue_count d com targets cid tele al, fun hn hh => ?_⟩
  rw [enqueue_count]
  exact List.length_pos_iff.mpr (newActs_ne_nil hn hh)

/-- The same at the level of the request: unless `install` refuses the request (reply 213, nothing changed), every
    device the request involves has its queue extended by a non-empty list of actions. -/
theorem C01_install_involved (w : W) (c : Cli) (com : Com) (names : List Name) (i : Nat) (nd : Bytes × Dev)
    (hi : w.devs[i]? = some nd) (hneed : needsDev nd.2 (names.map ofChars) = true)
    (hacc : install w c com names ≠ (w, put c (codeLine 213 ++ crlf ++ (if c.quit then [] else prompt)))) :
    ∃ d', (install w c com names).1.devs[i]? = some (nd.1, d') ∧
      d'.acts = nd.2.acts ++ newActs nd.2.plugs nd.2.scripts (comIdx com) (names.map ofChars) c.id c.telemetry w.alNext ∧
      newActs nd.2.plugs nd.2.scripts (comIdx com) (names.map ofChars) c.id c.telemetry w.alNext ≠ [] :=
  install_involved w c com names i nd hi hneed hacc

/-- `install` either refuses (213) or: every involved device passed the capability check, every device went through
    `installDev`, and the client waits for exactly the number of actions created, which is positive. -/
theorem C01_install_cases (w : W) (c : Cli) (com : Com) (names : List Name) :
    install w c com names = (w, put c (codeLine 213 ++ crlf ++ (if c.quit then [] else prompt))) ∨
    ((∀ nd ∈ w.devs, needsDev nd.2 (names.map ofChars) = true → handles nd.2 (comIdx com) (names.map ofChars) = true) ∧
     (install w c com names).1.devs = w.devs.map (installDev (comIdx com) (names.map ofChars) c.id c.telemetry w.alNext) ∧
     0 < installTotal (comIdx com) (names.map ofChars) c.id c.telemetry w.alNext w.devs ∧
     (install w c com names).2 = { c with cmd := some { com, names, error := false, al := w.alNext, pending := installTotal (comIdx com) (names.map ofChars) c.id c.telemetry w.alNext w.devs } }) :=
  install_cases w c com names

/-- The wire, singlet.  The first execution of a `send` in a context whose plug list is the one plug `p` queues, behind what
    the device's output buffer holds, the format with `%s` replaced by `p.name`, the plug name configured for the node.
    (Changed when the capacity of `dev->to` was modelled: the statement read `toBuf := d.toBuf ++ …`; the buffer holds 65536
    bytes and beyond that the *oldest queued* bytes are overwritten, `clipTo` = the last 65536 bytes.  The text the daemon
    meant to send, `.sent …`, is as before.  Below the limit the old statement holds: `C01_wire_singlet_below`.) -/
theorem C01_wire_singlet (d : Dev) (a : Action) (o : Oracle) (e : ExecCtx) (fmt : Bytes) (p : Plug)
    (hp : e.processing = false) (hs : e.plugs = some [p]) :
    (stmtSend d a o e fmt).dev = { d with toBuf := clipTo (d.toBuf ++ hsprintf fmt (some p.name)) } ∧
    (stmtSend d a o e fmt).out.head? = some (.sent (hsprintf fmt (some p.name))) :=
  stmtSend_singlet d a o e fmt p hp hs

/-- The wire, singlet, below the limit (the statement as it read before): if the text fits behind what is queued, it is appended. -/
theorem C01_wire_singlet_below (d : Dev) (a : Action) (o : Oracle) (e : ExecCtx) (fmt : Bytes) (p : Plug)
    (hp : e.processing = false) (hs : e.plugs = some [p]) (hfit : (d.toBuf ++ hsprintf fmt (some p.name)).length ≤ 65536) :
    (stmtSend d a o e fmt).dev = { d with toBuf := d.toBuf ++ hsprintf fmt (some p.name) } ∧
    (stmtSend d a o e fmt).out.head? = some (.sent (hsprintf fmt (some p.name))) :=
  stmtSend_singlet_below d a o e fmt p hp hs hfit

/-- The wire, ranged.  With two plugs or more, `%s` is replaced by the sorted, range-compressed list of the
    configured plug names (`rangedNames`); if the hostlist sort asserts (F19) nothing is written at all.
    (Changed as `C01_wire_singlet`: `clipTo` of the concatenation; below the limit `C01_wire_ranged_below`.) -/
theorem C01_wire_ranged (d : Dev) (a : Action) (o : Oracle) (e : ExecCtx) (fmt : Bytes) (p q : Plug) (r : List Plug)
    (hp : e.processing = false) (hs : e.plugs = some (p :: q :: r)) :
    match rangedNames ((p :: q :: r).map (·.name)) with
    | some n => (stmtSend d a o e fmt).dev = { d with toBuf := clipTo (d.toBuf ++ hsprintf fmt (some n)) } ∧
                (stmtSend d a o e fmt).out.head? = some (.sent (hsprintf fmt (some n)))
    | none => (stmtSend d a o e fmt).dev = d ∧ (stmtSend d a o e fmt).out = [.abortAssert "hostlist_sort assert in _process_send"] :=
  stmtSend_ranged d a o e fmt p q r hp hs

/-- The wire, ranged, below the limit (the statement as it read before, for the case that the sort succeeds). -/
theorem C01_wire_ranged_below (d : Dev) (a : Action) (o : Oracle) (e : ExecCtx) (fmt : Bytes) (p q : Plug) (r : List Plug)
    (hp : e.processing = false) (hs : e.plugs = some (p :: q :: r)) (n : Bytes)
    (hn : rangedNames ((p :: q :: r).map (·.name)) = some n) (hfit : (d.toBuf ++ hsprintf fmt (some n)).length ≤ 65536) :
    (stmtSend d a o e fmt).dev = { d with toBuf := d.toBuf ++ hsprintf fmt (some n) } ∧
    (stmtSend d a o e fmt).out.head? = some (.sent (hsprintf fmt (some n))) :=
  stmtSend_ranged_below d a o e fmt p q r hp hs n hn hfit

/-- The wire, `_all`.  Without a plug list (or with an empty one) the format is written with no argument.
    (Changed as `C01_wire_singlet`: `clipTo` of the concatenation; below the limit `C01_wire_all_below`.) -/
theorem C01_wire_all (d : Dev) (a : Action) (o : Oracle) (e : ExecCtx) (fmt : Bytes)
    (hp : e.processing = false) (hs : e.plugs = none ∨ e.plugs = some []) :
    (stmtSend d a o e fmt).dev = { d with toBuf := clipTo (d.toBuf ++ hsprintf fmt none) } ∧
    (stmtSend d a o e fmt).out.head? = some (.sent (hsprintf fmt none)) :=
  stmtSend_all d a o e fmt hp hs

/-- The wire, `_all`, below the limit (the statement as it read before). -/
theorem C01_wire_all_below (d : Dev) (a : Action) (o : Oracle) (e : ExecCtx) (fmt : Bytes)
    (hp : e.processing = false) (hs : e.plugs = none ∨ e.plugs = some []) (hfit : (d.toBuf ++ hsprintf fmt none).length ≤ 65536) :
    (stmtSend d a o e fmt).dev = { d with toBuf := d.toBuf ++ hsprintf fmt none } ∧
    (stmtSend d a o e fmt).out.head? = some (.sent (hsprintf fmt none)) :=
  stmtSend_all_below d a o e fmt hp hs hfit

/-- non-vacuity of the no-overflow hypotheses of `C01_wire_singlet_below` / `C01_wire_ranged_below` / `C01_wire_all_below`: the
    example device's buffer is empty and `on 1\n`, `on [1,3]\n`, `on *\n` are a few bytes -/
example : (exDev.toBuf ++ hsprintf (bstr "on %s\n") (some exP1.name)).length ≤ 65536 ∧
    rangedNames ([exP1, exP3].map (·.name)) = some (bstr "[1,3]") ∧
    (exDev.toBuf ++ hsprintf (bstr "on %s\n") (some (bstr "[1,3]"))).length ≤ 65536 ∧
    (exDev.toBuf ++ hsprintf (bstr "on *\n") none).length ≤ 65536 := by decide +kernel

/-- The wire beyond the limit: a command text of at most 65536 bytes is never cut — what gives way is what was queued *before*
    it (`toDropped` oldest bytes: telnet answers or the unsent rest of earlier texts); the text is queued whole, last. -/
theorem C01_wire_text_whole (old s : Bytes) (hs : s.length ≤ 65536) :
    clipTo (old ++ s) = old.drop (Pm.Dev2.toDropped old s) ++ s :=
  Pm.Dev2.clipTo_append_of_fits old s hs

/-- The wire, second visit.  A `send` that is waiting for its bytes to drain writes nothing. -/
theorem C01_wire_again (d : Dev) (a : Action) (o : Oracle) (e : ExecCtx) (fmt : Bytes) (hp : e.processing = true) :
    (stmtSend d a o e fmt).dev = d ∧ (stmtSend d a o e fmt).out = [] :=
  stmtSend_again d a o e fmt hp

/-- "Each device is addressed with the plug name configured for that node": a `send` run in the context a freshly
    appended singlet action starts with, on the device in whatever state `d'` it then is, writes the format filled with
    `p.name` where `p` is a plug of this device whose node the request names.
    (Changed with the capacity of `dev->to`: `clipTo (d'.toBuf ++ …)` where it read `d'.toBuf ++ …`; by `C01_wire_text_whole`
    the text itself is whole whenever it is no longer than the buffer.) -/
theorem C01_wire_fresh_singlet (d : Dev) (com : Nat) (targets : List Bytes) (cid : Nat) (tele : Bool) (al : Nat)
    (a : Action) (h : a ∈ newActs d.plugs d.scripts com targets cid tele al) (p : Plug) (hp : a.outerPlugs = some [p])
    (d' : Dev) (o : Oracle) (fmt : Bytes) :
    (stmtSend d' a o (topCtx a) fmt).dev.toBuf = clipTo (d'.toBuf ++ hsprintf fmt (some p.name)) ∧
    p ∈ d.plugs ∧ ∃ n, p.node = some n ∧ n ∈ targets :=
  fresh_singlet_send h hp d' o fmt

/-- From the client's line to the target list.  `_parse_input` either leaves all devices alone or hands the request
    to `install`; then no command of this client was in progress, and the target list is: for a bare `status`/`temp`/
    `beacon`, all configured nodes (a query); otherwise `conf_exp_aliases` applied to the expansion of the host range `arg`
    that follows the command's keyword on the line, every name of which is a configured node.
    (Before aliases were modelled the statement read `names = expand hl`; with `w.cfg.aliases = []` it still does:
    `C01_alias_identity`.) -/
theorem C01_request (w : W) (c : Cli) (line : Bytes) :
    (parseLine w c line).1.devs = w.devs ∨
    ∃ com names, parseLine w c line = install w c com names ∧ c.cmd = none ∧
      ((isQuery (comIdx com) = true ∧ names = expand w.cfg.nodes) ∨
       (∃ arg hl, scan (kwOf com) (stripWs (line.takeWhile (· != 0))) = some arg ∧ createR (toChars arg) = .ok hl ∧
          names = expAliases w.cfg.aliases (expand hl) ∧ ∀ n ∈ names, (find w.cfg.nodes n).isSome = true)) :=
  parseLine_cases w c line

/-! ### alias expansion (`conf_exp_aliases`)

`expAliases als names` runs the loop of `conf_exp_aliases` on the expanded list `names`: walk the list from the start; the
first name that is the name of an alias (`aliasOf als n = some hosts`: the first alias of that name) is erased (its first
occurrence), `hosts` is appended to a side list, and the walk starts again; a walk that meets no alias name ends the loop and
the side list is appended.  `isAlias als n` = `(aliasOf als n).isSome`; `membersOf als n` = the hosts of alias `n` (`[]` if
there is none); `standsFor als n` = the hosts of alias `n`, or `[n]` if `n` is not an alias name. -/

/-- **What the loop computes.**  The typed names that are not alias names, in the order typed; then, for every occurrence of
    an alias name, in the order typed, the hosts of that alias in the order (and with the repetitions) of its definition.
    A name typed twice is expanded twice. -/
theorem C01_alias_expansion (als : List (Name × List Name)) (names : List Name) :
    expAliases als names = names.filter (fun n => !isAlias als n) ++ names.flatMap (membersOf als) :=
  AliasPf.expAliases_spec als names

/-- Without aliases, and on a list that contains no alias name, `conf_exp_aliases` changes nothing. -/
theorem C01_alias_identity (als : List (Name × List Name)) (names : List Name) :
    expAliases [] names = names ∧ ((∀ n ∈ names, isAlias als n = false) → expAliases als names = names) :=
  ⟨AliasPf.expAliases_nil names, AliasPf.expAliases_no_alias als names⟩

/-- Membership: a name is in the result iff it was typed and is not an alias name, or is a host of a typed alias. -/
theorem C01_alias_members (als : List (Name × List Name)) (names : List Name) (x : Name) :
    x ∈ expAliases als names ↔
      (x ∈ names ∧ aliasOf als x = none) ∨ ∃ a ∈ names, ∃ hs, aliasOf als a = some hs ∧ x ∈ hs :=
  AliasPf.mem_expAliases

/-- As a multiset the result is: each typed name replaced by what it stands for. -/
theorem C01_alias_multiset (als : List (Name × List Name)) (names : List Name) :
    (expAliases als names).Perm (names.flatMap (standsFor als)) :=
  AliasPf.expAliases_perm als names

example : expAliases exAls ["rackt".toList, "u3".toList] = ["u3", "t0", "t1", "t2", "t3"].map String.toList := by decide +kernel
example : expAliases exAls ["mix".toList, "mix".toList] = ["t7", "u1", "u2", "t7", "u1", "u2"].map String.toList := by decide +kernel
example : expAliases exAls ["t2".toList, "rackt".toList] = ["t2", "t0", "t1", "t2", "t3"].map String.toList := by decide +kernel
example : expAliases exAls (["t2", "rackt", "t2", "dupl", "t5"].map String.toList) =
    ["t2", "t2", "t5", "t0", "t1", "t2", "t3", "t1", "t1"].map String.toList := by decide +kernel

/-- **The validated target list.**  If a line typed while no command of this client was in progress leaves the client with
    a command `k`, then: every device went through `dev_enqueue_actions` (`installDev`, to whose `newActs` all theorems above
    apply) for the target list `k.names` with the argument-list id `k.al`; and `k.names` is — for a bare query — all
    configured nodes, otherwise exactly `conf_exp_aliases` of the expansion of the host range typed after the keyword, every
    name of it a configured node (`conf_node_exists`).  Nothing else becomes a target. -/
theorem C01_validated (w : W) (c : Cli) (line : Bytes) (k : CmdC) (h0 : c.cmd = none)
    (hk : (parseLine w c line).2.cmd = some k) :
    (parseLine w c line).1.devs = w.devs.map (installDev (comIdx k.com) (k.names.map ofChars) c.id c.telemetry w.alNext) ∧
    k.al = w.alNext ∧
    ((isQuery (comIdx k.com) = true ∧ k.names = expand w.cfg.nodes) ∨
     (∃ arg hl, scan (kwOf k.com) (stripWs (line.takeWhile (· != 0))) = some arg ∧ createR (toChars arg) = .ok hl ∧
        k.names = expAliases w.cfg.aliases (expand hl) ∧ ∀ n ∈ k.names, (find w.cfg.nodes n).isSome = true)) :=
  parseLine_validated w c line k h0 hk

/-- **Only typed nodes and the members of typed aliases.**  For a power command whose target list is `conf_exp_aliases` of
    the typed names: every plug an appended action can command (its plug list; every plug of the device for `_all`) is a plug
    of this device whose node is a typed name that is not an alias name, or one of the hosts of a typed alias.
    (`C01_commanded` composed with `C01_alias_members`; `ofChars` turns a name into the bytes the plug table holds.) -/
theorem C01_alias_only_members (d : Dev) (com : Nat) (als : List (Name × List Name)) (typed : List Name) (cid : Nat)
    (tele : Bool) (al : Nat) (hq : isQuery com = false) :
    ∀ a ∈ newActs d.plugs d.scripts com ((expAliases als typed).map ofChars) cid tele al,
      ∀ p ∈ a.commanded d, p ∈ d.plugs ∧ ∃ m, p.node = some (ofChars m) ∧
        ((m ∈ typed ∧ aliasOf als m = none) ∨ ∃ b ∈ typed, ∃ hs, aliasOf als b = some hs ∧ m ∈ hs) :=
  fun _ h => alias_commanded hq h

/-- The same for the plug list of any appended action, queries included (`C01_subset` composed with `C01_alias_members`). -/
theorem C01_alias_subset (d : Dev) (com : Nat) (als : List (Name × List Name)) (typed : List Name) (cid : Nat)
    (tele : Bool) (al : Nat) :
    ∀ a ∈ newActs d.plugs d.scripts com ((expAliases als typed).map ofChars) cid tele al, ∀ ps, a.outerPlugs = some ps →
      ∀ p ∈ ps, p ∈ d.plugs ∧ ∃ m, p.node = some (ofChars m) ∧
        ((m ∈ typed ∧ aliasOf als m = none) ∨ ∃ b ∈ typed, ∃ hs, aliasOf als b = some hs ∧ m ∈ hs) :=
  fun _ h _ hps => alias_subset h hps

/-- **No recursion.**  `conf_exp_aliases` expands once.  A name of the result that is itself the name of an alias did not
    come from the user's list (every typed occurrence of an alias name is deleted): it is there, as often as it is listed
    among the hosts of the typed aliases, as a name — its own hosts are not added on its account.  (`_hostlist_create_validated`
    then looks it up like any other name: `209` unless a node of that name exists.  The parser does not forbid a node and
    an alias of the same name, so this can happen in an accepted configuration.) -/
theorem C01_alias_no_recursion (als : List (Name × List Name)) (names : List Name) (b : Name) (hb : isAlias als b = true) :
    (expAliases als names).count b = (names.flatMap (membersOf als)).count b :=
  AliasPf.count_alias_name als names b hb

/-- `outer = inner,t0`, `inner = t1`: typing `outer` yields `inner,t0`; a second expansion would give `t0,t1` -/
example : isAlias exNested "inner".toList = true ∧
    expAliases exNested ["outer".toList] = ["inner".toList, "t0".toList] ∧
    expAliases exNested (expAliases exNested ["outer".toList]) = ["t0".toList, "t1".toList] := by decide +kernel

/-- **A line that is too long never acts.**  `_parse_input` tests `strlen(str) >= CP_LINEMAX` (131072) on the stripped line
    before anything else: such a line — whatever command and targets it spells, whatever the client's state — is answered
    `203 Command too long` (and the prompt) and that is all: every device (queue, buffers, connection) is exactly as it
    was, no argument list is created, the client's command (if any) is untouched.  (Corollary of `C06_too_long`.) -/
theorem C01_too_long_never_acts (w : W) (c : Cli) (line : Bytes)
    (h : (stripWs (line.takeWhile (· != 0))).length ≥ 131072) :
    (parseLine w c line).1.devs = w.devs ∧ (parseLine w c line).1.store = w.store ∧
    (parseLine w c line).1.alNext = w.alNext ∧ (parseLine w c line).2.cmd = c.cmd := by
  rw [parseLine_tooLong_eq w c line h]; exact ⟨rfl, rfl, rfl, rfl⟩

/-- non-vacuity: `off `, 131072 times `x`, LF — 131076 bytes once stripped (the bound is on the whole stripped line, keyword
    included) -/
example : (stripWs ((bstr "off " ++ List.replicate 131072 120 ++ [10]).takeWhile (· != 0))).length ≥ 131072 := by
  rw [strip_long (bstr "off ") 131071 (by decide +kernel) (by decide +kernel), List.length_append, List.length_replicate]
  decide +kernel
/-- the same request from client 5 of `exW` (which `off n[1,3]` does act on, see the last example of this file) -/
example : (parseLine exW exC (bstr "off " ++ List.replicate 131072 120 ++ [10])).1.devs = exW.devs :=
  (C01_too_long_never_acts exW exC _ (by
    rw [strip_long (bstr "off ") 131071 (by decide +kernel) (by decide +kernel), List.length_append, List.length_replicate]
    decide +kernel)).1

/-- The limit of the property.  `_process_foreach` walks the plug list of the *device* for every action that is not of
    a `_ranged` kind.  Request `off n3` on a device with plugs "1" ↦ n1 and "3" ↦ n3 whose singlet `off` script is
    `foreachplug { send "off %s\n" }`: one singlet action for plug "3" is appended (as C01 demands), and the first
    thing its script writes is `off 1\n`.  So at the level of bytes C01 holds for `send`s in the outer block
    (`C01_wire_fresh_singlet`) and needs the hypothesis "singlet scripts contain no `foreachplug`/`foreachnode`" beyond
    it; all shipped device files satisfy it, the configuration parser does not enforce it. -/
theorem C01_foreach_in_singlet_counterexample :
    (newActs [exP1, exP3] exScriptsForeach 10 [[110, 51]] 5 false 2).map
        (fun a => (a.com, a.outerPlugs, twoSteps (exDevWith [exP1, exP3] exScriptsForeach) a))
      = [(10, some [exP3], [111, 102, 102, 32, 49, 10])] :=
  foreach_in_singlet_counterexample

/-! ### the hypotheses are satisfiable

`exDev` has plugs "1" ↦ n1, "2" unused, "3" ↦ n3, "4" ↦ n4 and scripts `off`, `off_ranged`, `off_all`. -/

-- request `off n1,n3`: the device is involved and capable, one action is appended — `off_ranged` for plugs "1","3"
example : needsDev exDev [[110, 49], [110, 51]] = true ∧ handles exDev 10 [[110, 49], [110, 51]] = true ∧
    isQuery 10 = false ∧ (enqueue exDev 10 [[110, 49], [110, 51]] 5 false 2).2 = 1 ∧
    summary (newActs exDev.plugs exDev.scripts 10 [[110, 49], [110, 51]] 5 false 2) = [(11, some [exP1, exP3])] := by
  decide +kernel
-- request `off n3`: the singlet script for plug "3"
example : summary (newActs exDev.plugs exDev.scripts 10 [[110, 51]] 5 false 2) = [(10, some [exP3])] := by decide +kernel
-- all three mapped plugs named, but plug "2" is unused: not `off_all`
example : summary (newActs exDev.plugs exDev.scripts 10 [[110, 49], [110, 51], [110, 52]] 5 false 2)
    = [(11, some [exP1, exP3, exP4])] := by decide +kernel
-- a device all of whose plugs are named: `off_all`, no plug list
example : summary (newActs exDevFull.plugs exDevFull.scripts 10 [[110, 51], [110, 49], [120]] 5 false 2) = [(12, none)] := by
  decide +kernel
-- only the singlet script: one action per named plug, in configuration order
example : summary (newActs exDev.plugs exScriptsSinglet 10 [[110, 52], [110, 49]] 5 false 2)
    = [(10, some [exP1]), (10, some [exP4])] := by decide +kernel
-- nothing named: uninvolved
example : (∀ p ∈ exDev.plugs, ∀ n, p.node = some n → n ∉ [[122]]) ∧ (enqueue exDev 10 [[122]] 5 false 2).2 = 0 := by
  refine ⟨(needsDev_false_iff exDev [[122]]).mp (by decide +kernel), by decide +kernel⟩
-- the F15 shape (only `off_all`, part of the device named): `implemented` holds but `handles` does not, so the
-- request is refused with 213; `handles` cannot be weakened to `implemented` in `C01_count`
example : needsDev (exDevWith [exP1, exP3] exScriptsAllOnly) [[110, 49]] = true ∧
    implemented (exDevWith [exP1, exP3] exScriptsAllOnly) 10 = true ∧
    handles (exDevWith [exP1, exP3] exScriptsAllOnly) 10 [[110, 49]] = false ∧
    (enqueue (exDevWith [exP1, exP3] exScriptsAllOnly) 10 [[110, 49]] 5 false 2).2 = 0 := by decide +kernel

-- end to end: the line `off n[1,3]` typed by client 5 of `exW` (devices: `exDev`, and a one-plug device for node "z9")
-- is accepted, puts one `off_ranged` action for plugs "1","3" on the first device, nothing on the second, and the client
-- waits for one action
example : (parseLine exW exC exLine).1.devs.map (fun nd => summary nd.2.acts) = [[(11, some [exP1, exP3])], []] ∧
    ((parseLine exW exC exLine).2.cmd.map fun k => (k.com, k.names, k.pending)) = some (Com.off, [['n', '1'], ['n', '3']], 1) := by
  decide +kernel

/-! ### with aliases

`alW`: device `dt` (plugs "0"…"7" ↦ t0…t7), device `du` (plugs "0"…"3" ↦ u0…u3), scripts `on`, `on_ranged`, `off`, `off_ranged`,
`status_all`; aliases `rackt = t0,t1,t2,t3`, `mix = t7,u1,u2`, `dupl = t1,t1`.  `alRun line` = (the client's target list and
the number of actions it waits for, per device the appended actions as (script slot, plug names listed)). -/

-- `on rackt,u3`: the plain name first, then the four hosts of the alias; `on_ranged` for plugs 0-3 of `dt`, `on` for plug 3 of `du`
example : alRun "on rackt,u3\n" =
    (some (["u3", "t0", "t1", "t2", "t3"], 2), [[(8, some ["0", "1", "2", "3"])], [(7, some ["3"])]]) := by decide +kernel
-- `status mix,mix`: an alias typed twice is expanded twice; no singlet `status` script, so `status_all` on both devices
example : alRun "status mix,mix\n" =
    (some (["t7", "u1", "u2", "t7", "u1", "u2"], 2), [[(3, none)], [(3, none)]]) := by decide +kernel
-- `off t2,rackt`: t2 is a target twice (typed, and as a host of `rackt`); one `off_ranged` action in which plug 2 is listed once
example : alRun "off t2,rackt\n" =
    (some (["t2", "t0", "t1", "t2", "t3"], 1), [[(11, some ["0", "1", "2", "3"])], []]) := by decide +kernel
-- `off dupl`: repetitions inside an alias are kept; one singlet `off` for plug 1
example : alRun "off dupl\n" = (some (["t1", "t1"], 1), [[(10, some ["1"])], []]) := by decide +kernel
-- the hypotheses of `C01_validated` hold for `on rackt,u3` typed by the idle client
example : exC.cmd = none ∧ ((parseLine alW exC (bstr "on rackt,u3\n")).2.cmd.map (·.names)) =
    some (expAliases alW.cfg.aliases ["rackt".toList, "u3".toList]) := by decide +kernel
-- an unknown name beside an alias: 209 for that name, nothing enqueued
example : (parseLine alW exC (bstr "on rackt,zz9\n")).2.toBuf = bstr "209 No such nodes: zz9\r\npowerman> " ∧
    (parseLine alW exC (bstr "on rackt,zz9\n")).1.devs.map (fun nd => nd.2.acts.length) = [0, 0] := by decide +kernel

end Pm.Props.C01
