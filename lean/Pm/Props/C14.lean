import Pm.HLFind
import Pm.SortFProof
import Pm.SortFuel
import Pm.RoundTrip
/-! # C14 — host-range notation round-trips without changing any name

Property theorems over the hostlist mirrors (`Pm/HL.lean`, `Find.lean`, `Create.lean`, `Sort.lean`), which are compared with the real
`liblsd/hostlist.c` answer by answer on every run.  Helper lemmas: `Pm/Num.lean`, `Digits.lean`, `HLProof.lean`, `Find.lean`,
`HLDefs.lean`, `HLMore.lean` (well-formedness, count, nth, print/parse inverses), `HLFind.lean` (find completeness, delete),
`SortF.lean` + `SortFProof.lean` (total restatement of `hostlist_sort` and its permutation proof), `SortFuel.lean` (the outer loop of
`hostlist_coalesce` ends within the computed bound), `RoundTrip.lean` (string round trip).

Contents: push appends exactly the pushed name ▸ find is sound ▸ width handling changes no printed name ▸ 1. well-formedness is
kept by push / delete / create, so a list built by pushing names denotes exactly those names ▸ 2. count and nth agree with the
expansion ▸ 3. find is complete (first occurrence) under the suffix bound the code imposes (F10 is the counterexample), with no proviso
for lists built by pushes and deletes ▸ 4. delete removes exactly the first occurrence ▸ 5. the compressed string parses back to the
same names (ranges of at most 16384 hosts; a larger one is the counterexample) ▸ 6. sort is a permutation of the names
(the sort mirror is total: fuel computed from the input and proved sufficient, so sorting a well-formed list returns or dies in the
assert of `hostrange_intersect`; F19 is the abort counterexample). -/
namespace Pm.Props.C14
open Pm

/-- every range the library builds is either a single name or has `lo ≤ hi` -/
def WF (hl : Hostlist) : Prop := ∀ t ∈ hl, t.single = true ∨ t.lo ≤ t.hi

/-- `hostlist_push_host`: pushing a name appends exactly that name to the expansion, whatever the list —
    merging into the last range (with `_width_equiv` adjusting a width), numeric suffixes of any width with leading
    zeros, digit-terminated prefixes and the fallback for numeric parts beyond `MAX_HOST_SUFFIX` included.
    No other name is added, dropped or renamed. -/
theorem C14_push_expand (hl : Hostlist) (n : Name) (h : WF hl) : expand (pushHost hl n) = expand hl ++ [n] :=
  expand_pushHost' hl n h

/-- `hostlist_find` is sound: whatever index it returns is a position at which the expansion holds exactly that name —
    zero padding is significant (`foo01` is never found as `foo1`), with the digit-shifting retry of
    `hostrange_hn_within`, and with no bound on the numeric part. -/
theorem C14_find_sound (hl : Hostlist) (full : Name) (i : Nat) (h : find hl full = some i) : (expand hl)[i]? = some full :=
  find_sound hl full i h

/-- membership agrees with the expansion in the sound direction -/
theorem C14_find_mem (hl : Hostlist) (full : Name) (i : Nat) (h : find hl full = some i) : full ∈ expand hl :=
  find_mem hl full i h

/-- `_width_equiv` (used when ranges are merged or compared): after a successful call, with its mutation of a width,
    both ranges print every element exactly as before -/
theorem C14_width_equiv_sound {n wn m wm wn' wm' : Nat} (h : widthEquiv n wn m wm = some (wn', wm')) :
    wn' = wm' ∧ (∀ x, n ≤ x → fmtNum wn' x = fmtNum wn x) ∧ (∀ y, m ≤ y → fmtNum wm' y = fmtNum wm y) :=
  widthEquiv_sound h

/-- printing the value of a digit string at the string's own width returns the string, leading zeros included:
    a numeric suffix survives parse → `%0*lu` unchanged -/
theorem C14_fmt_parse (ds : List Char) (h : ds ≠ []) (hall : ∀ c ∈ ds, c.isDigit = true) : fmtNum ds.length (parseNat ds) = ds :=
  fmtNum_parse ds h hall

/-- padding is significant: `foo01` is not a member of the list that holds `foo1` -/
example : find (pushHost [] "foo1".toList) "foo01".toList = none := by decide
example : find (pushHost (pushHost [] "foo1".toList) "foo01".toList) "foo01".toList = some 1 := by decide
/-- premises are satisfiable on a non-trivial list (a merged range with a width, then a name that does not merge) -/
example : WF (pushHost (pushHost (pushHost [] "n08".toList) "n09".toList) "n10".toList) := by unfold WF; decide

/-! ## 1. well-formedness is kept by every operation, so the push theorem applies along any sequence of pushes -/

/-- `WF` here and `HWF` of the helper modules are the same predicate -/
theorem WF_iff_HWF (hl : Hostlist) : WF hl ↔ HWF hl := Iff.rfl

/-- the stronger shape every constructor really produces (`HWFS`: a single name is stored with `lo = hi = 0`,
    a numeric range has `lo ≤ hi`) implies `WF` -/
theorem WF_of_HWFS (hl : Hostlist) (h : HWFS hl) : WF hl := h.toHWF

/-- the empty list is well formed -/
theorem C14_nil_WF : WF [] := HWF_nil

/-- `hostlist_push_host` keeps every range well formed -/
theorem C14_push_WF (hl : Hostlist) (n : Name) (h : WF hl) : WF (pushHost hl n) := pushHost_HWF hl n h

/-- `hostlist_delete_host` (find, then `hostlist_delete_nth` splitting / shrinking / dropping a range) keeps every
    range well formed -/
theorem C14_delete_WF (hl : Hostlist) (n : Name) (h : WF hl) : WF (deleteHost hl n).1 := deleteHost_HWF hl n h

/-- whatever `hostlist_create` accepts is well formed (a bracket range with `lo > hi` is refused by the parser) -/
theorem C14_create_WF (s : List Char) (hl : Hostlist) (h : create s = .ok hl) : WF hl := create_HWF s hl h

/-- the same three facts for the strong shape `HWFS`, which the sort theorem needs -/
theorem C14_push_WFS (hl : Hostlist) (n : Name) (h : HWFS hl) : HWFS (pushHost hl n) := pushHost_HWFS hl n h
theorem C14_delete_WFS (hl : Hostlist) (n : Name) (h : HWFS hl) : HWFS (deleteHost hl n).1 := deleteHost_HWFS hl n h
theorem C14_create_WFS (s : List Char) (hl : Hostlist) (h : create s = .ok hl) : HWFS hl := create_HWFS s hl h

/-- a list built by pushing names denotes exactly those names, in the order pushed — for every list of names,
    of any length, with duplicates, zero padding, digit-only names and numeric parts beyond `MAX_HOST_SUFFIX` -/
theorem C14_push_all (names : List Name) : expand (names.foldl pushHost []) = names := by
  simpa [expand_nil] using expand_foldl_pushHost names [] HWF_nil

example : expand (["n08", "n09", "n10", "n010", "x", "n11", "7", "n99999999999"].map String.toList |>.foldl pushHost [])
    = ["n08", "n09", "n10", "n010", "x", "n11", "7", "n99999999999"].map String.toList := C14_push_all _
/-- … and that list really is compressed (three ranges + three singles, not eight entries) -/
example : (["n08", "n09", "n10", "n010", "x", "n11", "7", "n99999999999"].map String.toList |>.foldl pushHost []).length = 6 := by
  decide +kernel

/-! ## 2. count and index lookups agree with the expansion -/

/-- `hostlist_count` (the `nhosts` field, maintained as the sum of `hostrange_count` over the ranges) is the number
    of names in the expansion -/
theorem C14_count_expand (hl : Hostlist) (h : WF hl) : (hl.map HostRange.count).sum = (expand hl).length :=
  count_expand hl h

/-- `hostlist_nth`: the mirror `nth` of `Sort.lean` is *defined* as the i-th element of the expansion, so this
    statement about it is empty; the informative one is `C14_nthC_expand` below -/
theorem C14_nth_expand (hl : Hostlist) (i : Nat) : nth hl i = (expand hl)[i]? := rfl

/-- `hostlist_nth` AS CODED (`nthC`: walk the ranges with a running count, print `prefix` + `%0*lu` of `lo + depth`)
    returns exactly the i-th name of the expansion, and NULL (`none`) exactly beyond its end -/
theorem C14_nthC_expand (hl : Hostlist) (i : Nat) (h : WF hl) : nthC hl i = (expand hl)[i]? := nthC_spec hl i h

/-- so the coded walk and the mirror used by the driver agree on well-formed lists -/
theorem C14_nthC_eq_nth (hl : Hostlist) (i : Nat) (h : WF hl) : nthC hl i = nth hl i := nthC_eq_nth hl i h

example : nthC (pushHost (pushHost (pushHost [] "n08".toList) "n09".toList) "n10".toList) 2 = some "n10".toList := by
  decide +kernel
/-- `WF` is needed: on a range with `lo > hi` (which no constructor builds) the coded walk invents a name -/
theorem C14_nthC_needs_WF : nthC [{ pfx := "n".toList, lo := 5, hi := 3, width := 1, single := false }] 0 = some "n5".toList
    ∧ expand [{ pfx := "n".toList, lo := 5, hi := 3, width := 1, single := false }] = [] := nthC_needs_WF

/-! ## 3. membership: `hostlist_find` is complete under the proviso the code needs -/

/- Full-strength statement (FALSE of the code, see `C14_find_complete_counterexample`, known defect F10):
     theorem C14_find_complete (hl) (n) (h : WF hl) (hmem : n ∈ expand hl) : find hl n = some ((expand hl).idxOf n) -/

/-- `hostlist_find` returns the index of the FIRST occurrence of every member name — provided that each entry
    holding the name is a single name, or the name's trailing digit string (the numeric suffix `hostname_create`
    cuts off) has a value of at most `MAX_HOST_SUFFIX` = 2^25 (`Findable`).  This is the extra hypothesis; it is
    exactly what the code needs: `hostrange_hn_within` refuses to look into a numeric range for a name whose
    suffix is "not valid" (`C14_find_proviso_sharp`).  Well-formedness is not needed here. -/
theorem C14_find_complete_partial (hl : Hostlist) (n : Name) (hmem : n ∈ expand hl)
    (hprov : ∀ r ∈ hl, n ∈ r.expand → r.single = true ∨ parseNat (splitDigits n).2 ≤ MAX_HOST_SUFFIX) :
    find hl n = some ((expand hl).idxOf n) :=
  find_complete hl n hmem hprov

/-- names that are not members are not found (contrapositive of soundness) -/
theorem C14_find_none (hl : Hostlist) (n : Name) (h : n ∉ expand hl) : find hl n = none := find_none_of_not_mem hl n h

/-- the proviso cannot be dropped: a numeric range never matches a name whose trailing digit string exceeds 2^25 -/
theorem C14_find_proviso_sharp (r : HostRange) (hs : r.single = false) (n : Name)
    (hbig : ¬ parseNat (splitDigits n).2 ≤ MAX_HOST_SUFFIX) :
    hnWithin r n (splitDigits n).1 (splitDigits n).2 = none :=
  hnWithin_none_of_big r hs n _ _ hbig

/-- F10: `n[100000000-100000001]` is accepted by `hostlist_create`, holds `n100000000`, and `hostlist_find` misses it -/
theorem C14_find_complete_counterexample :
    ∃ hl, create "n[100000000-100000001]".toList = .ok hl ∧ WF hl ∧ "n100000000".toList ∈ expand hl
      ∧ find hl "n100000000".toList = none :=
  ⟨f10List, f10_create, create_HWF _ _ f10_create, f10_mem, f10_find⟩

/-- the bound is on the NAME's whole digit tail, not on the number stored in the range: `n1[00000000-00000001]`
    holds `n100000000` as number 0 of prefix `n1`, and `hostlist_find` misses it too -/
theorem C14_find_complete_counterexample2 :
    ∃ hl, create "n1[00000000-00000001]".toList = .ok hl ∧ "n100000000".toList ∈ expand hl
      ∧ find hl "n100000000".toList = none :=
  ⟨f10bList, f10b_create, f10b_mem, f10b_find⟩

/-- for lists reached from the empty list by pushes and deletes (`Built`) no proviso is needed: `hostlist_push_host`
    stores a name with an oversized numeric part as a single name, and gives numeric ranges a digit-free prefix end -/
theorem C14_find_complete_built (hl : Hostlist) (n : Name) (hb : Built hl) (hmem : n ∈ expand hl) :
    find hl n = some ((expand hl).idxOf n) := find_built hl n hb hmem

/-- in particular every pushed name is found at the position of its first push -/
theorem C14_find_pushed (names : List Name) (n : Name) (hmem : n ∈ names) :
    find (names.foldl pushHost []) n = some (names.idxOf n) := find_pushed names n hmem

example : find (["n08", "n09", "n10", "n99999999999", "n09"].map String.toList |>.foldl pushHost []) "n09".toList = some 1 :=
  C14_find_pushed _ _ (by decide +kernel)
example : Built (pushHost (pushHost [] "n08".toList) "n09".toList) := Built.push _ _ (Built.push _ _ Built.nil)
/-- the proviso of `C14_find_complete_partial` is satisfiable on a list from `hostlist_create` with a digit-ended prefix,
    where the shifting retry of `hostrange_hn_within` is exercised -/
example : find [{ pfx := "n1".toList, lo := 0, hi := 1, width := 1, single := false }] "n11".toList = some 1 := shift_ok.2

example : "n11".toList ∈ expand [{ pfx := "n1".toList, lo := 0, hi := 1, width := 1, single := false }] ∧
    ∀ r ∈ [({ pfx := "n1".toList, lo := 0, hi := 1, width := 1, single := false } : HostRange)],
      "n11".toList ∈ r.expand → r.single = true ∨ parseNat (splitDigits "n11".toList).2 ≤ MAX_HOST_SUFFIX := by decide +kernel

/-- padding is significant: the index `hostlist_find` returns for `n` never holds a different name `m`
    (`foo01` is never found as `foo1`, nor `foo1` as `foo01`) -/
theorem C14_padding_significant (hl : Hostlist) (n m : Name) (i : Nat) (hne : n ≠ m) (h : find hl n = some i) :
    (expand hl)[i]? ≠ some m := by
  rw [find_sound hl n i h]; intro e; exact hne (Option.some.inj e)

example : find [{ pfx := "foo".toList, lo := 1, hi := 3, width := 2, single := false }] "foo1".toList = none := by decide +kernel
example : find [{ pfx := "foo".toList, lo := 1, hi := 3, width := 2, single := false }] "foo01".toList = some 0 := by decide +kernel
example : find [{ pfx := "foo".toList, lo := 1, hi := 3, width := 1, single := false }] "foo01".toList = none := by decide +kernel

/-- membership and index lookups agree: the index `hostlist_find` returns is one at which `hostlist_nth` (as coded)
    returns that very name -/
theorem C14_find_nth (hl : Hostlist) (n : Name) (i : Nat) (h : WF hl) (hf : find hl n = some i) : nthC hl i = some n := by
  rw [nthC_spec hl i h]; exact find_sound hl n i hf

/-! ## 4. deleting one name removes exactly its first occurrence and nothing else -/

/-- `hostlist_delete_nth` removes exactly position `i` of the expansion (splitting a range in two, shrinking it at
    either end, or dropping it) and changes no other name -/
theorem C14_delete_nth (hl : Hostlist) (i : Nat) (h : WF hl) : expand (deleteNth hl i) = (expand hl).eraseIdx i :=
  deleteNth_expand hl i h

/- Full-strength statement (FALSE without the proviso, by F10: `f10_delete` — the member is not deleted, 0 is returned):
     theorem C14_delete_one (hl) (n) (h : WF hl) : expand (deleteHost hl n).1 = (expand hl).erase n ∧ … -/

/-- `hostlist_delete_host` removes exactly the FIRST occurrence of the name from the expansion, changes nothing else,
    and returns 1 if the name was a member and 0 otherwise — under the same proviso as `C14_find_complete_partial` -/
theorem C14_delete_one (hl : Hostlist) (n : Name) (h : WF hl)
    (hprov : ∀ r ∈ hl, n ∈ r.expand → r.single = true ∨ parseNat (splitDigits n).2 ≤ MAX_HOST_SUFFIX) :
    expand (deleteHost hl n).1 = (expand hl).erase n ∧ (deleteHost hl n).2 = if n ∈ expand hl then 1 else 0 :=
  deleteHost_expand hl n h hprov

/-- without the proviso: whatever `hostlist_delete_host` does, it either removes one position that holds exactly
    that name (returning 1), or leaves the list untouched (returning 0) — it never drops or renames another node -/
theorem C14_delete_one_weak (hl : Hostlist) (n : Name) (h : WF hl) :
    (∃ i, (expand hl)[i]? = some n ∧ expand (deleteHost hl n).1 = (expand hl).eraseIdx i ∧ (deleteHost hl n).2 = 1)
    ∨ ((deleteHost hl n).1 = hl ∧ (deleteHost hl n).2 = 0) :=
  deleteHost_expand_weak hl n h

/-- for lists reached by pushes and deletes no proviso is needed -/
theorem C14_delete_one_built (hl : Hostlist) (n : Name) (hb : Built hl) :
    expand (deleteHost hl n).1 = (expand hl).erase n ∧ (deleteHost hl n).2 = if n ∈ expand hl then 1 else 0 :=
  deleteHost_built hl n hb

/-- F10 again: the member `n100000000` of `n[100000000-100000001]` is not deleted -/
theorem C14_delete_one_counterexample : "n100000000".toList ∈ expand f10List ∧
    deleteHost f10List "n100000000".toList = (f10List, 0) := ⟨f10_mem, f10_delete⟩

example : expand (deleteHost (["n1", "n2", "n3", "x", "n2"].map String.toList |>.foldl pushHost []) "n2".toList).1
    = ["n1", "n3", "x", "n2"].map String.toList := by
  rw [(C14_delete_one_built _ _ (Built.foldl _ _ Built.nil)).1, C14_push_all]; decide +kernel

/-! ## 5. round trip of the compressed string -/

/- Full-strength statement (FALSE of the code, see the three `…_counterexample`s below):
     theorem C14_roundtrip_all (names : List Name) :
       ∃ hl', create (rangedString (names.foldl pushHost [])) = .ok hl' ∧ expand hl' = names -/

/-- compressing a list into host-range notation (`hostlist_ranged_string`) and parsing the string again
    (`hostlist_create`) yields the same names in the same order — for every list whose ranges are well formed, have
    prefixes over the legal alphabet (no `[`, `]`, `,`, blank, tab), whose single names are non-empty, and whose ranges
    hold at most `MAX_RANGE` = 16384 hosts each (`LegalHL`).  Any number of ranges, groups, widths and paddings; the
    re-parsed list may differ as a list of ranges (widths, merging), never in the names it denotes. -/
theorem C14_roundtrip (hl : Hostlist) (h : LegalHL hl) :
    ∃ hl', create (rangedString hl) = .ok hl' ∧ expand hl' = expand hl := roundtrip hl h

/-- the same for lists built by pushing names over the legal alphabet: the string parses back to exactly the names
    pushed, in order.  The extra hypothesis `hsz` (no range of the built list exceeds 16384 hosts) is needed because
    `_parse_single_range` refuses larger ranges, which `hostlist_push_host` builds and `hostlist_ranged_string`
    prints without complaint (`C14_roundtrip_counterexample`). -/
theorem C14_roundtrip_pushed (names : List Name) (hleg : ∀ n ∈ names, LegalName n)
    (hsz : ∀ r ∈ names.foldl pushHost [], r.cnt ≤ MAX_RANGE) :
    ∃ hl', create (rangedString (names.foldl pushHost [])) = .ok hl' ∧ expand hl' = names :=
  roundtrip_pushed names hleg hsz

/-- a range of 16385 consecutive hosts (what pushing `n0 … n16384` builds) prints as `n[0-16384]`, which
    `hostlist_create` refuses with `ERANGE`: the library cannot read back its own output -/
theorem C14_roundtrip_counterexample :
    rangedString bigRange = "n[0-16384]".toList ∧ create (rangedString bigRange) = .error .erange :=
  ⟨rangedString_bigRange, roundtrip_counterexample⟩

/-- the alphabet hypothesis is needed: `hostlist_push_host` accepts the name `a,b`, the printed string splits in two -/
theorem C14_roundtrip_chars_counterexample :
    expand (pushHost [] "a,b".toList) = ["a,b".toList] ∧
    (create (rangedString (pushHost [] "a,b".toList))).map expand = .ok ["a".toList, "b".toList] :=
  roundtrip_chars_counterexample

/-- the non-emptiness hypothesis is needed: the empty name prints as the empty string, which holds no name -/
theorem C14_roundtrip_nonempty_counterexample :
    expand (pushHost [] []) = [[]] ∧ create (rangedString (pushHost [] [])) = .ok [] :=
  roundtrip_nonempty_counterexample

example : LegalHL sampleHL ∧ rangedString sampleHL = "n[08-10,20],login,gpu007".toList := by
  constructor
  · unfold LegalHL sampleHL; decide +kernel
  · decide +kernel
example : (∀ n ∈ sampleNames, LegalName n) ∧ (∀ r ∈ sampleNames.foldl pushHost [], r.cnt ≤ MAX_RANGE) := by
  unfold sampleNames; decide +kernel

/-! ## 6. sorting (qsort, then `hostlist_coalesce`, then `hostlist_collapse`) is a permutation of the names

`sortHL` (`Sort2.lean`: `msort`, `coalesce`, `collapse`) is the mirror the daemon model and the differential driver run: glibc's
merge order, the width side effects of `hostrange_cmp`, the assert of `hostrange_intersect`; every loop structurally recursive on a
fuel computed from its input, with an explicit `.fuel` outcome.  None of the bounds is ever exceeded on a well-formed list
(`C14_sort_fuel`): the merge sort and `hostlist_collapse` trivially, the outer loop of `hostlist_coalesce` — which restarts its scan
after every split — by the measure of `SortFuel.lean`, within `(hosts + ranges + 2)⁴` iterations.  So `hostlist_sort` either returns
(and then the theorems below apply) or dies in the assert of `hostrange_intersect` (`C14_sort_total`, F19).  (These definitions replaced
`partial` definitions;
the record of their agreement on 23 hand-written and 20000 pseudo-random lists is in `SortF.lean`.) -/

/-- sorting never adds, drops or renames a node: whenever `hostlist_sort` returns (no assert, fuel not exhausted),
    the expansion of the result is a permutation of the expansion of the input, duplicates included.  The proof does
    not depend on the order libc's `qsort` produces: the merge sort is only used as "some permutation of the ranges
    whose comparisons may rewrite widths", and each iteration of coalesce (splitting two overlapping ranges into
    up to `2·overlap` pieces) and of collapse (joining two adjacent ranges) preserves the multiset of names.
    `HWFS` (the shape every constructor produces) is needed, `WF` is not enough: `C14_sort_needs_WFS`. -/
theorem C14_sort_perm (hl hl' : Hostlist) (hwf : HWFS hl) (h : sortHL hl = .ok hl') : (expand hl').Perm (expand hl) :=
  sortHL_perm hl hl' hwf h

/-- the sorted list is again of the shape every constructor produces -/
theorem C14_sort_WFS (hl hl' : Hostlist) (hwf : HWFS hl) (h : sortHL hl = .ok hl') : HWFS hl' :=
  sortHL_wfs hl hl' hwf h

/-- in particular membership and the number of hosts are unchanged by sorting -/
theorem C14_sort_mem (hl hl' : Hostlist) (hwf : HWFS hl) (h : sortHL hl = .ok hl') (n : Name) :
    n ∈ expand hl' ↔ n ∈ expand hl := (C14_sort_perm hl hl' hwf h).mem_iff

theorem C14_sort_count (hl hl' : Hostlist) (hwf : HWFS hl) (h : sortHL hl = .ok hl') :
    (expand hl').length = (expand hl).length := (C14_sort_perm hl hl' hwf h).length_eq

/-- the pieces, for an arbitrary store / id list satisfying the invariant `Inv` (ids distinct and in bounds, ranges `WFS`):
    the merge sort returns a permutation of the ids whatever the comparisons answer, and leaves every stored range
    with the same names (`SEq`) -/
theorem C14_msort_perm {f : Nat} {st st' : Store} {ids res : List Nat} (h : msort f st ids = .ok (res, st')) :
    res.Perm ids ∧ SEq st st' := msort_perm f st ids res st' h

/-- `hostlist_coalesce` preserves the multiset of names, from any state satisfying `Inv` -/
theorem C14_coalesce_perm {st st' : Store} {ids ids' : List Nat} (hinv : Inv st ids) (h : coalesce st ids = .ok (ids', st')) :
    Inv st' ids' ∧ (den st' ids').Perm (den st ids) := coalesce_spec hinv h

/-- `hostlist_collapse` preserves the multiset of names, from any state satisfying `Inv` -/
theorem C14_collapse_perm {st st' : Store} {ids ids' : List Nat} (hinv : Inv st ids) (h : collapse st ids = .ok (ids', st')) :
    Inv st' ids' ∧ (den st' ids').Perm (den st ids) := collapse_spec hinv h

/-- `hostlist_sort` always ends, within the iteration bounds its mirror computes from the input: on a well-formed list
    `sortHL` never answers `.fuel`.  The merge sort and `hostlist_collapse` are immediate; the outer loop of
    `hostlist_coalesce` restarts its scan at the end of the list after every split, and ends within
    `coalesceFuel = (hosts + ranges + 2)⁴` iterations because `((N - R)·(N+1)² + inv)·(N+1) + i` decreases in each one:
    `N` hosts (never changes), `R ≤ N` ranges (none is empty), `inv ≤ R²` inversions of the sequence of `hi` fields, `i` the scan
    position.  An iteration either moves `i` down by one leaving every `lo`/`hi` alone, or splits at a point range
    (`[a-c],[x-x]` with `a ≤ x < c` becomes `[a-x],[x-c]`: same `R`, the two neighbouring `hi` values `c > x` change places,
    exactly one inversion less), or splits an overlap of more than one host and then adds at least one range. -/
theorem C14_sort_fuel (hl : Hostlist) (hwf : HWFS hl) : sortHL hl ≠ .fuel := sortHL_ne_fuel hl hwf

/-- the same for the loop alone, from any state satisfying `Inv` (ids distinct and in bounds, ranges `WFS`) -/
theorem C14_coalesce_no_fuel {st : Store} {ids : List Nat} (hinv : Inv st ids) : coalesce st ids ≠ .fuel :=
  coalesce_ne_fuel hinv

/-- `hostlist_sort` of a well-formed list either returns a list or dies in `assert(hostrange_cmp(h1, h2) <= 0)` of
    `hostrange_intersect` (which happens: F19, `C14_sort_abort_counterexample`) — there is no third outcome -/
theorem C14_sort_total (hl : Hostlist) (hwf : HWFS hl) : (∃ r, sortHL hl = .ok r) ∨ sortHL hl = .abort :=
  sortHL_total hl hwf

/-- … and when it returns, the result is well formed and holds exactly the same names, duplicates included
    (`C14_sort_perm`, `C14_sort_WFS` without the hypothesis that `sortHL` answered `.ok`) -/
theorem C14_sort_total_perm (hl : Hostlist) (hwf : HWFS hl) :
    (∃ r, sortHL hl = .ok r ∧ (expand r).Perm (expand hl) ∧ HWFS r) ∨ sortHL hl = .abort := by
  rcases sortHL_total hl hwf with ⟨r, h⟩ | h
  · exact Or.inl ⟨r, h, sortHL_spec hl r hwf h⟩
  · exact Or.inr h

/-- for consumers that say "the sort did not return" (`SortRes.Died` = `.abort ∨ .fuel`): on a well-formed list that
    means the assert and nothing else -/
theorem C14_sort_Died_iff (hl : Hostlist) (hwf : HWFS hl) : (sortHL hl).Died ↔ sortHL hl = .abort :=
  sortHL_Died_iff hl hwf

/-- where the abort comes from: the merge sort and `hostlist_collapse` contain no assert, so `hostlist_sort` dies only in an
    iteration of `hostlist_coalesce` … -/
theorem C14_sort_abort_only_coalesce (hl : Hostlist) (h : sortHL hl = .abort) :
    ∃ ids st, msort (hl.length + 1) hl.toArray (List.range hl.length) = .ok (ids, st) ∧ coalesce st ids = .abort :=
  sortHL_abort_only_coalesce hl h

/-- … namely one that looks at two neighbouring numeric ranges which `hostrange_cmp` puts in the wrong order … -/
theorem C14_coalesce_step_abort_iff (st : Store) (ids : List Nat) (i : Nat) :
    coalesceStep st ids i = .abort ↔
      i ≠ 0 ∧ (st[ids[i-1]!]!).single = false ∧ (st[ids[i]!]!).single = false ∧ (cmpM st ids[i-1]! ids[i]!).1 > 0 :=
  coalesceStep_abort_iff st ids i

/-- … which for numeric ranges means: a later prefix on the left; or the same prefix and either reconcilable widths with a
    larger `lo` on the left, or widths `_width_equiv` cannot reconcile with the wider range on the left (F19: `066` after
    `97-100` — the comparator is not a total order across widths, so `qsort` leaves such pairs behind) -/
theorem C14_cmp_pos_iff (st : Store) (p q : Nat) (hp : (st[p]!).single = false) (hq : (st[q]!).single = false) :
    (cmpM st p q).1 > 0 ↔
      (st[q]!).pfx < (st[p]!).pfx ∨
      ((st[p]!).pfx = (st[q]!).pfx ∧
        ((combOk st[p]! st[q]! = true ∧ (st[q]!).lo < (st[p]!).lo) ∨
         (combOk st[p]! st[q]! = false ∧ (st[q]!).width < (st[p]!).width))) :=
  cmpM_pos_iff st p q hp hq

/-- premises of `C14_sort_fuel` / `C14_sort_total` on a list where both kinds of split occur (`n[1-10],n[5-5]` is a point
    split, `m[1-3],m[2-5]` adds ranges), and on the list that aborts -/
example : HWFS (hlOfString "n[1-10],n[5-5],m[1-3],m[2-5],x") ∧
    sortHL (hlOfString "n[1-10],n[5-5],m[1-3],m[2-5],x") = .ok (hlOfString "m[1-2],m[2-3],m[3-5],n[1-5],n[5-10],x") := by
  constructor
  · unfold HWFS; decide +kernel
  · decide +kernel
example : HWFS (hlOfString "f[97-100,066,97-103]") := by unfold HWFS; decide +kernel

/-- (kept from before `C14_sort_fuel` was proved; it holds for every list, well formed or not)
    `hostlist_sort` can report `.fuel` only through the outer loop of `hostlist_coalesce`: the merge sort (recursion depth
    `≤ length`, merge loop `≤ |l| + |r|` steps) and `hostlist_collapse` (`i` goes down by one per step) never exceed their bounds -/
theorem C14_sort_fuel_partial (hl : Hostlist) (h : sortHL hl = .fuel) :
    ∃ ids st, msort (hl.length + 1) hl.toArray (List.range hl.length) = .ok (ids, st) ∧ coalesce st ids = .fuel :=
  sortHL_fuel_only_coalesce hl h

theorem C14_msort_no_fuel (f : Nat) (st : Store) (ids : List Nat) (h : ids.length ≤ f) (hf : 0 < f) : msort f st ids ≠ .fuel :=
  msort_ne_fuel f st ids h hf

theorem C14_collapse_no_fuel (st : Store) (ids : List Nat) : collapse st ids ≠ .fuel := collapse_ne_fuel st ids

/-- heavy duplication is where the iteration count grows (ten copies of `n[1-30]`: 109364 iterations of the outer loop of
    `hostlist_coalesce` for 300 hosts, more than the square of the size); a small instance, evaluated in the kernel: three
    copies of `n[1-5]` sort to a list that still holds every host three times -/
example : (match sortHL (hlOfString "n[1-5],n[1-5],n[1-5]") with | .ok hl => (expand hl).length | _ => 0) = 15 := by
  decide +kernel

/-- F19: sorting `f[97-100,066,97-103]` dies in `assert(hostrange_cmp(h1, h2) <= 0)` of `hostrange_intersect` -/
theorem C14_sort_abort_counterexample : sortHL (hlOfString "f[97-100,066,97-103]") = .abort := sortHL_F19_abort

/-- `WF` alone is not enough for the sort theorem: two single names `x` stored with different `lo`/`hi` fields (which
    no constructor produces) are joined by `hostlist_collapse` into one, losing a duplicate -/
theorem C14_sort_needs_WFS :
    HWF [⟨['x'], 0, 0, 0, true⟩, ⟨['x'], 1, 1, 0, true⟩] ∧
    sortHL [⟨['x'], 0, 0, 0, true⟩, ⟨['x'], 1, 1, 0, true⟩] = .ok [⟨['x'], 0, 1, 0, true⟩] ∧
    expand [⟨['x'], 0, 0, 0, true⟩, ⟨['x'], 1, 1, 0, true⟩] = [['x'], ['x']] ∧
    expand [⟨['x'], 0, 1, 0, true⟩] = [['x']] := sortHL_HWF_counterexample

example : HWFS (hlOfString "b2,a[1-3],a[2-5],b1") ∧
    sortHL (hlOfString "b2,a[1-3],a[2-5],b1") = .ok (hlOfString "a[1-2],a[2-3],a[3-5],b[1-2]") := by
  constructor
  · unfold HWFS; decide +kernel
  · decide +kernel

end Pm.Props.C14
