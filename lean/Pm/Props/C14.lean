import Pm.Find
/-! # C14 — host-range notation round-trips without changing any name

Property theorems over the hostlist mirrors (`Pm/HL.lean`, `Find.lean`), which are compared with the real
`liblsd/hostlist.c` answer by answer on every run.  Helper lemmas: `Pm/Num.lean`, `Digits.lean`, `HLProof.lean`, `Find.lean`.

Ranking: push appends exactly the pushed name (done) ▸ find is sound (done) ▸ width handling changes no printed name (done)
▸ count / nth / delete_one / find completeness under the documented suffix bound ▸ round trip of the compressed string
▸ sort is a permutation (needs the sort mirrors restated without `partial`). -/
namespace Pm.Props.C14
open Pm

/-- every range the library builds is either a single name or has `lo ≤ hi` -/
def WF (hl : Hostlist) : Prop := ∀ t ∈ hl, t.single = true ∨ t.lo ≤ t.hi

/-- `hostlist_push_host`: pushing a name appends exactly that name to the expansion, whatever the list —
    merging into the last range (with `_width_equiv` adjusting a width), numeric suffixes of any width with leading
    zeros, digit-terminated prefixes and the fallback for numeric parts beyond `MAX_HOST_SUFFIX` included.
    No other name is added, dropped or renamed. -/
theorem C14_push_expand (hl : Hostlist) (n : Name) (h : WF hl) : expand (pushHost hl n) = expand hl ++ [n] :=
  expand_pushHost' hl n h

/-- `hostlist_find` is sound: whatever index it returns is a position at which the expansion holds exactly that name —
    zero padding is significant (`foo01` is never found as `foo1`), with the digit-shifting retry of
    `hostrange_hn_within`, and with no bound on the numeric part. -/
theorem C14_find_sound (hl : Hostlist) (full : Name) (i : Nat) (h : find hl full = some i) : (expand hl)[i]? = some full :=
  find_sound hl full i h

/-- membership agrees with the expansion in the sound direction -/
theorem C14_find_mem (hl : Hostlist) (full : Name) (i : Nat) (h : find hl full = some i) : full ∈ expand hl :=
  find_mem hl full i h

/-- `_width_equiv` (used when ranges are merged or compared): after a successful call, with its mutation of a width,
    both ranges print every element exactly as before -/
theorem C14_width_equiv_sound {n wn m wm wn' wm' : Nat} (h : widthEquiv n wn m wm = some (wn', wm')) :
    wn' = wm' ∧ (∀ x, n ≤ x → fmtNum wn' x = fmtNum wn x) ∧ (∀ y, m ≤ y → fmtNum wm' y = fmtNum wm y) :=
  widthEquiv_sound h

/-- printing the value of a digit string at the string's own width returns the string, leading zeros included:
    a numeric suffix survives parse → `%0*lu` unchanged -/
theorem C14_fmt_parse (ds : List Char) (h : ds ≠ []) (hall : ∀ c ∈ ds, c.isDigit = true) : fmtNum ds.length (parseNat ds) = ds :=
  fmtNum_parse ds h hall

/-- padding is significant: `foo01` is not a member of the list that holds `foo1` -/
example : find (pushHost [] "foo1".toList) "foo01".toList = none := by decide
example : find (pushHost (pushHost [] "foo1".toList) "foo01".toList) "foo01".toList = some 1 := by decide
/-- premises are satisfiable on a non-trivial list (a merged range with a width, then a name that does not merge) -/
example : WF (pushHost (pushHost (pushHost [] "n08".toList) "n09".toList) "n10".toList) := by unfold WF; decide

end Pm.Props.C14
