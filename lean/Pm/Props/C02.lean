import Pm.ReplyProof
/-! # C02 — success is reported only when every target was really handled  (client side: `client.c`)

What is shown here, about the real definitions of `Pm/Daemon.lean` (`finalReply`, `actFinish`, `applyOuts`),
for every command `c : CmdC` (any target list, repetitions included, any arglist) and both `exprange` settings:

* the terminal line of a power / reset / beacon command is `102` exactly when the command's error flag is clear and
  no arglist entry of a target is classified unsuccessful (`RT_UNKNOWN`); in every other case it is `210`
  (`C02_success_iff`);
* a completion that carries an error (expect timeout, aborted queue entry, connect or login timeout) writes a
  `308 <device>: <reason>` line at once and sets the error flag; no later completion — for this or any other client —
  clears it; so the terminal line written when the last completion arrives is the `210` / `211` one
  (`C02_error_line_first`, `C02_error_monotone`, `C02_error_sticky`, and conversely `C02_all_success`);
* `pending` counts the outstanding completions down, the reply is written exactly when it reaches zero, a completion
  for a client without a command is the C `assert`, a completion for a departed client is dropped
  (`C02_pending_countdown_*`).

Not covered here (device side, `Pm/Dev2*.lean`): that each failing action produces a completion with an error
code, and that `setresult` classifies a plug as unsuccessful.  `sortedRanged … = none` (finding F19: the assert
inside `hostlist_sort`) is carried as a case: the daemon is gone, no reply is written. -/
namespace Pm.Props.C02
open Pm Pm.Client Pm.Daemon
open Pm.Daemon.Reply
open Pm.Dev2 (ActErr)

/-- For a power command (`on off cycle reset flash unflash`) the terminal line is
    `102 Command completed successfully` **iff** the error flag is clear and no arglist element found for a target
    name has `result = 1` (`RT_UNKNOWN`: the device's answer for that plug matched no success pattern);
    in every other case it is `210 Command completed with errors`.  Nothing else is ever written as the terminal
    reply, and the `exprange` setting plays no part. -/
theorem C02_success_iff (ex : Bool) (c : CmdC) (hp : c.com ∈ [Com.on, .off, .cycle, .reset, .flash, .unflash]) :
    (finalReply ex c = some (bstr "102 Command completed successfully" ++ crlf) ↔
      c.error = false ∧ ∀ n ∈ c.names, ∀ a, c.args.find? (·.node == n) = some a → a.result ≠ 1) ∧
    (finalReply ex c ≠ some (bstr "102 Command completed successfully" ++ crlf) →
      finalReply ex c = some (bstr "210 Command completed with errors" ++ crlf)) :=
  finalReply_power_iff ex c ((isPower_iff c.com).mpr hp)

/-- the two codes are different lines -/
theorem C02_codes_differ : bstr "102 Command completed successfully" ++ crlf ≠ bstr "210 Command completed with errors" ++ crlf :=
  okLine_ne_errLine

/-- `off t1,t2,t1,t3` where t3's plug was classified unsuccessful -/
def exArgs : List ArgC := [
  { node := "t1".toList, state := 2, result := 2, val := some (bstr "ok") },
  { node := "t2".toList, state := 1, result := 0, val := none },
  { node := "t3".toList, state := 0, result := 1, val := some (bstr "ERR") }]
def exCmd : CmdC :=
  { com := .off, names := ["t1".toList, "t2".toList, "t1".toList, "t3".toList], pending := 1, error := false, args := exArgs }

example : finalReply false exCmd = some (bstr "210 Command completed with errors" ++ crlf) := by decide +kernel
/-- the same request with t3 classified successful: success -/
example : finalReply false { exCmd with args := exArgs.map fun a => { a with result := 2 } } =
    some (bstr "102 Command completed successfully" ++ crlf) := by decide +kernel
/-- all results fine but the error flag set (some device timed out): errors -/
example : finalReply true { exCmd with error := true, args := exArgs.map fun a => { a with result := 2 } } =
    some (bstr "210 Command completed with errors" ++ crlf) := by decide +kernel

/-! ## the error flag -/

/-- A completion with an error code writes, before anything else it writes, a line `308 <device>: <reason>`
    (and a successful completion writes no such line).  What follows that line is given by the countdown
    theorems below: nothing, or the terminal reply and the prompt. -/
theorem C02_error_line_first (err : ActErr) (name : Bytes) :
    (err ≠ .success → ∃ reason, errPre err name = bstr "308 " ++ (name ++ reason) ++ crlf) ∧
    (err = .success → errPre err name = []) :=
  ⟨errPre_failure err name, fun h => h ▸ errPre_success name⟩

/-- One completion, for this client or any other (`id'`), never clears the error flag of a command in progress:
    afterwards the client is still there and either its command is still there with the flag set (same command:
    same code, targets and arglist), or this was the command's last completion and the client was sent
    `[308 line] reply prompt` where the reply is `210 …` (power) or ends with `211 …` (query).
    (The F19 abort leaves the state unchanged, flag set.) -/
theorem C02_error_monotone (w : W) (id id' : Nat) (err : ActErr) (name : Bytes) (c : Cli) (k : CmdC)
    (h : cliOf w id = some c) (hc : c.cmd = some k) (he : k.error = true) :
    match cliOf (actFinish w id' err name).1 id with
    | none => False
    | some c' =>
      match c'.cmd with
      | some k' => k'.error = true ∧ k'.al = k.al ∧ k'.com = k.com ∧ k'.names = k.names
      | none => id' = id ∧ k.pending = 1 ∧ ∃ r, finalReply c.exprange (withStore w k err) = some r ∧
                  c'.toBuf = c.toBuf ++ (errPre err name ++ r ++ prompt) ∧
                  ((isPower k.com = true ∧ r = errLine) ∨ (isQueryCom k.com = true ∧ qTerm true <:+ r)) :=
  actFinish_error_mono w id id' err name c k h hc he

/-- A whole run of device callbacks (`applyOuts`: completions for any clients, telemetry, diagnostics) that leaves
    at least one completion of client `id`'s command outstanding: the command stays, `pending` has gone down by
    the number of its completions, the error flag is the old flag or-ed with the error bit of every one of its
    completions, and the client was sent exactly the `308` / `305` / `309` lines in callback order — no terminal
    line, no prompt.  (The result has the shape of the hypothesis, so runs from several devices and passes chain.) -/
theorem C02_error_accumulates (w : W) (name : Bytes) (id : Nat) (outs : List DOut) (c : Cli) (k : CmdC)
    (h : cliOf w id = some c) (hc : c.cmd = some k) (hlt : outs.countP (isFin id) < k.pending) :
    cliOf (applyOuts w name outs).1 id =
      some { c with cmd := some { k with error := k.error || outs.any (finErr id), pending := k.pending - outs.countP (isFin id) },
                    toBuf := c.toBuf ++ outs.flatMap (outText name id) } := by
  rw [applyOuts_eq]
  exact fold_pending name id outs (w, []) c k h hc hlt

/-- **Sticky error.**  A run of callbacks ending with the completion that brings `pending` to zero, in which some
    completion of this command carried an error — or whose flag was already set by an earlier run: either the
    assert inside `hostlist_sort` fired while the reply was built (F19, reported as `O ABORT act_finish`), or the
    client's command is cleared and it was sent, after the lines of the earlier callbacks and this completion's own
    `308` line, a reply `r` and the prompt, where `r` is `210 Command completed with errors` for a power command
    and ends with `211 Query completed with errors` for a query. -/
theorem C02_error_sticky (w : W) (name : Bytes) (id : Nat) (pre : List DOut) (e : ActErr) (c : Cli) (k : CmdC)
    (h : cliOf w id = some c) (hc : c.cmd = some k) (hn : pre.countP (isFin id) + 1 = k.pending)
    (herr : k.error = true ∨ (pre ++ [Dev2.Out.finish id e]).any (finErr id) = true) :
    "O ABORT act_finish" ∈ (applyOuts w name (pre ++ [Dev2.Out.finish id e])).2 ∨
    ∃ r, cliOf (applyOuts w name (pre ++ [Dev2.Out.finish id e])).1 id =
           some { c with cmd := none, toBuf := c.toBuf ++ pre.flatMap (outText name id) ++ errPre e name ++ r ++ prompt } ∧
         ((isPower k.com = true ∧ r = bstr "210 Command completed with errors" ++ crlf) ∨
          (isQueryCom k.com = true ∧ (bstr "211 Query completed with errors" ++ crlf) <:+ r)) := by
  rw [applyOuts_eq]
  exact fold_final_error name id pre e (w, []) c k h hc hn herr

/-- **Conversely**: a power command whose flag is clear and none of whose completions carried an error gets
    `102 Command completed successfully` unless some arglist entry — read from the store at that moment — is
    classified unsuccessful, in which case it gets `210`. -/
theorem C02_all_success (w : W) (name : Bytes) (id : Nat) (pre : List DOut) (e : ActErr) (c : Cli) (k : CmdC)
    (h : cliOf w id = some c) (hc : c.cmd = some k) (hn : pre.countP (isFin id) + 1 = k.pending)
    (hp : isPower k.com = true) (hclean : k.error = false ∧ (pre ++ [Dev2.Out.finish id e]).any (finErr id) = false) :
    let bad := (entriesOf (withStore w k .success)).any (·.result == 1)
    cliOf (applyOuts w name (pre ++ [Dev2.Out.finish id e])).1 id =
      some { c with cmd := none, toBuf := c.toBuf ++ pre.flatMap (outText name id) ++
                      (if bad then bstr "210 Command completed with errors" ++ crlf
                       else bstr "102 Command completed successfully" ++ crlf) ++ prompt } := by
  rw [applyOuts_eq]
  exact fold_final_power_clean name id pre e (w, []) c k h hc hn hp hclean

/-! ## the countdown -/

/-- Two or more completions outstanding: `pending` goes down by one, the error bit is or-ed into the flag, and the
    client is sent the `308` line if the completion failed and nothing otherwise — no terminal line, no prompt.
    Nothing is reported to `assert`. -/
theorem C02_pending_countdown_more (w : W) (id : Nat) (err : ActErr) (name : Bytes) (c : Cli) (k : CmdC) (n : Nat)
    (h : cliOf w id = some c) (hc : c.cmd = some k) (hp : k.pending = n + 2) :
    (actFinish w id err name).2 = false ∧
    cliOf (actFinish w id err name).1 id =
      some { c with cmd := some { k with error := k.error || (err != .success), pending := n + 1 },
                    toBuf := c.toBuf ++ errPre err name } := by
  have := actFinish_more w id err name c k h hc (by omega)
  rw [hp] at this
  exact this

/-- The last completion (`pending = 1`): the command is cleared and the client is sent exactly the optional `308`
    line, then the terminal reply computed from the arglist as it stands in the store with the accumulated error
    flag, then the prompt.  If building the reply trips the sort assert (F19) the pass is reported aborted and
    nothing is written. -/
theorem C02_pending_countdown_last (w : W) (id : Nat) (err : ActErr) (name : Bytes) (c : Cli) (k : CmdC)
    (h : cliOf w id = some c) (hc : c.cmd = some k) (hp : k.pending = 1) :
    match finalReply c.exprange { k with error := k.error || (err != .success), args := (storeArgs w k.al).map argC } with
    | some r => (actFinish w id err name).2 = false ∧
                cliOf (actFinish w id err name).1 id = some { c with cmd := none, toBuf := c.toBuf ++ (errPre err name ++ r ++ prompt) }
    | none => actFinish w id err name = (w, true) := by
  split
  · rename_i r hr; exact actFinish_last w id err name c k r h hc hp hr
  · rename_i hr; exact actFinish_last_abort w id err name c k h hc hp hr

/-- `assert(c->cmd != NULL)`: a completion for a client that has no command is reported as the assert;
    a completion for a client that has gone away changes nothing; in all cases only the client table can change,
    and no other client's record does. -/
theorem C02_pending_countdown_edge (w : W) (id : Nat) (err : ActErr) (name : Bytes) :
    (∀ c, cliOf w id = some c → c.cmd = none → actFinish w id err name = (w, true)) ∧
    (cliOf w id = none → actFinish w id err name = (w, false)) ∧
    (∃ cl, (actFinish w id err name).1 = { w with clients := cl }) ∧
    (∀ id', id' ≠ id → cliOf (actFinish w id err name).1 id' = cliOf w id') :=
  ⟨fun c h hc => actFinish_nocmd w id err name c h hc, actFinish_absent w id err name,
   actFinish_frame w id err name, fun id' hne => actFinish_other w id id' err name hne⟩

/-! non-vacuity: client 7 runs `exCmd` with two completions outstanding; the first times out, the second succeeds -/
def w0 : W :=
  { cfg := { plugs := [], has := [], nodes := [], version := [] },
    clients := [{ id := 3, fd := 1000 }, { id := 7, fd := 1001, cmd := some { exCmd with pending := 2, al := 4, args := [] } }],
    store := [(4, [{ node := bstr "t1", val := none, state := .on, result := .success },
                   { node := bstr "t2", val := none, state := .off, result := .success },
                   { node := bstr "t3", val := none, state := .off, result := .success }])] }

example : (cliOf (applyOuts w0 (bstr "pdu0") [.finish 7 .expfail, .telemetry 3 (bstr "x"), .finish 7 .success]).1 7).map (·.toBuf) =
    some (bstr "308 pdu0: action timed out waiting for expected response\r\n210 Command completed with errors\r\npowerman> ") := by
  decide +kernel
example : (cliOf (applyOuts w0 (bstr "pdu0") [.finish 7 .success, .finish 7 .success]).1 7).map (·.toBuf) =
    some (bstr "102 Command completed successfully\r\npowerman> ") := by
  decide +kernel
example : (actFinish w0 3 .success []).2 = true ∧ (actFinish w0 9 .success []).1.clients.length = 2 := by decide +kernel

end Pm.Props.C02
