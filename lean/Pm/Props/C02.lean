import Pm.ReplyProof
import Pm.E2EEx
import Pm.RunXEx
/-! # C02 — success is reported only when every target was really handled  (client side: `client.c`)

What is shown here, about the real definitions of `Pm/Daemon.lean` (`finalReply`, `actFinish`, `applyOuts`),
for every command `c : CmdC` (any target list, repetitions included, any arglist) and both `exprange` settings:

* the terminal line of a power / reset / beacon command is `102` exactly when the command's error flag is clear and
  no arglist entry of a target is classified unsuccessful (`RT_UNKNOWN`); in every other case it is `210`
  (`C02_success_iff`);
* a completion that carries an error (expect timeout, aborted queue entry, connect or login timeout) writes a
  `308 <device>: <reason>` line at once and sets the error flag; no later completion — for this or any other client —
  clears it; so the terminal line written when the last completion arrives is the `210` / `211` one
  (`C02_error_line_first`, `C02_error_monotone`, `C02_error_sticky`, and conversely `C02_all_success`);
* `pending` counts the outstanding completions down, the reply is written exactly when it reaches zero, a completion
  for a client without a command is the C `assert`, a completion for a departed client is dropped
  (`C02_pending_countdown_*`).

`sortedRanged … = none` (finding F19: the assert inside `hostlist_sort`) is carried as a case: the daemon is gone, no
reply is written.

The second half of the file (`## end to end`) composes this with the device side (`Pm/Dev2*.lean`), the request side
(`Props/C01`) and the pass (`daemonPass`): the invariant "`pending` = number of the client's actions still queued"
(`C02_pending_is_queued`), what one pass does to a command in progress (`C02_pass`), and over any run of passes
`C02_sound` / `C02_complete` / `C02_errors_named`; `C02_success_is_completion` says what a success completion means on
the device, `C02_request_installed` / `C02_targets_covered` / `C02_cannot_be_handled` what an accepted request queued.
Helper lemmas: `Pm/E2EDev.lean`, `Pm/E2ECli.lean`, `Pm/EndToEnd.lean`; example run: `Pm/E2EEx.lean`.

The run theorems of that half are stated over `runPasses`, the plain fold of `daemonPass`, in which only the *first* pass of
the run can see an answer of the regex engine (`daemonPass` consumes and clears `pendingX`; the driver refills it between
passes).  The last part of the file (`## end to end, regex answers arbitrary in every pass`) states them over `runX`
(`Pm/RunX.lean`: every pass brings its own answers); the `runPasses` statements are the special case of passes that bring no
answer, and are proved from the `runX` ones (`Pm/RunXE2E.lean`: `sound_plain`, …). -/
namespace Pm.Props.C02
open Pm Pm.Client Pm.Daemon
open Pm.Daemon.Reply
open Pm.Dev2 (ActErr)

/-- For a power command (`on off cycle reset flash unflash`) the terminal line is
    `102 Command completed successfully` **iff** the error flag is clear and no arglist element found for a target
    name has `result = 1` (`RT_UNKNOWN`: the device's answer for that plug matched no success pattern);
    in every other case it is `210 Command completed with errors`.  Nothing else is ever written as the terminal
    reply, and the `exprange` setting plays no part. -/
theorem C02_success_iff (ex : Bool) (c : CmdC) (hp : c.com ∈ [Com.on, .off, .cycle, .reset, .flash, .unflash]) :
    (finalReply ex c = some (bstr "102 Command completed successfully" ++ crlf) ↔
      c.error = false ∧ ∀ n ∈ c.names, ∀ a, c.args.find? (·.node == n) = some a → a.result ≠ 1) ∧
    (finalReply ex c ≠ some (bstr "102 Command completed successfully" ++ crlf) →
      finalReply ex c = some (bstr "210 Command completed with errors" ++ crlf)) :=
  finalReply_power_iff ex c ((isPower_iff c.com).mpr hp)

/-- the two codes are different lines -/
theorem C02_codes_differ : bstr "102 Command completed successfully" ++ crlf ≠ bstr "210 Command completed with errors" ++ crlf :=
  okLine_ne_errLine

/-- `off t1,t2,t1,t3` where t3's plug was classified unsuccessful -/
def exArgs : List ArgC := [
  { node := "t1".toList, state := 2, result := 2, val := some (bstr "ok") },
  { node := "t2".toList, state := 1, result := 0, val := none },
  { node := "t3".toList, state := 0, result := 1, val := some (bstr "ERR") }]
def exCmd : CmdC :=
  { com := .off, names := ["t1".toList, "t2".toList, "t1".toList, "t3".toList], pending := 1, error := false, args := exArgs }

example : finalReply false exCmd = some (bstr "210 Command completed with errors" ++ crlf) := by decide +kernel
/-- the same request with t3 classified successful: success -/
example : finalReply false { exCmd with args := exArgs.map fun a => { a with result := 2 } } =
    some (bstr "102 Command completed successfully" ++ crlf) := by decide +kernel
/-- all results fine but the error flag set (some device timed out): errors -/
example : finalReply true { exCmd with error := true, args := exArgs.map fun a => { a with result := 2 } } =
    some (bstr "210 Command completed with errors" ++ crlf) := by decide +kernel

/-! ## the error flag -/

/-- A completion with an error code writes, before anything else it writes, a line `308 <device>: <reason>`
    (and a successful completion writes no such line).  What follows that line is given by the countdown
    theorems below: nothing, or the terminal reply and the prompt. -/
theorem C02_error_line_first (err : ActErr) (name : Bytes) :
    (err ≠ .success → ∃ reason, errPre err name = bstr "308 " ++ (name ++ reason) ++ crlf) ∧
    (err = .success → errPre err name = []) :=
  ⟨errPre_failure err name, fun h => h ▸ errPre_success name⟩

/-- One completion, for this client or any other (`id'`), never clears the error flag of a command in progress:
    afterwards the client is still there and either its command is still there with the flag set (same command:
    same code, targets and arglist), or this was the command's last completion and the client was sent
    `[308 line] reply prompt` where the reply is `210 …` (power) or ends with `211 …` (query).
    (The F19 abort leaves the state unchanged, flag set.) -/
theorem C02_error_monotone (w : W) (id id' : Nat) (err : ActErr) (name : Bytes) (c : Cli) (k : CmdC)
    (h : cliOf w id = some c) (hc : c.cmd = some k) (he : k.error = true) :
    match cliOf (actFinish w id' err name).1 id with
    | none => False
    | some c' =>
      match c'.cmd with
      | some k' => k'.error = true ∧ k'.al = k.al ∧ k'.com = k.com ∧ k'.names = k.names
      | none => id' = id ∧ k.pending = 1 ∧ ∃ r, finalReply c.exprange (withStore w k err) = some r ∧
                  c'.toBuf = c.toBuf ++ (errPre err name ++ r ++ prompt) ∧
                  ((isPower k.com = true ∧ r = errLine) ∨ (isQueryCom k.com = true ∧ qTerm true <:+ r)) :=
  actFinish_error_mono w id id' err name c k h hc he

/-- A whole run of device callbacks (`applyOuts`: completions for any clients, telemetry, diagnostics) that leaves
    at least one completion of client `id`'s command outstanding: the command stays, `pending` has gone down by
    the number of its completions, the error flag is the old flag or-ed with the error bit of every one of its
    completions, and the client was sent exactly the `308` / `305` / `309` lines in callback order — no terminal
    line, no prompt.  (The result has the shape of the hypothesis, so runs from several devices and passes chain.) -/
theorem C02_error_accumulates (w : W) (name : Bytes) (id : Nat) (outs : List DOut) (c : Cli) (k : CmdC)
    (h : cliOf w id = some c) (hc : c.cmd = some k) (hlt : outs.countP (isFin id) < k.pending) :
    cliOf (applyOuts w name outs).1 id =
      some { c with cmd := some { k with error := k.error || outs.any (finErr id), pending := k.pending - outs.countP (isFin id) },
                    toBuf := c.toBuf ++ outs.flatMap (outText name id) } := by
  rw [Reply.applyOuts_eq]
  exact fold_pending name id outs (w, []) c k h hc hlt

/-- **Sticky error.**  A run of callbacks ending with the completion that brings `pending` to zero, in which some
    completion of this command carried an error — or whose flag was already set by an earlier run: either the
    assert inside `hostlist_sort` fired while the reply was built (F19, reported as `O ABORT act_finish`), or the
    client's command is cleared and it was sent, after the lines of the earlier callbacks and this completion's own
    `308` line, a reply `r` and the prompt, where `r` is `210 Command completed with errors` for a power command
    and ends with `211 Query completed with errors` for a query. -/
theorem C02_error_sticky (w : W) (name : Bytes) (id : Nat) (pre : List DOut) (e : ActErr) (c : Cli) (k : CmdC)
    (h : cliOf w id = some c) (hc : c.cmd = some k) (hn : pre.countP (isFin id) + 1 = k.pending)
    (herr : k.error = true ∨ (pre ++ [Dev2.Out.finish id e]).any (finErr id) = true) :
    "O ABORT act_finish" ∈ (applyOuts w name (pre ++ [Dev2.Out.finish id e])).2 ∨
    ∃ r, cliOf (applyOuts w name (pre ++ [Dev2.Out.finish id e])).1 id =
           some { c with cmd := none, toBuf := c.toBuf ++ pre.flatMap (outText name id) ++ errPre e name ++ r ++ prompt } ∧
         ((isPower k.com = true ∧ r = bstr "210 Command completed with errors" ++ crlf) ∨
          (isQueryCom k.com = true ∧ (bstr "211 Query completed with errors" ++ crlf) <:+ r)) := by
  rw [Reply.applyOuts_eq]
  exact fold_final_error name id pre e (w, []) c k h hc hn herr

/-- **Conversely**: a power command whose flag is clear and none of whose completions carried an error gets
    `102 Command completed successfully` unless some arglist entry — read from the store at that moment — is
    classified unsuccessful, in which case it gets `210`. -/
theorem C02_all_success (w : W) (name : Bytes) (id : Nat) (pre : List DOut) (e : ActErr) (c : Cli) (k : CmdC)
    (h : cliOf w id = some c) (hc : c.cmd = some k) (hn : pre.countP (isFin id) + 1 = k.pending)
    (hp : isPower k.com = true) (hclean : k.error = false ∧ (pre ++ [Dev2.Out.finish id e]).any (finErr id) = false) :
    let bad := (entriesOf (withStore w k .success)).any (·.result == 1)
    cliOf (applyOuts w name (pre ++ [Dev2.Out.finish id e])).1 id =
      some { c with cmd := none, toBuf := c.toBuf ++ pre.flatMap (outText name id) ++
                      (if bad then bstr "210 Command completed with errors" ++ crlf
                       else bstr "102 Command completed successfully" ++ crlf) ++ prompt } := by
  rw [Reply.applyOuts_eq]
  exact fold_final_power_clean name id pre e (w, []) c k h hc hn hp hclean

/-! ## the countdown -/

/-- Two or more completions outstanding: `pending` goes down by one, the error bit is or-ed into the flag, and the
    client is sent the `308` line if the completion failed and nothing otherwise — no terminal line, no prompt.
    Nothing is reported to `assert`. -/
theorem C02_pending_countdown_more (w : W) (id : Nat) (err : ActErr) (name : Bytes) (c : Cli) (k : CmdC) (n : Nat)
    (h : cliOf w id = some c) (hc : c.cmd = some k) (hp : k.pending = n + 2) :
    (actFinish w id err name).2 = false ∧
    cliOf (actFinish w id err name).1 id =
      some { c with cmd := some { k with error := k.error || (err != .success), pending := n + 1 },
                    toBuf := c.toBuf ++ errPre err name } := by
  have := actFinish_more w id err name c k h hc (by omega)
  rw [hp] at this
  exact this

/-- The last completion (`pending = 1`): the command is cleared and the client is sent exactly the optional `308`
    line, then the terminal reply computed from the arglist as it stands in the store with the accumulated error
    flag, then the prompt.  If building the reply trips the sort assert (F19) the pass is reported aborted and
    nothing is written. -/
theorem C02_pending_countdown_last (w : W) (id : Nat) (err : ActErr) (name : Bytes) (c : Cli) (k : CmdC)
    (h : cliOf w id = some c) (hc : c.cmd = some k) (hp : k.pending = 1) :
    match finalReply c.exprange { k with error := k.error || (err != .success), args := (storeArgs w k.al).map argC } with
    | some r => (actFinish w id err name).2 = false ∧
                cliOf (actFinish w id err name).1 id = some { c with cmd := none, toBuf := c.toBuf ++ (errPre err name ++ r ++ prompt) }
    | none => actFinish w id err name = (w, true) := by
  split
  · rename_i r hr; exact actFinish_last w id err name c k r h hc hp hr
  · rename_i hr; exact actFinish_last_abort w id err name c k h hc hp hr

/-- `assert(c->cmd != NULL)`: a completion for a client that has no command is reported as the assert;
    a completion for a client that has gone away changes nothing; in all cases only the client table can change,
    and no other client's record does. -/
theorem C02_pending_countdown_edge (w : W) (id : Nat) (err : ActErr) (name : Bytes) :
    (∀ c, cliOf w id = some c → c.cmd = none → actFinish w id err name = (w, true)) ∧
    (cliOf w id = none → actFinish w id err name = (w, false)) ∧
    (∃ cl, (actFinish w id err name).1 = { w with clients := cl }) ∧
    (∀ id', id' ≠ id → cliOf (actFinish w id err name).1 id' = cliOf w id') :=
  ⟨fun c h hc => actFinish_nocmd w id err name c h hc, actFinish_absent w id err name,
   actFinish_frame w id err name, fun id' hne => actFinish_other w id id' err name hne⟩

/-! non-vacuity: client 7 runs `exCmd` with two completions outstanding; the first times out, the second succeeds -/
def w0 : W :=
  { cfg := { plugs := [], has := [], nodes := [], version := [] },
    clients := [{ id := 3, fd := 1000 }, { id := 7, fd := 1001, cmd := some { exCmd with pending := 2, al := 4, args := [] } }],
    store := [(4, [{ node := bstr "t1", val := none, state := .on, result := .success },
                   { node := bstr "t2", val := none, state := .off, result := .success },
                   { node := bstr "t3", val := none, state := .off, result := .success }])] }

example : (cliOf (applyOuts w0 (bstr "pdu0") [.finish 7 .expfail, .telemetry 3 (bstr "x"), .finish 7 .success]).1 7).map (·.toBuf) =
    some (bstr "308 pdu0: action timed out waiting for expected response\r\n210 Command completed with errors\r\npowerman> ") := by
  decide +kernel
example : (cliOf (applyOuts w0 (bstr "pdu0") [.finish 7 .success, .finish 7 .success]).1 7).map (·.toBuf) =
    some (bstr "102 Command completed successfully\r\npowerman> ") := by
  decide +kernel
example : (actFinish w0 3 .success []).2 = true ∧ (actFinish w0 9 .success []).1.clients.length = 2 := by decide +kernel

/-! ## end to end

`runPasses w ps` is the world after the passes `ps` (each a `daemonPass` with its kernel answers `PassIn`); `cliRec w g` is
the record of the client with id `g`; `totalQ g devs` the number of actions of client `g` in all device queues;
`passDead w p` says the pass ended in a modelled assertion (the C process is gone; what the model computes afterwards
means nothing), `Alive w ps` that no pass of the run did; `passFins w p g` / `runFins w ps g` are the completions the
devices reported for client `g` in a pass / a run, as pairs (device name, outcome), in the order of delivery;
`passText w p g` the `305`/`308`/`309` lines the device phase of the pass wrote to the client.

NOTE.  In `runPasses w ps` only the first pass can see an answer of the regex engine (they are the field `pendingX` of `w`, which
`daemonPass` consumes and clears).  The run theorems of this section are therefore about runs in which no `expect` matches after
the first pass; they are kept as corollaries of the general ones in the last section of the file (`…_runX`: every pass brings
its own regex answers).  The one-pass theorems (`C02_pass`, `C02_accepting_pass`, …) hold for an arbitrary world `w`, answers
pending or not, and need no lifting. -/
section endToEnd
open Pm.Daemon.E2E
open Pm.Daemon.Isolation (runPasses)
open Pm.Daemon.Enq (installDev installTotal newActs tgt)
open Pm.Dev2 (Dev Action Plug Oracle qcount)

/-- **The invariant: `pending` = queued.**  `Inv w` is the id and arglist disciplines of C11 together with: for every live
    client, `pending` of its command (0 without a command) is the number of its actions in all device queues, and a
    command in progress waits for at least one (spelled out in `C02_Inv_spelled`).  It holds when the daemon starts (no
    client, empty queues: `C02_Inv_init`) and after any run of passes none of which ends in an assertion — whatever the
    kernel answers, whatever the other clients do. -/
theorem C02_pending_is_queued (w : W) (ps : List PassIn) (h : Inv w) (ha : Alive w ps) : Inv (runPasses w ps) :=
  runPasses_inv_plain w ps h ha      -- corollary of `C02_pending_is_queued_runX` (passes that bring no regex answer)

theorem C02_Inv_init (w : W) (hc : w.clients = []) (hq : ∀ nd ∈ w.devs, nd.2.acts = []) (hn : 0 < w.nextId) (ha : 0 < w.alNext) :
    Inv w := inv_init w hc hq hn ha

theorem C02_Inv_spelled (w : W) (h : Inv w) (g : Nat) (c : Cli) (hc : cliRec w g = some c) :
    match c.cmd with
    | some k => k.pending = totalQ g w.devs ∧ 0 < k.pending
    | none => totalQ g w.devs = 0 := h.spelled g c hc

/-- what `Alive` and `runFins` are -/
theorem C02_run_defs (w : W) (p : PassIn) (ps : List PassIn) (g : Nat) :
    (Alive w (p :: ps) ↔ passDead w p = false ∧ Alive (daemonPass w p).1 ps) ∧
    runFins w (p :: ps) g = passFins w p g ++ runFins (daemonPass w p).1 ps g ∧ runFins w [] g = [] :=
  ⟨Iff.rfl, rfl, rfl⟩

example : Inv Ex.w3 ∧ totalQ 1 Ex.w3.devs = 1 := ⟨Ex.inv3, Ex.reached.2.2.2⟩

/-- **An accepted request.**  A line that leaves a client that had no command with the command `k`: `k`'s error flag is
    clear, `pending` is the number of actions `dev_enqueue_actions` appended over all devices (it is positive), every
    device's queue was extended by its `newActs` for the request (`Props/C01` says what these are), and every device the
    request involves passed the capability check. -/
theorem C02_request_installed (w : W) (c : Cli) (line : Bytes) (k : CmdC) (h0 : c.cmd = none)
    (hk : (parseLine w c line).2.cmd = some k) :
    ∃ tele al, k.error = false ∧ 0 < k.pending ∧
      k.pending = installTotal (comIdx k.com) (k.names.map ofChars) c.id tele al w.devs ∧
      (parseLine w c line).1.devs = w.devs.map (installDev (comIdx k.com) (k.names.map ofChars) c.id tele al) ∧
      (∀ nd ∈ w.devs, needsDev nd.2 (k.names.map ofChars) = true → handles nd.2 (comIdx k.com) (k.names.map ofChars) = true) :=
  request_installed w c line k h0 hk

/-- the request `off n[1,3]` of client 5 in `exW` (`Pm/EnqProof.lean`) is accepted -/
example : ∃ k tele al, (parseLine Pm.Daemon.Enq.exW Pm.Daemon.Enq.exC Pm.Daemon.Enq.exLine).2.cmd = some k ∧ k.error = false ∧ 0 < k.pending ∧
    k.pending = installTotal (comIdx k.com) (k.names.map ofChars) Pm.Daemon.Enq.exC.id tele al Pm.Daemon.Enq.exW.devs := by
  have h : ((parseLine Pm.Daemon.Enq.exW Pm.Daemon.Enq.exC Pm.Daemon.Enq.exLine).2.cmd).isSome = true := by decide +kernel
  obtain ⟨k, hk⟩ := Option.isSome_iff_exists.mp h
  obtain ⟨tele, al, h1, h2, h3, _⟩ := C02_request_installed _ _ _ k rfl hk
  exact ⟨k, tele, al, hk, h1, h2, h3⟩

/-- **Every named node's plug is covered.**  On a device that passed the capability check, every plug mapped to a named
    node is commanded by one of the actions appended for the request (its plug list contains the plug; an `_all` action
    commands every plug of the device).  With `C01_commanded` (the appended actions command *only* such plugs) the
    actions a power request waits for address exactly the plugs of the named nodes. -/
theorem C02_targets_covered (d : Dev) (com : Nat) (targets : List Bytes) (cid : Nat) (tele : Bool) (al : Nat)
    (hh : handles d com targets = true) (p : Plug) (hp : p ∈ d.plugs) (n : Bytes) (hn : p.node = some n) (hm : n ∈ targets) :
    ∃ a ∈ newActs d.plugs d.scripts com targets cid tele al, p ∈ a.commanded d :=
  newActs_covers hh hp (Pm.Daemon.Enq.tgt_of_mem hn hm)

/-- `off n1,n3` on `exDev` (plugs "1" ↦ n1, "2" unused, "3" ↦ n3, "4" ↦ n4): plug "3" is commanded by an appended action -/
example : ∃ a ∈ newActs Pm.Daemon.Enq.exDev.plugs Pm.Daemon.Enq.exDev.scripts 10 [[110, 49], [110, 51]] 5 false 2,
    Pm.Daemon.Enq.exP3 ∈ a.commanded Pm.Daemon.Enq.exDev :=
  C02_targets_covered Pm.Daemon.Enq.exDev 10 [[110, 49], [110, 51]] 5 false 2 (by decide +kernel) Pm.Daemon.Enq.exP3 (by decide +kernel)
    [110, 51] rfl (by decide +kernel)

/-- **Targets that no script can handle.**  If some device the request involves has no script variant that can serve it,
    the request is answered `213 Command cannot be handled by power control device(s)`; nothing is queued, no command is
    installed. -/
theorem C02_cannot_be_handled (w : W) (c : Cli) (com : Com) (names : List Name) (nd : Bytes × Dev) (hnd : nd ∈ w.devs)
    (hneed : needsDev nd.2 (names.map ofChars) = true) (hno : handles nd.2 (comIdx com) (names.map ofChars) = false) :
    install w c com names = (w, put c (codeLine 213 ++ crlf ++ (if c.quit then [] else prompt))) :=
  cannot_be_handled w c com names nd hnd hneed hno

/-- a device with plugs for n1 and n3 that has only the `off_all` script, asked to switch off n1 alone: 213 -/
example : (install { cfg := { plugs := [], has := [], nodes := [], version := [] }, clients := [],
                     devs := [([100], Pm.Daemon.Enq.exDevWith [Pm.Daemon.Enq.exP1, Pm.Daemon.Enq.exP3] Pm.Daemon.Enq.exScriptsAllOnly)] }
      { id := 5, fd := 1000 } .off [['n', '1']]).2.toBuf =
    bstr "213 Command cannot be handled by power control device(s)\r\npowerman> " := by
  rw [C02_cannot_be_handled _ _ _ _ ([100], Pm.Daemon.Enq.exDevWith [Pm.Daemon.Enq.exP1, Pm.Daemon.Enq.exP3] Pm.Daemon.Enq.exScriptsAllOnly)
    (by simp) (by decide +kernel) (by decide +kernel)]
  decide +kernel

/-- **One pass, seen from a client with a command in progress** (any command; the pass does not end in an assertion).
    The client phase either destroys the client (error on its descriptor; its actions stay queued and their completions
    are dropped) or leaves its command untouched — `c1` is its record then.  In the device phase, with `F` the completions
    reported for the client: fewer than `pending` — the command stays, `pending` lowered by their number, the error flag
    or-ed with "one of them failed", the lines appended; exactly `pending` — the command is cleared and the client is
    sent the lines, then the terminal reply computed from that flag and the arglist as it stands after the pass, then the
    prompt, and nothing else.  More than `pending` cannot happen. -/
theorem C02_pass (w : W) (p : PassIn) (g : Nat) (c : Cli) (k : CmdC) (hinv : Inv w) (hd : passDead w p = false)
    (hc : cliRec w g = some c) (hk : c.cmd = some k) :
    (cliRec (cliPostPoll w p.acc p.envs) g = none ∧ cliRec (daemonPass w p).1 g = none) ∨
    ∃ c1, cliRec (cliPostPoll w p.acc p.envs) g = some c1 ∧ c1.cmd = some k ∧
      (((passFins w p g).length < k.pending ∧
        cliRec (daemonPass w p).1 g =
          some { c1 with cmd := some { k with error := k.error || (passFins w p g).any failed,
                                              pending := k.pending - (passFins w p g).length },
                         toBuf := c1.toBuf ++ passText w p g }) ∨
       ((passFins w p g).length = k.pending ∧
        ∃ r, finalReply c1.exprange { k with error := k.error || (passFins w p g).any failed,
                                             args := (storeArgs (daemonPass w p).1 k.al).map argC } = some r ∧
          cliRec (daemonPass w p).1 g = some { c1 with cmd := none, toBuf := c1.toBuf ++ passText w p g ++ r ++ prompt })) :=
  daemonPass_view w p g c k hinv hd hc hk

/-- pass 4 of the example run: the hypotheses hold, and it is the second alternative (one completion, `pending = 1`) -/
example : (passFins Ex.w3x Ex.p4 1).length = Ex.k0.pending ∧ passDead Ex.w3x Ex.p4 = false ∧ Inv Ex.w3x :=
  ⟨by decide +kernel, by decide +kernel, Ex.inv3x⟩

/-- **C02, soundness.**  Client `g` has the power command `k0` in progress in a state `w0` satisfying the invariant
    (`k0.pending` = the number of its actions queued); a run of passes follows, none ending in an assertion; before the
    last pass `p` the command (identified by its arglist id, which is never reused) is still in progress, after it the
    client is there and idle.  If its output buffer then ends with `102 Command completed successfully` and the prompt:
    * `k0`'s error flag was clear (for a request just accepted it is: `C02_request_installed`);
    * the devices reported exactly `k0.pending` completions for the client during the run — one for every action it had
      queued (`k0.pending = totalQ g w0.devs`; none is reported twice or lost: `C04_completions_conserved`);
    * every one of them is a success — no time-out, no connect or login failure, no aborted queue entry; and a success is
      reported only for a script that ran to its end (`C02_success_is_completion`);
    * no result cell of a target is `unknown` (`RT_UNKNOWN`) in the arglist as it stands after the pass. -/
theorem C02_sound (w0 : W) (ps : List PassIn) (p : PassIn) (g : Nat) (c0 : Cli) (k0 : CmdC) (c' : Cli)
    (hinv : Inv w0) (ha : Alive w0 (ps ++ [p])) (hc0 : cliRec w0 g = some c0) (hk0 : c0.cmd = some k0)
    (hp : k0.com ∈ [Com.on, .off, .cycle, .reset, .flash, .unflash])
    (hbusy : ∃ c k, cliRec (runPasses w0 ps) g = some c ∧ c.cmd = some k ∧ k.al = k0.al)
    (hidle : cliRec (runPasses w0 (ps ++ [p])) g = some c') (hnone : c'.cmd = none)
    (h102 : bstr "102 Command completed successfully" ++ crlf ++ prompt <:+ c'.toBuf) :
    k0.error = false ∧ (runFins w0 (ps ++ [p]) g).length = k0.pending ∧ k0.pending = totalQ g w0.devs ∧
    (∀ x ∈ runFins w0 (ps ++ [p]) g, x.2 = .success) ∧
    ∀ n ∈ k0.names, ∀ a, ((storeArgs (runPasses w0 (ps ++ [p])) k0.al).map argC).find? (·.node == n) = some a → a.result ≠ 1 :=
  -- corollary of `C02_sound_runX` (passes that bring no regex answer)
  sound_plain w0 ps p g c0 k0 c' hinv ha hc0 hk0 ((isPower_iff k0.com).mpr hp) hbusy hidle hnone (by simpa [okLine, List.append_assoc] using h102)

/-- the example run: the device answers, the script comes to its end, the client gets `102` -/
example : Ex.k0.error = false ∧ (runFins Ex.w3x ([] ++ [Ex.p4]) 1).length = Ex.k0.pending ∧ Ex.k0.pending = totalQ 1 Ex.w3x.devs ∧
    (∀ x ∈ runFins Ex.w3x ([] ++ [Ex.p4]) 1, x.2 = .success) ∧
    ∀ n ∈ Ex.k0.names, ∀ a, ((storeArgs (runPasses Ex.w3x ([] ++ [Ex.p4])) Ex.k0.al).map argC).find? (·.node == n) = some a → a.result ≠ 1 :=
  C02_sound Ex.w3x [] Ex.p4 1 Ex.c0 Ex.k0 Ex.c4 Ex.inv3x Ex.alive4 Ex.hc0x Ex.hk0 (by decide +kernel)
    ⟨Ex.c0, Ex.k0, Ex.hc0x, Ex.hk0, rfl⟩ Ex.hc4 Ex.idle4 ⟨bstr "001 2\r\npowerman> ", by rw [Ex.buf4]; simp [okLine, List.append_assoc]⟩

/-- **C02, completeness** (same setting).  If `k0`'s error flag was clear, every completion the run reported for the client
    is a success and no result cell of a target is `unknown` after the answering pass, the client was sent — after the
    lines of that pass — `102 Command completed successfully` and the prompt (`c1` is its record when the client phase of
    the pass is over). -/
theorem C02_complete (w0 : W) (ps : List PassIn) (p : PassIn) (g : Nat) (c0 : Cli) (k0 : CmdC) (c' : Cli)
    (hinv : Inv w0) (ha : Alive w0 (ps ++ [p])) (hc0 : cliRec w0 g = some c0) (hk0 : c0.cmd = some k0)
    (hp : k0.com ∈ [Com.on, .off, .cycle, .reset, .flash, .unflash])
    (hbusy : ∃ c k, cliRec (runPasses w0 ps) g = some c ∧ c.cmd = some k ∧ k.al = k0.al)
    (hidle : cliRec (runPasses w0 (ps ++ [p])) g = some c') (hnone : c'.cmd = none)
    (herr : k0.error = false) (hall : ∀ x ∈ runFins w0 (ps ++ [p]) g, x.2 = .success)
    (hres : ∀ n ∈ k0.names, ∀ a, ((storeArgs (runPasses w0 (ps ++ [p])) k0.al).map argC).find? (·.node == n) = some a → a.result ≠ 1) :
    ∃ c1, cliRec (cliPostPoll (runPasses w0 ps) p.acc p.envs) g = some c1 ∧
      c'.toBuf = c1.toBuf ++ passText (runPasses w0 ps) p g ++ (bstr "102 Command completed successfully" ++ crlf) ++ prompt :=
  -- corollary of `C02_complete_runX` (passes that bring no regex answer)
  complete_plain w0 ps p g c0 k0 c' hinv ha hc0 hk0 ((isPower_iff k0.com).mpr hp) hbusy hidle hnone herr hall hres

example : ∃ c1, cliRec (cliPostPoll (runPasses Ex.w3x []) Ex.p4.acc Ex.p4.envs) 1 = some c1 ∧
    Ex.c4.toBuf = c1.toBuf ++ passText (runPasses Ex.w3x []) Ex.p4 1 ++ (bstr "102 Command completed successfully" ++ crlf) ++ prompt :=
  C02_complete Ex.w3x [] Ex.p4 1 Ex.c0 Ex.k0 Ex.c4 Ex.inv3x Ex.alive4 Ex.hc0x Ex.hk0 (by decide +kernel)
    ⟨Ex.c0, Ex.k0, Ex.hc0x, Ex.hk0, rfl⟩ Ex.hc4 Ex.idle4 (by decide +kernel)
    (by rw [Ex.fins4]; intro x hx; simp only [List.mem_singleton] at hx; subst hx; rfl)
    (by decide +kernel)

/-- **C02, errors are reported and named** (same setting).  If `k0`'s error flag was set, or some completion the run
    reported for the client is a failure (expect time-out, aborted queue entry, connect or login time-out), or some
    result cell of a target is `unknown` after the answering pass, the client was sent — after the lines of that pass —
    `210 Command completed with errors` and the prompt; and every failed completion of that pass has its line
    `308 <device>: <reason>` among those lines (for a failed completion of an earlier pass the line was written in that
    pass: `C02_failure_line`). -/
theorem C02_errors_named (w0 : W) (ps : List PassIn) (p : PassIn) (g : Nat) (c0 : Cli) (k0 : CmdC) (c' : Cli)
    (hinv : Inv w0) (ha : Alive w0 (ps ++ [p])) (hc0 : cliRec w0 g = some c0) (hk0 : c0.cmd = some k0)
    (hp : k0.com ∈ [Com.on, .off, .cycle, .reset, .flash, .unflash])
    (hbusy : ∃ c k, cliRec (runPasses w0 ps) g = some c ∧ c.cmd = some k ∧ k.al = k0.al)
    (hidle : cliRec (runPasses w0 (ps ++ [p])) g = some c') (hnone : c'.cmd = none)
    (hbad : k0.error = true ∨ (∃ x ∈ runFins w0 (ps ++ [p]) g, x.2 ≠ .success) ∨
      ¬ ∀ n ∈ k0.names, ∀ a, ((storeArgs (runPasses w0 (ps ++ [p])) k0.al).map argC).find? (·.node == n) = some a → a.result ≠ 1) :
    (∃ c1, cliRec (cliPostPoll (runPasses w0 ps) p.acc p.envs) g = some c1 ∧
      c'.toBuf = c1.toBuf ++ passText (runPasses w0 ps) p g ++ (bstr "210 Command completed with errors" ++ crlf) ++ prompt) ∧
    ∀ x ∈ passFins (runPasses w0 ps) p g, x.2 ≠ .success →
      ∃ u v reason, passText (runPasses w0 ps) p g = u ++ (bstr "308 " ++ (x.1 ++ reason) ++ crlf) ++ v :=
  -- corollary of `C02_errors_named_runX` (passes that bring no regex answer)
  errors_plain w0 ps p g c0 k0 c' hinv ha hc0 hk0 ((isPower_iff k0.com).mpr hp) hbusy hidle hnone hbad

/-- the example run, the other way: nothing comes from the device, the action times out, the client gets `308 A: …` and `210` -/
example : (∃ c1, cliRec (cliPostPoll (runPasses Ex.w3 []) Ex.pLate.acc Ex.pLate.envs) 1 = some c1 ∧
      Ex.cL.toBuf = c1.toBuf ++ passText (runPasses Ex.w3 []) Ex.pLate 1 ++ (bstr "210 Command completed with errors" ++ crlf) ++ prompt) ∧
    ∀ x ∈ passFins (runPasses Ex.w3 []) Ex.pLate 1, x.2 ≠ .success →
      ∃ u v reason, passText (runPasses Ex.w3 []) Ex.pLate 1 = u ++ (bstr "308 " ++ (x.1 ++ reason) ++ crlf) ++ v :=
  C02_errors_named Ex.w3 [] Ex.pLate 1 Ex.c0 Ex.k0 Ex.cL Ex.inv3 Ex.aliveL Ex.hc0 Ex.hk0 (by decide +kernel)
    ⟨Ex.c0, Ex.k0, Ex.hc0, Ex.hk0, rfl⟩ Ex.hcL Ex.idleL
    (Or.inr (Or.inl ⟨([65], .expfail), by rw [Ex.finsL]; simp, by simp⟩))
example : Ex.cL.toBuf = bstr "001 2\r\npowerman> 308 A: action timed out waiting for expected response\r\n210 Command completed with errors\r\npowerman> " := by
  decide +kernel

/-- **A failed completion is named at once.**  In any pass, every failed completion reported for client `g` has its line
    `308 <device>: <reason>` among the lines the pass writes to the client (`passText`, which `C02_pass` shows appended
    to its buffer). -/
theorem C02_failure_line (w : W) (p : PassIn) (g : Nat) (x : Bytes × Pm.Dev2.ActErr) (hx : x ∈ passFins w p g) (hf : x.2 ≠ .success) :
    ∃ u v reason, passText w p g = u ++ (bstr "308 " ++ (x.1 ++ reason) ++ crlf) ++ v :=
  passText_failure w p g x hx hf

example : ∃ u v reason, passText Ex.w3 Ex.pLate 1 = u ++ (bstr "308 " ++ ([65] ++ reason) ++ crlf) ++ v :=
  C02_failure_line Ex.w3 Ex.pLate 1 ([65], .expfail) (by decide +kernel) (by simp)

/-- **What a success completion means on the device.**  A completion in the log of a pass was reported by the turn of some
    device, under that device's name (first part; `accAt … i` is the state of the pass when device number `i` has its
    turn).  And (second part) a `success` reported by a device's turn for client `g` was reported by an iteration of
    `_process_action`'s loop (`iterStates`, from the device as `_handle_ready_device`, `_reconnect` and the ping left it) in
    which the head action — an action of client `g` — `Completes`: device connected, action within its time-out, the
    statement interpreter reported the statement the action stood at finished (so every `expect` before it has matched,
    `C08_expect_blocks`), no assertion, the action not failed, and no statement left in any block.  The time-out branch
    and the error branch (connect / login failure, i/o error, everything queued behind a failed action) report failures
    only (`C12_timeout_reports_all`, `C12_fail_all_reports`). -/
theorem C02_success_is_completion :
    (∀ (w : W) (p : PassIn) (g : Nat) (x : Bytes × Pm.Dev2.ActErr), (cliPostPoll w p.acc p.envs).exited = false → x ∈ passFins w p g →
      ∃ i nd, (cliPostPoll w p.acc p.envs).devs[i]? = some nd ∧ x.1 = nd.1 ∧
        Pm.Dev2.Out.finish g x.2 ∈ (devStep p (accAt p (acc0 (cliPostPoll w p.acc p.envs)) (cliPostPoll w p.acc p.envs).devs i).w
          (accAt p (acc0 (cliPostPoll w p.acc p.envs)) (cliPostPoll w p.acc p.envs).devs i).oracle nd).2.2.1) ∧
    (∀ (p : PassIn) (w : W) (o : Oracle) (nd : Bytes × Dev) (g : Nat),
      Pm.Dev2.Out.finish g .success ∈ (devStep p w o nd).2.2.1 →
      ∃ s ∈ Pm.Dev2.Login2.iterStates
          (Pm.Dev2.passFuel (Pm.Dev2.Login2.postPollPre { nd.2 with args := w.store } (devEnv p w nd)).1.dev)
          (Pm.Dev2.Login2.postPollPre { nd.2 with args := w.store } (devEnv p w nd)).1 o []
          (Pm.Dev2.Login2.postPollPre { nd.2 with args := w.store } (devEnv p w nd)).2,
        ∃ act, Pm.Dev2.E2E.Completes s.1 s.2 act ∧ act.clientId = g) := by
  refine ⟨?_, fun p w o nd g h => turn_success p w o nd g h⟩
  intro w p g x hex hx
  unfold passFins at hx
  rw [if_neg (by simpa using hex)] at hx
  obtain ⟨i, nd, h1, h2, _, h4⟩ := mem_foldFins p g _ _ x hx
  exact ⟨i, nd, h1, h2, h4⟩

/-- pass 4 of the example run: the success reported for client 1 comes from a completing iteration of device `A`'s turn -/
example : ∃ (i : Nat) (nd : Bytes × Dev) (s : Pm.Dev2.CS × Oracle) (act : Action),
    (cliPostPoll Ex.w3x Ex.p4.acc Ex.p4.envs).devs[i]? = some nd ∧ nd.1 = [65] ∧ Pm.Dev2.E2E.Completes s.1 s.2 act ∧ act.clientId = 1 := by
  obtain ⟨i, nd, h1, h2, h3⟩ := C02_success_is_completion.1 Ex.w3x Ex.p4 1 ([65], .success) (by decide +kernel) (by decide +kernel)
  obtain ⟨s, _, act, h4, h5⟩ := C02_success_is_completion.2 _ _ _ _ _ h3
  exact ⟨i, nd, s, act, h1, h2.symm, h4, h5⟩

/-- what `Completes` says, spelled out -/
theorem C02_Completes_spelled (c : Pm.Dev2.CS) (o : Oracle) (a : Action) :
    Pm.Dev2.E2E.Completes c o a ↔
      Pm.Dev2.Login2.speaker c = some a ∧
      Pm.Dev2.hasAbort (Pm.Dev2.innerLoop c.env.now (Pm.Dev2.loopBound a) { c.dev with wake := none } a o []).out = false ∧
      (Pm.Dev2.innerLoop c.env.now (Pm.Dev2.loopBound a) { c.dev with wake := none } a o []).finished = true ∧
      (Pm.Dev2.innerLoop c.env.now (Pm.Dev2.loopBound a) { c.dev with wake := none } a o []).act.errnum = .success ∧
      (Pm.Dev2.advance (Pm.Dev2.innerLoop c.env.now (Pm.Dev2.loopBound a) { c.dev with wake := none } a o []).act).exec = [] :=
  Iff.rfl

/-- **One iteration of `_process_action` reports a success only for a completing run of the head action** -/
theorem C02_success_only_on_completion (c : Pm.Dev2.CS) (o : Oracle) (out : List Pm.Dev2.Out) (tmo : Option Pm.Dev2.Time) (cid : Nat)
    (h : Pm.Dev2.Out.finish cid .success ∈ (Pm.Dev2.Login2.bodyStep c o out tmo).1.2.2.1) :
    Pm.Dev2.Out.finish cid .success ∈ out ∨ ∃ a, Pm.Dev2.E2E.Completes c o a ∧ a.clientId = cid :=
  Pm.Dev2.E2E.bodyStep_success c o out tmo cid h

/-- **Nothing is written behind the terminal reply.**  After a device's turn, a client none of whose actions is left in
    that device's queue has had a completion as the last callback of the turn addressed to it (if any): no telemetry
    line, no diagnostic follows the completion that triggers the reply. -/
theorem C02_last_word (d : Dev) (env : Pm.Dev2.Env) (o : Oracle) (cid : Nat) (hc : cid ≠ 0)
    (hq : qcount cid (Pm.Dev2.postPoll d env o).1.dev.acts = 0) :
    ∀ x, ((Pm.Dev2.postPoll d env o).2.2.1.filter fun y => Pm.Dev2.outCid y == some cid).getLast? = some x → Pm.Dev2.isFinish x = true :=
  Pm.Dev2.E2E.postPoll_lastFin d env o cid hc hq

example : qcount 1 (Pm.Dev2.postPoll Pm.Daemon.E2E.Ex.devA { now := 0, revents := 0, sockets := [], connects := [], soerrs := [], read := none, writeOk := true } ⟨[]⟩).1.dev.acts = 0 := by
  decide +kernel

/-- **A completing iteration is the C08 reference run to the end of the program.**  If the head action is well-formed
    (`Interp.Inv`: true of a freshly enqueued action on a script with non-empty blocks, kept by every pass, restored by
    `_rewind_action`: `C08_initial`, `C08_refines`, `C08_rewind`) and the iteration `Completes` it, then the loop-free
    reference program its context stack denotes (`abs R dp a.exec`: what is left of the unrolled script) runs — same device
    state, regex answers and clock — to status `done` with nothing left: every remaining `send` written out, every
    remaining `expect` matched, every `delay` elapsed.  (`Interp.Inv` is a hypothesis here: that it holds for every queued
    action along a run of the daemon is not proved in this file.) -/
theorem C02_completion_is_reference_done (R : Bool) (dp : List Plug) (c : Pm.Dev2.CS) (o : Oracle) (a : Action)
    (hc : Pm.Dev2.E2E.Completes c o a) (hinv : Pm.Dev2.Interp.Inv R dp c.dev a) (hne : a.exec ≠ []) :
    ∃ k, (Pm.Dev2.Interp.frun c.env.now k { c.dev with wake := none } (Pm.Dev2.Interp.info a) o (Pm.Dev2.Interp.abs R dp a.exec) []).status = .done ∧
         (Pm.Dev2.Interp.frun c.env.now k { c.dev with wake := none } (Pm.Dev2.Interp.info a) o (Pm.Dev2.Interp.abs R dp a.exec) []).f.rem = [] :=
  Pm.Dev2.E2E.completes_reference R dp c o a hc hinv hne

/-- a fresh action on the script `delay 0` at the head of the queue of the connected device `exCS` of `Props/C08`: the
    iteration completes it, the action is well-formed, and the reference — one `delay` operation — runs to its end -/
example : ∃ k, (Pm.Dev2.Interp.frun 5 k { (Pm.Dev2.Interp.exCS [.delay 0]).dev with wake := none }
      (Pm.Dev2.Interp.info (Pm.Dev2.stamp 5 (Pm.Dev2.Interp.exAction [.delay 0] none))) ⟨[]⟩
      (Pm.Dev2.Interp.abs false (Pm.Dev2.Interp.exCS [.delay 0]).dev.plugs (Pm.Dev2.stamp 5 (Pm.Dev2.Interp.exAction [.delay 0] none)).exec) []).status = .done :=
  (fun ⟨k, h, _⟩ => ⟨k, h⟩) <| C02_completion_is_reference_done false (Pm.Dev2.Interp.exCS [.delay 0]).dev.plugs (Pm.Dev2.Interp.exCS [.delay 0]) ⟨[]⟩
    (Pm.Dev2.stamp 5 (Pm.Dev2.Interp.exAction [.delay 0] none))
    ⟨rfl, by decide +kernel, by decide +kernel, by decide +kernel, by decide +kernel⟩
    (by have h := Pm.Dev2.Interp.exInv [.delay 0] (by decide) []; exact ⟨h.ranged, h.plugs, h.ok, h.err⟩)
    (by decide +kernel)

/-- **The time-out branch and the error branch never report a success**: whatever `_process_action` reports when the head's
    deadline has passed (connect time-out, login time-out, expect time-out; everything queued behind is reported too), and
    whatever it reports for a failed action and everything queued behind it (aborted), is a failure. -/
theorem C02_failures_are_failures (rest : List Action) (c : Pm.Dev2.CS) (a : Action) (o : Oracle) (out : List Pm.Dev2.Out)
    (tmo : Option Pm.Dev2.Time) (cid : Nat) :
    (Pm.Dev2.Out.finish cid .success ∈ (Pm.Dev2.onTimeout rest c a o out tmo).2.2.1 → Pm.Dev2.Out.finish cid .success ∈ out) ∧
    (a.errnum ≠ .success → Pm.Dev2.Out.finish cid .success ∈ (Pm.Dev2.failAll rest c a o out tmo).2.2.1 →
      Pm.Dev2.Out.finish cid .success ∈ out) :=
  ⟨Pm.Dev2.E2E.onTimeout_noSuccess rest c a o out tmo cid, fun he => Pm.Dev2.E2E.failAll_noSuccess rest c a o out tmo he cid⟩

/-- `dev_initial_connect` (start-up) keeps the invariant: it only adds login actions, which belong to no client -/
theorem C02_Inv_initial_connect (w : W) (now : Nat) (con soe : List Nat) (h : Inv w) : Inv (initialConnect w now con soe).1 :=
  initialConnect_inv w now con soe h

example : Inv (initialConnect Ex.w0 0 [0] [0]).1 := C02_Inv_initial_connect Ex.w0 0 [0] [0] Ex.inv0

/-- **What can become of a command over a run** (no pass ending in an assertion): it is still in progress at the end (and
    then `C02_track` says with what `pending` and error flag); or there is a pass `p` of the run before which it is in
    progress and after which the client is gone — destroyed by an error on its descriptor; the completions of its actions
    are dropped — or idle: answered, which is the situation of `C02_sound`, `C02_complete`, `C02_errors_named`. -/
theorem C02_outcomes (g : Nat) (ps : List PassIn) (w : W) (c : Cli) (k : CmdC) (hinv : Inv w) (ha : Alive w ps)
    (hc : cliRec w g = some c) (hk : c.cmd = some k) :
    (∃ c' k', cliRec (runPasses w ps) g = some c' ∧ c'.cmd = some k' ∧ k'.al = k.al) ∨
    (∃ ps1 p ps2, ps = ps1 ++ p :: ps2 ∧
      (∃ c1 k1, cliRec (runPasses w ps1) g = some c1 ∧ c1.cmd = some k1 ∧ k1.al = k.al) ∧
      (cliRec (runPasses w (ps1 ++ [p])) g = none ∨ ∃ c2, cliRec (runPasses w (ps1 ++ [p])) g = some c2 ∧ c2.cmd = none)) :=
  run_outcome_plain g ps w c k hinv ha hc hk      -- corollary of `C02_outcomes_runX`

/-- **A command in progress over a run.**  If after the run the client still has the command with the same arglist id, it
    is the command it had, with `pending` lowered by the number of completions the run reported for the client — fewer
    than `pending` — and the error flag or-ed with "one of them failed".  (A command that is over never comes back:
    arglist ids are not reused.) -/
theorem C02_track (g : Nat) (ps : List PassIn) (w : W) (c : Cli) (k : CmdC) (hinv : Inv w) (ha : Alive w ps)
    (hc : cliRec w g = some c) (hk : c.cmd = some k) (c' : Cli) (k' : CmdC)
    (hc' : cliRec (runPasses w ps) g = some c') (hk' : c'.cmd = some k') (hal : k'.al = k.al) :
    (runFins w ps g).length < k.pending ∧
    k' = { k with error := k.error || (runFins w ps g).any failed, pending := k.pending - (runFins w ps g).length } :=
  run_track_plain g ps w c k hinv ha hc hk c' k' hc' hk' hal      -- corollary of `C02_track_runX`

example : ∃ c' k', cliRec (runPasses Ex.w0 [Ex.p1, Ex.p2, Ex.p3]) 1 = some c' ∧ c'.cmd = some k' ∧ k'.pending = 1 :=
  ⟨Ex.c0, Ex.k0, Ex.hc0, Ex.hk0, by decide +kernel⟩

/-- **`assert(c->cmd != NULL)` in `_act_finish` is unreachable.**  Under the invariant, in the turn of any device (`anyBad`:
    some `_act_finish` call of the turn's callbacks returned through an assertion) the only way `_act_finish` can end in an
    assertion is F19: the last completion of a command (`pending = 1`) arrives and the reply cannot be built because
    `hostlist_sort` asserts — which happens for query commands only (`C02_success_iff`: a power command always has a
    reply).  A completion never reaches a client that has no command. -/
theorem C02_act_finish_assert_unreachable (p : PassIn) (a : DevAcc) (nd : Bytes × Dev) (rest : List (Bytes × Dev))
    (hinv : Inv (Pm.Daemon.Isolation.worldAt a (nd :: rest)))
    (h : anyBad nd.1 (afterStep a.w (devStep p a.w a.oracle nd).1) (devStep p a.w a.oracle nd).2.2.1 = true) :
    ∃ wm g c k e, cliOf wm g = some c ∧ c.cmd = some k ∧ k.pending = 1 ∧ finalReply c.exprange (withStore wm k e) = none :=
  devPass_assert_unreachable p a nd rest hinv h

/-- in pass 4 of the example run no `_act_finish` call ends in an assertion -/
example : (match (cliPostPoll Ex.w3x Ex.p4.acc Ex.p4.envs).devs with
    | nd :: _ => anyBad nd.1 (afterStep (acc0 (cliPostPoll Ex.w3x Ex.p4.acc Ex.p4.envs)).w
        (devStep Ex.p4 (acc0 (cliPostPoll Ex.w3x Ex.p4.acc Ex.p4.envs)).w (acc0 (cliPostPoll Ex.w3x Ex.p4.acc Ex.p4.envs)).oracle nd).1)
        (devStep Ex.p4 (acc0 (cliPostPoll Ex.w3x Ex.p4.acc Ex.p4.envs)).w (acc0 (cliPostPoll Ex.w3x Ex.p4.acc Ex.p4.envs)).oracle nd).2.2.1
    | [] => true) = false := by decide +kernel

/-- **The accepting pass.**  Whatever command client `g` has when the client phase of a pass is over — in particular one
    accepted in this very pass, whose error flag is clear (second part: the client had no command, or was not there, when
    the pass began) — waits for exactly the actions of `g` then queued, and the device phase of the pass treats it as
    `C02_pass` says.  So the chain is: request accepted (`C02_request_installed`) ▸ device phase of that pass (this
    theorem) ▸ the following passes (`C02_track`) ▸ the answering pass (`C02_sound`, `C02_complete`, `C02_errors_named`). -/
theorem C02_accepting_pass (w : W) (p : PassIn) (g : Nat) (hinv : Inv w) :
    (∀ c1 k, passDead w p = false → cliRec (cliPostPoll w p.acc p.envs) g = some c1 → c1.cmd = some k →
      k.pending = totalQ g (cliPostPoll w p.acc p.envs).devs ∧
      (((passFins w p g).length < k.pending ∧
        cliRec (daemonPass w p).1 g =
          some { c1 with cmd := some { k with error := k.error || (passFins w p g).any failed,
                                              pending := k.pending - (passFins w p g).length },
                         toBuf := c1.toBuf ++ passText w p g }) ∨
       ((passFins w p g).length = k.pending ∧
        ∃ r, finalReply c1.exprange { k with error := k.error || (passFins w p g).any failed,
                                             args := (storeArgs (daemonPass w p).1 k.al).map argC } = some r ∧
          cliRec (daemonPass w p).1 g = some { c1 with cmd := none, toBuf := c1.toBuf ++ passText w p g ++ r ++ prompt }))) ∧
    ((∀ c k, cliRec w g = some c → c.cmd = some k → False) →
      ∀ c1 k, cliRec (cliPostPoll w p.acc p.envs) g = some c1 → c1.cmd = some k → k.error = false) :=
  ⟨fun c1 k hd hc hk => devPhase_view w p g c1 k hinv hd hc hk, fun hidle => cliPostPoll_fresh w p.acc p.envs g hinv hidle⟩

/-- in the example run the request is accepted in pass 2 (client 1 idle before it, busy with a clear flag after its client phase) -/
example : ∀ c1 k, cliRec (cliPostPoll (runPasses Ex.w0 [Ex.p1]) Ex.p2.acc Ex.p2.envs) 1 = some c1 → c1.cmd = some k → k.error = false :=
  (C02_accepting_pass (runPasses Ex.w0 [Ex.p1]) Ex.p2 1
    (runPasses_inv Ex.w0 [Ex.p1] Ex.inv0 ⟨by decide +kernel, trivial⟩)).2
    (by intro c k hc hk
        have h1 : ((cliRec (runPasses Ex.w0 [Ex.p1]) 1).bind (·.cmd)).isNone = true := by decide +kernel
        rw [hc] at h1; simp [hk] at h1)

end endToEnd

/-! ## end to end, regex answers arbitrary in every pass (`runX`)

The run theorems above quantify over `runPasses w ps`.  In such a run only the first pass can see an answer of the regex
engine: the answers for the coming pass live in `W.pendingX`, `daemonPass` consumes and clears them, and the driver refills
them *between* passes — so from the second pass on every `expect` sees "no match", a power script with an `expect` can never
succeed after pass 1, and `C02_sound` / `C02_complete` say nothing about the runs that matter.  Here the same theorems are
stated over `runX w qs` (`Pm/RunX.lean`, the definition shared with C03, C05, C06, C11, C15): a pass `q : PassX` is the kernel's
answers `q.p` **and** the regex answers `q.rx` recorded for that pass; `feed w rx` is what the driver does between passes (it
appends `rx` to `pendingX` and touches nothing else); `stepX w q = (daemonPass (feed w q.rx) q.p).1`.  The regex engine's
answers are arbitrary in every pass.  `AliveX`, `runFinsX` are `Alive`, `runFins` for such runs.  The invariant `Inv` does not
mention `pendingX`, so it is kept by `feed` (`C02_feed`).  Proofs: `Pm/RunXE2E.lean`; example run: `Pm/RunXEx.lean`. -/
section endToEndX
open Pm.Daemon.E2E
open Pm.Daemon.Isolation (runPasses)

/-- what the vocabulary is; the last three parts: a run whose passes bring no regex answer is a run of `runPasses`, with the
    same completions and the same `Alive` -/
theorem C02_runX_defs (w : W) (q : PassX) (qs : List PassX) (ps : List PassIn) (g : Nat) :
    runX w (q :: qs) = runX (stepX w q) qs ∧ runX w [] = w ∧ stepX w q = (daemonPass (feed w q.rx) q.p).1 ∧
    feed w q.rx = { w with pendingX := w.pendingX ++ q.rx } ∧
    (AliveX w (q :: qs) ↔ passDead (feed w q.rx) q.p = false ∧ AliveX (stepX w q) qs) ∧
    runFinsX w (q :: qs) g = passFins (feed w q.rx) q.p g ++ runFinsX (stepX w q) qs g ∧ runFinsX w [] g = [] ∧
    runX w (ps.map fun p => ⟨p, []⟩) = runPasses w ps ∧ runFinsX w (ps.map fun p => ⟨p, []⟩) g = runFins w ps g ∧
    (AliveX w (ps.map fun p => ⟨p, []⟩) ↔ Alive w ps) :=
  ⟨rfl, rfl, rfl, rfl, Iff.rfl, rfl, rfl, runX_runPasses w ps, runFinsX_plain w ps g, aliveX_plain w ps⟩

/-- **`feed` keeps the invariant**, the client records and the queues: handing the recorded regex answers to the daemon touches
    `pendingX` only -/
theorem C02_feed (w : W) (rx : List Pm.Dev2.RxCall) :
    (Inv w → Inv (feed w rx)) ∧ (∀ g, cliRec (feed w rx) g = cliRec w g) ∧ (feed w rx).devs = w.devs ∧ (feed w rx).store = w.store :=
  ⟨feed_inv rx, fun _ => rfl, rfl, rfl⟩

/-- **The invariant `pending` = queued, regex answers arbitrary in every pass.**  `Inv` holds after any run of passes none of
    which ends in an assertion — whatever the kernel answers, whatever the regex engine answers in each pass, whatever the
    other clients do.  (`C02_pending_is_queued` is the case of passes that bring no answer.) -/
theorem C02_pending_is_queued_runX (w : W) (qs : List PassX) (h : Inv w) (ha : AliveX w qs) : Inv (runX w qs) :=
  runX_inv w qs h ha

example : Inv (runX ExX.w2 (ExX.qs ++ [ExX.q4])) := C02_pending_is_queued_runX _ _ ExX.inv2 ExX.alive4

/-- **C02, soundness — regex answers arbitrary in every pass.**  The statement of `C02_sound` for a run `qs ++ [q]` in which
    every pass brings its own regex answers (`q.rx`, fed before the pass): client `g` has the power command `k0` in progress in
    a state `w0` satisfying the invariant; no pass ends in an assertion; before the last pass `q` the command is still in
    progress, after it the client is there and idle.  If its output buffer then ends with `102 Command completed successfully`
    and the prompt: `k0`'s error flag was clear; the devices reported exactly `k0.pending` completions for the client during
    the run — one for every action it had queued —; every one of them is a success; no result cell of a target is `unknown`
    in the arglist as it stands after the pass.  (`C02_sound` is the case `qs.map (⟨·, []⟩)`, in which only the first pass of
    the run can see a match.) -/
theorem C02_sound_runX (w0 : W) (qs : List PassX) (q : PassX) (g : Nat) (c0 : Cli) (k0 : CmdC) (c' : Cli)
    (hinv : Inv w0) (ha : AliveX w0 (qs ++ [q])) (hc0 : cliRec w0 g = some c0) (hk0 : c0.cmd = some k0)
    (hp : k0.com ∈ [Com.on, .off, .cycle, .reset, .flash, .unflash])
    (hbusy : ∃ c k, cliRec (runX w0 qs) g = some c ∧ c.cmd = some k ∧ k.al = k0.al)
    (hidle : cliRec (runX w0 (qs ++ [q])) g = some c') (hnone : c'.cmd = none)
    (h102 : bstr "102 Command completed successfully" ++ crlf ++ prompt <:+ c'.toBuf) :
    k0.error = false ∧ (runFinsX w0 (qs ++ [q]) g).length = k0.pending ∧ k0.pending = totalQ g w0.devs ∧
    (∀ x ∈ runFinsX w0 (qs ++ [q]) g, x.2 = .success) ∧
    ∀ n ∈ k0.names, ∀ a, ((storeArgs (runX w0 (qs ++ [q])) k0.al).map argC).find? (·.node == n) = some a → a.result ≠ 1 :=
  soundX w0 qs q g c0 k0 c' hinv ha hc0 hk0 ((isPower_iff k0.com).mpr hp) hbusy hidle hnone (by simpa [okLine, List.append_assoc] using h102)

/- non-vacuity, with an `expect` that matches in the SECOND pass of the run (`Pm/RunXEx.lean`; no run of `runPasses` has that).
   The run starts in `ExX.w2`: client 1's `on a1` has just been accepted (`pending = 1`).  First pass `⟨p3, []⟩`: the device takes
   the bytes, nothing completes (`ExX.fins3`), the command is still in progress (`ExX.busy`).  Second pass `⟨p4, xs4⟩`: the
   device's `OK\n` arrives and the regex answer fed before this pass makes the `expect` match: one success completion, the
   client is sent `102`.  Without the answer (`⟨p4, []⟩`, all `runPasses` can say from `w2`) nothing completes
   (`ExX.without_answer`). -/
example : ExX.qs = [⟨Ex.p3, []⟩] ∧ ExX.q4 = ⟨Ex.p4, Ex.xs4⟩ ∧ runFinsX ExX.w2 ExX.qs 1 = [] ∧
    passFins (feed (runX ExX.w2 ExX.qs) ExX.q4.rx) ExX.q4.p 1 = [([65], .success)] ∧
    ExX.c4.toBuf = bstr "001 2\r\npowerman> 102 Command completed successfully\r\npowerman> " ∧
    runFinsX ExX.w2 (ExX.qs ++ [⟨Ex.p4, []⟩]) 1 = [] :=
  ⟨rfl, rfl, ExX.fins3, ExX.fins4_last, by decide +kernel, ExX.without_answer.1⟩
example : ExX.k0.error = false ∧ (runFinsX ExX.w2 (ExX.qs ++ [ExX.q4]) 1).length = ExX.k0.pending ∧ ExX.k0.pending = totalQ 1 ExX.w2.devs ∧
    (∀ x ∈ runFinsX ExX.w2 (ExX.qs ++ [ExX.q4]) 1, x.2 = .success) ∧
    ∀ n ∈ ExX.k0.names, ∀ a, ((storeArgs (runX ExX.w2 (ExX.qs ++ [ExX.q4])) ExX.k0.al).map argC).find? (·.node == n) = some a → a.result ≠ 1 :=
  C02_sound_runX ExX.w2 ExX.qs ExX.q4 1 ExX.c0 ExX.k0 ExX.c4 ExX.inv2 ExX.alive4 ExX.hc0 ExX.hk0 (by decide +kernel)
    ExX.busy ExX.hc4 ExX.idle4 ⟨bstr "001 2\r\npowerman> ", by rw [ExX.buf4]; simp [okLine, List.append_assoc]⟩

/-- **C02, completeness — regex answers arbitrary in every pass** (same setting).  If `k0`'s error flag was clear, every
    completion the run reported for the client is a success and no result cell of a target is `unknown` after the answering
    pass, the client was sent — after the lines of that pass — `102 Command completed successfully` and the prompt (`c1` is its
    record when the client phase of the pass is over; `feed (runX w0 qs) q.rx` is the world the answering pass starts from:
    the world the run has reached, with the regex answers of that pass handed over). -/
theorem C02_complete_runX (w0 : W) (qs : List PassX) (q : PassX) (g : Nat) (c0 : Cli) (k0 : CmdC) (c' : Cli)
    (hinv : Inv w0) (ha : AliveX w0 (qs ++ [q])) (hc0 : cliRec w0 g = some c0) (hk0 : c0.cmd = some k0)
    (hp : k0.com ∈ [Com.on, .off, .cycle, .reset, .flash, .unflash])
    (hbusy : ∃ c k, cliRec (runX w0 qs) g = some c ∧ c.cmd = some k ∧ k.al = k0.al)
    (hidle : cliRec (runX w0 (qs ++ [q])) g = some c') (hnone : c'.cmd = none)
    (herr : k0.error = false) (hall : ∀ x ∈ runFinsX w0 (qs ++ [q]) g, x.2 = .success)
    (hres : ∀ n ∈ k0.names, ∀ a, ((storeArgs (runX w0 (qs ++ [q])) k0.al).map argC).find? (·.node == n) = some a → a.result ≠ 1) :
    ∃ c1, cliRec (cliPostPoll (feed (runX w0 qs) q.rx) q.p.acc q.p.envs) g = some c1 ∧
      c'.toBuf = c1.toBuf ++ passText (feed (runX w0 qs) q.rx) q.p g ++ (bstr "102 Command completed successfully" ++ crlf) ++ prompt :=
  completeX w0 qs q g c0 k0 c' hinv ha hc0 hk0 ((isPower_iff k0.com).mpr hp) hbusy hidle hnone herr hall hres

/- the same run: the `expect` matches in the second pass, the hypotheses of completeness hold, the client is sent `102` -/
example : ∃ c1, cliRec (cliPostPoll (feed (runX ExX.w2 ExX.qs) ExX.q4.rx) ExX.q4.p.acc ExX.q4.p.envs) 1 = some c1 ∧
    ExX.c4.toBuf = c1.toBuf ++ passText (feed (runX ExX.w2 ExX.qs) ExX.q4.rx) ExX.q4.p 1 ++
      (bstr "102 Command completed successfully" ++ crlf) ++ prompt :=
  C02_complete_runX ExX.w2 ExX.qs ExX.q4 1 ExX.c0 ExX.k0 ExX.c4 ExX.inv2 ExX.alive4 ExX.hc0 ExX.hk0 (by decide +kernel)
    ExX.busy ExX.hc4 ExX.idle4 (by decide +kernel)
    (by rw [ExX.fins4]; intro x hx; simp only [List.mem_singleton] at hx; subst hx; rfl)
    (by decide +kernel)

/-- **C02, errors are reported and named — regex answers arbitrary in every pass** (same setting).  If `k0`'s error flag was
    set, or some completion the run reported for the client is a failure, or some result cell of a target is `unknown` after
    the answering pass, the client was sent — after the lines of that pass — `210 Command completed with errors` and the prompt;
    and every failed completion of that pass has its line `308 <device>: <reason>` among those lines. -/
theorem C02_errors_named_runX (w0 : W) (qs : List PassX) (q : PassX) (g : Nat) (c0 : Cli) (k0 : CmdC) (c' : Cli)
    (hinv : Inv w0) (ha : AliveX w0 (qs ++ [q])) (hc0 : cliRec w0 g = some c0) (hk0 : c0.cmd = some k0)
    (hp : k0.com ∈ [Com.on, .off, .cycle, .reset, .flash, .unflash])
    (hbusy : ∃ c k, cliRec (runX w0 qs) g = some c ∧ c.cmd = some k ∧ k.al = k0.al)
    (hidle : cliRec (runX w0 (qs ++ [q])) g = some c') (hnone : c'.cmd = none)
    (hbad : k0.error = true ∨ (∃ x ∈ runFinsX w0 (qs ++ [q]) g, x.2 ≠ .success) ∨
      ¬ ∀ n ∈ k0.names, ∀ a, ((storeArgs (runX w0 (qs ++ [q])) k0.al).map argC).find? (·.node == n) = some a → a.result ≠ 1) :
    (∃ c1, cliRec (cliPostPoll (feed (runX w0 qs) q.rx) q.p.acc q.p.envs) g = some c1 ∧
      c'.toBuf = c1.toBuf ++ passText (feed (runX w0 qs) q.rx) q.p g ++ (bstr "210 Command completed with errors" ++ crlf) ++ prompt) ∧
    ∀ x ∈ passFins (feed (runX w0 qs) q.rx) q.p g, x.2 ≠ .success →
      ∃ u v reason, passText (feed (runX w0 qs) q.rx) q.p g = u ++ (bstr "308 " ++ (x.1 ++ reason) ++ crlf) ++ v :=
  errorsX w0 qs q g c0 k0 c' hinv ha hc0 hk0 ((isPower_iff k0.com).mpr hp) hbusy hidle hnone hbad

/- non-vacuity: from `ExX.w2`, the device takes the bytes (`⟨p3, []⟩`), then nothing comes until the action's time-out has passed
   (`⟨pLate, []⟩`): `308 A: action timed out …`, `210` -/
example : (runFinsX ExX.w2 (ExX.qs ++ [⟨Ex.pLate, []⟩]) 1 = [([65], .expfail)]) ∧
    (cliRec (runX ExX.w2 (ExX.qs ++ [⟨Ex.pLate, []⟩])) 1).map (fun c => (c.toBuf, c.cmd.isNone)) =
      some (bstr "001 2\r\npowerman> 308 A: action timed out waiting for expected response\r\n210 Command completed with errors\r\npowerman> ", true) ∧
    AliveX ExX.w2 (ExX.qs ++ [⟨Ex.pLate, []⟩]) :=
  ⟨by decide +kernel, by decide +kernel, by decide +kernel, by decide +kernel, trivial⟩

/-- **What can become of a command over a run — regex answers arbitrary in every pass**: still in progress at the end, or there
    is a pass `q` of the run before which it is in progress and after which the client is gone or idle (answered:
    `C02_sound_runX`, `C02_complete_runX`, `C02_errors_named_runX`). -/
theorem C02_outcomes_runX (g : Nat) (qs : List PassX) (w : W) (c : Cli) (k : CmdC) (hinv : Inv w) (ha : AliveX w qs)
    (hc : cliRec w g = some c) (hk : c.cmd = some k) :
    (∃ c' k', cliRec (runX w qs) g = some c' ∧ c'.cmd = some k' ∧ k'.al = k.al) ∨
    (∃ qs1 q qs2, qs = qs1 ++ q :: qs2 ∧
      (∃ c1 k1, cliRec (runX w qs1) g = some c1 ∧ c1.cmd = some k1 ∧ k1.al = k.al) ∧
      (cliRec (runX w (qs1 ++ [q])) g = none ∨ ∃ c2, cliRec (runX w (qs1 ++ [q])) g = some c2 ∧ c2.cmd = none)) :=
  run_outcomeX g qs w c k hinv ha hc hk

/-- **A command in progress over a run — regex answers arbitrary in every pass.**  If after the run the client still has the
    command with the same arglist id, it is the command it had, with `pending` lowered by the number of completions the run
    reported for the client — fewer than `pending` — and the error flag or-ed with "one of them failed". -/
theorem C02_track_runX (g : Nat) (qs : List PassX) (w : W) (c : Cli) (k : CmdC) (hinv : Inv w) (ha : AliveX w qs)
    (hc : cliRec w g = some c) (hk : c.cmd = some k) (c' : Cli) (k' : CmdC)
    (hc' : cliRec (runX w qs) g = some c') (hk' : c'.cmd = some k') (hal : k'.al = k.al) :
    (runFinsX w qs g).length < k.pending ∧
    k' = { k with error := k.error || (runFinsX w qs g).any failed, pending := k.pending - (runFinsX w qs g).length } :=
  run_trackX g qs w c k hinv ha hc hk c' k' hc' hk' hal

/- in the example run: after the first pass the command is the one accepted, untouched (no completion yet) -/
example : ExX.k3 = { ExX.k0 with error := ExX.k0.error || (runFinsX ExX.w2 ExX.qs 1).any failed,
                                  pending := ExX.k0.pending - (runFinsX ExX.w2 ExX.qs 1).length } :=
  (C02_track_runX 1 ExX.qs ExX.w2 ExX.c0 ExX.k0 ExX.inv2 ExX.alive4.append.1 ExX.hc0 ExX.hk0 ExX.c3 ExX.k3 ExX.hc3 ExX.hk3 ExX.al3).2

end endToEndX

end Pm.Props.C02
