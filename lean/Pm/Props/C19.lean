import Pm.RedfishProof
import Pm.RfCmdLink
import Pm.RfCmdEx
/-! # C19 — redfishpower (test mode) answers every target once, by the documented parent/child rules, and returns to its prompt

`Pm/Redfish.lean` holds two things: the machine as coded (`runCmd`: the three lists `activecmds` / `delayedcmds` /
`waitcmds`, `send_initial_parent_queries`, `process_waiters`, the phased-`on` check, the status polls, the shell loop)
and the documented rules as pure functions (`specStat`, `specPower`).  Both are compared with the real binary by the
differential driver.  The theorems here hold for **every** well-formed configuration (`WF`: plug names distinct, every
parent defined, no cycles — any size, any depth), every simulated plug state, every target list (duplicates and
unknown plugs included) and every set of failing hosts.

Ranking: termination (done) ▸ one line per target (done) ▸ the rules, one by one, on the specification (done) ▸
machine = rules, for `stat`, `on` and `off`, single commands and sequences (done, section 4 — no `_partial`).

`runCmd` receives the target list already expanded, as plug indices.  The command loop in front of it — splitting
the input line, the command table, `setplugs` / `setpath` / `settimeout` …, the plug table, target resolution of hostlist
expressions, every diagnostic — is the model `Pm/RfCmd.lean` (on strings, same bytes as the real helper); its theorems
are section 5 below (`C19_bad_input` …, `C19_targets_resolved`), where sections 1–4 are composed with it. -/
namespace Pm.Props.C19
open Pm.Redfish

/-- a three-level forest: chassis 0, blades 1 and 2 (both answered by host 1), nodes 3 (under 1) and 4 (under 2);
    a second tree 5 ▸ 6; host 3 (plug 4) fails every request -/
def exC : Cfg :=
  { plugs := [⟨0, 0, none⟩, ⟨1, 1, some 0⟩, ⟨2, 1, some 0⟩, ⟨3, 2, some 1⟩, ⟨4, 3, some 2⟩, ⟨5, 4, none⟩, ⟨6, 5, some 5⟩],
    failing := [3] }
/-- everything on except blade 2 -/
def exSt : St := [(0, true), (1, true), (2, false), (3, true), (4, true), (5, true), (6, true)]

example : WF exC = true := by decide
/-- a cycle is rejected, and so is an undefined parent, and so is a duplicate name -/
example : WF { plugs := [⟨0, 0, some 1⟩, ⟨1, 0, some 0⟩], failing := [] } = false := by decide
example : WF { plugs := [⟨0, 0, some 7⟩], failing := [] } = false := by decide
example : WF { plugs := [⟨0, 0, none⟩, ⟨0, 1, none⟩], failing := [] } = false := by decide

/-- in a well-formed configuration no plug is its own ancestor -/
theorem C19_WF_acyclic (c : Cfg) (hw : WF c = true) (p : Nat) : isDesc c p p = false := WF_acyclic hw p

/-! ## 1. the helper returns to its prompt -/

/-- `runCmd` reports "done": the shell loop was not cut short by its fuel -/
theorem C19_terminates (c : Cfg) (hw : WF c = true) (st : St) (cmd : Cmd) (targets : List Nat) :
    (runCmd c st cmd targets).2.2 = true := runCmd_done hw st cmd targets

/-- … and "done" means what `shell()` tests before printing `redfishpower> `: all three lists are empty.
    (`finalM` is the machine state `runCmd` ends in: `runCmd_final`.) -/
theorem C19_prompt (c : Cfg) (hw : WF c = true) (st : St) (cmd : Cmd) (targets : List Nat) :
    runCmd c st cmd targets = ((finalM c st cmd targets).out, (finalM c st cmd targets).st, true) ∧
    (finalM c st cmd targets).active = [] ∧ (finalM c st cmd targets).delayed = [] ∧
    (finalM c st cmd targets).waiting = [] := by
  refine ⟨?_, finalM_empty hw st cmd targets⟩
  have := runCmd_done hw st cmd targets
  rw [runCmd_final] at this ⊢
  simp only at this
  rw [this]

example : (runCmd exC exSt .off [3, 4, 99, 3, 0, 6]).2.2 = true := by decide +kernel

/-! ## 2. exactly one line per target -/

/-- the plugs named by the output lines are the targets, with multiplicity: every targeted plug gets exactly one line -/
theorem C19_one_line_per_target (c : Cfg) (hw : WF c = true) (st : St) (cmd : Cmd) (targets : List Nat) :
    ((runCmd c st cmd targets).1.map linePlug).Perm targets := runCmd_plugs hw st cmd targets

/-- … and that line is `unknown plug specified` exactly for the targets that are not configured; the helper goes on
    (it still terminates and answers the other targets) -/
theorem C19_unknown_reported (c : Cfg) (hw : WF c = true) (st : St) (cmd : Cmd) (targets : List Nat) :
    ((runCmd c st cmd targets).1.map fun l => (linePlug l, isUnk l)).Perm
      (targets.map fun t => (t, !known c t)) := runCmd_unknowns hw st cmd targets

example : (runCmd exC exSt .stat [3, 4, 99, 3]).1 =
    [.unknown 99, .status 4 .off, .status 3 .on, .status 3 .on] := by decide +kernel

/-! ## 3. the documented rules (statements about `specStat` / `specPower`)

`a` is the topmost ancestor of `t` that is not on: `statOf a ≠ on`, everything above `a` is on. -/

/-- `specStat` answers target by target -/
theorem C19_stat_pointwise (c : Cfg) (st : St) (targets : List Nat) :
    specStat c st targets = targets.map (statLine c st) := rfl

/-- status: a descendant of an ancestor that is not on reports that ancestor's off / error state -/
theorem C19_rule_stat (c : Cfg) (hw : WF c = true) (st : St) (t a : Nat) (hk : known c t = true)
    (ha : a ∈ ancUp c t) (hoff : statOf c st a ≠ .on) (habove : ∀ b ∈ ancUp c a, statOf c st b = .on) :
    statLine c st t = .status t (statOf c st a) := specStat_blocked hw st hk ha hoff habove

/-- status: with all ancestors on, a plug reports its own state -/
theorem C19_rule_stat_clear (c : Cfg) (st : St) (t : Nat) (hk : known c t = true)
    (hon : ∀ b ∈ ancUp c t, statOf c st b = .on) : statLine c st t = .status t (statOf c st t) :=
  specStat_clear st hk hon

example : specStat exC exSt [4, 3, 2] = [.status 4 .off, .status 3 .on, .status 2 .off] := by decide +kernel

/-- `on` below an ancestor that is not on is refused, naming the dependency; nothing changes -/
theorem C19_rule_on_refused (c : Cfg) (hw : WF c = true) (st : St) (t a : Nat) (hk : known c t = true)
    (ha : a ∈ ancUp c t) (hoff : statOf c st a ≠ .on) (habove : ∀ b ∈ ancUp c a, statOf c st b = .on) :
    specPower c st .on [t] = ([.dep t .on (statOf c st a) a], st) := specPower_on_blocked hw st hk ha hoff habove

example : specPower exC exSt .on [4] = ([.dep 4 .on .off 2], exSt) := by decide +kernel

/-- `off` below an ancestor that is off is reported `ok`; nothing changes -/
theorem C19_rule_off_below_off (c : Cfg) (hw : WF c = true) (st : St) (t a : Nat) (hk : known c t = true)
    (ha : a ∈ ancUp c t) (hoff : statOf c st a = .off) (habove : ∀ b ∈ ancUp c a, statOf c st b = .on) :
    specPower c st .off [t] = ([.ok t], st) := specPower_off_below_off hw st hk ha hoff habove

/-- `off` below an ancestor in error is refused, naming the dependency -/
theorem C19_rule_off_below_error (c : Cfg) (hw : WF c = true) (st : St) (t a : Nat) (hk : known c t = true)
    (ha : a ∈ ancUp c t) (herr : statOf c st a = .error) (habove : ∀ b ∈ ancUp c a, statOf c st b = .on) :
    specPower c st .off [t] = ([.dep t .off .error a], st) := specPower_off_blocked hw st hk ha herr habove

example : specPower exC exSt .off [4] = ([.ok 4], exSt) := by decide +kernel

/-- requesting `on` for an ancestor and one of its descendants together refuses every known target
    (unknown ones are still reported as unknown); nothing changes -/
theorem C19_rule_phased (c : Cfg) (st : St) (targets : List Nat) (a b : Nat) (ha : a ∈ targets) (hb : b ∈ targets)
    (hka : known c a = true) (hkb : known c b = true) (hd : isDesc c a b = true) :
    specPower c st .on targets = (unknownLines c targets ++ (knownT c targets).map Line.phased, st) :=
  specPower_phased c st targets ha hb hka hkb hd

example : specPower exC exSt .on [5, 3, 99, 1] = ([.unknown 99, .phased 5, .phased 3, .phased 1], exSt) := by
  decide +kernel

/-- powering a parent off (all its ancestors on, its host answering) is `ok` and leaves the parent and every
    descendant off; every other plug keeps its state -/
theorem C19_rule_off_parent (c : Cfg) (hw : WF c = true) (st : St) (p : Nat) (hk : known c p = true)
    (hon : ∀ b ∈ ancUp c p, statOf c st b = .on) (hf : hostFails c p = false) :
    (specPower c st .off [p]).1 = [.ok p] ∧ isOn (specPower c st .off [p]).2 p = false ∧
    (∀ x, isDesc c x p = true → isOn (specPower c st .off [p]).2 x = false) ∧
    (∀ x, x ≠ p → isDesc c x p = false → isOn (specPower c st .off [p]).2 x = isOn st x) :=
  specPower_off_parent hw st hk hon hf

example : ((specPower exC exSt .off [1]).1, [0, 1, 2, 3, 4, 5, 6].map (isOn (specPower exC exSt .off [1]).2)) =
    ([.ok 1], [true, false, false, false, true, true, true]) := by decide +kernel

/-! ## 3b. the rules for arbitrary target lists

When the command is not refused, `specPower` is a fold over the known targets sorted by depth, each step looking at what
was decided for the targets above.  In closed form (`powLine`, `finalOn`): the line of a known target `t` depends on its
*blocker* — the topmost ancestor `a` whose effective status `effStat` is not on; `effStat a` is the initial `statOf a`,
except that under `off` a co-target whose host answers counts as off (it is, or is being, switched off). -/

/-- not refused: one `unknown` line per unknown target, `powLine` for each known one; the plug states are `finalOn` -/
theorem C19_rules_closed_form (c : Cfg) (hw : WF c = true) (st : St) (cmd : Cmd) (hc : cmd ≠ .stat) (targets : List Nat)
    (hph : specPhased c cmd targets = false) :
    (specPower c st cmd targets).1.Perm
      (unknownLines c targets ++ (knownT c targets).map (powLine c st cmd (knownT c targets))) ∧
    ∀ x, isOn (specPower c st cmd targets).2 x = finalOn c st cmd (knownT c targets) (knownT c targets) x :=
  specPower_lines hw st hc targets hph

/-- `on`, any target list: each known target is judged exactly as if it were the only target (rules 2 above) -/
theorem C19_rule_on_each (c : Cfg) (st : St) (T : List Nat) (t : Nat) :
    powLine c st .on T t = (powerLine1 c st .on t).1 := powLine_on c st T t

/-- `off`, any target list: a target below a co-target that answers (everything above that one on) is `ok` -/
theorem C19_rule_off_parent_and_child (c : Cfg) (hw : WF c = true) (st : St) (T : List Nat) (t a : Nat)
    (ha : a ∈ ancUp c t) (haT : a ∈ T) (hf : hostFails c a = false)
    (habove : ∀ b ∈ ancUp c a, effStat c st .off T b = .on) :
    powLine c st .off T t = .ok t := powLine_off_below_target hw st T ha haT hf habove

/-- `off`, any target list: a target that is switched (`succeeds`: no blocker, host answers) ends off, with every
    descendant -/
theorem C19_rule_off_leaves_descendants_off (c : Cfg) (st : St) (T : List Nat) (t x : Nat) (ht : t ∈ T)
    (hs : succeeds c st .off T t = true) (hx : x = t ∨ isDesc c x t = true) :
    finalOn c st .off T T x = false := finalOn_off_below st T ht hs hx

/-- `off` of blade 1, node 3 below it, and node 6 of the other tree (in closed form; `mergeSort` inside `specPower`
    does not reduce in the kernel for more than one target): all three `ok`; 1, 3 and 6 end off, 2 stays off -/
example : (knownT exC [3, 1, 6]).map (powLine exC exSt .off (knownT exC [3, 1, 6])) = [.ok 3, .ok 1, .ok 6] ∧
    [0, 1, 2, 3, 4, 5, 6].map (finalOn exC exSt .off (knownT exC [3, 1, 6]) (knownT exC [3, 1, 6]))
      = [true, false, false, false, true, true, false] := by
  decide +kernel

/-! ## 4. the machine follows the rules -/

/-- the machine's and the rules' tests for "parent and child `on` together" agree -/
theorem C19_phased_check_agrees (c : Cfg) (hw : WF c = true) (st : St) (cmd : Cmd) (targets : List Nat) :
    phasedT c st cmd targets = specPhased c cmd targets := phased_iff hw st cmd targets

/-- `stat`: the lines printed are exactly those of `specStat` (as a multiset), the plug states are untouched -/
theorem C19_refines_stat (c : Cfg) (hw : WF c = true) (st : St) (targets : List Nat) :
    (runCmd c st .stat targets).1.Perm (specStat c st targets) ∧ (runCmd c st .stat targets).2.1 = st :=
  runCmd_stat hw st targets

/-- `on` / `off`: the lines printed are exactly those of `specPower` (as a multiset), and every plug ends in the state
    `specPower` says (the two association lists may list the plugs in different orders) -/
theorem C19_refines_power (c : Cfg) (hw : WF c = true) (st : St) (cmd : Cmd) (hc : cmd ≠ .stat) (targets : List Nat) :
    (runCmd c st cmd targets).1.Perm (specPower c st cmd targets).1 ∧
    ∀ x, isOn (runCmd c st cmd targets).2.1 x = isOn (specPower c st cmd targets).2 x :=
  runCmd_power hw st hc targets

/-- all three commands in one statement (`specRun` = what the driver `RfMain` computes on the rules' side) -/
theorem C19_refines (c : Cfg) (hw : WF c = true) (st : St) (cmd : Cmd) (targets : List Nat) :
    (runCmd c st cmd targets).2.2 = true ∧
    (runCmd c st cmd targets).1.Perm (specRun c st cmd targets).1 ∧
    SameSt (runCmd c st cmd targets).2.1 (specRun c st cmd targets).2 :=
  ⟨runCmd_done hw st cmd targets, runCmd_refines hw st cmd targets⟩

/-- any sequence of commands, each started from the plug states the previous one left: after every command the helper is
    back at its prompt and has printed the rules' lines; machine and rules end with the same plug states.  The two
    sides may start from different association lists as long as they describe the same states. -/
theorem C19_refines_sequence (c : Cfg) (hw : WF c = true) (cmds : List (Cmd × List Nat)) (sm ss : St)
    (h : SameSt sm ss) :
    SeqAgree (machSeq c sm cmds).1 (specSeq c ss cmds).1 ∧ SameSt (machSeq c sm cmds).2 (specSeq c ss cmds).2 :=
  seq_refines hw cmds sm ss h

/-- the rules read the plug states only through `isOn` -/
theorem C19_rules_extensional (c : Cfg) (hw : WF c = true) (a b : St) (h : SameSt a b) (cmd : Cmd) (targets : List Nat) :
    (specRun c a cmd targets).1 = (specRun c b cmd targets).1 ∧
    SameSt (specRun c a cmd targets).2 (specRun c b cmd targets).2 := specRun_congr hw h cmd targets

/-- non-vacuity: a sequence on the example forest — `off` of a blade and a node below it plus an unknown plug, then
    `stat` of everything, then a refused `on`, then an `on` below the failing/off parts -/
def exCmds : List (Cmd × List Nat) :=
  [(.off, [3, 1, 99]), (.stat, [0, 1, 2, 3, 4, 5, 6]), (.on, [1, 3]), (.on, [3, 4, 6, 6])]

example : (machSeq exC exSt exCmds).1.map (·.2) = [true, true, true, true] := by decide +kernel
/-- the machine's lines, command by command (by the theorem: the rules' lines, up to order) -/
example : (machSeq exC exSt exCmds).1.map (·.1) =
    [[.unknown 99, .ok 1, .ok 3],
     [.status 0 .on, .status 5 .on, .status 1 .off, .status 3 .off, .status 2 .off, .status 4 .off, .status 6 .on],
     [.phased 1, .phased 3],
     [.dep 3 .on .off 1, .dep 4 .on .off 2, .ok 6, .ok 6]] := by decide +kernel

/-! ## 5. the command layer: any input line, configuration commands, target resolution

`Pm/RfCmd.lean` mirrors `shell()` / `process_cmd()` and the configuration commands on strings: `step s buf` is what one
piece of input (one `fgets`) does to the state `s`: new state, lines printed, and how it ends (`Ctl`): `cont` = back at
the prompt, `exit n`, `abort` (a failed `assert`), `hang` (no prompt ever again), `outside` (behaviour of the real helper
known — see the model — but not described: a number of 20 digits or more in a range; a plug without status path polled;
some commands on tables with cycles).  Compared byte for byte with the real helper on generated sessions
(`lib/redfish.py`, second scenario).

The sentence of the property — "unknown plugs, bad host indices and malformed ranges are reported without terminating
the helper" — is TRUE of those three kinds of input (`C19_diag_…`, `C19_targets_resolved`, `C19_malformed_lines`) and
FALSE of "any input": `C19_bad_input` says exactly which lines can end or wedge the helper, the `_counterexample`s give
the input lines (all reproduced on the real helper). -/
section CommandLayer
open Pm.RfCmd

/-- **Every piece of input, any bytes, in any state whose stored time-out fits an `int`** (`TimeoutOK`: every reachable
    state, `C19_timeout_invariant`; `w` = the first word): the helper is back at its prompt, or
    * it ended with status 0 and the first word is `quit`; or
    * it ended with status 1 (`err_exit`) and the line is a `setplugs` (a plug name that does not parse as a hostlist
      expression again) or a `setpath` (a plug the list knows and the map does not); or
    * (model limit) a `setplugs`/`setpath`/`stat`/`on`/`off` with a 20-digit number in a range; or
    * it is a `stat`/`on`/`off`, the helper is stuck (abort, hang, or outside the model), and the state is not `Safe`:
      the plug table has an undefined parent or a cycle, or some plug has no status path.
    No other line ends the helper: in particular not an unknown command, a wrong number of arguments, an empty or
    over-long line, a malformed or oversized range, a bad host index, an unknown plug, a `settimeout` of any value
    (`err_exit "cmd_timeout overflow"` is unreachable since repair 7f04ec7: `C19_bad_input_timeout_f39_fixed`). -/
theorem C19_bad_input (s : State) (buf : List Char) (ht : TimeoutOK s) : StepClass s (firstWord buf) (step s buf).ctl :=
  step_class s buf ht

/-- the stored time-out fits an `int` at start (60) and after every piece of input, any bytes: `settimeout` stores a
    value only when it is a positive decimal `int` -/
theorem C19_timeout_invariant (hostArgs failArgs : List Name) (now : Nat) (s0 : State)
    (h0 : init hostArgs failArgs now = some s0) (hn : (now : Int) ≤ LONG_MAX - INT_MAX) (bufs : List (List Char)) :
    TimeoutOK (session s0 bufs).1 ∧ ∀ s buf, TimeoutOK s → TimeoutOK (step s buf).st :=
  ⟨reachable_TimeoutOK hostArgs failArgs now s0 h0 hn bufs, step_TimeoutOK⟩

example : TimeoutOK exState := exState_TimeoutOK

/-- `quit` (as first word, whatever follows) ends the helper with status 0 and prints nothing -/
theorem C19_bad_input_quit (s : State) (buf : List Char) (h : firstWord buf = some (lit "quit")) :
    (step s buf).ctl = .exit 0 ∧ (step s buf).out = [] := step_quit s buf h

/-- Full statement wanted: "`step` returns `cont` unless the line is `quit`, for every line in every reachable state" —
    false (counterexamples below).  Proved: from a `Safe` state (table handed to the machine well-formed: parents defined,
    no cycle; every plug has a status path) with plug list and plug map in step (`Link`:
    every state reached through legal plug names, `C19_reachable`), a line — ANY bytes, `setplugs` and `setpath`
    included — that defines only legal plug names and has no 20-digit number in a range comes back to the prompt, or is
    `quit`.  Extra hypotheses and the inputs they exclude: `Safe s` excludes states reached through `setplugs` with an
    undefined or cyclic parent and `setstatpath` without argument (each a counterexample below); `TimeoutOK` excludes
    nothing reachable (`C19_timeout_invariant`); `LegalSetplugs` excludes plug names with a bracket after the range (`P[1]x[`, `P[1]x[3]`: counterexamples
    below); `≠ bignum` is the limit of the hostlist mirror (`strtoul` saturates at 2^64 - 1; the real helper reports such
    plugs unknown and goes on). -/
theorem C19_bad_input_partial (s : State) (buf : List Char) (hs : Safe s) (ht : TimeoutOK s) (hl : Link s)
    (hleg : LegalSetplugs (argvCreate (cstr buf))) (hb : (step s buf).ctl ≠ bignum) :
    (step s buf).ctl = .cont ∨ ((step s buf).ctl = .exit 0 ∧ firstWord buf = some (lit "quit")) :=
  step_cont s buf hs ht hl hleg hb

/-- the same for lines that are neither `setplugs` nor `setpath`, without any assumption on plug names or on list and map -/
theorem C19_bad_input_other_lines_partial (s : State) (buf : List Char) (hs : Safe s) (ht : TimeoutOK s)
    (h1 : firstWord buf ≠ some (lit "setplugs")) (h2 : firstWord buf ≠ some (lit "setpath"))
    (hb : (step s buf).ctl ≠ bignum) :
    (step s buf).ctl = .cont ∨ ((step s buf).ctl = .exit 0 ∧ firstWord buf = some (lit "quit")) :=
  step_safe s buf hs ht h1 h2 hb

example : Link exState := exState_Link
example : LegalSetplugs (argvCreate (cstr (lit "setplugs Slot[1-3],x[7-9]b 3,0,1,1,1,9 Node5\n"))) :=
  legalSetplugsB_sound _ (by decide +kernel)
example : Safe exState := exState_safe
example : (step exState (lit "stat Node[0-9],zz P[3-1\n")).ctl = .cont := by decide +kernel
example : (step exState (lit "\x00quit\n")).ctl = .cont ∧ (step exState (lit " \t quit now\n")).ctl = .exit 0 := by decide +kernel

/-- a `Safe` state stays `Safe` under every line that is not `setplugs`, `setpath` or `setstatpath`: in particular under
    every `stat` / `on` / `off`, `settimeout`, unknown command, malformed target expression, empty or over-long line -/
theorem C19_safe_kept (s : State) (buf : List Char) (hs : Safe s)
    (h : firstWord buf ≠ some (lit "setplugs") ∧ firstWord buf ≠ some (lit "setpath") ∧
      firstWord buf ≠ some (lit "setstatpath")) : Safe (step s buf).st :=
  step_Safe s buf hs h

/-- over-long lines: `fgets(buf, 256, stdin)` cuts the input into pieces of at most 255 bytes, each handled as a line of
    its own (one prompt each); put together again the pieces are the input -/
theorem C19_long_lines (fuel : Nat) (l : List Char) (h : l.length < fuel) :
    (fgetsSplit fuel l).flatten = l ∧ ∀ p ∈ fgetsSplit fuel l, p.length ≤ 255 := fgetsSplit_spec fuel l h

example : (fgetsSplit 1000 (List.replicate 300 'x' ++ lit "\nstat\n")).map List.length = [255, 46, 5] := by decide +kernel

/-- `setplugs P[1]x[ 0` (plug name `P1x[`): the helper exits with status 1 — `plugs_add` parses the plug NAME again as a
    hostlist expression (`hostlist_push`), which fails -/
theorem C19_bad_input_push_counterexample : runLines "h[0-3]" ["setplugs P[1]x[ 0"] = some ([[]], .exit 1) :=
  push_fail_counterexample

/-- F39 (repaired in 7f04ec7; before, these very lines ended the helper with `err_exit "cmd_timeout overflow"`):
    `settimeout 99999999999999999999` and `settimeout 9223372036854775807` are reported invalid and the old value stays;
    the next `stat` of a known plug is answered.  The largest value accepted is `INT_MAX` -/
theorem C19_bad_input_timeout_f39_fixed :
    runLines "h[0-3]" ["setstatpath s", "settimeout 99999999999999999999", "stat zz", "stat h0"] =
      some ([[], [lit "invalid timeout specified"], [lit "unknown plug specified: zz"], [lit "h0: off"]], .cont) ∧
    runLines "h[0-3]" ["setstatpath s", "settimeout 9223372036854775807", "stat h0", "settimeout 2147483648",
        "settimeout 2147483647", "stat h1"] =
      some ([[], [lit "invalid timeout specified"], [lit "h0: off"], [lit "invalid timeout specified"], [],
             [lit "h1: off"]], .cont) := timeout_f39_fixed

/-- `settimeout`: which arguments are refused (message, old value kept) and which are stored -/
theorem C19_diag_settimeout (s : State) (a : Name) (rest : List Name) :
    settimeout s (a :: rest) =
      if (strtol a).2.2 = true ∨ (strtol a).2.1 ≠ a.length ∨ (strtol a).1 ≤ 0 ∨ (strtol a).1 > INT_MAX
      then ok s [lit "invalid timeout specified"] else ok { s with cmdTimeout := (strtol a).1 } :=
  settimeout_spec s a rest

/-- an undefined parent is accepted; `stat` of the child aborts (`assert(root_plugname)`); defining the parent later
    repairs the table -/
theorem C19_bad_input_undefined_parent_counterexample :
    runLines "h[0-3]" ["setstatpath s", "setplugs B 0 A", "stat B"] =
      some ([[], [], []], .abort "send_initial_parent_queries: Assertion `root_plugname' failed") ∧
    runLines "h[0-3]" ["setstatpath s", "setplugs B 0 A", "setplugs A 1", "stat B,A"] =
      some ([[], [], [], [lit "A: off", lit "B: off"]], .cont) :=
  ⟨undefined_parent_counterexample, parent_after_child⟩

/-- a cycle (two plugs, or a plug that is its own parent) is accepted; `stat` of a plug on it never returns -/
theorem C19_bad_input_cycle_counterexample :
    runLines "h[0-3]" ["setstatpath s", "setplugs B 0 A", "setplugs A 0 B", "stat B"] =
      some ([[], [], [], []], .hang "plugs_find_root_parent walks a cycle") ∧
    runLines "h[0-3]" ["setstatpath s", "setplugs A 0 A", "stat A"] =
      some ([[], [], []], .hang "plugs_find_root_parent walks a cycle") := cycle_counterexample

/-- without a status path, `on` of a child never comes back (the parent query is dropped, the child waits for ever;
    the model stops at `outside`, the real helper was observed to hang) -/
theorem C19_bad_input_no_statpath_counterexample :
    runLines "h[0-3]" ["setonpath o", "setplugs A 0", "setplugs B 0 A", "on B"] =
      some ([[], [], [], []], .outside "a plug without status path is polled or queried") := no_statpath_counterexample

/-- `setplugs P[1]x[3] 0` files the plug as `P1x3` in the list and as `P1x[3]` in the map: unusable under both names, and
    `setpath P1x3 stat s` exits with status 1 -/
theorem C19_bad_input_unmapped_counterexample :
    runLines "h[0-3]" ["setstatpath s", "setplugs P[1]x[3] 0", "stat", "stat P[1]x[3]"] =
      some ([[], [], [lit "plug not mapped: P1x3"], [lit "unknown plug specified: P1x[3]"]], .cont) ∧
    runLines "h[0-3]" ["setplugs P[1]x[3] 0", "setpath P1x3 stat s"] = some ([[], []], .exit 1) := unmapped_counterexample

/-- observations: the host index passes through `int` (2^32 is host 0, 2^32 - 1 is "-1": invalid) -/
theorem C19_index_truncation_counterexample :
    runLines "h[0-3]" ["setstatpath s", "setplugs P 4294967296", "stat"] = some ([[], [], [lit "P: off"]], .cont) ∧
    runLines "h[0-3]" ["setplugs P 4294967295"] =
      some ([[lit "setplugs: invalid hostindex 4294967295 specified"]], .cont) := index_truncation_counterexample

/-- observation: a `setplugs` refused for its counts has already removed the initial per-host plugs -/
theorem C19_mismatch_wipes_counterexample :
    runLines "h[0-3]" ["setstatpath s", "stat h0", "setplugs a,b 0,1,2", "stat h0", "stat"] =
      some ([[], [lit "h0: off"], [lit "setplugs: plugs count not equal to host index count"],
             [lit "unknown plug specified: h0"], []], .cont) := mismatch_wipes_counterexample

/-! ### which line is answered with which diagnostic -/

/-- a first word that is not one of the thirteen commands: `type "help" for a list of commands`, nothing changes -/
theorem C19_diag_unknown_command (s : State) (c : Name) (args : List Name) (h : c ∉ commandWords) :
    processCmd s (c :: args) = ok s [lit "type \"help\" for a list of commands"] := processCmd_unknown s c args h

/-- a line without words (empty, blanks, or starting with a NUL byte): nothing is printed, nothing changes -/
theorem C19_diag_empty (s : State) : processCmd s [] = ok s [] := rfl

example : (step exState (lit "  \t\r\n")).out = [] ∧ (step exState (lit "\x00stat\n")).out = [] ∧
    (step exState (lit "STAT Node0\n")).out = [lit "type \"help\" for a list of commands"] := by decide +kernel

/-- `setplugs` with fewer than two arguments: the usage line -/
theorem C19_diag_setplugs_usage (s : State) (av : List Name) (h : av.length < 2) :
    setplugs s av = ok s [lit "Usage: setplugs <plugnames> <hostindices> [<parentplug>]]"] := setplugs_usage s av h

/-- plug names that `hostlist_create` refuses (reversed, open, oversized, non-numeric range): one line, nothing changes -/
theorem C19_diag_setplugs_plugnames (s : State) (a0 a1 : Name) (rest : List Name)
    (hb : (hlArgOK a0 && hlArgOK a1) = true) (h0 : hlCreate a0 = none) :
    setplugs s (a0 :: a1 :: rest) = ok s [lit "setplugs: illegal plugnames input"] :=
  setplugs_illegal_plugnames s a0 a1 rest hb h0

/-- host indices that `hostlist_create` refuses: one line, nothing changes -/
theorem C19_diag_setplugs_hostindices (s : State) (a0 a1 : Name) (rest : List Name) (lplugs : Hostlist)
    (hb : (hlArgOK a0 && hlArgOK a1) = true) (h0 : hlCreate a0 = some lplugs) (h1 : hlCreate a1 = none) :
    setplugs s (a0 :: a1 :: rest) = ok s [lit "setplugs: illegal hostindices input"] :=
  setplugs_illegal_hostindices s a0 a1 rest lplugs hb h0 h1

/-- counts that differ (and not "several plugs, one index"): one line; the only change: the initial plugs are gone -/
theorem C19_diag_setplugs_count (s : State) (a0 a1 : Name) (rest : List Name) (lplugs hostindices : Hostlist)
    (hb : (hlArgOK a0 && hlArgOK a1) = true) (h0 : hlCreate a0 = some lplugs) (h1 : hlCreate a1 = some hostindices)
    (hc : hlCount lplugs ≠ hlCount hostindices) (hs : ¬ (hlCount lplugs > 1 ∧ hlCount hostindices = 1)) :
    setplugs s (a0 :: a1 :: rest) =
      ok (removeInitialPlugs s) [lit "setplugs: plugs count not equal to host index count"] :=
  setplugs_mismatch s a0 a1 rest lplugs hostindices hb h0 h1 hc hs

/-- a host index string that is not a non-negative decimal `int` (overflow of `long`, anything after the digits, negative
    — also after the conversion to `int`): `invalid hostindex`, this plug and the ones after it are not defined -/
theorem C19_diag_host_index_invalid (s : State) (p his : Name) (par : Option Name) (h : ¬ ValidIndexStr his) :
    setupPlug s p his par = .bad (lit "setplugs: invalid hostindex " ++ his ++ lit " specified") :=
  setupPlug_invalid s p his par h

/-- a valid host index that names no host: `hostindex N out of range` -/
theorem C19_diag_host_index_range (s : State) (p his : Name) (par : Option Name) (h : ValidIndexStr his)
    (hn : nthC s.hosts (hostIndexOf his) = none) :
    setupPlug s p his par =
      .bad (lit "setplugs: hostindex " ++ (toString (toInt32 (strtol his).1)).toList ++ lit " out of range") :=
  setupPlug_range s p his par h hn

example : ¬ ValidIndexStr (lit "-1") ∧ ¬ ValidIndexStr (lit "1x") ∧ ¬ ValidIndexStr (lit "99999999999999999999") ∧
    ValidIndexStr (lit "+3") ∧ ValidIndexStr (lit "007") ∧ hostIndexOf (lit "007") = 7 := by decide +kernel

/-- a target expression that `hostlist_create` refuses: `illegal hosts input`, nothing else happens -/
theorem C19_diag_illegal_hosts (s : State) (cmd : Redfish.Cmd) (a : Name) (rest : List Name) (hb : hlArgOK a = true)
    (h : hlCreate a = none) : powerCmd s cmd (a :: rest) = ok s [lit "illegal hosts input"] :=
  powerCmd_illegal s cmd a rest hb h

example : hlCreate (lit "P[3-1]") = none ∧ hlCreate (lit "P[1-") = none ∧ hlCreate (lit "P[1-100000]") = none ∧
    hlCreate (lit "P1]") = none ∧ hlCreate (lit "P[a-b]") = none := by decide +kernel

/-- a session of malformed lines on the real helper's text: each answered by its one line, the helper goes on -/
theorem C19_malformed_lines : runLines "h[0-3]" ["setstatpath s", "stat P[3-1]", "on P[1-", "off P1]", "stat P[1-100000]", "stat P[a-b]",
      "setplugs P[3-1] 0", "setplugs P0 [0-", "setplugs P[0-1] [0-2]", "setplugs P[0-2] 0,9,1", "setplugs Q -1", "setplugs Q 1x",
      "bogus", "", "stat zz,h1,zz", "setplugs", "setpath h1 cycle x", "settimeout x"] =
    some ([[], [lit "illegal hosts input"], [lit "illegal hosts input"], [lit "illegal hosts input"], [lit "illegal hosts input"],
      [lit "illegal hosts input"], [lit "setplugs: illegal plugnames input"], [lit "setplugs: illegal hostindices input"],
      [lit "setplugs: plugs count not equal to host index count"], [lit "setplugs: hostindex 9 out of range"],
      [lit "setplugs: invalid hostindex -1 specified"], [lit "setplugs: invalid hostindex 1x specified"],
      [lit "type \"help\" for a list of commands"], [], [lit "unknown plug specified: zz", lit "unknown plug specified: h1", lit "unknown plug specified: zz"],
      [lit "Usage: setplugs <plugnames> <hostindices> [<parentplug>]]"], [lit "setpath: invalid command specified"],
      [lit "invalid timeout specified"]], .cont) := malformed_lines

/-! ### `setplugs` accepted: the table is extended as documented and stays well-formed -/

/-- **`setplugs` accepted** (equal counts, no diagnostic, back at the prompt): for every position `j`, the `j`-th plug
    name and the `j`-th index string exist, the index string is valid and names host `host`, and — unless the same name
    occurs again further right in the expression — the table maps the name to (that host, that index, the parent
    given); names the expression does not mention keep what they had once the initial per-host plugs were removed -/
theorem C19_setplugs_pairs (s : State) (a0 a1 : Name) (rest : List Name) (lplugs hostindices : Hostlist) (h : TInv s)
    (hb : (hlArgOK a0 && hlArgOK a1) = true) (h0 : hlCreate a0 = some lplugs) (h1 : hlCreate a1 = some hostindices)
    (hc : hlCount lplugs = hlCount hostindices)
    (hctl : (setplugs s (a0 :: a1 :: rest)).ctl = .cont) (hout : (setplugs s (a0 :: a1 :: rest)).out = []) :
    (∀ j, j < hlCount lplugs → ∃ p his host, nthC lplugs j = some p ∧ nthC hostindices j = some his ∧
        ValidIndexStr his ∧ nthC s.hosts (hostIndexOf his) = some host ∧
        ((∀ j', j < j' → j' < hlCount lplugs → nthC lplugs j' ≠ some p) →
          (setplugs s (a0 :: a1 :: rest)).st.plugMap.lookup p = some (pairData p his host rest.head?))) ∧
    (∀ n, (∀ j, j < hlCount lplugs → nthC lplugs j ≠ some n) →
        (setplugs s (a0 :: a1 :: rest)).st.plugMap.lookup n = (removeInitialPlugs s).plugMap.lookup n) :=
  setplugs_pairs s a0 a1 rest lplugs hostindices h hb h0 h1 hc hctl hout

example : (setplugs exState [lit "Slot[1-3]", lit "3,0,1", lit "Node5"]).st.plugMap.lookup (lit "Slot2") =
    some (pairData (lit "Slot2") (lit "0") (lit "h0") (some (lit "Node5"))) ∧
    (setplugs exState [lit "Slot[1-3]", lit "3,0,1", lit "Node5"]).out = [] := by decide +kernel

/-- several plugs and ONE index: the loop gives every plug that index -/
theorem C19_setplugs_one_index (s : State) (a0 a1 : Name) (rest : List Name) (lplugs hostindices : Hostlist) (his : Name)
    (hb : (hlArgOK a0 && hlArgOK a1) = true) (h0 : hlCreate a0 = some lplugs) (h1 : hlCreate a1 = some hostindices)
    (hc : hlCount lplugs > 1) (h1' : hlCount hostindices = 1) (hn : nthC hostindices 0 = some his) :
    setplugs s (a0 :: a1 :: rest) =
      setplugsLoop lplugs (fun _ => some his) rest.head? (hlCount lplugs) 0 (removeInitialPlugs s) :=
  setplugs_eq_subst s a0 a1 rest lplugs hostindices his hb h0 h1 hc h1' hn

/-- **the table stays well-formed under every piece of input, any bytes** (`TInv`: plug names distinct, each entry filed
    under its own name, its host index an index into `hosts` naming the recorded host); `hosts` never changes.
    NOT part of well-formedness, because the C code does not keep it: parents defined, no cycles
    (`C19_bad_input_undefined_parent_counterexample`, `C19_bad_input_cycle_counterexample`). -/
theorem C19_table_wellformed (s : State) (buf : List Char) (h : TInv s) :
    (step s buf).st.hosts = s.hosts ∧ TInv (step s buf).st := step_inv s buf h

/-- … so every recorded host index is smaller than the number of hosts -/
theorem C19_host_index_in_range (s : State) (hh : HWF s.hosts) (h : TInv s) (e : Name × PlugData) (he : e ∈ s.plugMap) :
    e.2.hostIdx < (expand s.hosts).length := hostIdx_lt s hh h e he

example : TInv exState := exState_TInv

/-- **reachable states**: the helper started on host names without separators and brackets, then any pieces of input
    whose `setplugs` lines define plug names of that kind (`LegalSetplugs`; the other lines are arbitrary): the table is
    well-formed, and the plug list (`plugs_name_valid`, `stat` without arguments) and the plug map (everything else) name
    the same plugs.  The proviso on plug names is necessary: `C19_bad_input_unmapped_counterexample`. -/
theorem C19_reachable (hostArgs failArgs : List Name) (now : Nat) (s0 : State)
    (h0 : init hostArgs failArgs now = some s0) (hleg : ∀ n ∈ expand (hostsOf hostArgs), LegalName n)
    (bufs : List (List Char)) (hb : ∀ b ∈ bufs, LegalSetplugs (argvCreate (cstr b))) :
    TInv (session s0 bufs).1 ∧ Link (session s0 bufs).1 ∧ Linked (session s0 bufs).1 :=
  reachable_inv hostArgs failArgs now s0 h0 hleg bufs hb

example : ∀ b ∈ exLines.map (fun l => lit l ++ ['\n']), LegalSetplugs (argvCreate (cstr b)) := exLines_legal
example : ∀ n ∈ expand (hostsOf [lit "h[0-3]"]), LegalName n := by decide +kernel

/-! ### target resolution, composed with the machine theorems -/

/-- **`C19_targets_resolved`.**  A `stat` / `on` / `off` line with the hostlist expression `a` (names `expand hl`), from a
    `Safe` state (time-out within `int`: every reachable state) with list and map in step (`Linked`: every reachable state,
    `C19_reachable`) and the command's path set:
    the helper comes back to its prompt; it prints one `unknown plug specified: n` line per unknown name, in expression
    order, then the lines `M` of the machine, which was handed exactly the known names, in expression order, duplicates
    kept (`T`); `M` has exactly one line per element of `T` (`C19_one_line_per_target` through the seam), none of them an
    "unknown plug" line, and `M` is, up to order, what the documented rules prescribe (`C19_refines`) -/
theorem C19_targets_resolved (s : State) (cmd : Redfish.Cmd) (a : Name) (rest : List Name) (hl : Hostlist)
    (hs : Safe s) (ht : TimeoutOK s) (hlk : Linked s) (hp : PathsFor s cmd) (hb : hlArgOK a = true)
    (hc : hlCreate a = some hl) :
    let names := expand hl
    let T := names.filterMap (mIndex s.plugMap)
    let M := (Redfish.runCmd (mCfg s) (mSt s) cmd T).1
    (powerCmd s cmd (a :: rest)).ctl = .cont ∧
    (powerCmd s cmd (a :: rest)).out =
      (names.filter fun n => (mIndex s.plugMap n).isNone).map unknownLine ++ M.map (render s) ∧
    (M.map Redfish.linePlug).Perm T ∧ (∀ l ∈ M, Redfish.isUnk l = false) ∧
    M.Perm (Redfish.specRun (mCfg s) (mSt s) cmd T).1 := by
  intro names T M
  obtain ⟨h1, h2, h3, h4⟩ := powerCmd_resolved s cmd a rest hl hs ht hlk hp hb hc
  exact ⟨h1, h2, h3, h4, powerCmd_rules s cmd names hs⟩

/-- the resolution alone, in any state with list and map in step (no time-out overflow): lines and targets -/
theorem C19_targets_resolved_loop (s : State) (cmd : Redfish.Cmd) (hl : Linked s) (hp : PathsFor s cmd) (names : List Name) :
    resolveLoop s cmd false names =
      ((names.filter fun n => (mIndex s.plugMap n).isNone).map unknownLine, names.filterMap (mIndex s.plugMap), false) :=
  resolveLoop_spec s cmd hl hp names

/-- non-vacuity: the hypotheses hold of `exState` and `on Node[2-5],zz,Node2` … -/
example : Safe exState ∧ TimeoutOK exState ∧ Linked exState ∧ PathsFor exState .on ∧ hlArgOK (lit "Node[2-5],zz,Node2") = true ∧
    (hlCreate (lit "Node[2-5],zz,Node2")).isSome = true :=
  ⟨exState_safe, exState_TimeoutOK, exState_Link.linked, PathsFor_of_default _ _ (by decide +kernel), by decide +kernel, by decide +kernel⟩
/-- … and this is the answer (both blades are off: the nodes are refused; `zz` is unknown; `Node2` is answered twice) -/
example : (powerCmd exState .on [lit "Node[2-5],zz,Node2"]).out =
    [lit "unknown plug specified: zz", lit "Node2: cannot perform on, dependency off (host=h0 plug=Blade0)",
     lit "Node3: cannot perform on, dependency off (host=h0 plug=Blade0)",
     lit "Node2: cannot perform on, dependency off (host=h0 plug=Blade0)",
     lit "Node4: cannot perform on, dependency off (host=h1 plug=Blade1)",
     lit "Node5: cannot perform on, dependency off (host=h1 plug=Blade1)"] := by decide +kernel

end CommandLayer

end Pm.Props.C19
