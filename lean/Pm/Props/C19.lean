import Pm.RedfishProof
/-! # C19 — redfishpower (test mode) answers every target once, by the documented parent/child rules, and returns to its prompt

`Pm/Redfish.lean` holds two things: the machine as coded (`runCmd`: the three lists `activecmds` / `delayedcmds` /
`waitcmds`, `send_initial_parent_queries`, `process_waiters`, the phased-`on` check, the status polls, the shell loop)
and the documented rules as pure functions (`specStat`, `specPower`).  Both are compared with the real binary by the
differential driver.  The theorems here hold for **every** well-formed configuration (`WF`: plug names distinct, every
parent defined, no cycles — any size, any depth), every simulated plug state, every target list (duplicates and
unknown plugs included) and every set of failing hosts.

Ranking: termination (done) ▸ one line per target (done) ▸ the rules, one by one, on the specification (done) ▸
machine = rules (see the end of the file). -/
namespace Pm.Props.C19
open Pm.Redfish

/-- a three-level forest: chassis 0, blades 1 and 2 (both answered by host 1), nodes 3 (under 1) and 4 (under 2);
    a second tree 5 ▸ 6; host 3 (plug 4) fails every request -/
def exC : Cfg :=
  { plugs := [⟨0, 0, none⟩, ⟨1, 1, some 0⟩, ⟨2, 1, some 0⟩, ⟨3, 2, some 1⟩, ⟨4, 3, some 2⟩, ⟨5, 4, none⟩, ⟨6, 5, some 5⟩],
    failing := [3] }
/-- everything on except blade 2 -/
def exSt : St := [(0, true), (1, true), (2, false), (3, true), (4, true), (5, true), (6, true)]

example : WF exC = true := by decide
/-- a cycle is rejected, and so is an undefined parent, and so is a duplicate name -/
example : WF { plugs := [⟨0, 0, some 1⟩, ⟨1, 0, some 0⟩], failing := [] } = false := by decide
example : WF { plugs := [⟨0, 0, some 7⟩], failing := [] } = false := by decide
example : WF { plugs := [⟨0, 0, none⟩, ⟨0, 1, none⟩], failing := [] } = false := by decide

/-- in a well-formed configuration no plug is its own ancestor -/
theorem C19_WF_acyclic (c : Cfg) (hw : WF c = true) (p : Nat) : isDesc c p p = false := WF_acyclic hw p

/-! ## 1. the helper returns to its prompt -/

/-- `runCmd` reports "done": the shell loop was not cut short by its fuel -/
theorem C19_terminates (c : Cfg) (hw : WF c = true) (st : St) (cmd : Cmd) (targets : List Nat) :
    (runCmd c st cmd targets).2.2 = true := runCmd_done hw st cmd targets

/-- … and "done" means what `shell()` tests before printing `redfishpower> `: all three lists are empty.
    (`finalM` is the machine state `runCmd` ends in: `runCmd_final`.) -/
theorem C19_prompt (c : Cfg) (hw : WF c = true) (st : St) (cmd : Cmd) (targets : List Nat) :
    runCmd c st cmd targets = ((finalM c st cmd targets).out, (finalM c st cmd targets).st, true) ∧
    (finalM c st cmd targets).active = [] ∧ (finalM c st cmd targets).delayed = [] ∧
    (finalM c st cmd targets).waiting = [] := by
  refine ⟨?_, finalM_empty hw st cmd targets⟩
  have := runCmd_done hw st cmd targets
  rw [runCmd_final] at this ⊢
  simp only at this
  rw [this]

example : (runCmd exC exSt .off [3, 4, 99, 3, 0, 6]).2.2 = true := by decide +kernel

/-! ## 2. exactly one line per target -/

/-- the plugs named by the output lines are the targets, with multiplicity: every targeted plug gets exactly one line -/
theorem C19_one_line_per_target (c : Cfg) (hw : WF c = true) (st : St) (cmd : Cmd) (targets : List Nat) :
    ((runCmd c st cmd targets).1.map linePlug).Perm targets := runCmd_plugs hw st cmd targets

/-- … and that line is `unknown plug specified` exactly for the targets that are not configured; the helper goes on
    (it still terminates and answers the other targets) -/
theorem C19_unknown_reported (c : Cfg) (hw : WF c = true) (st : St) (cmd : Cmd) (targets : List Nat) :
    ((runCmd c st cmd targets).1.map fun l => (linePlug l, isUnk l)).Perm
      (targets.map fun t => (t, !known c t)) := runCmd_unknowns hw st cmd targets

example : (runCmd exC exSt .stat [3, 4, 99, 3]).1 =
    [.unknown 99, .status 4 .off, .status 3 .on, .status 3 .on] := by decide +kernel

/-! ## 3. the documented rules (statements about `specStat` / `specPower`)

`a` is the topmost ancestor of `t` that is not on: `statOf a ≠ on`, everything above `a` is on. -/

/-- `specStat` answers target by target -/
theorem C19_stat_pointwise (c : Cfg) (st : St) (targets : List Nat) :
    specStat c st targets = targets.map (statLine c st) := rfl

/-- status: a descendant of an ancestor that is not on reports that ancestor's off / error state -/
theorem C19_rule_stat (c : Cfg) (hw : WF c = true) (st : St) (t a : Nat) (hk : known c t = true)
    (ha : a ∈ ancUp c t) (hoff : statOf c st a ≠ .on) (habove : ∀ b ∈ ancUp c a, statOf c st b = .on) :
    statLine c st t = .status t (statOf c st a) := specStat_blocked hw st hk ha hoff habove

/-- status: with all ancestors on, a plug reports its own state -/
theorem C19_rule_stat_clear (c : Cfg) (st : St) (t : Nat) (hk : known c t = true)
    (hon : ∀ b ∈ ancUp c t, statOf c st b = .on) : statLine c st t = .status t (statOf c st t) :=
  specStat_clear st hk hon

example : specStat exC exSt [4, 3, 2] = [.status 4 .off, .status 3 .on, .status 2 .off] := by decide +kernel

/-- `on` below an ancestor that is not on is refused, naming the dependency; nothing changes -/
theorem C19_rule_on_refused (c : Cfg) (hw : WF c = true) (st : St) (t a : Nat) (hk : known c t = true)
    (ha : a ∈ ancUp c t) (hoff : statOf c st a ≠ .on) (habove : ∀ b ∈ ancUp c a, statOf c st b = .on) :
    specPower c st .on [t] = ([.dep t .on (statOf c st a) a], st) := specPower_on_blocked hw st hk ha hoff habove

example : specPower exC exSt .on [4] = ([.dep 4 .on .off 2], exSt) := by decide +kernel

/-- `off` below an ancestor that is off is reported `ok`; nothing changes -/
theorem C19_rule_off_below_off (c : Cfg) (hw : WF c = true) (st : St) (t a : Nat) (hk : known c t = true)
    (ha : a ∈ ancUp c t) (hoff : statOf c st a = .off) (habove : ∀ b ∈ ancUp c a, statOf c st b = .on) :
    specPower c st .off [t] = ([.ok t], st) := specPower_off_below_off hw st hk ha hoff habove

/-- `off` below an ancestor in error is refused, naming the dependency -/
theorem C19_rule_off_below_error (c : Cfg) (hw : WF c = true) (st : St) (t a : Nat) (hk : known c t = true)
    (ha : a ∈ ancUp c t) (herr : statOf c st a = .error) (habove : ∀ b ∈ ancUp c a, statOf c st b = .on) :
    specPower c st .off [t] = ([.dep t .off .error a], st) := specPower_off_blocked hw st hk ha herr habove

example : specPower exC exSt .off [4] = ([.ok 4], exSt) := by decide +kernel

/-- requesting `on` for an ancestor and one of its descendants together refuses every known target
    (unknown ones are still reported as unknown); nothing changes -/
theorem C19_rule_phased (c : Cfg) (st : St) (targets : List Nat) (a b : Nat) (ha : a ∈ targets) (hb : b ∈ targets)
    (hka : known c a = true) (hkb : known c b = true) (hd : isDesc c a b = true) :
    specPower c st .on targets = (unknownLines c targets ++ (knownT c targets).map Line.phased, st) :=
  specPower_phased c st targets ha hb hka hkb hd

example : specPower exC exSt .on [5, 3, 99, 1] = ([.unknown 99, .phased 5, .phased 3, .phased 1], exSt) := by
  decide +kernel

/-- powering a parent off (all its ancestors on, its host answering) is `ok` and leaves the parent and every
    descendant off; every other plug keeps its state -/
theorem C19_rule_off_parent (c : Cfg) (hw : WF c = true) (st : St) (p : Nat) (hk : known c p = true)
    (hon : ∀ b ∈ ancUp c p, statOf c st b = .on) (hf : hostFails c p = false) :
    (specPower c st .off [p]).1 = [.ok p] ∧ isOn (specPower c st .off [p]).2 p = false ∧
    (∀ x, isDesc c x p = true → isOn (specPower c st .off [p]).2 x = false) ∧
    (∀ x, x ≠ p → isDesc c x p = false → isOn (specPower c st .off [p]).2 x = isOn st x) :=
  specPower_off_parent hw st hk hon hf

example : ((specPower exC exSt .off [1]).1, [0, 1, 2, 3, 4, 5, 6].map (isOn (specPower exC exSt .off [1]).2)) =
    ([.ok 1], [true, false, false, false, true, true, true]) := by decide +kernel

end Pm.Props.C19
