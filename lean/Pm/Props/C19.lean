import Pm.RedfishProof
/-! # C19 — redfishpower (test mode) answers every target once, by the documented parent/child rules, and returns to its prompt

`Pm/Redfish.lean` holds two things: the machine as coded (`runCmd`: the three lists `activecmds` / `delayedcmds` /
`waitcmds`, `send_initial_parent_queries`, `process_waiters`, the phased-`on` check, the status polls, the shell loop)
and the documented rules as pure functions (`specStat`, `specPower`).  Both are compared with the real binary by the
differential driver.  The theorems here hold for **every** well-formed configuration (`WF`: plug names distinct, every
parent defined, no cycles — any size, any depth), every simulated plug state, every target list (duplicates and
unknown plugs included) and every set of failing hosts.

Ranking: termination (done) ▸ one line per target (done) ▸ the rules, one by one, on the specification (done) ▸
machine = rules, for `stat`, `on` and `off`, single commands and sequences (done, section 4 — no `_partial`).

Not covered by this model: `setplugs` with a bad host index and malformed hostlist ranges (`illegal hosts input`) —
`runCmd` receives the target list already expanded; the hostlist parser has its own mirror (`Pm/HL.lean`). -/
namespace Pm.Props.C19
open Pm.Redfish

/-- a three-level forest: chassis 0, blades 1 and 2 (both answered by host 1), nodes 3 (under 1) and 4 (under 2);
    a second tree 5 ▸ 6; host 3 (plug 4) fails every request -/
def exC : Cfg :=
  { plugs := [⟨0, 0, none⟩, ⟨1, 1, some 0⟩, ⟨2, 1, some 0⟩, ⟨3, 2, some 1⟩, ⟨4, 3, some 2⟩, ⟨5, 4, none⟩, ⟨6, 5, some 5⟩],
    failing := [3] }
/-- everything on except blade 2 -/
def exSt : St := [(0, true), (1, true), (2, false), (3, true), (4, true), (5, true), (6, true)]

example : WF exC = true := by decide
/-- a cycle is rejected, and so is an undefined parent, and so is a duplicate name -/
example : WF { plugs := [⟨0, 0, some 1⟩, ⟨1, 0, some 0⟩], failing := [] } = false := by decide
example : WF { plugs := [⟨0, 0, some 7⟩], failing := [] } = false := by decide
example : WF { plugs := [⟨0, 0, none⟩, ⟨0, 1, none⟩], failing := [] } = false := by decide

/-- in a well-formed configuration no plug is its own ancestor -/
theorem C19_WF_acyclic (c : Cfg) (hw : WF c = true) (p : Nat) : isDesc c p p = false := WF_acyclic hw p

/-! ## 1. the helper returns to its prompt -/

/-- `runCmd` reports "done": the shell loop was not cut short by its fuel -/
theorem C19_terminates (c : Cfg) (hw : WF c = true) (st : St) (cmd : Cmd) (targets : List Nat) :
    (runCmd c st cmd targets).2.2 = true := runCmd_done hw st cmd targets

/-- … and "done" means what `shell()` tests before printing `redfishpower> `: all three lists are empty.
    (`finalM` is the machine state `runCmd` ends in: `runCmd_final`.) -/
theorem C19_prompt (c : Cfg) (hw : WF c = true) (st : St) (cmd : Cmd) (targets : List Nat) :
    runCmd c st cmd targets = ((finalM c st cmd targets).out, (finalM c st cmd targets).st, true) ∧
    (finalM c st cmd targets).active = [] ∧ (finalM c st cmd targets).delayed = [] ∧
    (finalM c st cmd targets).waiting = [] := by
  refine ⟨?_, finalM_empty hw st cmd targets⟩
  have := runCmd_done hw st cmd targets
  rw [runCmd_final] at this ⊢
  simp only at this
  rw [this]

example : (runCmd exC exSt .off [3, 4, 99, 3, 0, 6]).2.2 = true := by decide +kernel

/-! ## 2. exactly one line per target -/

/-- the plugs named by the output lines are the targets, with multiplicity: every targeted plug gets exactly one line -/
theorem C19_one_line_per_target (c : Cfg) (hw : WF c = true) (st : St) (cmd : Cmd) (targets : List Nat) :
    ((runCmd c st cmd targets).1.map linePlug).Perm targets := runCmd_plugs hw st cmd targets

/-- … and that line is `unknown plug specified` exactly for the targets that are not configured; the helper goes on
    (it still terminates and answers the other targets) -/
theorem C19_unknown_reported (c : Cfg) (hw : WF c = true) (st : St) (cmd : Cmd) (targets : List Nat) :
    ((runCmd c st cmd targets).1.map fun l => (linePlug l, isUnk l)).Perm
      (targets.map fun t => (t, !known c t)) := runCmd_unknowns hw st cmd targets

example : (runCmd exC exSt .stat [3, 4, 99, 3]).1 =
    [.unknown 99, .status 4 .off, .status 3 .on, .status 3 .on] := by decide +kernel

/-! ## 3. the documented rules (statements about `specStat` / `specPower`)

`a` is the topmost ancestor of `t` that is not on: `statOf a ≠ on`, everything above `a` is on. -/

/-- `specStat` answers target by target -/
theorem C19_stat_pointwise (c : Cfg) (st : St) (targets : List Nat) :
    specStat c st targets = targets.map (statLine c st) := rfl

/-- status: a descendant of an ancestor that is not on reports that ancestor's off / error state -/
theorem C19_rule_stat (c : Cfg) (hw : WF c = true) (st : St) (t a : Nat) (hk : known c t = true)
    (ha : a ∈ ancUp c t) (hoff : statOf c st a ≠ .on) (habove : ∀ b ∈ ancUp c a, statOf c st b = .on) :
    statLine c st t = .status t (statOf c st a) := specStat_blocked hw st hk ha hoff habove

/-- status: with all ancestors on, a plug reports its own state -/
theorem C19_rule_stat_clear (c : Cfg) (st : St) (t : Nat) (hk : known c t = true)
    (hon : ∀ b ∈ ancUp c t, statOf c st b = .on) : statLine c st t = .status t (statOf c st t) :=
  specStat_clear st hk hon

example : specStat exC exSt [4, 3, 2] = [.status 4 .off, .status 3 .on, .status 2 .off] := by decide +kernel

/-- `on` below an ancestor that is not on is refused, naming the dependency; nothing changes -/
theorem C19_rule_on_refused (c : Cfg) (hw : WF c = true) (st : St) (t a : Nat) (hk : known c t = true)
    (ha : a ∈ ancUp c t) (hoff : statOf c st a ≠ .on) (habove : ∀ b ∈ ancUp c a, statOf c st b = .on) :
    specPower c st .on [t] = ([.dep t .on (statOf c st a) a], st) := specPower_on_blocked hw st hk ha hoff habove

example : specPower exC exSt .on [4] = ([.dep 4 .on .off 2], exSt) := by decide +kernel

/-- `off` below an ancestor that is off is reported `ok`; nothing changes -/
theorem C19_rule_off_below_off (c : Cfg) (hw : WF c = true) (st : St) (t a : Nat) (hk : known c t = true)
    (ha : a ∈ ancUp c t) (hoff : statOf c st a = .off) (habove : ∀ b ∈ ancUp c a, statOf c st b = .on) :
    specPower c st .off [t] = ([.ok t], st) := specPower_off_below_off hw st hk ha hoff habove

/-- `off` below an ancestor in error is refused, naming the dependency -/
theorem C19_rule_off_below_error (c : Cfg) (hw : WF c = true) (st : St) (t a : Nat) (hk : known c t = true)
    (ha : a ∈ ancUp c t) (herr : statOf c st a = .error) (habove : ∀ b ∈ ancUp c a, statOf c st b = .on) :
    specPower c st .off [t] = ([.dep t .off .error a], st) := specPower_off_blocked hw st hk ha herr habove

example : specPower exC exSt .off [4] = ([.ok 4], exSt) := by decide +kernel

/-- requesting `on` for an ancestor and one of its descendants together refuses every known target
    (unknown ones are still reported as unknown); nothing changes -/
theorem C19_rule_phased (c : Cfg) (st : St) (targets : List Nat) (a b : Nat) (ha : a ∈ targets) (hb : b ∈ targets)
    (hka : known c a = true) (hkb : known c b = true) (hd : isDesc c a b = true) :
    specPower c st .on targets = (unknownLines c targets ++ (knownT c targets).map Line.phased, st) :=
  specPower_phased c st targets ha hb hka hkb hd

example : specPower exC exSt .on [5, 3, 99, 1] = ([.unknown 99, .phased 5, .phased 3, .phased 1], exSt) := by
  decide +kernel

/-- powering a parent off (all its ancestors on, its host answering) is `ok` and leaves the parent and every
    descendant off; every other plug keeps its state -/
theorem C19_rule_off_parent (c : Cfg) (hw : WF c = true) (st : St) (p : Nat) (hk : known c p = true)
    (hon : ∀ b ∈ ancUp c p, statOf c st b = .on) (hf : hostFails c p = false) :
    (specPower c st .off [p]).1 = [.ok p] ∧ isOn (specPower c st .off [p]).2 p = false ∧
    (∀ x, isDesc c x p = true → isOn (specPower c st .off [p]).2 x = false) ∧
    (∀ x, x ≠ p → isDesc c x p = false → isOn (specPower c st .off [p]).2 x = isOn st x) :=
  specPower_off_parent hw st hk hon hf

example : ((specPower exC exSt .off [1]).1, [0, 1, 2, 3, 4, 5, 6].map (isOn (specPower exC exSt .off [1]).2)) =
    ([.ok 1], [true, false, false, false, true, true, true]) := by decide +kernel

/-! ## 3b. the rules for arbitrary target lists

When the command is not refused, `specPower` is a fold over the known targets sorted by depth, each step looking at what
was decided for the targets above.  In closed form (`powLine`, `finalOn`): the line of a known target `t` depends on its
*blocker* — the topmost ancestor `a` whose effective status `effStat` is not on; `effStat a` is the initial `statOf a`,
except that under `off` a co-target whose host answers counts as off (it is, or is being, switched off). -/

/-- not refused: one `unknown` line per unknown target, `powLine` for each known one; the plug states are `finalOn` -/
theorem C19_rules_closed_form (c : Cfg) (hw : WF c = true) (st : St) (cmd : Cmd) (hc : cmd ≠ .stat) (targets : List Nat)
    (hph : specPhased c cmd targets = false) :
    (specPower c st cmd targets).1.Perm
      (unknownLines c targets ++ (knownT c targets).map (powLine c st cmd (knownT c targets))) ∧
    ∀ x, isOn (specPower c st cmd targets).2 x = finalOn c st cmd (knownT c targets) (knownT c targets) x :=
  specPower_lines hw st hc targets hph

/-- `on`, any target list: each known target is judged exactly as if it were the only target (rules 2 above) -/
theorem C19_rule_on_each (c : Cfg) (st : St) (T : List Nat) (t : Nat) :
    powLine c st .on T t = (powerLine1 c st .on t).1 := powLine_on c st T t

/-- `off`, any target list: a target below a co-target that answers (everything above that one on) is `ok` -/
theorem C19_rule_off_parent_and_child (c : Cfg) (hw : WF c = true) (st : St) (T : List Nat) (t a : Nat)
    (ha : a ∈ ancUp c t) (haT : a ∈ T) (hf : hostFails c a = false)
    (habove : ∀ b ∈ ancUp c a, effStat c st .off T b = .on) :
    powLine c st .off T t = .ok t := powLine_off_below_target hw st T ha haT hf habove

/-- `off`, any target list: a target that is switched (`succeeds`: no blocker, host answers) ends off, with every
    descendant -/
theorem C19_rule_off_leaves_descendants_off (c : Cfg) (st : St) (T : List Nat) (t x : Nat) (ht : t ∈ T)
    (hs : succeeds c st .off T t = true) (hx : x = t ∨ isDesc c x t = true) :
    finalOn c st .off T T x = false := finalOn_off_below st T ht hs hx

/-- `off` of blade 1, node 3 below it, and node 6 of the other tree (in closed form; `mergeSort` inside `specPower`
    does not reduce in the kernel for more than one target): all three `ok`; 1, 3 and 6 end off, 2 stays off -/
example : (knownT exC [3, 1, 6]).map (powLine exC exSt .off (knownT exC [3, 1, 6])) = [.ok 3, .ok 1, .ok 6] ∧
    [0, 1, 2, 3, 4, 5, 6].map (finalOn exC exSt .off (knownT exC [3, 1, 6]) (knownT exC [3, 1, 6]))
      = [true, false, false, false, true, true, false] := by
  decide +kernel

/-! ## 4. the machine follows the rules -/

/-- the machine's and the rules' tests for "parent and child `on` together" agree -/
theorem C19_phased_check_agrees (c : Cfg) (hw : WF c = true) (st : St) (cmd : Cmd) (targets : List Nat) :
    phasedT c st cmd targets = specPhased c cmd targets := phased_iff hw st cmd targets

/-- `stat`: the lines printed are exactly those of `specStat` (as a multiset), the plug states are untouched -/
theorem C19_refines_stat (c : Cfg) (hw : WF c = true) (st : St) (targets : List Nat) :
    (runCmd c st .stat targets).1.Perm (specStat c st targets) ∧ (runCmd c st .stat targets).2.1 = st :=
  runCmd_stat hw st targets

/-- `on` / `off`: the lines printed are exactly those of `specPower` (as a multiset), and every plug ends in the state
    `specPower` says (the two association lists may list the plugs in different orders) -/
theorem C19_refines_power (c : Cfg) (hw : WF c = true) (st : St) (cmd : Cmd) (hc : cmd ≠ .stat) (targets : List Nat) :
    (runCmd c st cmd targets).1.Perm (specPower c st cmd targets).1 ∧
    ∀ x, isOn (runCmd c st cmd targets).2.1 x = isOn (specPower c st cmd targets).2 x :=
  runCmd_power hw st hc targets

/-- all three commands in one statement (`specRun` = what the driver `RfMain` computes on the rules' side) -/
theorem C19_refines (c : Cfg) (hw : WF c = true) (st : St) (cmd : Cmd) (targets : List Nat) :
    (runCmd c st cmd targets).2.2 = true ∧
    (runCmd c st cmd targets).1.Perm (specRun c st cmd targets).1 ∧
    SameSt (runCmd c st cmd targets).2.1 (specRun c st cmd targets).2 :=
  ⟨runCmd_done hw st cmd targets, runCmd_refines hw st cmd targets⟩

/-- any sequence of commands, each started from the plug states the previous one left: after every command the helper is
    back at its prompt and has printed the rules' lines; machine and rules end with the same plug states.  The two
    sides may start from different association lists as long as they describe the same states. -/
theorem C19_refines_sequence (c : Cfg) (hw : WF c = true) (cmds : List (Cmd × List Nat)) (sm ss : St)
    (h : SameSt sm ss) :
    SeqAgree (machSeq c sm cmds).1 (specSeq c ss cmds).1 ∧ SameSt (machSeq c sm cmds).2 (specSeq c ss cmds).2 :=
  seq_refines hw cmds sm ss h

/-- the rules read the plug states only through `isOn` -/
theorem C19_rules_extensional (c : Cfg) (hw : WF c = true) (a b : St) (h : SameSt a b) (cmd : Cmd) (targets : List Nat) :
    (specRun c a cmd targets).1 = (specRun c b cmd targets).1 ∧
    SameSt (specRun c a cmd targets).2 (specRun c b cmd targets).2 := specRun_congr hw h cmd targets

/-- non-vacuity: a sequence on the example forest — `off` of a blade and a node below it plus an unknown plug, then
    `stat` of everything, then a refused `on`, then an `on` below the failing/off parts -/
def exCmds : List (Cmd × List Nat) :=
  [(.off, [3, 1, 99]), (.stat, [0, 1, 2, 3, 4, 5, 6]), (.on, [1, 3]), (.on, [3, 4, 6, 6])]

example : (machSeq exC exSt exCmds).1.map (·.2) = [true, true, true, true] := by decide +kernel
/-- the machine's lines, command by command (by the theorem: the rules' lines, up to order) -/
example : (machSeq exC exSt exCmds).1.map (·.1) =
    [[.unknown 99, .ok 1, .ok 3],
     [.status 0 .on, .status 5 .on, .status 1 .off, .status 3 .off, .status 2 .off, .status 4 .off, .status 6 .on],
     [.phased 1, .phased 3],
     [.dep 3 .on .off 1, .dep 4 .on .off 2, .ok 6, .ok 6]] := by decide +kernel

end Pm.Props.C19
