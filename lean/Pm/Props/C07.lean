import Pm.Dev2Fd
import Pm.ToBufProps
import Pm.CurInv
/-! # C07 — no device behaviour can crash the daemon: the connection layer's asserts and `dbg_memstr`

Scope: the four `assert`s on descriptor / connection state (`tcp_connect` and `pipe_connect`:
`connect_state == DEV_NOT_CONNECTED`, `fd == NO_FD`; `_handle_ready_device`: `connect_state != DEV_NOT_CONNECTED`,
`fd != NO_FD`), the `assert`s of `tcp_disconnect` / `pipe_disconnect` and `assert(dev->finish_connect != NULL)` (not
mirrored as abort sites in the model: shown from the state invariants), and the buffer arithmetic of `debug.c:dbg_memstr` with everything built on it
(telemetry of `_process_expect`, `_process_send`, the timeout branch).  On the mirror `Pm/Dev2.lean`, for every device,
queue, script, oracle answer, kernel answer and fuel.

The other `Sys.abort` entries of the model ("no socket/connect answer", "no SO_ERROR answer", "no read answer",
"no socketpair/fork answer") are the harness running out of scripted kernel answers, not C asserts; the other
`Out.abortAssert` sites (`cur == NULL`, the `hostlist_sort` assert F19, fuel) belong to other properties.  The former
site `xm_used` (`assert(xm->xm_used)` in `xregex_match_sub_strdup`, reached by a script that uses `$N` before any `expect`)
is gone from the code (repair 7b9cc0b) and from the model: `C07_set_before_expect_harmless`.

Ranking: F6 is gone (no pass starting from a state with `FdInv` reaches one of the four asserts) ▸ the hypothesis is
needed (the F6 state does reach one) ▸ the disconnect asserts ▸ `dbg_memstr` never overflows ▸ consequences for telemetry ▸
an overrun of the device output buffer is not an abort (F33). -/
namespace Pm.Props.C07
open Pm.Dev2
open Pm.Dev2.Fd

/-! ## the asserts of the connection layer -/

/-- From a state in which `dev->fd == NO_FD` exactly when `connect_state == DEV_NOT_CONNECTED` (`FdInv`, kept by every
    pass: `C20_fd_inv_preserved`), a `dev_post_poll` pass reaches none of the four asserts — also when the host has several
    addresses and `tcp_connect` / `tcp_finish_connect` walk over them (every failed address leaves `fd == NO_FD` behind before
    the next is tried: `C20_fd_ledger_walk`).  This is the theorem that defect F6 (a stale `dev->fd` after a failed `tcp_finish_connect`, tripping `assert(dev->fd == NO_FD)` on the next
    reconnect or `assert(connect_state != NOT_CONNECTED)` on the next poll event) is gone. -/
theorem C07_connect_asserts_unreachable (d : Dev) (env : Env) (o : Oracle) (h : FdInv d) :
    (postPoll d env o).1.sys.any isCAssert = false :=
  (postPoll_moves d env o).keeps_all.noAssert h rfl

/-- the same, spelt out for the four abort entries -/
theorem C07_connect_asserts_unreachable' (d : Dev) (env : Env) (o : Oracle) (h : FdInv d) :
    Sys.abort "assert fd == NO_FD" ∉ (postPoll d env o).1.sys ∧
    Sys.abort "assert connect_state == NOT_CONNECTED" ∉ (postPoll d env o).1.sys ∧
    Sys.abort "assert connect_state != NOT_CONNECTED" ∉ (postPoll d env o).1.sys ∧
    Sys.abort "assert fd != NO_FD" ∉ (postPoll d env o).1.sys := by
  have hn := C07_connect_asserts_unreachable d env o h
  rw [List.any_eq_false] at hn
  refine ⟨fun hm => ?_, fun hm => ?_, fun hm => ?_, fun hm => ?_⟩ <;> exact absurd (hn _ hm) (by decide)

/-- non-vacuity of the hypothesis, and the reason it is there: from the F6 state (descriptor number left in `dev->fd`
    while NOT_CONNECTED) a poll event on that number does reach an assert -/
theorem C07_stale_fd_counterexample : ¬ FdInv exStale ∧ (postPoll exStale exEnv ⟨[]⟩).1.sys.any isCAssert = true := by
  unfold FdInv; decide

/-- the hypothesis is satisfiable on a pass that does real work (hang-up, close, new socket) -/
example : FdInv exTcp ∧ (postPoll exTcp exEnv ⟨[]⟩).1.sys.length = 3 := by unfold FdInv; decide

/-- the same for the functions that contain the assert sites, in invariant form: `_reconnect` (which calls
    `tcp_connect` / `pipe_connect`) and `_handle_ready_device` called, as `dev_post_poll` does, with a descriptor held -/
theorem C07_assert_sites (c : CS) (tmo : Option Time) (h : FdInv c.dev) (hs : c.sys.any isCAssert = false) :
    (reconnectDev c tmo).1.sys.any isCAssert = false ∧
    (c.dev.fd.isSome = true → (handleReady c).1.sys.any isCAssert = false) :=
  ⟨(reconnectDev_moves c tmo).keeps_all.noAssert h hs, fun hfd => (handleReady_moves c hfd).keeps_all.noAssert h hs⟩

example : FdInv exTcp ∧ ([] : List Sys).any isCAssert = false ∧ exTcp.fd.isSome = true := by unfold FdInv; decide

/-- … and through `_process_action` (whose error branch calls `_reconnect`), every fuel -/
theorem C07_assert_sites_processAction (fuel : Nat) (c : CS) (o : Oracle) (out : List Out) (tmo : Option Time)
    (h : FdInv c.dev) (hs : c.sys.any isCAssert = false) :
    (processActionF fuel c o out tmo).1.sys.any isCAssert = false :=
  (processActionF_moves fuel c o out tmo).keeps_all.noAssert h hs

/-- `tcp_disconnect: assert(connect_state == DEV_CONNECTING || connect_state == DEV_CONNECTED)` and
    `pipe_disconnect: assert(connect_state == DEV_CONNECTED)` are not abort sites of the model; `_reconnect` calls
    `_disconnect` only when `connect_state != DEV_NOT_CONNECTED`, and in every state satisfying the invariants of C20
    that guard implies the asserted condition -/
theorem C07_disconnect_asserts_hold (d : Dev) (hc : ChildInv d) (hr : ConnRange d) (h0 : d.conn ≠ 0) :
    (d.isPipe = false → d.conn = 1 ∨ d.conn = 2) ∧ (d.isPipe = true → d.conn = 2) := by
  unfold ConnRange at hr
  refine ⟨fun _ => by omega, fun hp => ?_⟩
  have := hc.2.2 hp
  omega

example : ChildInv exPipe ∧ ConnRange exPipe ∧ exPipe.conn ≠ 0 := by simp [ChildInv, ConnRange, exPipe, exDev]

/-- `_handle_ready_device: assert(dev->finish_connect != NULL)` (the method is NULL for coprocess and serial devices; a fifth
    abort site of the model, `Sys.abort "assert finish_connect != NULL"`, beside the four of `isCAssert`) is reached only in state
    CONNECTING, which a coprocess device never is in (`ChildInv`, kept by every pass: `C20_child_inv_preserved`) -/
theorem C07_finish_connect_assert_holds (d : Dev) (hc : ChildInv d) (h1 : d.conn = 1) : d.isPipe = false := by
  cases hp : d.isPipe
  · rfl
  · exact absurd h1 (hc.2.2 hp)

example : ChildInv { exDev with conn := 1, fd := some 7 } ∧ ({ exDev with conn := 1, fd := some 7 } : Dev).conn = 1 := by
  simp [ChildInv, exDev]

/-- … and over a whole pass: from a state that satisfies `ChildInv` (kept by every pass, `C20_child_inv_preserved`) a
    `dev_post_poll` pass does not reach `assert(dev->finish_connect != NULL)`; likewise `_reconnect` and `_handle_ready_device`
    taken alone.  Without `ChildInv`: `C20_pipe_connecting_asserts`. -/
theorem C07_finish_connect_assert_unreachable (d : Dev) (env : Env) (o : Oracle) (h : ChildInv d) :
    (postPoll d env o).1.sys.any isPAssert = false ∧
    (∀ (c : CS) (tmo : Option Time), ChildInv c.dev → c.sys.any isPAssert = false →
      (reconnectDev c tmo).1.sys.any isPAssert = false ∧
      (c.dev.fd.isSome = true → (handleReady c).1.sys.any isPAssert = false)) :=
  ⟨(postPoll_moves d env o).keeps_all.noPAssert h rfl,
   fun c tmo hc hs => ⟨(reconnectDev_moves c tmo).keeps_all.noPAssert hc hs, fun hfd => (handleReady_moves c hfd).keeps_all.noPAssert hc hs⟩⟩

example : ChildInv exPipe ∧ (postPoll exPipe exEnv ⟨[]⟩).1.sys.length = 6 := by
  refine ⟨by simp [ChildInv, exPipe, exDev], by decide⟩

/-- **`tcp_finish_connect` never dereferences a NULL `tcp->cur`** (`tcp->cur = tcp->cur->ai_next` after a failed `SO_ERROR`; the
    mirror's abort `tcp->cur == NULL in tcp_finish_connect`).  `CurInv d`: while the device is CONNECTING `tcp->cur` points into
    the address list.  It holds in every state the daemon can bring a device to from `dev_create` (`Login2.Reach`), it is kept
    by a whole `dev_post_poll` pass whatever the kernel and the device answer — `tcp_connect` leaves the device CONNECTING only
    on an address of the list, `tcp_finish_connect` moves to a later one or gives up — and under it the failure path of
    `tcp_finish_connect` finds an address current.  Also: the iteration bound (`naddr`) the mirror gives the address walk is never
    used up before the list is (more fuel changes nothing). -/
theorem C07_finish_connect_cur_not_null :
    (∀ d0 d : Dev, Pm.Dev2.Login2.Reach d0 d → d0.conn = 0 → Pm.Dev2.Walk.CurInv d) ∧
    (∀ (d : Dev) (env : Env) (o : Oracle), Pm.Dev2.Walk.CurInv d → Pm.Dev2.Walk.CurInv (postPoll d env o).1.dev) ∧
    (∀ c : CS, Pm.Dev2.Walk.CurInv c.dev → c.dev.conn = 1 → (closeFd c).dev.cur ≠ none) ∧
    (∀ (n k : Nat) (c : CS), (∀ i, c.dev.cur = some i → i < c.dev.naddr ∧ c.dev.naddr - i ≤ n) →
      connectWalk (n + k) c = connectWalk n c) :=
  ⟨fun _ _ h h0 => Pm.Dev2.Walk.Reach.curInv h h0, Pm.Dev2.Walk.postPoll_curInv, Pm.Dev2.Walk.finishConnectFail_cur_some,
   Pm.Dev2.Walk.connectWalk_fuel⟩

/-- non-vacuity: the three-address device CONNECTING on its third address after two failures -/
example : Pm.Dev2.Walk.CurInv (tcpConnect ⟨Pm.Dev2.Walk.ex3, Pm.Dev2.Walk.env221, [], false⟩).1.dev ∧
    (tcpConnect ⟨Pm.Dev2.Walk.ex3, Pm.Dev2.Walk.env221, [], false⟩).1.dev.conn = 1 :=
  ⟨fun _ => ⟨2, by decide, by decide⟩, by decide⟩

/-! ## `dbg_memstr` -/

/-- the repaired arithmetic of `dbg_memstr` (bytes printed through `unsigned char`) never writes past the `4*len+1`
    bytes it allocates, whatever the bytes are (before the repair of F2 a byte ≥ 0x80 produced eleven octal digits) -/
theorem C07_memstr_never_overflows (bs : Bytes) : memstrOverflows bs = false := memstrOverflows_false bs

/-- and the text it produces is at most `4*len` bytes long (plus the terminator: the allocation) -/
theorem C07_memstr_length (bs : Bytes) : (memstr bs).length + 1 ≤ 4 * bs.length + 1 := by
  have := memstr_length bs; omega

example : memstrOverflows [255, 13, 65, 0] = false ∧ (memstr [255, 13, 65, 0]).length = 11 := by decide +kernel

/-- hence the telemetry line built from it is always the line, never the abort -/
theorem C07_teleMem_never_aborts (cid : Nat) (pre : String) (bs : Bytes) :
    teleMem cid pre bs = [Out.telemetry cid (str pre ++ memstr bs ++ str "'")] ∧ hasAbort (teleMem cid pre bs) = false :=
  ⟨teleMem_eq cid pre bs, teleMem_noAbort cid pre bs⟩

/-- hence the timeout branch of `_process_action` never takes its abort exit: it always completes the queue with the
    timeout error (`timeoutErr`, `timeoutTele` name the error and the telemetry line of `onTimeout`) -/
theorem C07_timeout_branch_never_aborts (rest : List Action) (c : CS) (a : Action) (o : Oracle) (out : List Out)
    (tmo : Option Time) :
    hasAbort (timeoutTele c.dev a) = false ∧
    onTimeout rest c a o out tmo
      = failAll rest c { a with errnum := timeoutErr c.dev } o (out ++ timeoutTele c.dev a) tmo :=
  ⟨timeoutTele_noAbort c.dev a, onTimeout_eq_failAll rest c a o out tmo⟩

/-- hence `_process_expect` (whose only reachable assert was `dbg_memstr`'s) never aborts, whatever the device sent -/
theorem C07_expect_never_aborts (d : Dev) (a : Action) (o : Oracle) (pat : Nat) :
    hasAbort (stmtExpect d a o pat).out = false := stmtExpect_noAbort d a o pat

/-! ## captured substrings (`xregex_match_sub_strdup`) -/

/-- what `subOf` returns is a contiguous piece of the subject of the last successful match, so never longer than it.
    (The model's `take`/`drop` truncate silently, so this says nothing about the C pointer arithmetic when the
    offsets are out of range; `regexec` guarantees they are not, and then the length is exact: next theorem.) -/
theorem C07_sub_is_piece_of_subject (d : Dev) (i : Int) (s : Bytes) (h : subOf d i = some s) :
    ∃ subj, d.xmStr = some subj ∧ s <:+: subj ∧ s.length ≤ subj.length := subOf_infix d i s h

/-- with offsets inside the subject the copy has exactly `eo - so` bytes -/
theorem C07_sub_length (d : Dev) (i so eo : Int) (subj : Bytes) (hu : d.xmUsed = true) (hr : d.xmResult = true) (hi : 0 ≤ i)
    (ho : d.xmOffs[i.toNat]? = some (so, eo)) (hs : d.xmStr = some subj) (h0 : 0 ≤ so) (h2 : eo.toNat ≤ subj.length) :
    ∃ s, subOf d i = some s ∧ s.length = (eo - so).toNat := subOf_length d i so eo subj hu hr hi ho hs h0 h2

example : subOf { exDev with xmUsed := true, xmResult := true, xmStr := some [1, 2, 3, 4], xmOffs := [(0, 4), (1, 3)] } 1 = some [2, 3] := by
  decide

/-- without match data (`!xm_used`: no `expect` has run since the match object was created or recycled) there is no such
    substring — `NULL`, where the code used to `assert` -/
theorem C07_sub_without_match (d : Dev) (i : Int) (h : d.xmUsed = false) : subOf d i = none := by
  unfold subOf; simp [h]

/-- **`setplugstate` / `setresult` before any `expect` are harmless.**  With no match data (`d.xmUsed = false`) both
    statements finish at once, produce no output — in particular no abort: the daemon used to die on
    `assert(xm->xm_used)` here —, ask the regex engine nothing, and leave the device (argument lists included) and the
    action exactly as they were.  This holds whatever the statement's arguments are: with a literal plug name the status
    capture is `NULL`; without one the plug name falls back to the action's target plug exactly as when the group is
    unset, and the status capture is `NULL` again. -/
theorem C07_set_before_expect_harmless (d : Dev) (a : Action) (o : Oracle) (e : ExecCtx) (h : d.xmUsed = false)
    (lit : Option Bytes) (plugMp statMp : Int) (si : List (PState × Nat)) (ri : List (PResult × Nat)) :
    stmtSetplugstate d a o e lit plugMp statMp si = ⟨d, a, o, [], true⟩ ∧
    stmtSetresult d a o plugMp statMp ri = ⟨d, a, o, [], true⟩ := by
  have hs : ∀ i, subOf d i = none := fun i => C07_sub_without_match d i h
  constructor
  · unfold stmtSetplugstate
    simp only [hs]
    repeat' split
    all_goals first | rfl | simp_all
  · unfold stmtSetresult
    simp only [hs]

/-- non-vacuity: the device of the examples has not matched anything yet; a `setplugstate "1" $1 on=…` and a
    `setresult $1 $2 …` run on it do nothing (and `hasAbort` of their output is `false`) -/
example : exDev.xmUsed = false ∧
    (stmtSetplugstate exDev default ⟨[]⟩ default (some [49]) (-1) 1 [(.on, 0)]).finished = true ∧
    hasAbort (stmtSetplugstate exDev default ⟨[]⟩ default (some [49]) (-1) 1 [(.on, 0)]).out = false ∧
    hasAbort (stmtSetresult exDev default ⟨[]⟩ 1 2 [(.success, 0)]).out = false := by decide

/-! ## the overrun of `dev->to` (F33) -/

/-- **A `send` that overruns the device output buffer never aborts.**  `dev->to` holds 65536 bytes (`MAX_DEV_BUF`) and is a cbuf
    in overwrite mode: `cbuf_write` stores the text and reports in `dropped` how many of the oldest unsent bytes it overwrote.
    For every device state, action, context and text: when the text does not fit behind what is queued
    (`|toBuf ++ s| > 65536` — a tcp device that does not read while it floods `IAC DO x`, each answered with 3 queued bytes,
    gets there), the statement reports the text as sent and nothing else — no abort outcome, and no telemetry line
    (`else if (dropped > 0) err(…) else { … vpf_fun(…) }`) —, the oldest queued bytes give way (`clipTo`), the buffer is exactly
    full and the statement waits for it to drain.  And in general (`C07_send_aborts_only_on_sort`): the only abort outcome of
    `_process_send` is the `hostlist_sort` assertion F19, which does not depend on the buffer.
    Before the repair 860c7b4 (finding F33) the C code had `assert(dropped == strlen(str) - written)` here — with `written ==
    strlen(str)` always (overwrite mode stores everything) this asserted `dropped == 0`, false on every overrun
    (`C07_send_overrun_old_assert_counterexample`): the next `send` of any script aborted powermand.  The model never had that
    assertion as an abort site (it appended without limit; the defect was found by a mutation agent and reproduced in the
    daemon harness), so there is no earlier model-level counterexample to point to: the reproduction is the correspondence run
    with the telnet storm (`lib/daemon.py`, `storm`), in which the repaired code logs the overrun and goes on. -/
theorem C07_send_overrun_never_aborts (d : Dev) (a : Action) (o : Oracle) (e : ExecCtx) (fmt s : Bytes)
    (hp : e.processing = false) (hs : Pm.Dev2.Interp.sendText fmt e.plugs = some s) (hov : 65536 < (d.toBuf ++ s).length) :
    (stmtSend d a o e fmt).out = [Out.sent s] ∧ hasAbort (stmtSend d a o e fmt).out = false ∧
    (stmtSend d a o e fmt).dev = { d with toBuf := clipTo (d.toBuf ++ s) } ∧
    (stmtSend d a o e fmt).dev.toBuf.length = 65536 ∧ (stmtSend d a o e fmt).finished = false :=
  Pm.Dev2.ToBufP.stmtSend_overrun d a o e fmt s hp hs hov

/-- the only abort outcome of `_process_send`, whatever is queued: the `hostlist_sort` assertion (F19; `sendText … = none`) on
    the first visit of the statement -/
theorem C07_send_aborts_only_on_sort (d : Dev) (a : Action) (o : Oracle) (e : ExecCtx) (fmt : Bytes) :
    hasAbort (stmtSend d a o e fmt).out = true ↔ e.processing = false ∧ Pm.Dev2.Interp.sendText fmt e.plugs = none :=
  Pm.Dev2.ToBufP.stmtSend_abort_iff d a o e fmt

/-- non-vacuity: `send "l\n"` against 65536 queued bytes overruns; the statement's whole output is the record of the text -/
example (a : Action) (o : Oracle) :
    65536 < (Pm.Dev2.ToBufP.fullDev.toBuf ++ [108, 10]).length ∧
    (stmtSend Pm.Dev2.ToBufP.fullDev a o Pm.Dev2.ToBufP.sendCtx [108, 10]).out = [Out.sent [108, 10]] := by
  have h : 65536 < (Pm.Dev2.ToBufP.fullDev.toBuf ++ [108, 10]).length := by
    rw [List.length_append, Pm.Dev2.ToBufP.fullDev_len]; decide
  exact ⟨h, (C07_send_overrun_never_aborts _ a o _ _ _ rfl Pm.Dev2.ToBufP.sendCtx_text h).1⟩

/-- what the assertion removed by 860c7b4 demanded: `dropped == strlen(str) - written`, i.e. (everything is always written)
    `dropped == 0`; on the overrun above `dropped` is 2 -/
theorem C07_send_overrun_old_assert_counterexample :
    toDropped Pm.Dev2.ToBufP.fullDev.toBuf [108, 10] = 2 ∧ toOverrun Pm.Dev2.ToBufP.fullDev.toBuf [108, 10] = true := by
  have h : toDropped Pm.Dev2.ToBufP.fullDev.toBuf [108, 10] = 2 := by
    unfold toDropped; rw [List.length_append, Pm.Dev2.ToBufP.fullDev_len]; rfl
  exact ⟨h, (toOverrun_iff _ _).mpr (by rw [h]; decide)⟩

end Pm.Props.C07
