import Pm.ClientStream
import Pm.TablesCheck
/-! # C15 — what powermand writes to a client is a grammatical stream of protocol lines

"Everything powermand writes to a client is a sequence of CRLF-terminated lines `NNN text` with NNN among the documented
1xx/2xx/3xx codes, starting with the 001 banner and a prompt; 3xx lines appear only between a request and its terminal
line, a prompt appears only directly after the banner or a terminal line."

The structure of the output is made explicit by `render : List Item → Bytes` (`Item.line code text` ↦ `NNN␠text\r\n`,
`Item.prompt` ↦ `powerman> `): every function of `client.c` that appends to a client's `to` buffer is shown to append
`render items` for an item list of the right shape.  An item is a *single* protocol line only if its text is `clean`
(contains neither CR nor LF); lines with fixed text are proved clean, lines that embed data (node names, host ranges,
device names, captured device text) are clean when the embedded data is.  That is where the property is genuinely open:

* known finding F16 — a `303` line of a temperature reply embeds the captured device text raw (`C15_stream_counterexample`);
* the ranged strings come out of `hostlist_sort` + `hostlist_ranged_string`, whose output alphabet is not characterised here
  (the sort mirror is total and proved to permute the names, `Props/C14.lean`, but no lemma yet says its strings are clean);
* the telemetry line passes through `String.replace` (substitution of the device name).

So the preservation theorems carry the hypothesis "the data-carrying lines of this step are clean" and are named
`…_partial`.  Helper lemmas: `Pm/ClientProof.lean`, `Pm/ClientStream.lean`.

Ranking: shape of every immediate reply (done) ▸ banner (done) ▸ shape of the completion path (done) ▸ device payloads:
`dbg_memstr` printable (done), `setresult` diagnostic cut at CR/LF (done), raw capture in `303` (counterexample, F16) ▸
stream grammar preserved by every step of a client's share of a pass (done, `_partial`) ▸ the inductive statement over
whole runs with the bytes written in earlier passes (not done: needs a ghost history of `write(2)` per client). -/
namespace Pm.Props.C15
open Pm Pm.Daemon Pm.Client Pm.Daemon.ClientPf

/-! ## the grammar -/

/-- The recogniser (`srun`, `sstep` in `Pm/ClientStream.lean`) accepts exactly the prefixes of
    `banner prompt (3xx | 208 | terminal prompt?)*`: the first item is a line with code 001, the second the prompt; every
    later line has a documented code (301–309, 208, or a terminal code 101–105, 201–205, 209–211, 213); a prompt is accepted
    only directly after a terminal line other than 208. -/
example : wfStream [.line 1 (bstr "2.4.4"), .prompt, .line 306 (bstr "t[1-2]"), .line 103 (bstr "Query complete"), .prompt,
    .line 208 (bstr "Command in progress"), .line 305 (bstr "send(d): 'on 1\\n'"), .line 102 (bstr "Command completed successfully"),
    .prompt, .line 101 (bstr "Goodbye")] = true := by decide
/-- no banner -/
example : wfStream [.prompt] = false := by decide
/-- a prompt after an informational line -/
example : wfStream [.line 1 [], .prompt, .line 306 [], .prompt] = false := by decide
/-- a prompt after `208` -/
example : wfStream [.line 1 [], .prompt, .line 208 [], .prompt] = false := by decide
/-- two prompts in a row -/
example : wfStream [.line 1 [], .prompt, .line 103 [], .prompt, .prompt] = false := by decide
/-- an undocumented code -/
example : wfStream [.line 1 [], .prompt, .line 212 []] = false := by decide

/-- `StreamOK bytes`: the bytes are `render items` for a grammatical item list that has got past banner and first prompt
    and whose every line is clean — in particular they tokenise into CRLF-terminated lines and prompts in that one way -/
theorem C15_streamOK_wf (bytes : Bytes) (h : StreamOK bytes) :
    ∃ items, bytes = render items ∧ wfStream items = true ∧ ∀ i ∈ items, i.clean = true :=
  h.wf

/-! ## the banner -/

/-- the `accept` branch of `cli_post_poll` appends a client whose output buffer is the `001` banner with the version
    string, then the prompt — and nothing else happens to the client list there (the per-client handling follows) -/
theorem C15_banner (w : W) (envs : List FdEnv) :
    cliPostPoll w 1 envs =
      (cliAccept { w with sys := [], caps := envs.map fun (e : FdEnv) => (e.fd, e.cap) } 1).clients.foldl (cliStep envs)
        (cliAccept { w with sys := [], caps := envs.map fun (e : FdEnv) => (e.fd, e.cap) } 1) ∧
    (cliAccept w 1).clients = w.clients ++ [newClient w] ∧
    (newClient w).toBuf = render [Item.line 1 w.cfg.version, Item.prompt] ∧
    (newClient w).cmd = none ∧ (newClient w).quit = false :=
  ⟨cliPostPoll_eq w 1 envs, rfl, newClient_banner w, rfl, rfl⟩

/-- so a new client starts with a grammatical stream, provided the version string is one line -/
theorem C15_banner_stream (w : W) (hv : cleanText w.cfg.version = true) : StreamOK (newClient w).toBuf :=
  banner_streamOK w hv

example : ((cliPostPoll Ex.world 1 []).clients.map (·.toBuf)) = [bstr "001 2.4.4\r\npowerman> "] := by decide +kernel

/-! ## immediate replies (`_parse_input`) -/

/-- One request line: unless the process is gone, the client's cumulative output grows by `render items` where `items` is
    empty (a command was installed) or `3xx* terminal [prompt]`; every line of `items` that does not embed data (code
    other than 304, 306, 307, 209) is a clean line with fixed text; and if the data-carrying lines are clean too, a
    grammatical stream stays grammatical.  (`pre` stands for the bytes written to the descriptor in earlier passes.)

    Full statement: the same without the hypothesis `DataClean dataCodesP items`.  The hypothesis is extra because the
    texts of 304/306/307/209 lines are built from configured names by `hostlist_ranged_string`/`hostlist_sort`, whose
    output alphabet is not characterised here; it excludes configurations whose node, plug or device names contain CR or LF. -/
theorem C15_request_preserves_stream_partial (pre : Bytes) (w : W) (c : Cli) (line : Bytes) (h : StreamOK (pre ++ outOf w c)) :
    (parseLine w c line).1.exited = true ∨
    (∃ items, outOf (parseLine w c line).1 (parseLine w c line).2 = outOf w c ++ render items ∧
      (items = [] ∨ Reply infoCodesP termCodesP (promptAfter (parseLine w c line).2.quit) items) ∧
      FixedClean dataCodesP items ∧
      (DataClean dataCodesP items → StreamOK (pre ++ outOf (parseLine w c line).1 (parseLine w c line).2))) :=
  parseLine_stream pre w c line h

/-- the `help` text is fifteen clean `301` lines -/
theorem C15_help_lines : helpText = render helpItems ∧ helpItems.length = 15 ∧
    (∀ i ∈ helpItems, i.lineIn [301] = true) ∧ (∀ i ∈ helpItems, i.clean = true) :=
  ⟨helpText_eq, rfl, by decide +kernel, helpItems_clean⟩

/-- the reply to `device` is `304` lines only (then `103`) -/
theorem C15_device_lines (w : W) (arg : Option Bytes) (b : Bytes) (h : deviceReply w arg = some b) :
    ∃ items, b = render items ∧ ∀ i ∈ items, i.lineIn [304] = true :=
  deviceReply_some w arg b h

/-! ## a client's whole share of a pass (`_handle_read`, `_handle_write`, `_handle_input`) -/

/-- If the client survives the pass, its cumulative output grew by exactly one answer chunk per complete request line —
    whatever was read, written or half-written in between (`_handle_write` only moves bytes from the buffer to the
    descriptor) — and, the data-carrying lines being clean, a grammatical stream stays grammatical.
    Full statement: without the hypothesis on the data-carrying lines (see `C15_request_preserves_stream_partial`). -/
theorem C15_client_pass_preserves_stream_partial (w : W) (c : Cli) (e : Option FdEnv) (c' : Cli)
    (h : (clientPass w c e).2 = some c') :
    (clientPass w c e).1.exited = true ∨
    ∃ chunks : List (List Item), outOf (clientPass w c e).1 c' = outOf w c ++ render chunks.flatten ∧
      (∀ ch ∈ chunks, AnswerChunk ch) ∧
      ∀ pre, StreamOK (pre ++ outOf w c) → (∀ ch ∈ chunks, DataClean dataCodesP ch) →
        StreamOK (pre ++ outOf (clientPass w c e).1 c') :=
  clientPass_stream w c e c' h

/-! ## the completion path (`_act_finish` and the telemetry / diagnostic callbacks) -/

/-- The final reply is the rendering of its items: informational lines with codes 302/303 only, then one terminal line with
    code 102, 103, 210 or 211 and fixed, clean text. -/
theorem C15_final_reply_items (exprange : Bool) (k : CmdC) :
    finalReply exprange k = (finalInfos exprange k).map (fun infos => render (infos ++ [finalTerm k])) ∧
    (∀ infos, finalInfos exprange k = some infos → ∀ i ∈ infos, i.lineIn [302, 303] = true) ∧
    (∃ code text, finalTerm k = Item.line code text ∧ code ∈ [102, 103, 210, 211] ∧ cleanText text = true) :=
  ⟨finalReply_eq exprange k, fun infos h => finalInfos_info exprange k infos h, finalTerm_spec k⟩

/-- Whatever a device pass reports (`outs`: completions, telemetry, diagnostics, in any number and order), every client's
    buffer only gets a sequence of chunks appended, each either *progress* (305, 308, 309 lines) or a *final reply*
    (`308? (302|303)* terminal prompt`); no other field of the client changes except `cmd`, nothing else in the world
    changes; and if the appended lines are clean, a grammatical stream stays grammatical.

    Full statement: without `∀ i ∈ items, i.clean`.  The hypothesis is extra because these lines embed device names
    (308), ranged strings from `hostlist_sort` (302, 303), text run through `String.replace` (305) and — the real hole —
    captured device text (303 of a temperature query, F16: `C15_stream_counterexample`). -/
theorem C15_completion_preserves_stream_partial (w : W) (name : Bytes) (outs : List Pm.Dev2.Out) :
    ∃ G : Cli → Cli, (applyOuts w name outs).1.clients = w.clients.map G ∧
      ∀ x, ∃ items, Appends x (G x) items ∧ Chunks items ∧
        ∀ pre, StreamOK (pre ++ x.toBuf) → (∀ i ∈ items, i.clean = true) → StreamOK (pre ++ (G x).toBuf) :=
  applyOuts_stream w name outs

/-- the same for a single `_act_finish` -/
theorem C15_act_finish_preserves_stream_partial (w : W) (id : Nat) (err : Pm.Dev2.ActErr) (name : Bytes) :
    ∃ G : Cli → Cli, (actFinish w id err name).1.clients = w.clients.map G ∧
      ∀ x, ∃ items, Appends x (G x) items ∧ Chunks items ∧
        ∀ pre, StreamOK (pre ++ x.toBuf) → (∀ i ∈ items, i.clean = true) → StreamOK (pre ++ (G x).toBuf) :=
  actFinish_stream w id err name

example : ((applyOuts Ex.busyWorld (bstr "d") [.diag 1 (bstr "t1: bad"), .finish 1 .success]).1.clients.map (·.toBuf)) =
    [render [.line 309 (bstr "t1: bad"), .line 102 (bstr "Command completed successfully"), .prompt]] := by decide +kernel

/-! ## payloads from the device side -/

/-- `dbg_memstr` turns any bytes into printable ASCII (32…126): the text inside `send(dev): '…'` / `recv(dev): '…'`
    telemetry can never contain CR, LF or any control byte, whatever the device sent -/
theorem C15_memstr_clean (bs : Bytes) : ∀ x ∈ Pm.Dev2.memstr bs, 32 ≤ x.toNat ∧ x.toNat ≤ 126 :=
  memstr_print bs

example : Pm.Dev2.memstr [13, 10, 0, 255, 65] = bstr "\\r\\n\\000\\377A" := by decide +kernel

/-- hence every telemetry text built by `teleMem` is one clean line (its prefix being one) -/
theorem C15_telemetry_clean (cid : Nat) (pre : String) (bs : Bytes) (hp : cleanText (Pm.Dev2.str pre) = true) :
    ∀ o ∈ Pm.Dev2.teleMem cid pre bs, ∀ c t, o = Pm.Dev2.Out.telemetry c t → cleanText t = true :=
  teleMem_clean cid pre bs hp

/-- The `309` diagnostic of `setresult` is `node: text` where `node` is the node name of one of the device's plugs and
    `text` — the captured status — is cut at the first CR or LF and at 1023 bytes: the part after the node name can never
    break the line. -/
theorem C15_diag_clean (d : Pm.Dev2.Dev) (a : Pm.Dev2.Action) (o : Pm.Dev2.Oracle) (p s : Int)
    (i : List (Pm.Dev2.PResult × Nat)) :
    ∀ x ∈ (Pm.Dev2.stmtSetresult d a o p s i).out, ∀ c t, x = Pm.Dev2.Out.diag c t →
      ∃ node txt, t = node ++ Pm.Dev2.str ": " ++ txt ∧ cleanText txt = true ∧ txt.length ≤ 1023 ∧
        ∃ pl ∈ d.plugs, pl.node = some node :=
  setresult_diag d a o p s i

/-- The `303` lines of a temperature reply are clean lines, *whatever the device's captured values are* (they are shown up
    to their first CR or LF: fix F16), provided the node names and the ranged string of the nodes without a value contain no
    CR/LF (configuration data through the hostlist mirror: the remaining proviso). -/
theorem C15_stream_values (ex : Bool) (k : CmdC) (infos : List Item) (hcom : k.com = .temp)
    (h : finalInfos ex k = some infos)
    (hn : ∀ a ∈ entriesOf k, cleanText (ofChars a.node) = true)
    (hr : ∀ r, sortedRanged (((entriesOf k).filter (·.val.isNone)).map (·.node)) = some r → cleanText r = true) :
    ∀ i ∈ infos, i.clean = true :=
  finalInfos_temp_clean ex k infos hcom h hn hr

/-- the value shown is clean for any bytes -/
theorem C15_value_clean (v : Bytes) : cleanText (firstLine v) = true := firstLine_clean v

/-- F16 as it was found (a captured value `1\r\n102 x` forged a terminal line inside the reply): after the fix the reply is
    one `303` line and the real terminal line. -/
theorem C15_stream_f16_fixed :
    finalReply false f16Cmd = some (render [Item.line 303 (bstr "n: 1"), Item.line 103 (bstr "Query complete")]) :=
  finalReply_not_forged

/-- Every reply format of `client_proto.h` — regenerated from the source on every run — is a non-empty sequence of complete
    `NNN␠text CRLF` lines with `NNN` among the documented codes and nothing after the last CRLF (decided by the kernel over the
    whole table), and the reply texts the model writes are those of the header. -/
theorem C15_proto_table_wf : Pm.Generated.protoTable.all (fun p => Pm.TablesCheck.fmtOK p.1 p.2) = true := Pm.TablesCheck.proto_wf
theorem C15_proto_table_nonempty : (Pm.Generated.protoTable.filter fun p => Pm.TablesCheck.isReply p.1).length ≥ 25 := Pm.TablesCheck.proto_replies_present

end Pm.Props.C15
