import Pm.ClientStream
import Pm.TablesCheck
import Pm.StreamWhole
import Pm.StreamReplace
/-! # C15 — what powermand writes to a client is a grammatical stream of protocol lines

"Everything powermand writes to a client is a sequence of CRLF-terminated lines `NNN text` with NNN among the documented
1xx/2xx/3xx codes, starting with the 001 banner and a prompt; 3xx lines appear only between a request and its terminal
line, a prompt appears only directly after the banner or a terminal line."

The structure of the output is made explicit by `render : List Item → Bytes` (`Item.line code text` ↦ `NNN␠text\r\n`,
`Item.prompt` ↦ `powerman> `): every function of `client.c` that appends to a client's `to` buffer is shown to append
`render items` for an item list of the right shape.  An item is a *single* protocol line only if its text is `clean`
(contains neither CR nor LF); lines with fixed text are proved clean, lines that embed data (node names, host ranges,
device names, captured device text) are clean when the embedded data is.  That is where the property was open for the
per-step theorems of the first sections:

* known finding F16 — a `303` line of a temperature reply embedded the captured device text raw (fixed: `C15_stream_f16_fixed`);
* the ranged strings come out of `hostlist_sort` + `hostlist_ranged_string`, whose output alphabet those sections do not
  characterise;
* the telemetry line passes through `String.replace` (substitution of the device name).

So the per-step preservation theorems of the first sections carry the hypothesis "the data-carrying lines of this step are
clean" and are named `…_partial`.  Helper lemmas: `Pm/ClientProof.lean`, `Pm/ClientStream.lean`.

The last section ("whole runs") closes these gaps and does the induction over runs.  With a ghost history of what every pass handed to `write(2)`
(`histOf`), the per-client invariant `SInv` is shown to hold for every client of every world reachable from start-up by
any list of pass inputs (`C15_run`, no hypothesis about data), and — the configuration being free of CR/LF (`Good`, which
the run preserves) — every line of every stream is a clean protocol line (`C15_run_clean`, `C15_run_streamOK`), the `305`
telemetry line included, whose text goes through `String.replace` (`C15_replace_clean`).  What was written to the
descriptor of a client that is gone is covered too (`C15_run_departed`).  The hostlist mirror's alphabet is characterised
on the way (`C15_ranged_string_clean`, `C15_sort_clean`, `C15_request_names_clean`).
Helper lemmas: `Pm/StreamClean.lean`, `StreamLine.lean`, `StreamRun.lean`, `StreamDev.lean`, `StreamCount.lean`,
`StreamWhole.lean`, `StreamReplace.lean`.

Ranking: shape of every immediate reply (done) ▸ banner (done) ▸ shape of the completion path (done) ▸ device payloads:
`dbg_memstr` printable (done), `setresult` diagnostic cut at CR/LF (done), raw capture in `303` (counterexample, F16) ▸
stream grammar preserved by every step of a client's share of a pass (done) ▸ the inductive statement over whole runs with
the bytes written in earlier passes (done: `C15_run`) ▸ cleanliness of the data-carrying lines through the hostlist
mirror and through `String.replace` (done: `C15_run_clean`) ▸ no telemetry/diagnostic line for an idle client (done:
the ledger between device queues and `pending`, `C15_ledger`; so `AtPrompt` is "the stream ends with the prompt").

The proviso of the property ("as long as unsent output stays below the 1 MiB buffer") is carried by the *model*, not by
the theorems: `put` appends to an unbounded `toBuf`, the model never drops a byte queued for a client, so the theorems
need no such hypothesis.  In C `_client_printf` → `cbuf_write(c->to, …, &dropped)` overwrites the oldest unsent bytes once
`to` has reached `MAX_CLIENT_BUF` (and logs "dropped %d chars"): there the stream loses bytes from its middle and model and
code part ways.  (The overflow theorems of `Props/C09` are about the *input* buffers.) -/
namespace Pm.Props.C15
open Pm Pm.Daemon Pm.Client Pm.Daemon.ClientPf

/-! ## the grammar -/

/-- The recogniser (`srun`, `sstep` in `Pm/ClientStream.lean`) accepts exactly the prefixes of
    `banner prompt (3xx | 208 | terminal prompt?)*`: the first item is a line with code 001, the second the prompt; every
    later line has a documented code (301–309, 208, or a terminal code 101–105, 201–205, 209–211, 213); a prompt is accepted
    only directly after a terminal line other than 208. -/
example : wfStream [.line 1 (bstr "2.4.4"), .prompt, .line 306 (bstr "t[1-2]"), .line 103 (bstr "Query complete"), .prompt,
    .line 208 (bstr "Command in progress"), .line 305 (bstr "send(d): 'on 1\\n'"), .line 102 (bstr "Command completed successfully"),
    .prompt, .line 101 (bstr "Goodbye")] = true := by decide
/-- no banner -/
example : wfStream [.prompt] = false := by decide
/-- a prompt after an informational line -/
example : wfStream [.line 1 [], .prompt, .line 306 [], .prompt] = false := by decide
/-- a prompt after `208` -/
example : wfStream [.line 1 [], .prompt, .line 208 [], .prompt] = false := by decide
/-- two prompts in a row -/
example : wfStream [.line 1 [], .prompt, .line 103 [], .prompt, .prompt] = false := by decide
/-- an undocumented code -/
example : wfStream [.line 1 [], .prompt, .line 212 []] = false := by decide

/-- `StreamOK bytes`: the bytes are `render items` for a grammatical item list that has got past banner and first prompt
    and whose every line is clean — in particular they tokenise into CRLF-terminated lines and prompts in that one way -/
theorem C15_streamOK_wf (bytes : Bytes) (h : StreamOK bytes) :
    ∃ items, bytes = render items ∧ wfStream items = true ∧ ∀ i ∈ items, i.clean = true :=
  h.wf

/-! ## the banner -/

/-- the `accept` branch of `cli_post_poll` appends a client whose output buffer is the `001` banner with the version
    string, then the prompt — and nothing else happens to the client list there (the per-client handling follows) -/
theorem C15_banner (w : W) (envs : List FdEnv) :
    cliPostPoll w 1 envs =
      (cliAccept { w with sys := [], caps := envs.map fun (e : FdEnv) => (e.fd, e.cap) } 1).clients.foldl (ClientPf.cliStep envs)
        (cliAccept { w with sys := [], caps := envs.map fun (e : FdEnv) => (e.fd, e.cap) } 1) ∧
    (cliAccept w 1).clients = w.clients ++ [newClient w] ∧
    (newClient w).toBuf = render [Item.line 1 w.cfg.version, Item.prompt] ∧
    (newClient w).cmd = none ∧ (newClient w).quit = false :=
  ⟨cliPostPoll_eq w 1 envs, rfl, newClient_banner w, rfl, rfl⟩

/-- so a new client starts with a grammatical stream, provided the version string is one line -/
theorem C15_banner_stream (w : W) (hv : cleanText w.cfg.version = true) : StreamOK (newClient w).toBuf :=
  banner_streamOK w hv

example : ((cliPostPoll Ex.world 1 []).clients.map (·.toBuf)) = [bstr "001 2.4.4\r\npowerman> "] := by decide +kernel

/-! ## immediate replies (`_parse_input`) -/

/-- One request line: unless the process is gone, the client's cumulative output grows by `render items` where `items` is
    empty (a command was installed) or `3xx* terminal [prompt]`; every line of `items` that does not embed data (code
    other than 304, 306, 307, 209) is a clean line with fixed text; and if the data-carrying lines are clean too, a
    grammatical stream stays grammatical.  (`pre` stands for the bytes written to the descriptor in earlier passes.)

    Full statement: the same without the hypothesis `DataClean dataCodesP items`.  The hypothesis is extra because the
    texts of 304/306/307/209 lines are built from configured names by `hostlist_ranged_string`/`hostlist_sort`, whose
    output alphabet is not characterised here; it excludes configurations whose node, plug or device names contain CR or LF. -/
theorem C15_request_preserves_stream_partial (pre : Bytes) (w : W) (c : Cli) (line : Bytes) (h : StreamOK (pre ++ outOf w c)) :
    (parseLine w c line).1.exited = true ∨
    (∃ items, outOf (parseLine w c line).1 (parseLine w c line).2 = outOf w c ++ render items ∧
      (items = [] ∨ Reply infoCodesP termCodesP (promptAfter (parseLine w c line).2.quit) items) ∧
      FixedClean dataCodesP items ∧
      (DataClean dataCodesP items → StreamOK (pre ++ outOf (parseLine w c line).1 (parseLine w c line).2))) :=
  parseLine_stream pre w c line h

/-- the `help` text is fifteen clean `301` lines -/
theorem C15_help_lines : helpText = render helpItems ∧ helpItems.length = 15 ∧
    (∀ i ∈ helpItems, i.lineIn [301] = true) ∧ (∀ i ∈ helpItems, i.clean = true) :=
  ⟨helpText_eq, rfl, by decide +kernel, helpItems_clean⟩

/-- the reply to `device` is `304` lines only (then `103`) -/
theorem C15_device_lines (w : W) (arg : Option Bytes) (b : Bytes) (h : deviceReply w arg = some b) :
    ∃ items, b = render items ∧ ∀ i ∈ items, i.lineIn [304] = true :=
  deviceReply_some w arg b h

/-! ## a client's whole share of a pass (`_handle_read`, `_handle_write`, `_handle_input`) -/

/-- If the client survives the pass, its cumulative output grew by exactly one answer chunk per complete request line —
    whatever was read, written or half-written in between (`_handle_write` only moves bytes from the buffer to the
    descriptor) — and, the data-carrying lines being clean, a grammatical stream stays grammatical.
    Full statement: without the hypothesis on the data-carrying lines (see `C15_request_preserves_stream_partial`). -/
theorem C15_client_pass_preserves_stream_partial (w : W) (c : Cli) (e : Option FdEnv) (c' : Cli)
    (h : (clientPass w c e).2 = some c') :
    (clientPass w c e).1.exited = true ∨
    ∃ chunks : List (List Item), outOf (clientPass w c e).1 c' = outOf w c ++ render chunks.flatten ∧
      (∀ ch ∈ chunks, AnswerChunk ch) ∧
      ∀ pre, StreamOK (pre ++ outOf w c) → (∀ ch ∈ chunks, DataClean dataCodesP ch) →
        StreamOK (pre ++ outOf (clientPass w c e).1 c') :=
  clientPass_stream w c e c' h

/-! ## the completion path (`_act_finish` and the telemetry / diagnostic callbacks) -/

/-- The final reply is the rendering of its items: informational lines with codes 302/303 only, then one terminal line with
    code 102, 103, 210 or 211 and fixed, clean text. -/
theorem C15_final_reply_items (exprange : Bool) (k : CmdC) :
    finalReply exprange k = (finalInfos exprange k).map (fun infos => render (infos ++ [finalTerm k])) ∧
    (∀ infos, finalInfos exprange k = some infos → ∀ i ∈ infos, i.lineIn [302, 303] = true) ∧
    (∃ code text, finalTerm k = Item.line code text ∧ code ∈ [102, 103, 210, 211] ∧ cleanText text = true) :=
  ⟨finalReply_eq exprange k, fun infos h => finalInfos_info exprange k infos h, finalTerm_spec k⟩

/-- Whatever a device pass reports (`outs`: completions, telemetry, diagnostics, in any number and order), every client's
    buffer only gets a sequence of chunks appended, each either *progress* (305, 308, 309 lines) or a *final reply*
    (`308? (302|303)* terminal prompt`); no other field of the client changes except `cmd`, nothing else in the world
    changes; and if the appended lines are clean, a grammatical stream stays grammatical.

    Full statement: without `∀ i ∈ items, i.clean`.  The hypothesis is extra because these lines embed device names
    (308), ranged strings from `hostlist_sort` (302, 303), text run through `String.replace` (305) and — the real hole —
    captured device text (303 of a temperature query, F16: `C15_stream_counterexample`). -/
theorem C15_completion_preserves_stream_partial (w : W) (name : Bytes) (outs : List Pm.Dev2.Out) :
    ∃ G : Cli → Cli, (applyOuts w name outs).1.clients = w.clients.map G ∧
      ∀ x, ∃ items, Appends x (G x) items ∧ Chunks items ∧
        ∀ pre, StreamOK (pre ++ x.toBuf) → (∀ i ∈ items, i.clean = true) → StreamOK (pre ++ (G x).toBuf) :=
  applyOuts_stream w name outs

/-- the same for a single `_act_finish` -/
theorem C15_act_finish_preserves_stream_partial (w : W) (id : Nat) (err : Pm.Dev2.ActErr) (name : Bytes) :
    ∃ G : Cli → Cli, (actFinish w id err name).1.clients = w.clients.map G ∧
      ∀ x, ∃ items, Appends x (G x) items ∧ Chunks items ∧
        ∀ pre, StreamOK (pre ++ x.toBuf) → (∀ i ∈ items, i.clean = true) → StreamOK (pre ++ (G x).toBuf) :=
  actFinish_stream w id err name

example : ((applyOuts Ex.busyWorld (bstr "d") [.diag 1 (bstr "t1: bad"), .finish 1 .success]).1.clients.map (·.toBuf)) =
    [render [.line 309 (bstr "t1: bad"), .line 102 (bstr "Command completed successfully"), .prompt]] := by decide +kernel

/-! ## payloads from the device side -/

/-- `dbg_memstr` turns any bytes into printable ASCII (32…126): the text inside `send(dev): '…'` / `recv(dev): '…'`
    telemetry can never contain CR, LF or any control byte, whatever the device sent -/
theorem C15_memstr_clean (bs : Bytes) : ∀ x ∈ Pm.Dev2.memstr bs, 32 ≤ x.toNat ∧ x.toNat ≤ 126 :=
  memstr_print bs

example : Pm.Dev2.memstr [13, 10, 0, 255, 65] = bstr "\\r\\n\\000\\377A" := by decide +kernel

/-- hence every telemetry text built by `teleMem` is one clean line (its prefix being one) -/
theorem C15_telemetry_clean (cid : Nat) (pre : String) (bs : Bytes) (hp : cleanText (Pm.Dev2.str pre) = true) :
    ∀ o ∈ Pm.Dev2.teleMem cid pre bs, ∀ c t, o = Pm.Dev2.Out.telemetry c t → cleanText t = true :=
  teleMem_clean cid pre bs hp

/-- The `309` diagnostic of `setresult` is `node: text` where `node` is the node name of one of the device's plugs and
    `text` — the captured status — is cut at the first CR or LF and at 1023 bytes: the part after the node name can never
    break the line. -/
theorem C15_diag_clean (d : Pm.Dev2.Dev) (a : Pm.Dev2.Action) (o : Pm.Dev2.Oracle) (p s : Int)
    (i : List (Pm.Dev2.PResult × Nat)) :
    ∀ x ∈ (Pm.Dev2.stmtSetresult d a o p s i).out, ∀ c t, x = Pm.Dev2.Out.diag c t →
      ∃ node txt, t = node ++ Pm.Dev2.str ": " ++ txt ∧ cleanText txt = true ∧ txt.length ≤ 1023 ∧
        ∃ pl ∈ d.plugs, pl.node = some node :=
  setresult_diag d a o p s i

/-- The `303` lines of a temperature reply are clean lines, *whatever the device's captured values are* (they are shown up
    to their first CR or LF: fix F16), provided the node names and the ranged string of the nodes without a value contain no
    CR/LF (configuration data through the hostlist mirror: the remaining proviso). -/
theorem C15_stream_values (ex : Bool) (k : CmdC) (infos : List Item) (hcom : k.com = .temp)
    (h : finalInfos ex k = some infos)
    (hn : ∀ a ∈ entriesOf k, cleanText (ofChars a.node) = true)
    (hr : ∀ r, sortedRanged (((entriesOf k).filter (·.val.isNone)).map (·.node)) = some r → cleanText r = true) :
    ∀ i ∈ infos, i.clean = true :=
  finalInfos_temp_clean ex k infos hcom h hn hr

/-- the value shown is clean for any bytes -/
theorem C15_value_clean (v : Bytes) : cleanText (firstLine v) = true := firstLine_clean v

/-- F16 as it was found (a captured value `1\r\n102 x` forged a terminal line inside the reply): after the fix the reply is
    one `303` line and the real terminal line. -/
theorem C15_stream_f16_fixed :
    finalReply false f16Cmd = some (render [Item.line 303 (bstr "n: 1"), Item.line 103 (bstr "Query complete")]) :=
  finalReply_not_forged

/-- Every reply format of `client_proto.h` — regenerated from the source on every run — is a non-empty sequence of complete
    `NNN␠text CRLF` lines with `NNN` among the documented codes and nothing after the last CRLF (decided by the kernel over the
    whole table), and the reply texts the model writes are those of the header. -/
theorem C15_proto_table_wf : Pm.Generated.protoTable.all (fun p => Pm.TablesCheck.fmtOK p.1 p.2) = true := Pm.TablesCheck.proto_wf
theorem C15_proto_table_nonempty : (Pm.Generated.protoTable.filter fun p => Pm.TablesCheck.isReply p.1).length ≥ 25 := Pm.TablesCheck.proto_replies_present


/-! ## whole runs

`streamOf w0 ss c` is everything ever queued for client `c` when the passes `ps` have run from the start-up world `w0`:
what earlier passes handed to `write(2)` on its descriptor (`histOf`, a ghost record — the system-call log `w.sys` is
reset at the beginning of every pass), what the last pass wrote, and what still waits in `to`.  A pass of a run (`Step`) is the
shared `Pm.Daemon.PassX` of `Pm/RunX.lean` — the kernel's answers `p` and the regex answers `rx` recorded for that pass, so the
regex engine's answers are arbitrary in every pass — and `runX` is the shared `Pm.Daemon.runX` (the same runs as in C02, C03,
C05, C06, C11). -/

open Pm.Daemon.StreamPf

/-- a run without regex answers is a run of `runPasses` -/
theorem C15_run_plain (w : W) (ps : List PassIn) : runX w (ps.map fun p => ⟨p, []⟩) = runPasses w ps := runX_runPasses w ps

/-- the ghost record is empty at start-up and grows, when a pass begins, by what the log of the world says was written -/
theorem C15_history (w0 : W) (ss : List Step) (p : Step) (fd : Nat) :
    histOf w0 [] fd = [] ∧ histOf w0 (ss ++ [p]) fd = histOf w0 ss fd ++ written (runX w0 ss).sys fd :=
  ⟨rfl, histOf_snoc w0 ss p fd⟩

/-- The *strict* recogniser `trun` accepts `001 prompt ((3xx|208)* terminal prompt)* (3xx|208)*`: every terminal line
    (other than 208) is followed at once by the prompt.  It is the language of a client that has not quit; the lax
    recogniser `srun`/`wfStream` above also covers replies without prompt (after `quit` or end of file). -/
example : strictStream [.line 1 (bstr "2.4.4"), .prompt, .line 306 (bstr "t[1-2]"), .line 103 (bstr "Query complete"), .prompt,
    .line 208 (bstr "Command in progress"), .line 305 (bstr "send(d): 'on 1\\n'"), .line 102 (bstr "Command completed successfully"),
    .prompt] = true := by decide
/-- a terminal line without prompt: lax yes, strict no -/
example : wfStream [.line 1 [], .prompt, .line 103 [], .line 103 []] = true ∧
    strictStream [.line 1 [], .prompt, .line 103 [], .line 103 []] = false := by decide
/-- stopping directly after a terminal line is not a state of a client that has not quit -/
example : strictStream [.line 1 [], .prompt, .line 103 []] = false := by decide
/-- the strict language is contained in the lax one -/
theorem C15_strict_lax (items : List Item) (h : strictStream items = true) : wfStream items = true := by
  have h : trun .start items = some .open := by simpa [strictStream] using h
  have h2 : srun .start items = some .noPrompt := trun_lax .start items .open h
  simp [wfStream, h2]

/-- **C15 over whole runs — structure.**  From start-up (no client, no client's action queued, id counter positive, empty log, no connection accepted yet), after
    any number of passes with any kernel answers (connections, reads, writes, short writes, errors, device traffic, regex
    answers, timeouts), for every client `c` of the world reached, everything ever queued for `c` is `render items` for an
    item list that

    * the recogniser accepts: `001` banner, prompt, then lines with documented codes, a prompt only directly after a terminal
      line other than 208;
    * as long as the client has not quit (`quit` command, end of file, i/o error) even the strict recogniser accepts, in the
      state where no prompt is owed: every terminal line so far was followed at once by the prompt;
    * ends with the prompt when the client is idle and has not quit (`AtPrompt`): the server is waiting for a request and
      has said so — in particular no `305`/`309` line of a device callback came after that prompt (`C15_ledger`).

    No hypothesis about configuration data or device behaviour.  (Lines are *items* here; that the text of an item contains
    no CR/LF, so that the items are the lines a reader of the bytes sees, is `C15_run_clean`.) -/
theorem C15_run (w0 : W) (hs : Startup w0) (ss : List Step) (c : Cli) (hc : c ∈ (runX w0 ss).clients) :
    ∃ items, streamOf w0 ss c = render items ∧ wfStream items = true ∧
      (c.quit = false → strictStream items = true) ∧ AtPrompt c items := by
  obtain ⟨items, e, ⟨s, h1, _⟩, h2, h3, _⟩ := stream_run False w0 hs (fun h => h.elim) ss c hc
  exact ⟨items, e, by simp [wfStream, h1], fun hq => by simp [strictStream, h2 hq], h3⟩

/-- **C15 over whole runs — every line is a line.**  If in addition the static data of the start-up world is free of CR/LF
    (`Good`: version string, configured node names — the node list being in the shape the hostlist constructors produce —,
    alias hosts, device names, nodes wired to plugs, specification names), then every item of every client's stream is a
    clean protocol line `NNN␠text CRLF` with no CR/LF inside `text`, and the target names of a command in progress are
    clean.  This covers the lines that embed data: `304`, `306`, `307` (configured names through `hostlist_sort` and
    `hostlist_ranged_string`), `209` (names out of the request, through `sscanf %s` and `hostlist_create`), `302`/`303`
    (targets of the command; captured device values cut at CR/LF), `308` (device names), `309` (plug nodes; captured text
    cut at CR/LF), `305` (`dbg_memstr` output, decimal numbers, fixed text, then `String.replace`). -/
theorem C15_run_clean (w0 : W) (hs : Startup w0) (hg : Good w0) (ss : List Step) (c : Cli) (hc : c ∈ (runX w0 ss).clients) :
    ∃ items, streamOf w0 ss c = render items ∧ wfStream items = true ∧
      (c.quit = false → strictStream items = true) ∧ AtPrompt c items ∧ (∀ i ∈ items, i.clean = true) ∧ CmdClean c := by
  obtain ⟨items, e, ⟨s, h1, _⟩, h2, h3, h4⟩ := stream_run True w0 hs (fun _ => hg) ss c hc
  exact ⟨items, e, by simp [wfStream, h1], fun hq => by simp [strictStream, h2 hq], h3,
    fun i hi => ((h4 trivial).1 i hi).2 replaceClean, (h4 trivial).2⟩

/-- `String.replace` (which puts the device name into a telemetry text) creates no CR/LF: decoding, replacing and encoding
    again gives bytes of the text and of the name (and the parentheses) only -/
theorem C15_replace_clean (name t : Bytes) (hn : cleanText name = true) (ht : cleanText t = true) :
    cleanText (teleText name t) = true :=
  replaceClean name t hn ht

/-- Hence, in the terms of the per-step theorems above: every client's cumulative output is `StreamOK` -/
theorem C15_run_streamOK (w0 : W) (hs : Startup w0) (hg : Good w0) (ss : List Step) (c : Cli)
    (hc : c ∈ (runX w0 ss).clients) : StreamOK (streamOf w0 ss c) :=
  (stream_run True w0 hs (fun _ => hg) ss c hc).streamOK replaceClean

/-- a concrete run: `A` with plug `1` ↦ `a1`; client 1 connects, is sent the banner, asks `nodes` and `help` in one read and
    is sent the replies in the next pass; client 2 connects, its descriptor takes 7 bytes, it asks `status a1` (accepted:
    a command is in progress), then `quit` and `nodes` (both answered `208`).  The hypotheses hold, … -/
example : Startup Ex.w0 ∧ Good Ex.w0 := ⟨Ex.startup, Ex.good⟩
/-- … two clients are live, one idle, one busy, none has quit, and their streams are spread over history, log and buffer -/
example : (runX Ex.w0 Ex.run).clients.map (fun c => (c.id, c.fd, c.quit, c.cmd.isSome)) = [(1, 1000, false, false), (2, 1001, false, true)] ∧
    histOf Ex.w0 Ex.run 1000 = bstr "001 2\r\npowerman> " ∧ histOf Ex.w0 Ex.run 1001 = [] ∧
    written (runX Ex.w0 Ex.run).sys 1001 = bstr "001 2\r\n" ∧
    (runX Ex.w0 Ex.run).clients.map (·.toBuf) = [[], bstr "powerman> 208 Command in progress\r\n208 Command in progress\r\n"] := by
  decide +kernel
example : ∀ c ∈ (runX Ex.w0 Ex.run).clients, ∃ items, streamOf Ex.w0 Ex.run c = render items ∧ wfStream items = true ∧
    (c.quit = false → strictStream items = true) ∧ AtPrompt c items ∧ (∀ i ∈ items, i.clean = true) ∧ CmdClean c :=
  fun c hc => C15_run_clean Ex.w0 Ex.startup Ex.good Ex.run c hc

/-- a run through the device phase (`IsolationProof.Two`): both clients ask `status a1`; the device answers client 1's
    action, the regex answers of pass 4 make `expect` and `setplugstate` succeed: client 1 gets its final reply and the
    prompt and is idle again, client 2 still waits (one action queued, `pending = 1`) -/
example : (runX Ex.w0 Ex.run2).clients.map (fun c => (c.id, c.cmd.isSome, queued (runX Ex.w0 Ex.run2).devs c.id, pend c)) =
      [(1, false, 0, 0), (2, true, 1, 1)] ∧
    (runX Ex.w0 Ex.run2).clients.map (streamOf Ex.w0 Ex.run2) =
      [bstr "001 2\r\npowerman> 302 on:      a1\r\n302 off:     \r\n302 unknown: \r\n103 Query complete\r\npowerman> ",
       bstr "001 2\r\npowerman> "] := by
  decide +kernel

/-- **The last words of a client that is gone.**  For a descriptor that was handed out (`1000 ≤ fd < 1000 + nacc`; numbers
    are not reused) and belongs to no live client, everything that was ever written to it is the beginning of a stream
    satisfying the per-client invariant for the record `c` the client had when it was destroyed; `rest` is what it had
    queued but was never sent.  (So the `101 Goodbye` flushed by `quit`, and whatever went out before a hang-up, obeys the
    grammar too; and with `Good` the lines are clean.) -/
theorem C15_run_departed (cl : Prop) (w0 : W) (hs : Startup w0) (hg : cl → Good w0) (ss : List Step) (fd : Nat) (h1 : 1000 ≤ fd)
    (h2 : fd < 1000 + (runX w0 ss).nacc) (h3 : ∀ c ∈ (runX w0 ss).clients, c.fd ≠ fd) :
    ∃ (c : Cli) (rest : Bytes) (items : List Item), writtenOf w0 ss fd ++ rest = render items ∧ wfStream items = true ∧
      (c.quit = false → strictStream items = true) ∧ (cl → ∀ i ∈ items, i.clean = true) := by
  obtain ⟨c, rest, items, e, ⟨s, h1, _⟩, h2, _, h4⟩ := departed_run cl w0 hs hg ss fd h1 h2 h3
  exact ⟨c, rest, items, e, by simp [wfStream, h1], fun hq => by simp [strictStream, h2 hq],
    fun hcl i hi => ((h4 hcl).1 i hi).2 replaceClean⟩

/-- client 1 sends `nodes`, `quit`, `nodes` in one read: the banner, the reply, `101 Goodbye` are written (the descriptor
    is made blocking), the client is destroyed in the same pass; the reply to the second `nodes` is never sent -/
example : (runX Ex.w0 [⟨Ex.p1, []⟩, ⟨Ex.pq, []⟩]).clients = [] ∧ (runX Ex.w0 [⟨Ex.p1, []⟩, ⟨Ex.pq, []⟩]).nacc = 1 ∧
    writtenOf Ex.w0 [⟨Ex.p1, []⟩, ⟨Ex.pq, []⟩] 1000 = bstr "001 2\r\npowerman> 306 a1\r\n103 Query complete\r\npowerman> 101 Goodbye\r\n" := by
  decide +kernel

/-! ### the invariant, step by step

`RunInv cl H w`: ids and descriptors of the live clients are pairwise distinct and below their counters, the ghost history
`H` is empty for descriptors not handed out yet, the static data is `Good` (when `cl`), every client satisfies the
per-client invariant `SInv` for `H c.fd ++ outOf w c`, so does what was written to the descriptor of every client that is
gone (`Departed`), and no client has more actions queued than its command waits for (the ledger). -/

/-- holds at start-up (there is no client) -/
theorem C15_inv_init (cl : Prop) (w0 : W) (hs : Startup w0) (hg : cl → Good w0) : RunInv cl (fun _ => []) w0 :=
  RunInv.init cl w0 hs.clients hs.acts hs.nextId hs.sys hs.nacc hg

/-- the start-up conditions, and the cleanliness of the static data, survive `dev_initial_connect` (which queues login
    actions and opens sockets): the runs above may start from the world after it -/
theorem C15_startup_initial_connect (w0 : W) (hs : Startup w0) (now : Nat) (con soe : List Nat) :
    Startup (initialConnect w0 now con soe).1 ∧ (Good w0 → Good (initialConnect w0 now con soe).1) :=
  ⟨hs.initialConnect now con soe, fun hg => hg.initialConnect now con soe⟩

/-- `Good` holds of a world whose node list was built the way the configuration parser builds it (`Built`: pushes and
    deletions from the empty list) from names without CR/LF, the other strings of the configuration containing none either.
    (A quoted string of `powerman.conf` may contain `\r` and `\n` — the lexer has escapes for them —: such a node, alias,
    device or plug name is what `Good` excludes.) -/
theorem C15_good_of_config (w : W) (hv : cleanText w.cfg.version = true) (hb : Built w.cfg.nodes)
    (hn : ∀ n ∈ expand w.cfg.nodes, cleanName n = true) (ha : ∀ a ∈ w.cfg.aliases, ∀ n ∈ a.2, cleanName n = true)
    (hd : GoodDevs w.devs) (hs : ∀ p ∈ w.specs, cleanText p.2 = true) : Good w :=
  Good.of_built w hv hb hn ha hd hs

/-- kept by `accept`: the new client's stream is the `001` banner and the prompt, on a descriptor without history -/
theorem C15_inv_accept (cl : Prop) (H : Hist) (w : W) (h : RunInv cl H w) (acc : Nat) : RunInv cl H (cliAccept w acc) :=
  h.accept acc

/-- kept by one client's turn in `cli_post_poll` (`_handle_read`, `_handle_write`, `_handle_input` with every request line,
    the record written back — or the client destroyed and unlinked) -/
theorem C15_inv_client_turn (cl : Prop) (H : Hist) (w : W) (h : RunInv cl H w) (envs : List FdEnv) (c0 : Cli) (hc0 : c0 ∈ w.clients) :
    RunInv cl H (ClientPf.cliStep envs w c0) :=
  h.cliStep envs c0 hc0

/-- the callbacks of a device (`_act_finish`, telemetry, diagnostics, in any number and order) extend every client's
    stream by an `Ext` step, the callback texts being clean (when `cl`) — provided every telemetry/diagnostic callback for a
    client comes while `pending` still covers a completion to come (`q`, `Fwd`: the ledger, `C15_device_ledger`); `pending`
    goes down by at most the number of completions delivered -/
theorem C15_inv_callbacks (cl : Prop) (w : W) (name : Bytes) (outs : List Pm.Dev2.Out) (hu : UniqueIds w.clients)
    (hname : cl → cleanText name = true) (houts : cl → OutsClean outs)
    (q : Nat → Nat) (hq : ∀ x ∈ w.clients, q x.id ≤ pend x) (hfwd : ∀ x ∈ w.clients, Pm.Dev2.Fwd x.id (q x.id) outs) :
    CliExt cl (fun cid => Pm.Dev2.fcount cid outs) w (applyOuts w name outs).1 :=
  applyOuts_ext cl w name outs hu hname houts q hq hfwd

/-- **The ledger, device half.**  Over one device's share of `dev_post_poll`, for every client id `cid ≠ 0`: the completions
    reported plus the actions still queued do not exceed the actions queued before, and before every telemetry or
    diagnostic callback for `cid` fewer completions for `cid` have been reported than it had actions queued: the text
    belongs to an action that is still at the head of the queue. -/
theorem C15_device_ledger (d : Pm.Dev2.Dev) (env : Pm.Dev2.Env) (o : Pm.Dev2.Oracle) (cid : Nat) (hc : cid ≠ 0) :
    Pm.Dev2.fcount cid (Pm.Dev2.postPoll d env o).2.2.1 + Pm.Dev2.qcount cid (Pm.Dev2.postPoll d env o).1.dev.acts
      ≤ Pm.Dev2.qcount cid d.acts ∧
    Pm.Dev2.Fwd cid (Pm.Dev2.qcount cid d.acts) (Pm.Dev2.postPoll d env o).2.2.1 :=
  Pm.Dev2.postPoll_ledger d env o cid hc

/-- **The ledger over whole runs.**  In every world reachable from start-up, no client has more actions queued on the
    devices than its command waits for (`pend c` = `pending` of the command, 0 when idle).  So an idle client has no
    action queued anywhere, and no completion, telemetry or diagnostic callback is addressed to it: `3xx` lines appear only
    while a command is in progress (or inside an immediate reply). -/
theorem C15_ledger (w0 : W) (hs : Startup w0) (ss : List Step) (c : Cli) (hc : c ∈ (runX w0 ss).clients) :
    queued (runX w0 ss).devs c.id ≤ pend c :=
  ledger_run w0 hs ss c hc

/-- and they are: whatever the device sends and the regex engine answers, the telemetry and diagnostic texts of one
    device's share of `dev_post_poll` contain no CR/LF, the nodes wired to the device's plugs containing none -/
theorem C15_device_callbacks_clean (d : Pm.Dev2.Dev) (env : Pm.Dev2.Env) (o : Pm.Dev2.Oracle) (hd : PlugsClean d) :
    OutsClean (Pm.Dev2.postPoll d env o).2.2.1 :=
  (postPoll_clean d env o hd).2

/-- kept by one device's share of `dev_post_poll` with its callbacks delivered (`worldAt a rest`: the world while the
    device phase has processed `a.devs` and still has `rest` to do) -/
theorem C15_inv_device_turn (cl : Prop) (H : Hist) (p : PassIn) (a : DevAcc) (nd : Bytes × Pm.Dev2.Dev) (rest : List (Bytes × Pm.Dev2.Dev))
    (h : RunInv cl H (Isolation.worldAt a (nd :: rest))) : RunInv cl H (Isolation.worldAt (devPass p a nd) rest) :=
  h.ofDevPass p a nd rest

/-- kept by a whole pass of the daemon loop; the history takes in the log the pass discards -/
theorem C15_inv_pass (cl : Prop) (H : Hist) (w : W) (h : RunInv cl H w) (p : PassIn) :
    RunInv cl (histNext H w) (daemonPass w p).1 :=
  h.ofDaemonPass p

/-- … also when regex answers are supplied before the pass -/
theorem C15_inv_step (cl : Prop) (H : Hist) (w : W) (h : RunInv cl H w) (st : Step) : RunInv cl (histNext H w) (passX w st) :=
  h.passX st

/-! ### the alphabet of the hostlist mirror, and of a request -/

/-- `hostlist_ranged_string` adds digits and `[ ] , -` to the stored prefixes: no CR/LF unless a prefix has one -/
theorem C15_ranged_string_clean (hl : Hostlist) (h : HLClean hl) : cleanName (rangedString hl) = true :=
  rangedString_clean hl h

/-- `hostlist_sort` keeps a list clean (it stands for the same names) -/
theorem C15_sort_clean (hl hl' : Hostlist) (hwf : HWFS hl) (hc : HLClean hl) (h : sortHL hl = .ok hl') : HLClean hl' :=
  sortHL_clean hl hl' hwf hc h

/-- the argument `sscanf("%s")` cuts out of a request line contains no white space, in particular no CR/LF; and the names
    `hostlist_create` makes of it are clean -/
theorem C15_request_names_clean (kw s a : Bytes) (hl : Hostlist) (h : scan kw s = some a) (hc : createR (toChars a) = .ok hl) :
    cleanText a = true ∧ ∀ n ∈ expand hl, cleanName n = true :=
  ⟨scan_clean kw s a h, expand_clean hl (createR_scan_clean kw s a hl h hc)⟩

example : scan kwOn (bstr "on t[1-2]\rx") = some (bstr "t[1-2]") := by decide +kernel

/-- the `302`/`303` lines of a final reply are clean when the target names are (whatever the devices reported) -/
theorem C15_final_reply_clean (ex : Bool) (k : CmdC) (infos : List Item) (h : finalInfos ex k = some infos)
    (hn : ∀ n ∈ k.names, cleanName n = true) : ∀ i ∈ infos, i.clean = true :=
  finalInfos_clean ex k infos h hn

/-- One request line, with the texts known: the process is gone (sort assertion), or the line is answered
    `3xx* terminal [prompt]` — `101` only with `quit` set, `208` only with a command in progress, and all lines clean if the
    static data is —, or a command is installed whose target names are clean; the static data stays clean. -/
theorem C15_request (cl : Prop) (w : W) (c : Cli) (line : Bytes) : LineOut cl w c (parseLine w c line) :=
  parseLine_out cl w c line

end Pm.Props.C15
