import Pm.Generated.SpecsAll
import Pm.TablesCheck
/-! # C17 — every shipped device specification loads and is format-safe

Proof by complete enumeration of a finite table, in the kernel.  `Pm/Generated/Specs/*.lean` is regenerated on every run
from `etc/devices/*.dev` and `t/etc/*.dev` by the *real* lexer, grammar, `makeDevice`/`makeStmt` and `regcomp`
(`harness/u_specdump.c`): a file the parser rejects, or a pattern that does not compile, never reaches this file — the
translator reports it.  `specOK` is the hand-written static predicate of `Pm/SpecCheck.lean`. -/
namespace Pm.Props.C17
open Pm.SpecCheck Pm.Generated

/-- Every shipped specification: a login script and a positive timeout exist; every send string contains no conversion other
    than at most one `%s` (or `%%`) and uses `%s` only where a plug argument exists (singlet and ranged kinds, or inside a
    foreach block); every `$N` of a `setplugstate`/`setresult` is a group of every expect that can be the last one executed
    before it (forward data-flow incl. loop back-edges) and fits the match object; an expect precedes every
    `setplugstate`/`setresult` on every path; `ifon`/`ifoff` occur only where exactly one plug is in context, and `foreachplug`/`foreachnode` only where no single plug is
    (they iterate the whole device, so inside a singlet script they would address plugs the request did not name: `C01_foreach_in_singlet_counterexample`). -/
theorem C17_all_shipped_ok : ∀ s ∈ shipped, specOK s = true := shipped_ok

/-- the enumeration is not empty: the repository ships this many specifications in this many files -/
theorem C17_enumerated : shipped.length = shippedCount ∧ 0 < shippedCount := by decide

/-- the script-kind sets the static check relies on are the ones the C switch tables define (regenerated from `device.c`) -/
theorem C17_kinds_from_source : ∀ c, c < 64 →
    plugArgKinds.contains c = ((allOf c).isSome || (rangedOf c).isSome || rangedKinds.contains c) :=
  Pm.TablesCheck.plugArgKinds_agrees

/-- the predicate is not trivially true: each clause rejects a minimal offending specification -/
example : specOK { name := "x", file := "", timeoutUs := 1, pingUs := 0, nplugs := 1, scripts := [(0, []), (7, [.send [37, 100]])] } = false := by decide +kernel
example : specOK { name := "x", file := "", timeoutUs := 1, pingUs := 0, nplugs := 1, scripts := [(0, []), (9, [.send [37, 115]])] } = false := by decide +kernel
example : specOK { name := "x", file := "", timeoutUs := 1, pingUs := 0, nplugs := 1, scripts := [(0, []), (7, [.expect 2, .setresult 1 3])] } = false := by decide +kernel
example : specOK { name := "x", file := "", timeoutUs := 1, pingUs := 0, nplugs := 1, scripts := [(0, []), (7, [.setresult 1 2])] } = false := by decide +kernel
example : specOK { name := "x", file := "", timeoutUs := 1, pingUs := 0, nplugs := 1, scripts := [(7, [])] } = false := by decide +kernel
example : specOK { name := "x", file := "", timeoutUs := 0, pingUs := 0, nplugs := 1, scripts := [(0, [])] } = false := by decide +kernel
example : specOK { name := "x", file := "", timeoutUs := 1, pingUs := 0, nplugs := 1, scripts := [(0, []), (9, [.ifon []])] } = false := by decide +kernel

example : specOK { name := "x", file := "", timeoutUs := 1, pingUs := 0, nplugs := 1, scripts := [(0, []), (10, [.foreachplug [.send [37, 115]]])] } = false := by decide +kernel

end Pm.Props.C17
