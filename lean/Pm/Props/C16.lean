import Pm.LibPmProof
/-! # C16 — the client library and the CLI survive any server

"For any byte stream a server may send, however segmented, every libpowerman call returns without memory-safety errors and
reports success only if the reply contained a success code, otherwise the error code matching the reply (or EOF/parse error);
`pm_node_status` yields ON or OFF only when the reply says so for that node, and node iteration yields exactly the nodes
listed.  The powerman CLI prints the reply text and exits 0 if and only if the request's terminal code was a success code."

The model is `Pm/LibPmModel.lean` (mirror of `libpowerman.c` and of the reply loop of `powerman.c`, as repaired: F7a, F7b, F20,
F21); the server is a list of `Chunk`s, one per `read`.  All theorems hold for every chunk list / byte string — no bound on
lengths.  Vocabulary (defined in `Pm/LibPmProof.lean`):

* `Segmentation ds s` — `ds` is a list of non-empty pieces whose concatenation is `s`; the script `ds.map .data ++ t`
  delivers `s` in those pieces and then behaves like `t`;
* `replyLines cs` — the lines `_parse_response` finds in the buffer the read loop returned (stream order);
* `IsLine l` — `l` is some bytes `x` followed by CRLF, with no CRLF inside `x` (`isLine_iff`);
* `RLine`/`Exch` — a reply line `NNN␠text\r\n` / one exchange of the CLI (lines, terminal line, prompt).

Ranking: termination (1) ▸ bounds (2) ▸ return code (4) ▸ status (5) ▸ nodes (6) ▸ line splitting (7) ▸ segmentation
independence (3) ▸ CLI exit status and output (8).  All done at full strength; see the notes at (3) and (4) for the
form of the "prompt only at the end" hypothesis. -/
namespace Pm.Props.C16
open Pm.LibPmModel

/-! ## 1. termination -/

/-- `_server_recv_response`: the fuel the model gives the read loop always suffices — any larger amount gives the same
    result, so the loop never leaves through its fuel-exhausted branch (every iteration consumes a byte or a chunk) -/
theorem C16_recv_terminates (cs : List Chunk) (fuel : Nat) (h : recvFuel cs ≤ fuel) :
    recvLoop fuel [] 0 cs = recvLoop (recvFuel cs) [] 0 cs :=
  recvLoop_fuel _ _ _ _ _ (Nat.le_refl _) (by unfold recvFuel at h; omega) (by unfold recvFuel; omega)

/-- `xreadstr`, `_expect`, `_process_response` with the fuel `cliRun` gives them never end with the model's `"fuel"` error -/
theorem C16_cli_loops_terminate (cs : List Chunk) (acc s : Bytes) (c : Cli) (fuel : Nat) (hc : chunkBytes c.cs < fuel) (hs : chunkBytes cs < fuel) :
    (readStr fuel acc cs).1 ≠ .error "fuel" ∧ (expect s cs).1 ≠ .error "fuel" ∧ (processResponse fuel c).1 ≠ .error "fuel" :=
  ⟨(readStr_nofuel fuel acc cs hs).1, (expect_nofuel s cs).1, (processResponse_nofuel fuel c hc).1⟩

/-- the CLI on any stream: `cliRun` is `cliCore` (the same run, keeping the message of a fatal error) followed by
    `exit`; the run never stops because a loop ran out of fuel — every run ends with an exit status of its own
    (the EOF spin in `_expect`, finding F20, is gone) -/
theorem C16_cli_terminates (o : CliOpts) (cs : List Chunk) :
    cliRun o cs = cliFinish (cliCore o cs) ∧ (cliCore o cs).1 ≠ .error "fuel" :=
  ⟨cliRun_eq o cs, cliCore_nofuel o cs⟩

/-- a fatal error (lost connection, unexpected response) is `exit(1)` -/
theorem C16_cli_error_exit (o : CliOpts) (cs : List Chunk) (m : String) (h : (cliCore o cs).1 = .error m) : (cliRun o cs).1 = 1 := by
  rw [cliRun_eq]; generalize cliCore o cs = r at h; obtain ⟨x, c⟩ := r; subst h; rfl

/-- the server closes the connection right after the banner: the CLI says so and exits 1 (it used to spin) -/
example : cliRun ⟨false, false, str "2.3"⟩ [.data (str "001 2.3\r\npower"), .eof] =
    (1, [], str "powerman: lost connection with server\n") := by decide +kernel

/-! ## 2. bounds (finding F7a is gone) -/

/-- (a) the guarded `_strncmpend`: with fewer than 10 bytes in the buffer nothing is compared;
    (b) a `read` with room for `space > 0` bytes returns between 1 and `space` bytes;
    (c) the loop invariant `count ≤ buflen`: there is always room, and what is appended fits;
    (d) in the loop with its `read`s logged (`recvLoopT`, equal to `recvLoop`), every `read` stores its `n > 0` bytes
        inside the buffer: `count + n ≤ buflen` — no write past the buffer, for any stream -/
theorem C16_recv_bounds :
    (∀ b : Bytes, b.length < 10 → endsWith b prompt = false) ∧
    (∀ cs space bs cs', 0 < space → readK cs space = (some (some bs), cs') → 0 < bs.length ∧ bs.length ≤ space) ∧
    (∀ (buf : Bytes) buflen cs, buf.length ≤ buflen →
      0 < growLen buf buflen - buf.length ∧
      ∀ bs cs', readK cs (growLen buf buflen - buf.length) = (some (some bs), cs') → (buf ++ bs).length ≤ growLen buf buflen) ∧
    (∀ fuel cs, (recvLoopT fuel [] 0 cs).1 = recvLoop fuel [] 0 cs ∧
      ∀ a ∈ (recvLoopT fuel [] 0 cs).2, 0 < a.n ∧ a.count + a.n ≤ a.buflen) :=
  ⟨endsWith_short, fun cs space bs cs' hs h => readK_bounds cs space bs cs' hs h,
   fun buf buflen cs h => ⟨(growLen_space buf buflen h).1, fun bs cs' hr => (recv_step_bounds buf buflen cs h bs cs' hr).2⟩,
   fun fuel cs => ⟨recvLoopT_fst fuel [] 0 cs, recvLoopT_safe fuel [] 0 cs (Nat.le_refl _)⟩⟩

/-- the first segment of the banner is 3 bytes long (the F7a reproducer): three reads, all inside the buffer -/
example : (recvLoopT 100 [] 0 [.data (str "001"), .data (str " 2.3\r\npowerm"), .data (str "an> ")]).2.map (fun a => (a.count, a.n, a.buflen))
    = [(0, 3, 131072), (3, 12, 131072), (15, 4, 131072)] := by decide +kernel

/-! ## 3. segmentation independence -/

/-- if the bytes `s` end with the prompt and no shorter non-empty prefix of `s` does, the read loop returns exactly `s`
    whatever the pieces `s` arrives in -/
theorem C16_recv_split (ds : List Bytes) (s : Bytes) (hseg : Segmentation ds s) (hend : endsWith s prompt = true)
    (hq : ∀ q r, s = q ++ r → q ≠ [] → r ≠ [] → endsWith q prompt = false) :
    recvLoop (recvFuel (ds.map .data)) [] 0 (ds.map .data) = (.ok s, []) := by
  have := recv_split_general (ds.map .data ++ []) s [] (Seg_of_segmentation ds s [] hseg) hend hq
  simpa using this

/-- the general form: the loop stops at the first position at which the accumulated bytes end with the prompt, provided
    a `read` ends there — here: the script delivers `s` (in any pieces) and goes on with `t`; what follows is left unread -/
theorem C16_recv_stops_at_first_prompt (ds : List Bytes) (s : Bytes) (t : List Chunk) (hseg : Segmentation ds s)
    (hend : endsWith s prompt = true) (hq : ∀ q r, s = q ++ r → q ≠ [] → r ≠ [] → endsWith q prompt = false) :
    recvLoop (recvFuel (ds.map .data ++ t)) [] 0 (ds.map .data ++ t) = (.ok s, t) :=
  recv_split_general _ s t (Seg_of_segmentation ds s t hseg) hend hq

/-- the exact general form, on any script whatsoever, in terms of the logged `read`s (`recvLoopT`, whose result is that of
    `recvLoop`: `C16_recv_bounds` (d)): when the loop succeeds with `b`, then `b` is the stream up to the end of the last
    `read`, it ends with the prompt, and at the end of no earlier `read` did the accumulated bytes end with the prompt —
    the loop stops at the first read boundary at which the accumulated bytes end with the prompt -/
theorem C16_recv_first_boundary (cs : List Chunk) (b : Bytes) (cs' : List Chunk) (h : recvLoop (recvFuel cs) [] 0 cs = (.ok b, cs')) :
    ∃ pre last, (recvLoopT (recvFuel cs) [] 0 cs).2 = pre ++ [last] ∧
      b = (bytesOf cs).take (last.count + last.n) ∧ endsWith b prompt = true ∧
      ∀ a ∈ pre, endsWith ((bytesOf cs).take (a.count + a.n)) prompt = false := by
  have := recvLoopT_first (recvFuel cs) [] 0 cs (Nat.le_refl _) (by unfold recvFuel; omega) b cs' (by rw [recvLoopT_fst]; exact h)
  simpa using this

/-- a prompt in the middle of a `read` is not seen (as in the C code): the loop goes on to the next boundary -/
example : (recvLoopT 100 [] 0 [.data (str "powerman> x"), .data (str "powerman> ")]).2.map (fun a => a.count + a.n) = [11, 21] := by
  decide +kernel

/-- on any script whatsoever: when the loop succeeds, the buffer it returns ends with the prompt and consists of exactly
    the bytes consumed from the script -/
theorem C16_recv_ok_sound (cs : List Chunk) (b : Bytes) (cs' : List Chunk) (h : recvLoop (recvFuel cs) [] 0 cs = (.ok b, cs')) :
    endsWith b prompt = true ∧ bytesOf cs = b ++ bytesOf cs' := by
  have := recvLoop_ok_sound _ [] 0 cs b cs' (Nat.le_refl _) (by unfold recvFuel; omega) h
  simpa using this

/-- hence `_server_recv_response` depends only on the bytes: for a reply made of lines followed by the prompt, in which
    the prompt text does not occur earlier, any two segmentations give the same return code and the same lines -/
theorem C16_recv_response_split (ds₁ ds₂ : List Bytes) (ls : List Bytes) (t : List Chunk)
    (h₁ : Segmentation ds₁ (ls.flatten ++ prompt)) (h₂ : Segmentation ds₂ (ls.flatten ++ prompt))
    (hl : ∀ l ∈ ls, IsLine l) (hp : ¬ prompt <:+: ls.flatten) :
    recvResponse (ds₁.map .data ++ t) = recvResponse (ds₂.map .data ++ t) ∧
    recvResponse (ds₁.map .data ++ t) = (retcode ls, (if retcode ls == 0 then ls.reverse else []), t) := by
  have a := (recvResponse_conforming _ t ls (Seg_of_segmentation _ _ t h₁) hl hp).1
  have b := (recvResponse_conforming _ t ls (Seg_of_segmentation _ _ t h₂) hl hp).1
  exact ⟨by rw [a, b], a⟩

/-- "the prompt text does not occur in the body" is enough for the prefix condition of `C16_recv_split` -/
theorem C16_prompt_only_at_end (body : Bytes) (h : ¬ prompt <:+: body) :
    ∀ q r, body ++ prompt = q ++ r → q ≠ [] → r ≠ [] → endsWith q prompt = false :=
  prompt_not_inside body h

/-- a status reply cut in three reads, and the same bytes in one read -/
example : recvResponse [.data (str "303 t1"), .data (str ": on\r\n103 Query comp"), .data (str "lete\r\npowerman> ")] =
    recvResponse [.data (str "303 t1: on\r\n103 Query complete\r\npowerman> ")] := by decide +kernel
example : Segmentation [str "303 t1", str ": on\r\n103 Query comp", str "lete\r\npowerman> "]
    ([str "303 t1: on\r\n", str "103 Query complete\r\n"].flatten ++ prompt) := by decide +kernel
/-- the theorem applied to that stream (`promptInside` is the decidable form of the prefix condition) -/
example : recvLoop (recvFuel ([str "303 t1", str ": on\r\n103 Query comp", str "lete\r\npowerman> "].map .data)) [] 0
      ([str "303 t1", str ": on\r\n103 Query comp", str "lete\r\npowerman> "].map .data) =
    (.ok (str "303 t1: on\r\n103 Query complete\r\npowerman> "), []) :=
  C16_recv_split _ _ (by decide +kernel) (by decide +kernel) (promptInside_false [] _ (by decide +kernel))
example : ¬ prompt <:+: [str "303 t1: on\r\n", str "103 Query complete\r\n"].flatten := by decide +kernel

/-! ## 4. the return code -/

/-- `_server_retcode`: the first line (in stream order) whose number is one of the 1xx success codes or 2xx failure codes
    decides — 0 for a success code, the code itself otherwise.  In particular when exactly one line has such a number.
    (Lines before it scan to other numbers or to none; lines after it do not matter.) -/
theorem C16_retcode_spec (pre post : List Bytes) (l : Bytes) (c : Int) (hl : scanInt (cstr l) = some c)
    (hc : c ∈ successCodes ∨ c ∈ failureCodes)
    (hpre : ∀ x ∈ pre, ∀ d, scanInt (cstr x) = some d → d ∉ successCodes ∧ d ∉ failureCodes) :
    (retcode (pre ++ l :: post) = 0 ↔ c ∈ successCodes) ∧ (c ∉ successCodes → (retcode (pre ++ l :: post) : Int) = c) := by
  have h := retcode_first pre post l _ (fun x hx => (verdict_none_iff x).mpr (hpre x hx)) (verdict_of_scan l c hl hc)
  rw [h]
  by_cases hs : c ∈ successCodes
  · simp [hs]
  · have hf : c ∈ failureCodes := by rcases hc with h | h; exact absurd h hs; exact h
    have := failure_pos c hf
    simp only [hs, ↓reduceIte, iff_false, not_false_eq_true, forall_const]
    omega

/-- no line with a 1xx/2xx number: PM_ESERVERPARSE -/
theorem C16_retcode_none (lines : List Bytes)
    (h : ∀ x ∈ lines, ∀ d, scanInt (cstr x) = some d → d ∉ successCodes ∧ d ∉ failureCodes) : retcode lines = 8 :=
  retcode_none lines (fun x hx => (verdict_none_iff x).mpr (h x hx))

/-- `sscanf("%d")` on a conforming line `NNN␠text`: the number `NNN` -/
theorem C16_scanInt_line (n : Nat) (h : n < 1000) (text : Bytes) : scanInt (cstr (digits3 n ++ 32 :: text)) = some (n : Int) :=
  scanInt_line n h text

/-- success is reported only if the reply contained a line with a success code; the lines handed to the caller are then
    exactly the reply's lines (last first, as the C list holds them) -/
theorem C16_success_only_if (cs : List Chunk) (h : (recvResponse cs).1 = 0) :
    (∃ l ∈ replyLines cs, ∃ c ∈ successCodes, scanInt (cstr l) = some c) ∧ (recvResponse cs).2.1 = (replyLines cs).reverse :=
  ⟨recvResponse_success_only_if cs h, (recvResponse_zero cs h).1⟩

/-- the return code is that of the reply's lines, or one of the two read failures: 7 (PM_ESERVEREOF) or 1 (errno) -/
theorem C16_recv_response_code (cs : List Chunk) :
    (∃ buf cs', recvLoop (recvFuel cs) [] 0 cs = (.ok buf, cs') ∧ (recvResponse cs).1 = retcode (parseResponse buf)) ∨
    ((recvResponse cs).1 = 7 ∨ (recvResponse cs).1 = 1) ∧ (recvResponse cs).2.1 = [] := by
  generalize hr : recvLoop (recvFuel cs) [] 0 cs = r
  obtain ⟨x, cs'⟩ := r
  cases x with
  | error e =>
    right
    rw [recvResponse_error cs e cs' hr]
    exact ⟨recvLoop_error_codes _ _ _ _ _ _ hr, rfl⟩
  | ok buf =>
    left
    exact ⟨buf, cs', rfl, by rw [(recvResponse_ok cs buf cs' hr).1]⟩

/-- the stream delivers `s` — no non-empty prefix of which ends with the prompt — and then ends (script exhausted, EOF,
    empty read): PM_ESERVEREOF; or then fails: error 1.  No line is handed out. -/
theorem C16_recv_eof (ds : List Bytes) (s : Bytes) (t : List Chunk) (hseg : Segmentation ds s)
    (hq : ∀ q r, s = q ++ r → q ≠ [] → endsWith q prompt = false) :
    (t = [] → recvResponse (ds.map .data ++ t) = (7, [], [])) ∧
    (∀ r, t = .eof :: r → recvResponse (ds.map .data ++ t) = (7, [], r)) ∧
    (∀ r, t = .data [] :: r → recvResponse (ds.map .data ++ t) = (7, [], r)) ∧
    (∀ r, t = .err :: r → recvResponse (ds.map .data ++ t) = (1, [], r)) :=
  recvResponse_ends _ s t (Seg_of_segmentation ds s t hseg) hq

example : retcode [str "303 t1: on\r\n", str "103 Query complete\r\n"] = 0 := by decide +kernel
example : retcode [str "204 No such nodes: t9\r\n"] = 204 := by decide +kernel
example : retcode [str "303 t1: on\r\n", str "999 what\r\n", str "hello\r\n"] = 8 := by decide +kernel
example : scanInt (cstr (str "103 Query complete\r\n")) = some 103 ∧ (103 : Int) ∈ successCodes := by decide +kernel
example : digits3 103 ++ 32 :: str "Query complete\r\n" = str "103 Query complete\r\n" := by decide +kernel
example : recvResponse [.data (str "303 t1: on\r\n103 Que"), .eof] = (7, [], []) := by decide +kernel
example : recvResponse [.data (str "303 t1: on\r\n103 Que"), .err, .data (str "x")] = (1, [], [.data (str "x")]) := by decide +kernel

/-- `pm_node_on/off/cycle` return the code of their exchange; `pm_connect` succeeds iff both of its exchanges (banner,
    `exprange`) do, and closes the descriptor exactly once when it fails (finding F21) -/
theorem C16_simple_and_connect (cs : List Chunk) :
    simpleCmd cs = ((recvResponse cs).1, (recvResponse cs).2.2) ∧
    ((connect cs).1 = 0 ↔ (recvResponse cs).1 = 0 ∧ (recvResponse (recvResponse cs).2.2).1 = 0) ∧
    (connect cs).2.1 = (if (connect cs).1 = 0 then 0 else 1) :=
  ⟨simpleCmd_eq cs, (connect_spec cs).1, (connect_spec cs).2⟩

/-! ## 5. `pm_node_status` -/

/-- ON only if some reply line is exactly `303 <node>: on\r\n` (and none is the OFF line); OFF only if some reply line is
    exactly `303 <node>: off\r\n`.  Conversely, when the call succeeds: OFF if the OFF line is there, else ON if the ON line is
    there, else UNKNOWN — OFF takes precedence when both lines are present.  When the call fails no state is stored. -/
theorem C16_status_spec (node : Bytes) (cs : List Chunk) :
    (∀ cs', nodeStatus node cs = (0, some 2, cs') →
      (∃ l ∈ replyLines cs, cstr l = onLine node) ∧ ¬ ∃ l ∈ replyLines cs, cstr l = offLine node) ∧
    (∀ cs', nodeStatus node cs = (0, some 1, cs') → ∃ l ∈ replyLines cs, cstr l = offLine node) ∧
    ((recvResponse cs).1 = 0 →
      nodeStatus node cs =
        (0, some (if ∃ l ∈ replyLines cs, cstr l = offLine node then 1
                  else if ∃ l ∈ replyLines cs, cstr l = onLine node then 2 else 0), (recvResponse cs).2.2)) ∧
    ((recvResponse cs).1 ≠ 0 → nodeStatus node cs = ((recvResponse cs).1, none, (recvResponse cs).2.2)) :=
  ⟨nodeStatus_on node cs, nodeStatus_off node cs, nodeStatus_spec node cs, nodeStatus_fail node cs⟩

/-- the same on a conforming reply (lines, then the prompt, the prompt text nowhere else), however segmented -/
theorem C16_status_segmented (node : Bytes) (ds : List Bytes) (ls : List Bytes) (t : List Chunk)
    (hseg : Segmentation ds (ls.flatten ++ prompt)) (hl : ∀ l ∈ ls, IsLine l) (hp : ¬ prompt <:+: ls.flatten) (hrc : retcode ls = 0) :
    nodeStatus node (ds.map .data ++ t) =
      (0, some (if ∃ l ∈ ls, cstr l = offLine node then 1 else if ∃ l ∈ ls, cstr l = onLine node then 2 else 0), t) :=
  nodeStatus_conforming node _ t ls (Seg_of_segmentation _ _ t hseg) hl hp hrc

/-- a status reply cut in three reads -/
example : nodeStatus (str "t1") [.data (str "303 t1"), .data (str ": on\r\n103 Query comp"), .data (str "lete\r\npowerman> ")]
    = (0, some 2, []) := by decide +kernel
example : nodeStatus (str "t1") [.data (str "303 t1: off\r\n103 Query complete\r\npowerman> ")] = (0, some 1, []) := by decide +kernel
/-- both lines present: OFF wins -/
example : nodeStatus (str "t1") [.data (str "303 t1: on\r\n303 t1: off\r\n103 Query complete\r\npowerman> ")] = (0, some 1, []) := by
  decide +kernel
/-- a prefix match is no match: the reply speaks of `t1x`, the state of `t1` stays UNKNOWN -/
example : nodeStatus (str "t1") [.data (str "303 t1x: on\r\n103 Query complete\r\npowerman> ")] = (0, some 0, []) := by decide +kernel
example : onLine (str "t1") = str "303 t1: on\r\n" ∧ str "303 t1x: on\r\n" ≠ onLine (str "t1") := by decide +kernel
example : nodeStatus (str "t9") [.data (str "204 No such nodes: t9\r\npowerman> ")] = (204, none, []) := by decide +kernel

/-! ## 6. node iteration -/

/-- the iterator yields exactly the words `sscanf("307 %s")` finds in the reply's lines, in stream order;
    a conforming line `307 <word>\r\n` yields its word; on a failed call the iterator is empty -/
theorem C16_nodes_spec (cs : List Chunk) :
    ((recvResponse cs).1 = 0 →
      nodeList cs = (0, (replyLines cs).filterMap (fun l => scan307 (cstr l)), (recvResponse cs).2.2)) ∧
    ((recvResponse cs).1 ≠ 0 → nodeList cs = ((recvResponse cs).1, [], (recvResponse cs).2.2)) ∧
    (∀ w, IsWord w → scan307 (cstr (nodeLine w)) = some w) :=
  ⟨nodeList_spec cs, nodeList_fail cs, fun w hw => scan307_nodeLine w hw.1 hw.2⟩

/-- the reply `307 w₁ … 307 wₙ`, a terminal line with a success code, the prompt — however segmented: exactly `w₁ … wₙ` -/
theorem C16_nodes_segmented (ds : List Bytes) (ws : List Bytes) (tl : RLine) (t : List Chunk)
    (hseg : Segmentation ds ((ws.map nodeLine ++ [tl.bytes]).flatten ++ prompt))
    (hw : ∀ w ∈ ws, IsWord w) (htl : tl.ok) (hc : (tl.code : Int) ∈ successCodes)
    (hp : ¬ prompt <:+: (ws.map nodeLine ++ [tl.bytes]).flatten) :
    nodeList (ds.map .data ++ t) = (0, ws, t) :=
  nodeList_conforming _ t ws tl (Seg_of_segmentation _ _ t hseg) hw htl hc hp

example : nodeList [.data (str "307 t1\r\n307"), .data (str " t2\r\n307 t3\r\n103 Query complete\r\npower"), .data (str "man> ")]
    = (0, [str "t1", str "t2", str "t3"], []) := by decide +kernel
example : Segmentation [str "307 t1\r\n307", str " t2\r\n307 t3\r\n103 Query complete\r\npower", str "man> "]
    (([str "t1", str "t2", str "t3"].map nodeLine ++ [(⟨103, str "Query complete"⟩ : RLine).bytes]).flatten ++ prompt) ∧
    (⟨103, str "Query complete"⟩ : RLine).ok ∧ IsWord (str "t2") := by decide +kernel

/-- the theorem applied to that stream -/
example : nodeList ([str "307 t1\r\n307", str " t2\r\n307 t3\r\n103 Query complete\r\npower", str "man> "].map .data ++ [])
    = (0, [str "t1", str "t2", str "t3"], []) :=
  C16_nodes_segmented _ [str "t1", str "t2", str "t3"] ⟨103, str "Query complete"⟩ [] (by decide +kernel) (by decide +kernel)
    (by decide +kernel) (by decide +kernel) (by decide +kernel)

/-! ## 7. line splitting -/

/-- `_parse_response` on `l₁ ++ … ++ lₙ ++ prompt`, each `lᵢ` ending in CRLF and containing no other CRLF: exactly
    `[l₁, …, lₙ]` (the loop bound `i < len - 2` cuts nothing because the prompt follows) -/
theorem C16_parse_lines (ls : List Bytes) (hl : ∀ l ∈ ls, IsLine l) : parseResponse (ls.flatten ++ prompt) = ls :=
  parseResponse_lines ls hl

example : parseResponse (str "303 t1: on\r\n\r\n103 Query complete\r\npowerman> ") =
    [str "303 t1: on\r\n", str "\r\n", str "103 Query complete\r\n"] := by decide +kernel
example : IsLine (str "303 t1: on\r\n") := ⟨str "303 t1: on", by decide +kernel, by decide +kernel⟩
/-- without the prompt behind it the last CRLF is not seen (the model keeps the C loop bound) -/
example : parseResponse (str "103 Query complete\r\n") = [] := by decide +kernel

/-! ## 8. the CLI -/

/-- `_process_response` on one conforming response, however segmented: intermediate lines (number outside 100…299), then the
    terminal line.  The result is the 2xx code or 0; stdout receives `text ++ "\n"` of every line except 103/104/105 and 309,
    stderr that of the 309 lines; what follows the terminal line is left unread -/
theorem C16_process_response_spec (ds : List Bytes) (ls : List RLine) (tl : RLine) (rest : Bytes) (t : List Chunk) (c : Cli) (fuel : Nat)
    (hseg : Segmentation ds (bytesOfLines ls ++ tl.bytes ++ rest)) (hcs : c.cs = ds.map .data ++ t)
    (hls : ∀ l ∈ ls, l.ok ∧ ¬ (100 ≤ l.code ∧ l.code < 300)) (htl : tl.ok) (h1 : 100 ≤ tl.code) (h3 : tl.code < 300)
    (hf : ls.length < fuel) :
    ∃ cs', processResponse fuel c =
        (.ok (if 200 ≤ tl.code then (tl.code : Int) else 0),
         { cs := cs', out := c.out ++ outOf (ls ++ [tl]), errs := c.errs ++ errOf (ls ++ [tl]) }) ∧ Seg cs' rest t :=
  processResponse_seg ls tl c rest t fuel hls htl h1 h3 (by rw [hcs]; exact Seg_of_segmentation _ _ t hseg) hf

/-- the whole run on a conforming stream, however segmented: banner `001 v`, prompt, then the exchanges `main` performs
    (`init ++ [last]`: each a response and a prompt; `main` performs the option exchanges and the command, `exchanges o` in
    all, and stops after the first whose terminal code is 2xx), then `101 Goodbye`.
    `exit` receives 0 if the terminal code of the last exchange performed is 1xx, else that 2xx code (the OS keeps it
    modulo 256: finding F13); stdout is the text of all lines except 103/104/105 and 309, stderr the version warning, if
    any, and the text of the 309 lines -/
theorem C16_cli_exit (o : CliOpts) (v : Bytes) (init : List Exch) (last : Exch) (ds : List Bytes) (t : List Chunk)
    (hseg : Segmentation ds (bannerLine v ++ prompt ++ bytesOfExchs (init ++ [last]) ++ goodbye))
    (hv : IsWord v) (hinit : ∀ e ∈ init, e.ok ∧ e.res = 0) (hlast : last.ok)
    (hk : init.length + 1 = exchanges o ∨ (init.length + 1 ≤ exchanges o ∧ last.res ≠ 0)) :
    cliRun o (ds.map .data ++ t) =
      (last.res, ((init ++ [last]).map fun e => outOf e.all).flatten,
       versionWarning o v ++ ((init ++ [last]).map fun e => errOf e.all).flatten) ∧
    (last.res = 0 ↔ last.term.code < 200) ∧ (last.res ≠ 0 → last.res = last.term.code) := by
  refine ⟨cliRun_conforming o v init last _ t (Seg_of_segmentation _ _ t hseg) hv hinit hlast hk, ?_, ?_⟩
  · unfold Exch.res; have := hlast.2.2.1; split <;> omega
  · unfold Exch.res; split <;> simp

/-- `powerman -x -q t1`, the stream in pieces of irregular size: exit 0, the status line on stdout -/
example : cliRun ⟨false, true, str "2.3"⟩
    [.data (str "001 2."), .data (str "3\r\npowerman> 105 Hostrange expansion ON\r"), .data (str "\npowerman> 303 t1: on\r\n103 Query comp"),
     .data (str "lete\r\npowerman> 101 Good"), .data (str "bye\r\n")] = (0, str "t1: on\n", []) := by decide +kernel
/-- the same run as an instance of the theorem's hypotheses -/
example : Segmentation [str "001 2.", str "3\r\npowerman> 105 Hostrange expansion ON\r", str "\npowerman> 303 t1: on\r\n103 Query comp",
      str "lete\r\npowerman> 101 Good", str "bye\r\n"]
    (bannerLine (str "2.3") ++ prompt ++ bytesOfExchs ([⟨[], ⟨105, str "Hostrange expansion ON"⟩⟩] ++
      [⟨[⟨303, str "t1: on"⟩], ⟨103, str "Query complete"⟩⟩]) ++ goodbye) ∧
    (⟨[], ⟨105, str "Hostrange expansion ON"⟩⟩ : Exch).ok ∧ (⟨[], ⟨105, str "Hostrange expansion ON"⟩⟩ : Exch).res = 0 ∧
    (⟨[⟨303, str "t1: on"⟩], ⟨103, str "Query complete"⟩⟩ : Exch).ok ∧ IsWord (str "2.3") ∧
    exchanges ⟨false, true, str "2.3"⟩ = 2 := by decide +kernel
/-- the theorem applied to it -/
example : (cliRun ⟨false, true, str "2.3"⟩ ([str "001 2.", str "3\r\npowerman> 105 Hostrange expansion ON\r",
      str "\npowerman> 303 t1: on\r\n103 Query comp", str "lete\r\npowerman> 101 Good", str "bye\r\n"].map .data ++ [])).1 = 0 := by
  have h := (C16_cli_exit ⟨false, true, str "2.3"⟩ (str "2.3") [⟨[], ⟨105, str "Hostrange expansion ON"⟩⟩]
    ⟨[⟨303, str "t1: on"⟩], ⟨103, str "Query complete"⟩⟩ [str "001 2.", str "3\r\npowerman> 105 Hostrange expansion ON\r",
      str "\npowerman> 303 t1: on\r\n103 Query comp", str "lete\r\npowerman> 101 Good", str "bye\r\n"] []
    (by decide +kernel) (by decide +kernel) (by decide +kernel) (by decide +kernel) (by decide +kernel)).1
  rw [h]; rfl
/-- a command that fails: the text goes to stdout, `exit(204)`; a version mismatch is reported on stderr -/
example : cliRun ⟨false, false, str "2.4"⟩
    [.data (str "001 2.3\r\npowerman> 204 No such nodes: t9\r\npowerman> 101 Goodbye\r\n")] =
    (204, str "No such nodes: t9\n", str "powerman: warning: server version (2.3) != client (2.4)\n") := by decide +kernel
/-- an option exchange that fails ends the run: the command's exchange is not performed -/
example : cliRun ⟨true, false, str "2.3"⟩
    [.data (str "001 2.3\r\npowerman> 201 Unknown command\r\npowerman> 101 Goodbye\r\n")] =
    (201, str "Unknown command\n", []) := by decide +kernel

end Pm.Props.C16
