import Pm.Dev2Proof
/-! # C11 — clients are isolated from one another

Property theorems only (helper lemmas live in `Pm/Dev2Proof.lean`).  The model they speak about
(`Pm.Dev2`) is the mirror of `device.c` compared with the real functions on every run of the check.

Ranking (DESIGN §6): routing (device half: done) ▸ client half of routing ▸ departure ▸ back-pressure. -/
namespace Pm.Props.C11
open Pm.Dev2

/-- Device half of the routing invariant: whatever a pass of `_process_action` reports as finished —
    for every queue, script, oracle answer and kernel answer — carries the client id of an action
    that was in *that device's* queue when the pass began.  A completion can therefore only ever reach
    the client that enqueued it (`_act_finish` looks the client up by exactly this id). -/
theorem C11_completions_owned (c : CS) (o : Oracle) (tmo : Option Time) :
    ∀ cid e, Out.finish cid e ∈ (processAction c o [] tmo).2.2.1 → ∃ a ∈ c.dev.acts, a.clientId = cid :=
  processAction_finishes_owned c o tmo

end Pm.Props.C11
