import Pm.IsolationProof
import Pm.TwoRunEx
import Pm.RunXTwoEx
/-! # C11 — clients are isolated from one another

*"Replies, status results, telemetry and diagnostics produced for one client's request are delivered to that client only,
and each request's result reflects only the actions that request enqueued even when other clients operate on the same nodes
at the same time.  A client has at most one request in progress (further lines are answered 'command in progress'); a client
that disconnects or stops reading at any moment does not cancel device actions already queued for it and does not disturb,
delay or leak output into any other session."*

Property theorems only (helper lemmas live in `Pm/IsolationProof.lean`, `Pm/Dev2Proof.lean`, `Pm/FrameDev.lean`,
`Pm/FrameProof.lean`, `Pm/ReplyProof.lean`, `Pm/ClientProof.lean`, `Pm/EnqProof.lean`).  Everything is stated over the mirrors
that the differential harness compares with the C code on every run of the checks: `Pm.Dev2` (`device.c`) and `Pm.Daemon`
(`client.c` and the body of `powermand.c:_select_loop`).

Vocabulary:

* `cliRec w g` — the record `_find_client(g)` finds in world `w` (the first one with id `g`; under `IdsFresh` the only one);
* `outCid x` — the client id a device callback `x` (`Out.finish`/`Out.telemetry`/`Out.diag`) carries; `mine g x` — it is `g`;
* `applyOuts w name outs` — the callbacks `outs` of device `name` delivered to the clients (`_act_finish`,
  `_telemetry_printf`, `_diag_printf`); `devStep p w o nd` — device `nd`'s own share of `dev_post_poll`;
  `devPass p a nd` — that share followed by the delivery of its callbacks; `afterStep w c` — the world between the two;
* `OwnView g w w'` — `w` and `w'` have the same record for `g` and, if `g` has a command, the same arglist for it;
* `Enq cid w w' cmd cmd'` — what the request lines of client `cid` did to the queues: nothing, or one `install`;
* `PassIso w c r ext` — the frame of `clientPass w c e = r` (one client's share of `cli_post_poll`), `ext` the system calls
  it logged; `ClientPf.cliStep envs w c` — one turn of the loop of `cli_post_poll` (the share, then the record is written
  back or unlinked);
* `IdsFresh w`, `ArgScope w`, `Iso w` — the id discipline, the arglist discipline, both.

Ranking (DESIGN §6): routing (done, both halves) ▸ departure (done) ▸ one command (done) ▸ result scope (done, with the
hypothesis `k.al ≠ 0`, see the finding in `Props/C05`) ▸ ids (done for `Nat` ids; the C counter wraps) ▸ back-pressure (§6 the
single-run frame; §7 the two-run statement `C11_backpressure`; §8 a client that vanishes; §9 the run theorems of §2, §7, §8 over
`runX` — runs in which every pass brings its own answers of the regex engine; the statements of §2, §7, §8 over `runPasses`
are the special case of passes that bring none, in which only the first pass of a run can see a match). -/
namespace Pm.Props.C11
open Pm Pm.Client Pm.Daemon Pm.Daemon.Isolation
open Pm.Dev2 (CS Oracle Time Dev Action ActErr outCid processAction)

/-! ## 1. Routing -/

/-- Device half of the routing invariant: whatever a pass of `_process_action` reports as finished —
    for every queue, script, oracle answer and kernel answer — carries the client id of an action
    that was in *that device's* queue when the pass began.  A completion can therefore only ever reach
    the client that enqueued it (`_act_finish` looks the client up by exactly this id). -/
theorem C11_completions_owned (c : CS) (o : Oracle) (tmo : Option Time) :
    ∀ cid e, Pm.Dev2.Out.finish cid e ∈ (processAction c o [] tmo).2.2.1 → ∃ a ∈ c.dev.acts, a.clientId = cid :=
  Pm.Dev2.processAction_finishes_owned c o tmo

/-- The same for all three callbacks and for the whole of `dev_post_poll` (`_handle_ready_device`, `_reconnect`,
    `_enqueue_ping`, `_process_action`): every completion, telemetry line and diagnostic that device `nd` produces in a
    pass carries the client id of an action that was in `nd`'s queue when the pass began — or `0`, the id of the internal
    login/ping actions, which no client has (`IdsFresh.pos`). -/
theorem C11_routing_device_half (p : PassIn) (w : W) (o : Oracle) (nd : Bytes × Dev) :
    ∀ x ∈ (devStep p w o nd).2.2.1, ∀ cid, outCid x = some cid → cid = 0 ∨ ∃ a ∈ nd.2.acts, a.clientId = cid :=
  devStep_addr p w o nd

/-- **Client half.**  `applyOuts` delivers the callbacks of one device to the clients.

    1. *Only the addressee changes.*  If no callback in `outs` carries the id `g`, client `g`'s record (output buffer,
       command in progress, pending count, flags) is exactly what it was; and nothing in the world but client records is
       ever changed.
    2. *What the addressee gets depends on its own callbacks only.*  Take two runs for the same device: the worlds `w`, `w'`
       may differ in everything except `g`'s record and the arglist of `g`'s command (`OwnView`), and the callback lists
       `outs`, `outs'` may differ in everything except the callbacks carrying `g`'s id (same ones, same order).  Then `g`'s
       record — in particular the bytes appended to its output buffer — is the same after both runs.  So what client `g`
       is sent is a function of the callbacks addressed to `g`, of `g`'s own record and of `g`'s own arglist: never of a
       callback addressed to somebody else, of another client's record or of another arglist. -/
theorem C11_routing_client_half (w : W) (name : Bytes) (outs : List DOut) (g : Nat) :
    ((∀ x ∈ outs, outCid x ≠ some g) →
        cliRec (applyOuts w name outs).1 g = cliRec w g ∧ sansClients (applyOuts w name outs).1 = sansClients w) ∧
    (∀ (w' : W) (outs' : List DOut), OwnView g w w' → outs.filter (mine g) = outs'.filter (mine g) →
        cliRec (applyOuts w name outs).1 g = cliRec (applyOuts w' name outs').1 g ∧
        OwnView g (applyOuts w name outs).1 (applyOuts w' name outs').1) :=
  ⟨fun h => applyOuts_untouched w name outs g h,
   fun w' outs' hv hf => ⟨(applyOuts_own w w' name outs outs' g hv hf).1, applyOuts_own w w' name outs outs' g hv hf⟩⟩

/-- Item 1 position by position in the client table (this form does not rely on the ids being distinct): the table keeps
    its length, every position keeps its id, and a record whose id no callback carries is exactly what it was. -/
theorem C11_routing_table (w : W) (name : Bytes) (outs : List DOut) :
    (applyOuts w name outs).1.clients.length = w.clients.length ∧
    ∀ (i : Nat) (c : Cli), w.clients[i]? = some c → ∃ c' : Cli, (applyOuts w name outs).1.clients[i]? = some c' ∧ c'.id = c.id ∧
      ((∀ x ∈ outs, outCid x ≠ some c.id) → c' = c) :=
  ⟨applyOuts_length w name outs, fun i c h => applyOuts_table w name outs i c h⟩

/-- **Both halves, for one device's share of a pass** (`devPass`, any device state, kernel answers and regex answers; `a.dead`
    is the model's flag for a C `assert` that fired earlier in the pass).  For a client id `g ≠ 0`:

    1. a callback carrying `g`'s id stems from the device's own queue: an action with `clientId = g` was queued on this
       device when the pass began;
    2. `g`'s record after the device's share is what `applyOuts` makes of the callbacks carrying `g`'s id *alone*: the
       bytes appended to `g`'s buffer stem from those items and from nothing else the device reported;
    3. hence a client with no action queued on the device is not touched by it at all. -/
theorem C11_routing (p : PassIn) (a : DevAcc) (nd : Bytes × Dev) (g : Nat) (hg : g ≠ 0) (hd : a.dead = false) :
    (∀ x ∈ (devStep p a.w a.oracle nd).2.2.1, outCid x = some g → ∃ act ∈ nd.2.acts, act.clientId = g) ∧
    cliRec (devPass p a nd).w g =
      cliRec (applyOuts (afterStep a.w (devStep p a.w a.oracle nd).1) nd.1
        ((devStep p a.w a.oracle nd).2.2.1.filter (mine g))).1 g ∧
    ((∀ act ∈ nd.2.acts, act.clientId ≠ g) → cliRec (devPass p a nd).w g = cliRec a.w g) :=
  ⟨fun x hx hc => (devStep_addr p a.w a.oracle nd x hx g hc).resolve_left hg,
   devPass_routing p a nd g hd, fun hq => devPass_client p a nd g hg hq⟩

/-- **The other sessions are not even read.**  Two runs of one device's share of the pass, from accumulators that agree on
    client `g`'s record, on the arglist store, on the descriptor/pid counters and on the regex answers, but are arbitrary
    otherwise — other clients present or absent, idle or busy, with full or empty buffers: `g` ends with the same record
    and the store is the same. -/
theorem C11_routing_blind (p : PassIn) (a a' : DevAcc) (nd : Bytes × Dev) (g : Nat) (hd : a.dead = false) (hd' : a'.dead = false)
    (hc : cliRec a.w g = cliRec a'.w g) (hs : a.w.store = a'.w.store)
    (h1 : a.w.nsock = a'.w.nsock) (h2 : a.w.npair = a'.w.npair) (h3 : a.w.nfork = a'.w.nfork) (ho : a.oracle = a'.oracle) :
    cliRec (devPass p a nd).w g = cliRec (devPass p a' nd).w g ∧ (devPass p a nd).w.store = (devPass p a' nd).w.store :=
  devPass_own p a a' nd g hd hd' hc hs h1 h2 h3 ho

/- non-vacuity (`Two`, in `Pm/IsolationProof.lean`: one device `A`, node `a1`; clients 1 and 2 both have `status a1` in
   flight, world `Two.w3`, reached from the start-up world by three passes).  In pass `Two.p4` the device answers client 1's
   action: the callbacks are the completion for client 1 and (`none`: the bytes sent for the next action) nothing for client
   2; client 1 gets its reply, client 2's record is untouched although its action sits in the same queue and targets the
   same node. -/
example : Two.w3.clients.map (fun c => c.cmd.map fun k => k.names) = [some [['a', '1']], some [['a', '1']]] ∧
    Two.w3.devs.map (fun nd => nd.2.acts.map fun a => (a.clientId, a.arglist)) = [[(1, 1), (2, 2)]] :=
  ⟨Two.reached.2.2.1, Two.reached.2.2.2.2.1⟩
example :
    ((devStep Two.p4 Two.w3x ⟨Two.xs4⟩ ([65], (Two.w3x.devs.map (·.2)).headD Two.devA)).2.2.1.map outCid) = [some 1, none] ∧
    (cliRec Two.w4 1).map (fun c => (c.toBuf.drop 17, c.cmd.isSome)) =
      some (bstr "302 on:      a1\r\n302 off:     \r\n302 unknown: \r\n103 Query complete\r\npowerman> ", false) ∧
    (cliRec Two.w4 2).map (fun c => (c.toBuf, c.cmd.map (·.pending))) = (cliRec Two.w3x 2).map (fun c => (c.toBuf, c.cmd.map (·.pending))) := by
  decide +kernel

/-! ## 2. Client ids -/

/-- **The id discipline** `IdsFresh w`: the live clients' ids are pairwise distinct, positive and below the counter
    `w.nextId` (`cli_id_seq`); every queued action carries a client id below the counter.  It holds at start-up and is kept
    by `dev_initial_connect`, by `cli_post_poll` (accepting a connection, serving every client, destroying clients) and by
    a whole pass of the select loop — hence in every reachable state.  (`Iso w` is `IdsFresh w ∧ ArgScope w`, see §4.)

    LIMIT OF THE MODEL.  The model's ids are unbounded `Nat`s.  The C counter is an `int` that wraps from `INT_MAX` back to
    `1` (`_next_cli_id`), after which a new client can be given the id of a client that is still connected or of a departed
    client whose actions are still queued; this is a recorded finding (F17) and outside the model.  (With duplicate ids
    the model would also differ from C in another way: `updCli` rewrites every record with the id, `_find_client` returns
    the first.) -/
theorem C11_ids :
    (∀ w : W, w.clients = [] → (∀ nd ∈ w.devs, nd.2.acts = []) → 0 < w.nextId → IdsFresh w) ∧
    (∀ (w : W) (acc : Nat) (envs : List FdEnv), IdsFresh w → IdsFresh (cliPostPoll w acc envs)) ∧
    (∀ (w : W) (p : PassIn), IdsFresh w → IdsFresh (daemonPass w p).1) ∧
    (∀ (w : W) (now : Nat) (con soe : List Nat), Iso w → Iso (initialConnect w now con soe).1) ∧
    (∀ (w : W) (ps : List PassIn), Iso w → Iso (runPasses w ps)) :=
  -- the last part is a corollary of `C11_ids_runX` (passes that bring no regex answer)
  ⟨fun w hc hq hn => (iso_init w hc hq hn).1, cliPostPoll_ids, daemonPass_ids, initialConnect_iso, Pm.Daemon.TwoRun.runPasses_iso_plain⟩

/-- what `IdsFresh` says, spelled out -/
theorem C11_ids_spelled (w : W) (h : IdsFresh w) :
    (w.clients.map (·.id)).Nodup ∧ (∀ c ∈ w.clients, 0 < c.id ∧ c.id < w.nextId) ∧
    (∀ nd ∈ w.devs, ∀ a ∈ nd.2.acts, a.clientId < w.nextId) ∧
    (∀ c ∈ w.clients, cliRec w c.id = some c) :=
  ⟨h.nodup, fun c hc => ⟨h.pos c.id (List.mem_map.mpr ⟨c, hc, rfl⟩), h.below c.id (List.mem_map.mpr ⟨c, hc, rfl⟩)⟩,
   h.acts, fun _ hc => h.cliRec_of_mem hc⟩

/-- **`accept`.**  The accept branch of `cli_post_poll` gives the new client the id `w.nextId` and increments the counter (a
    failed `accept` consumes an id too); under the discipline that id is carried by no live client and by no queued action —
    in particular not by the actions a departed client left behind — and it is not the internal id `0`. -/
theorem C11_ids_accept (w : W) (h : IdsFresh w) :
    (ClientPf.cliAccept w 1).clients = w.clients ++ [ClientPf.newClient w] ∧ (ClientPf.newClient w).id = w.nextId ∧
    (ClientPf.cliAccept w 1).nextId = w.nextId + 1 ∧ (ClientPf.cliAccept w 2).nextId = w.nextId + 1 ∧
    (∀ c ∈ w.clients, c.id ≠ (ClientPf.newClient w).id) ∧
    (∀ nd ∈ w.devs, ∀ a ∈ nd.2.acts, a.clientId ≠ (ClientPf.newClient w).id) ∧ (ClientPf.newClient w).id ≠ 0 :=
  ⟨rfl, rfl, rfl, rfl, newClient_fresh w h⟩

/-- **`install`** (`_create_command` + `dev_enqueue_actions`) on a client without a command: either the request is refused
    and queues, store and counter are what they were; or every device's queue is extended (`Enq.installDev`) by actions
    that all carry the installing client's id `c.id`, its telemetry flag and the arglist id `w.alNext`, the arglist is
    opened in the store under that id, the counter is incremented, and the client's new command refers to it.  No queued
    action is dropped or altered. -/
theorem C11_ids_install (w : W) (c : Cli) (com : Com) (names : List Name) (hidle : c.cmd = none) :
    Enq c.id w (install w c com names).1 c.cmd (install w c com names).2.cmd ∧
    (∀ nd' ∈ (install w c com names).1.devs, ∀ a ∈ nd'.2.acts,
        (∃ nd ∈ w.devs, a ∈ nd.2.acts) ∨ (a.clientId = c.id ∧ a.arglist = w.alNext)) ∧
    (∀ nd ∈ w.devs, ∀ a ∈ nd.2.acts, ∃ nd' ∈ (install w c com names).1.devs, nd'.1 = nd.1 ∧ a ∈ nd'.2.acts) :=
  ⟨(install_iso w c com names hidle).enq, (install_iso w c com names hidle).enq.acts, (install_iso w c com names hidle).enq.acts_kept⟩

/-- what `Enq` says, spelled out -/
theorem C11_Enq_spelled (cid : Nat) (w w' : W) (cmd cmd' : Option CmdC) (h : Enq cid w w' cmd cmd') :
    (w'.devs = w.devs ∧ w'.store = w.store ∧ w'.alNext = w.alNext ∧ cmd' = cmd) ∨
    (cmd = none ∧ ∃ (k : CmdC) (args : List Pm.Dev2.Arg) (com : Nat) (bn : List Bytes) (tele : Bool),
      cmd' = some k ∧ k.al = w.alNext ∧ w'.alNext = w.alNext + 1 ∧ w'.store = (w.alNext, args) :: w.store ∧
      w'.devs = w.devs.map (Enq.installDev com bn cid tele w.alNext) ∧
      ∀ nd ∈ w.devs, ∀ a ∈ (Enq.installDev com bn cid tele w.alNext nd).2.acts,
        a ∈ nd.2.acts ∨ (a.clientId = cid ∧ a.arglist = w.alNext ∧ a.telemetry = tele)) := by
  rcases h with h | ⟨hn, k, args, com, bn, tele, h1, h2, h3, h4, h5⟩
  · exact Or.inl h
  · exact Or.inr ⟨hn, k, args, com, bn, tele, h1, h2, h3, h4, h5, fun nd _ a ha => installDev_acts com bn cid tele w.alNext nd a ha⟩

/- non-vacuity: the start-up world of the example satisfies the hypotheses of the first item; the world with both requests
   in flight is reached from it by three passes, so it satisfies both disciplines; its ids, counter and queue are as
   described -/
example : Iso Two.w0 ∧ Iso Two.w3 := ⟨Two.iso0, Two.iso3⟩
example : ids Two.w3 = [1, 2] ∧ Two.w3.nextId = 3 ∧
    Two.w3.devs.map (fun nd => nd.2.acts.map fun a => (a.clientId, a.arglist)) = [[(1, 1), (2, 2)]] :=
  ⟨Two.reached.1, Two.reached.2.2.2.2.2.1, Two.reached.2.2.2.2.1⟩

/-! ## 3. One command per client -/

/-- **A client has at most one request in progress.**

    1. While a command is in progress, a request line — whatever it says — is answered with exactly the line
       `208 Command in progress` appended to the client's own buffer (no prompt) — or, if its stripped text is
       `CP_LINEMAX` = 131072 bytes or longer (`TooLong`; `_parse_input` tests the length first), with exactly the line
       `203 Command too long` and the prompt — and nothing else changes: not the world, not the command, not the flags.
    2. For every line, client and world: `parseLine` either leaves queues, arglist store and arglist counter alone and
       keeps the client's command as it is, or performs one `install` — and the latter only when the client had no
       command (`Enq`).  So a second command (a second arglist, a second batch of actions with this client's id) is never
       created while one is pending.
    3. When queues change at all, `parseLine` *is* a call of `install` made with `c.cmd = none`. -/
theorem C11_one_command (w : W) (c : Cli) (line : Bytes) :
    (c.cmd.isSome = true → parseLine w c line =
      if ClientPf.TooLong line then (w, put c (bstr "203 Command too long\r\n" ++ (if c.quit then [] else prompt)))
      else (w, put c (bstr "208 Command in progress\r\n"))) ∧
    Enq c.id w (parseLine w c line).1 c.cmd (parseLine w c line).2.cmd ∧
    ((parseLine w c line).1.devs = w.devs ∨ ∃ com names, parseLine w c line = install w c com names ∧ c.cmd = none) := by
  refine ⟨fun h => ?_, parseLine_enq w c line, ?_⟩
  · by_cases hl : ClientPf.TooLong line
    · rw [if_pos hl, ClientPf.parseLine_tooLong w c line hl]
      have : ClientPf.render [ClientPf.item203] = bstr "203 Command too long\r\n" := by decide +kernel
      rw [this]
    · rw [if_neg hl, ClientPf.parseLine_busy w c line h hl]
      have : ClientPf.render [ClientPf.item208] = bstr "208 Command in progress\r\n" := by decide +kernel
      rw [this]
  · rcases Enq.parseLine_cases w c line with h | ⟨com, names, h1, h2, _⟩
    · exact Or.inl h
    · exact Or.inr ⟨com, names, h1, h2⟩

/-- The same over a client's whole share of a pass, however many lines it has sent: if it survives the pass, all its lines
    together enqueued nothing or performed exactly one `install` (and none if it had a command when the pass began). -/
theorem C11_one_command_pass (w : W) (c : Cli) (e : Option FdEnv) (c' : Cli) (h : (clientPass w c e).2 = some c') :
    Enq c.id w (clientPass w c e).1 c.cmd c'.cmd ∧
    (c.cmd.isSome = true → (clientPass w c e).1.devs = w.devs ∧ (clientPass w c e).1.store = w.store ∧
      (clientPass w c e).1.alNext = w.alNext ∧ c'.cmd = c.cmd) := by
  obtain ⟨ext, hp, _⟩ := clientPass_iso w c e
  exact ⟨(hp.alive c' h).2.2.2.1, fun hb => (hp.alive c' h).2.2.2.1.busy hb⟩

/- non-vacuity: client 1 of the example world has a command in progress; a second `status a1` from it is answered 208 and
   the queue stays as it is -/
example : ((cliRec Two.w3 1).map fun c => c.cmd.isSome) = some true := by decide +kernel
example : (cliRec Two.w3 1).map (fun c => ((parseLine Two.w3 c Two.line).2.toBuf.drop c.toBuf.length,
      (parseLine Two.w3 c Two.line).1.devs.map fun nd => nd.2.acts.length)) =
    some (bstr "208 Command in progress\r\n", [2]) := by decide +kernel

/-! ## 4. The scope of a result -/

/-- **The arglist discipline** `ArgScope w`: every arglist id referred to by a client's command or carried by a client's
    action is below the counter `w.alNext`; an action that carries the arglist id of client `g`'s command is `g`'s
    action; two clients' commands refer to different arglists; the internal login/ping actions (client id `0`) carry the
    dummy id `0`.  Together with `IdsFresh` it holds at start-up and is kept by `dev_initial_connect`, by
    `cli_post_poll` and by every pass (`Iso`), hence in every reachable state. -/
theorem C11_result_scope_invariant :
    (∀ w : W, w.clients = [] → (∀ nd ∈ w.devs, nd.2.acts = []) → 0 < w.nextId → Iso w) ∧
    (∀ (w : W) (now : Nat) (con soe : List Nat), Iso w → Iso (initialConnect w now con soe).1) ∧
    (∀ (w : W) (acc : Nat) (envs : List FdEnv), Iso w → Iso (cliPostPoll w acc envs)) ∧
    (∀ (w : W) (p : PassIn), Iso w → Iso (daemonPass w p).1) :=
  ⟨iso_init, initialConnect_iso, cliPostPoll_iso, daemonPass_iso⟩

/-- what `ArgScope` says, spelled out -/
theorem C11_ArgScope_spelled (w : W) (h : ArgScope w) :
    (∀ g c k, cliRec w g = some c → c.cmd = some k → k.al < w.alNext) ∧
    (∀ nd ∈ w.devs, ∀ a ∈ nd.2.acts, a.clientId ≠ 0 → a.arglist < w.alNext) ∧
    (∀ g c k, cliRec w g = some c → c.cmd = some k → ∀ nd ∈ w.devs, ∀ a ∈ nd.2.acts, a.clientId ≠ 0 →
        a.arglist = k.al → a.clientId = g) ∧
    (∀ g g' c c' k k', cliRec w g = some c → cliRec w g' = some c' → c.cmd = some k → c'.cmd = some k' → k.al = k'.al → g = g') ∧
    (∀ nd ∈ w.devs, ∀ a ∈ nd.2.acts, a.clientId = 0 → a.arglist = 0) :=
  ⟨h.cmds, h.acts, h.owned, h.apart, h.internal⟩

/-- **Each request's result reflects only the actions that request enqueued.**  Let client `g` have a command `k` in
    progress, in a state that satisfies the arglist discipline; `k.al ≠ 0` (see the finding below).

    1. *Fresh arglist.*  A new command gets the arglist id `w.alNext`, which is then incremented (§2, `C11_ids_install`); by
       the discipline it differs from the arglist id of every other client's command, however much the targets overlap.
    2. *A statement writes its own arglist only.*  One statement of a device script run on behalf of an action `x` — in
       particular `setplugstate`/`setresult`, the only writers — leaves every arglist other than `x.arglist` as it is.
    3. *Other people's actions do not carry `g`'s arglist id*: a queued action whose client id is not `g` (another client's,
       or an internal one) has `x.arglist ≠ k.al`.  With 2: only `g`'s own actions ever write `g`'s arglist.
    4. *Devices without an action of `g`* leave `g`'s arglist exactly as it is for a whole `devPass`.
    5. *The reply is computed from that arglist alone*: when the last completion for `g` arrives, what `_act_finish`
       appends to `g`'s buffer is the 308 line of that completion (if it failed), `finalReply` of `g`'s own command with
       `g`'s own arglist as it then is in the store, and the prompt.

    FINDING (hypothesis `k.al ≠ 0`, as in `Props/C05`).  The model gives the internal login and ping actions the dummy
    arglist id `0`, which is also the id of the first command after start-up; in C they have `arglist == NULL`, and a
    login/ping script containing `setplugstate`/`setresult` would dereference it.  The hypothesis excludes that one id. -/
theorem C11_result_scope (w : W) (g : Nat) (c : Cli) (k : CmdC) (h : ArgScope w) (hc : cliRec w g = some c)
    (hk : c.cmd = some k) (hal : k.al ≠ 0) :
    (∀ g' c' k', cliRec w g' = some c' → c'.cmd = some k' → g' ≠ g → k'.al ≠ k.al) ∧
    (∀ (d : Dev) (x : Action) (o : Oracle) (now : Nat), x.arglist ≠ k.al →
        (Pm.Dev2.processStmt d x o now).dev.args.lookup k.al = d.args.lookup k.al) ∧
    (∀ nd ∈ w.devs, ∀ x ∈ nd.2.acts, x.clientId ≠ g → x.arglist ≠ k.al) ∧
    (∀ (p : PassIn) (a : DevAcc) (nd : Bytes × Dev) (rest : List (Bytes × Dev)), w = worldAt a (nd :: rest) →
        (∀ x ∈ nd.2.acts, x.clientId ≠ g) → storeArgs (devPass p a nd).w k.al = storeArgs a.w k.al) ∧
    (∀ (err : ActErr) (name r : Bytes), k.pending = 1 → finalReply c.exprange (Reply.withStore w k err) = some r →
        cliRec (actFinish w g err name).1 g =
          some { c with cmd := none, toBuf := c.toBuf ++ (Reply.errPre err name ++ r ++ prompt) }) := by
  refine ⟨?_, ?_, ?_, ?_, ?_⟩
  · intro g' c' k' hc' hk' hne e
    exact hne (h.apart g' g c' c k' k hc' hc hk' hk e)
  · intro d x o now hx
    exact processStmt_own_arglist d x o now k.al (fun e => hx e.symm)
  · intro nd hnd x hx hne
    exact h.foreign hc hk hal hnd hx hne
  · intro p a nd rest hw hq
    subst hw
    exact devPass_result_scope p a nd rest g c k h hc hk hal hq
  · intro err name r hp hr
    exact (Reply.actFinish_last w g err name c k r hc hk hp hr).2

/-- what the reply reads of the store: `Reply.withStore w k err` is `k` with the error flag of the last completion or-ed in
    and with `args` read from the store at `k.al` — no other arglist -/
theorem C11_withStore_spelled (w : W) (k : CmdC) (err : ActErr) :
    Reply.withStore w k err = { k with error := k.error || (err != .success), args := (storeArgs w k.al).map argC } := rfl

/- non-vacuity: in the example pass the device runs `setplugstate` for client 1's action (arglist 1): afterwards arglist 1 says
   `a1` is on and client 1's reply says so, while client 2's arglist 2 — same node, same device, same queue — still says
   unknown; client 2 (arglist 2 ≠ 0) satisfies the hypotheses of the theorem in `Two.w3`, and the action of client 1 in the
   queue does not carry its arglist id -/
example : (storeArgs Two.w3x 1).map (fun a => psNum a.state) = [0] ∧ (storeArgs Two.w4 1).map (fun a => psNum a.state) = [2] ∧
    (storeArgs Two.w3x 2).map (fun a => psNum a.state) = [0] ∧ (storeArgs Two.w4 2).map (fun a => psNum a.state) = [0] := by
  decide +kernel
example : ArgScope Two.w3 ∧ ((cliRec Two.w3 2).map fun c => c.cmd.map (·.al)) = some (some 2) :=
  ⟨Two.iso3.2, by decide +kernel⟩

/-! ## 5. Departure -/

/-- **A client that goes away takes nothing with it.**  In one turn of the loop of `cli_post_poll` the client `c0` is
    destroyed (`clientPass … = none`, the model's `goto client_dead`: ERR/NVAL on its descriptor, or it has quit / hit EOF
    and no command of its is in progress).  Then:

    * the devices are exactly what they were — every action queued for the client stays queued and will run;
    * the arglist store and both counters are what they were; the daemon goes on (`exited = false`);
    * the client table is the old one without the records of id `c0.id`: the record of every other client is untouched,
      `c0.id` is no longer found;
    * the only system calls logged are calls on `c0`'s own descriptor (at least its `close`), and no other descriptor's
      write capacity is touched. -/
theorem C11_departure (envs : List FdEnv) (w : W) (c0 : Cli) (hex : w.exited = false)
    (h : (clientPass w c0 (envs.find? (·.fd == c0.fd))).2 = none) :
    (ClientPf.cliStep envs w c0).devs = w.devs ∧ (ClientPf.cliStep envs w c0).store = w.store ∧
    (ClientPf.cliStep envs w c0).alNext = w.alNext ∧ (ClientPf.cliStep envs w c0).nextId = w.nextId ∧
    (ClientPf.cliStep envs w c0).exited = false ∧
    (ClientPf.cliStep envs w c0).clients = w.clients.filter (fun x => x.id != c0.id) ∧
    cliRec (ClientPf.cliStep envs w c0) c0.id = none ∧
    (∀ g, g ≠ c0.id → cliRec (ClientPf.cliStep envs w c0) g = cliRec w g) ∧
    ∃ ext, (ClientPf.cliStep envs w c0).sys = w.sys ++ ext ∧ (∀ s ∈ ext, sysFd s = some c0.fd) ∧
      (∀ fd, fd ≠ c0.fd → capOf (ClientPf.cliStep envs w c0) fd = capOf w fd) :=
  cliStep_departure envs w c0 hex h

/-- `cli_post_poll` is the accept step followed by one such turn per client (the list of clients is the one at the
    beginning of the loop) -/
theorem C11_cliPostPoll_spelled (w : W) (acc : Nat) (envs : List FdEnv) :
    cliPostPoll w acc envs =
      (ClientPf.cliAccept { w with sys := [], caps := envs.map fun (e : FdEnv) => (e.fd, e.cap) } acc).clients.foldl (ClientPf.cliStep envs)
        (ClientPf.cliAccept { w with sys := [], caps := envs.map fun (e : FdEnv) => (e.fd, e.cap) } acc) :=
  ClientPf.cliPostPoll_eq w acc envs

/-- **Completions that arrive later are dropped.**  A completion for an id no client has (`_find_client` returns `NULL`) changes
    nothing and is not an error; more generally a whole batch of callbacks all of whose addressees are gone leaves the
    world exactly as it is — nothing leaks into another session.  (By `C11_ids_accept` the id is never given to a later
    client, as long as the C counter has not wrapped.) -/
theorem C11_departure_late (w : W) (name : Bytes) :
    (∀ id err, cliRec w id = none → actFinish w id err name = (w, false)) ∧
    (∀ outs : List DOut, (∀ x ∈ outs, ∀ id, outCid x = some id → cliRec w id = none) → (applyOuts w name outs).1 = w) :=
  ⟨fun id err h => actFinish_gone w id err name h, fun outs h => applyOuts_absent w name outs h⟩

/- non-vacuity: in the example world client 1's descriptor reports POLLERR (`Two.pErr`): its `clientPass` returns `none`; after
   the pass client 2 is the only client and is what it was, and the queue still holds both actions.  In the next pass the
   device completes client 1's action: no `assert` fires, client 2's record is still what it was, and client 1's action has
   left the queue -/
example : (clientPass { Two.w3 with sys := [], caps := [(1000, 0)] } ((Two.w3.clients.headD { id := 0, fd := 0 }))
    (Two.pErr.envs.find? (·.fd == 1000))).2.isNone = true := by decide +kernel
example : ids Two.w3d = [2] ∧
    (cliRec Two.w3d 2).map (fun c => (c.toBuf, c.cmd.map (·.pending))) = (cliRec Two.w3 2).map (fun c => (c.toBuf, c.cmd.map (·.pending))) ∧
    Two.w3d.devs.map (fun nd => nd.2.acts.map fun a => (a.clientId, a.arglist)) = [[(1, 1), (2, 2)]] := by decide +kernel
example : (daemonPass { Two.w3d with pendingX := Two.xs4 } Two.p4).2.all (fun l => !l.startsWith "O ABORT") = true ∧
    (cliRec Two.w4d 2).map (fun c => (c.toBuf, c.cmd.map (·.pending))) = (cliRec Two.w3 2).map (fun c => (c.toBuf, c.cmd.map (·.pending))) ∧
    Two.w4d.devs.map (fun nd => nd.2.acts.map fun a => (a.clientId, a.arglist)) = [[(2, 2)]] := by decide +kernel

/-! ## 6. Back-pressure -/

/- THE TWO-RUN STATEMENTS are in §7 (`C11_backpressure`: the client stops reading) and §8 (`C11_vanish`: it vanishes / is absent).

   HERE (`_partial` with respect to them): the single-run *frame* of the client phase —
   a turn of the loop of `cli_post_poll` for one client (stuck or not) changes no other client's record, writes to no other
   client's descriptor and consumes no other descriptor's write capacity (1, 2); a record is read and written in its own
   turn only (2'); the turn of a client that is stuck *and silent* is the identity, so the loop runs as if it were absent
   from the list being served (2''); a client whose descriptor is not reported
   writable only accumulates output in its own buffer (3); a non-blocking descriptor that is reported writable but takes
   nothing (the model's `cap = 0`: the `write` fails with EAGAIN, `cbuf_read_to_fd` returns -1) makes `_handle_write` mark
   the client as gone — as coded, the client is then destroyed once its command is over (4).  The blocking `write` after `quit` (known finding F23: the descriptor is made blocking and the
   whole daemon sleeps in `write` until the peer reads) cannot be expressed in a model without time inside a pass: it
   appears only as the `blocks` flag of the logged `Sys.write` (5). -/
theorem C11_backpressure_partial (envs : List FdEnv) :
    -- 1. one turn: the frame of `clientPass`, and no other client's record is touched
    (∀ (w : W) (c0 : Cli), (∃ ext, PassIso w c0 (clientPass w c0 (envs.find? (·.fd == c0.fd))) ext) ∧
        ∀ g, g ≠ c0.id → cliRec (ClientPf.cliStep envs w c0) g = cliRec w g) ∧
    -- 2. any number of turns of other clients: record, bytes written to the descriptor, capacity of the descriptor
    (∀ (x : Cli) (l : List Cli) (w : W), (∀ c ∈ l, c.id ≠ x.id) → (∀ c ∈ l, c.fd ≠ x.fd) →
        cliRec (l.foldl (ClientPf.cliStep envs) w) x.id = cliRec w x.id ∧
        ClientPf.written (l.foldl (ClientPf.cliStep envs) w).sys x.fd = ClientPf.written w.sys x.fd ∧
        capOf (l.foldl (ClientPf.cliStep envs) w) x.fd = capOf w x.fd) ∧
    -- 2'. in the loop a client's record is read and written in its own turn only
    (∀ (x : Cli) (pre post : List Cli) (w : W), (∀ c ∈ pre, c.id ≠ x.id) → (∀ c ∈ post, c.id ≠ x.id) →
        cliRec (pre.foldl (ClientPf.cliStep envs) w) x.id = cliRec w x.id ∧
        cliRec ((pre ++ x :: post).foldl (ClientPf.cliStep envs) w) x.id =
          cliRec (ClientPf.cliStep envs (pre.foldl (ClientPf.cliStep envs) w) x) x.id) ∧
    -- 2''. a client for which the pass brings nothing (`QuietCli`: no event on its descriptor although output may be
    --      waiting, no complete line buffered, not about to be destroyed): the loop runs as if its turn were skipped
    (∀ (s : Cli) (pre post : List Cli) (w : W), IdsFresh w → (∀ c ∈ pre, c.id < w.nextId) → s ∈ w.clients →
        (∀ c ∈ pre, c.id ≠ s.id) → QuietCli envs s →
        (pre ++ s :: post).foldl (ClientPf.cliStep envs) w = (pre ++ post).foldl (ClientPf.cliStep envs) w) ∧
    -- 3. not reported writable, survives without having quit: nothing written, the buffer only grows
    (∀ (w : W) (c : Cli) (e : Option FdEnv) (c' : Cli), ClientPf.cpRev c e &&& 2 = 0 → (clientPass w c e).2 = some c' →
        c'.quit = false →
        (∃ b, c'.toBuf = c.toBuf ++ b) ∧ ClientPf.written (clientPass w c e).1.sys c.fd = ClientPf.written w.sys c.fd) ∧
    -- 4. reported writable but the `write` would block (EAGAIN)
    (∀ (w : W) (c : Cli), capOf w c.fd = 0 → c.quit = false → c.blocking = false → c.toBuf ≠ [] →
        handleWrite w c = ({ w with sys := w.sys ++ [Sys.write c.fd [] false false] }, { c with quit := true })) ∧
    -- 5. after `quit`: one blocking write of the whole buffer, whatever the capacity
    (∀ (w : W) (c : Cli), c.quit = true → c.toBuf ≠ [] → ¬ capOf w c.fd < 0 →
        handleWrite w c =
          (setCap { w with sys := w.sys ++ [Sys.write c.fd c.toBuf false (decide (capOf w c.fd < (c.toBuf.length : Int)))] } c.fd
             (if capOf w c.fd < (c.toBuf.length : Int) then 0 else capOf w c.fd - (c.toBuf.length : Int)),
           { c with blocking := true, toBuf := [] })) :=
  ⟨fun w c0 => ⟨(clientPass_iso w c0 _).imp fun _ h => h.1, fun g hg => cliStep_other envs w c0 g hg⟩,
   fun x l w h1 h2 => foldl_cliStep_frame envs x l w h1 h2,
   fun x pre post w h1 h2 => foldl_cliStep_split envs x pre post w h1 h2,
   fun s pre post w h hl hs hpre hq => foldl_cliStep_skip envs s pre post w h hl hs hpre hq,
   fun w c e c' h1 h2 h3 => clientPass_unwritable w c e c' h1 h2 h3,
   handleWrite_stuck, handleWrite_quit⟩

/-- what `PassIso` says, spelled out: the fields of the world one client's share never writes (`kept`: the client table,
    the id counter, the descriptor counters, …), the system-call log, the capacities, and the two outcomes -/
theorem C11_PassIso_spelled (w : W) (c : Cli) (r : W × Option Cli) (ext : List Sys) (h : PassIso w c r ext) :
    (r.1.clients = w.clients ∧ r.1.specs = w.specs ∧ r.1.nextId = w.nextId ∧ r.1.nacc = w.nacc ∧ r.1.nsock = w.nsock ∧
      r.1.npair = w.npair ∧ r.1.nfork = w.nfork ∧ r.1.tmo = w.tmo ∧ r.1.pendingX = w.pendingX) ∧
    r.1.sys = w.sys ++ ext ∧ (∀ s ∈ ext, sysFd s = some c.fd) ∧ (∀ fd, fd ≠ c.fd → capOf r.1 fd = capOf w fd) ∧
    (∀ c', r.2 = some c' → c'.id = c.id ∧ c'.fd = c.fd ∧ (c.quit = true → c'.quit = true) ∧
      Enq c.id w r.1 c.cmd c'.cmd ∧ ((∃ b, c'.toBuf = c.toBuf ++ b) ∨ ∃ s ∈ ext, isWrite s = true)) ∧
    (r.2 = none → r.1.devs = w.devs ∧ r.1.store = w.store ∧ r.1.alNext = w.alNext ∧
      (r.1.exited = w.exited ∨ r.1.exited = false)) := by
  refine ⟨?_, h.sys, h.sysfd, h.caps, h.alive, h.gone⟩
  have := h.kept
  simp only [kept, Prod.mk.injEq] at this
  exact this

/- non-vacuity of 2'': both clients of the example world have output waiting (the banner was never taken) and are quiet in a
   pass that brings no event -/
example : (∀ c ∈ Two.w3.clients, QuietCli [] c) ∧ Two.w3.clients.map (·.toBuf.isEmpty) = [false, false] :=
  ⟨Pm.Daemon.Ex.quietB_sound [] _ (by decide +kernel), by decide +kernel⟩

/- non-vacuity of 3 and 4: client 2 of the example world, with output waiting and a descriptor that is not reported writable
   while a request line arrives, keeps everything in its buffer; the hypotheses of 4 are satisfiable for it -/
example : (cliRec Two.w3 2).map (fun c =>
      (ClientPf.cpRev c (some { fd := 1001, rev := 1, rk := 0, data := Two.line, cap := 0 }) &&& 2,
       (clientPass Two.w3 c (some { fd := 1001, rev := 1, rk := 0, data := Two.line, cap := 0 })).2.map fun c' =>
         (c'.quit, c'.toBuf.drop c.toBuf.length))) =
    some (0, some (false, bstr "208 Command in progress\r\n")) := by decide +kernel
example : (cliRec Two.w3 2).map (fun c => (capOf { Two.w3 with caps := [(1001, 0)] } c.fd, c.quit, c.blocking, c.toBuf.isEmpty)) =
    some (0, false, false, false) := by
  decide +kernel

/-! ## 7. Back-pressure as a statement about two runs

Helper modules: `Pm/TwoRun.lean` (every stage of one client's share of `cli_post_poll`, relationally: `clientPass` does not read
the client table, reads the write capacity of its own descriptor only, and two records that differ in the output buffer go
through every stage to records that differ in the output buffer), `Pm/TwoRunC11.lean` (the relation `ARel` between the two
worlds, one pass, any number of passes), `Pm/TwoRunEx.lean` (example runs).

Vocabulary:

* `stuckIn fs p` — the pass input `p` with the writable bit of descriptor `fs` cleared (`rev % 2`) and no capacity: the peer on
  `fs` has stopped reading; everything else — clock, `accept`, `connect()` answers, the events of every other descriptor, and
  what *arrives* on `fs` — is as in `p`;
* `ReaderRun fs w ps` — along the first run: `ReaderOK` (for `fs` only the readable/writable bits are reported — no hang-up,
  error or invalid-descriptor bit — and when it is reported writable it takes at least one byte: in the first run the client
  *behaves*), and no device's descriptor has the number `fs`;
* `passSteps w p` — what every device does in the pass `p` from world `w`: per device its new state, its system calls (the
  transcript of the pass), the oracle remainder, its callbacks, its registered time-out (`none`: not stepped, `assert`);
  `callbacksFor s steps` — the callbacks among them that carry client `s`'s id;
* `Faithful s fs w ps` — where the model is faithful to the code (see below). -/
open Pm.Daemon.TwoRun in
/-- **Back-pressure, two runs** (the last clause of the property).  Start two runs in the same reachable world `w` (`Iso w`:
    the id and arglist disciplines, which hold at start-up and are kept by every pass); client `s` is the one client on
    descriptor `fs`.  First run: pass inputs `ps`, in which `s` behaves (`ReaderRun`).  Second run: the same inputs, except
    that `fs` is never again reported writable (`stuckIn fs`): `s` has stopped reading — while it may go on *sending* whatever
    it sends in the first run, requests included.  Then after every number `n` of passes:

    1. every other client `g ≠ s` has the same record in both runs (output buffer, command in progress, flags, input buffer);
    2. the bytes written to every other descriptor in the last pass are the same;
    3. every device is in the same state (queue, buffers, connection), the arglist store is the same, the same clients are
       connected, neither or both processes have left;
    4. in the next pass every device does the same in both runs (`passSteps`: state, system calls, callbacks, time-out) — so
       every device sees the same transcript; in particular
    5. the callbacks carrying `s`'s own id are the same: the actions queued for `s` run and complete exactly as if `s` were
       reading — nothing is cancelled.

    What differs is `s`'s own output buffer, which only grows in the second run (`C11_backpressure_partial`, item 3).

    EXPLICIT EXCLUSIONS (`Faithful`; the proof does not use them — they delimit where the model speaks for the code).
    (a) F23: once `s` has quit (command `quit`, end of file) `_handle_write` clears `O_NONBLOCK` and writes the whole buffer;
    with a peer that does not read the real daemon sleeps in `write` and *every* session stalls.  The model has no time inside
    a pass: the call is logged with the flag `blocks` and the run goes on.  `Faithful.noBlock` excludes a logged blocking write
    on `fs` in the second run.  (b) The model's output buffer is unbounded; the real `cbuf` is capped at `MAX_CLIENT_BUF` = 1 MiB
    and then drops the client's own oldest output (`_client_printf: cbuf_write dropped`).  `Faithful.below` keeps `s`'s buffer
    below that.  Neither touches another session in the model; (a) does in the code (known finding F23). -/
theorem C11_backpressure (s fs : Nat) (w : W) (ps : List PassIn) (hi : Iso w)
    (hs : ∀ c ∈ w.clients, c.fd = fs → c.id = s) (hf : fs < 1000 + w.nacc) (hrun : ReaderRun fs w ps)
    (_hmodel : Faithful s fs w (ps.map (stuckIn fs))) (n : Nat) :
    (∀ g, g ≠ s → cliRec (runPasses w ((ps.take n).map (stuckIn fs))) g = cliRec (runPasses w (ps.take n)) g) ∧
    (∀ fd, fd ≠ fs → ClientPf.written (runPasses w ((ps.take n).map (stuckIn fs))).sys fd = ClientPf.written (runPasses w (ps.take n)).sys fd) ∧
    ((runPasses w ((ps.take n).map (stuckIn fs))).devs = (runPasses w (ps.take n)).devs ∧
     (runPasses w ((ps.take n).map (stuckIn fs))).store = (runPasses w (ps.take n)).store ∧
     ids (runPasses w ((ps.take n).map (stuckIn fs))) = ids (runPasses w (ps.take n)) ∧
     (runPasses w ((ps.take n).map (stuckIn fs))).exited = (runPasses w (ps.take n)).exited) ∧
    (∀ p, ps[n]? = some p →
      passSteps (runPasses w ((ps.take n).map (stuckIn fs))) (stuckIn fs p) = passSteps (runPasses w (ps.take n)) p ∧
      callbacksFor s (passSteps (runPasses w ((ps.take n).map (stuckIn fs))) (stuckIn fs p)) =
        callbacksFor s (passSteps (runPasses w (ps.take n)) p)) := by
  have e1 : ((ps.map fun p => (p, stuckIn fs p)).take n).map (·.1) = ps.take n := by
    rw [← List.map_take, List.map_map]
    have : ((fun x : PassIn × PassIn => x.1) ∘ fun p => (p, stuckIn fs p)) = id := rfl
    rw [this, List.map_id]
  have e2 : ((ps.map fun p => (p, stuckIn fs p)).take n).map (·.2) = (ps.take n).map (stuckIn fs) := by
    rw [← List.map_take, List.map_map]; rfl
  -- `backpressure_plain`: `backpressure` derived from the `runX` version (`C11_backpressure_pairs_runX`)
  obtain ⟨hr, hst⟩ := backpressure_plain s fs w (ps.map fun p => (p, stuckIn fs p)) hi hs hf (stuckRun_of fs ps w hrun) n
  rw [e1, e2] at hr hst
  obtain ⟨o1, o2, o3, o4, _, o6, o7⟩ := hr.others
  refine ⟨o1, o2, ⟨o3, o4, o7, o6⟩, fun p hp => ?_⟩
  have := hst (p, stuckIn fs p) (by rw [List.getElem?_map, hp]; rfl)
  exact ⟨this, by rw [this]⟩

open Pm.Daemon.TwoRun in
/-- The same for two arbitrary lists of pass inputs given pass by pass as pairs `(p, p')`: `StuckRun fs w pp` says of every pair
    — the same clock, `accept` verdict and `connect()` answers; the same events on every descriptor but `fs`; on `fs`: in
    `p` only readable/writable bits and a positive capacity when writable, in `p'` the readable bit and what is read as in `p`
    and never writable (`StuckEv`; the capacity in `p'` is arbitrary) — and that no device sits on the number `fs`.
    `ARel s fs w₁ w₂` is the relation the runs keep: everything but the client table, the log and the capacities is equal; the
    tables are equal entry by entry except for the output buffer and the blocking flag of the entry on `fs`; the logs of
    the last pass are equal on every other descriptor. -/
theorem C11_backpressure_pairs (s fs : Nat) (w : W) (pp : List (PassIn × PassIn)) (hi : Iso w)
    (hs : ∀ c ∈ w.clients, c.fd = fs → c.id = s) (hf : fs < 1000 + w.nacc) (hrun : StuckRun fs w pp) (n : Nat) :
    ARel s fs (runPasses w ((pp.take n).map (·.1))) (runPasses w ((pp.take n).map (·.2))) ∧
    ∀ x, pp[n]? = some x →
      passSteps (runPasses w ((pp.take n).map (·.2))) x.2 = passSteps (runPasses w ((pp.take n).map (·.1))) x.1 :=
  backpressure_plain s fs w pp hi hs hf hrun n      -- corollary of `C11_backpressure_pairs_runX` (passes that bring no regex answer)

open Pm.Daemon.TwoRun in
/-- what `ARel` gives, spelled out -/
theorem C11_ARel_spelled (s fs : Nat) (w w' : W) (h : ARel s fs w w') :
    (∀ g, g ≠ s → cliRec w' g = cliRec w g) ∧ (∀ fd, fd ≠ fs → ClientPf.written w'.sys fd = ClientPf.written w.sys fd) ∧
    w'.devs = w.devs ∧ w'.store = w.store ∧ w'.alNext = w.alNext ∧ w'.exited = w.exited ∧ ids w' = ids w :=
  h.others

open Pm.Daemon.TwoRun in
/-- what the hypotheses about one pair of pass inputs say, spelled out -/
theorem C11_StuckPass_spelled (fs : Nat) (w : W) (p p' : PassIn) (h : StuckPass fs w p p') :
    p'.now = p.now ∧ p'.acc = p.acc ∧ p'.con = p.con ∧ p'.soe = p.soe ∧
    (∀ fd, fd ≠ fs → p'.envs.find? (·.fd == fd) = p.envs.find? (·.fd == fd)) ∧
    (match p.envs.find? (·.fd == fs), p'.envs.find? (·.fd == fs) with
      | none, none => True
      | some x, some x' => x.rev < 4 ∧ x'.rev = x.rev % 2 ∧ x'.rk = x.rk ∧ x'.data = x.data ∧ (2 ≤ x.rev → 0 < x.cap)
      | _, _ => False) ∧
    (∀ nd ∈ w.devs, nd.2.fd ≠ some fs) :=
  ⟨h.now, h.acc, h.con, h.soe, h.others, h.stuck, h.devfd⟩

open Pm.Daemon.TwoRun in
/-- **"… does not delay …": the model-level timing fact.**  `replyPass w ps g` is the index of the first pass in which client
    `g`'s command in progress is completed (the final reply is queued, `cmd` is cleared).  Under the hypotheses of
    `C11_backpressure` it is the same in both runs for every client `g ≠ s`.  (Time is an *input* of the model — `PassIn.now`
    is the same in both runs by construction —; equality of real completion times is outside it.) -/
theorem C11_backpressure_timing (s fs : Nat) (w : W) (ps : List PassIn) (hi : Iso w)
    (hs : ∀ c ∈ w.clients, c.fd = fs → c.id = s) (hf : fs < 1000 + w.nacc) (hrun : ReaderRun fs w ps)
    (hmodel : Faithful s fs w (ps.map (stuckIn fs))) (g : Nat) (hg : g ≠ s) :
    replyPass w (ps.map (stuckIn fs)) g = replyPass w ps g := by
  apply replyPass_congr w w ps (ps.map (stuckIn fs)) g (by simp)
  intro n
  rw [← List.map_take]
  exact (C11_backpressure s fs w ps hi hs hf hrun hmodel n).1 g hg

/- non-vacuity (`Pm/TwoRunEx.lean`).  World `Two.w3x`: clients 1 (descriptor 1000) and 2 (descriptor 1001) both have `status a1`
   in flight and the banner in their buffers.  Pass A: the device answers client 1's action, both descriptors are writable.
   Pass B: a third client connects, client 1 asks again, client 2 sends `help` (answered 208), the device takes the bytes of
   client 2's action.  In the second run descriptor 1001 is never writable.  All hypotheses hold; after both passes client 2's
   buffer holds 25 bytes in the first run and 42 in the second (banner never taken); clients 1 and 3, the queue of the device
   and the bytes written to descriptor 1000 are the same; client 1's command completes in pass 0 in both runs. -/
example : Iso Two.w3x ∧ (∀ c ∈ Two.w3x.clients, c.fd = 1001 → c.id = 2) ∧ 1001 < 1000 + Two.w3x.nacc ∧
    Pm.Daemon.TwoRun.ReaderRun 1001 Two.w3x Pm.Daemon.TwoRun.Ex.ps ∧
    Pm.Daemon.TwoRun.Faithful 2 1001 Two.w3x (Pm.Daemon.TwoRun.Ex.ps.map (Pm.Daemon.TwoRun.stuckIn 1001)) :=
  ⟨Pm.Daemon.TwoRun.Ex.iso3x, Pm.Daemon.TwoRun.Ex.onlyS, Pm.Daemon.TwoRun.Ex.fresh, Pm.Daemon.TwoRun.Ex.readerRun,
   Pm.Daemon.TwoRun.Ex.faithful⟩
example :
    (runPasses Two.w3x Pm.Daemon.TwoRun.Ex.ps).clients.map (fun c => (c.id, c.fd, c.toBuf.length, c.cmd.isSome)) =
      [(1, 1000, 0, true), (2, 1001, 25, true), (3, 1002, 17, false)] ∧
    (runPasses Two.w3x Pm.Daemon.TwoRun.Ex.ps').clients.map (fun c => (c.id, c.fd, c.toBuf.length, c.cmd.isSome)) =
      [(1, 1000, 0, true), (2, 1001, 42, true), (3, 1002, 17, false)] ∧
    (runPasses Two.w3x Pm.Daemon.TwoRun.Ex.ps).devs.map (fun nd => nd.2.acts.map fun a => (a.clientId, a.arglist)) = [[(2, 2), (1, 3)]] ∧
    Pm.Daemon.TwoRun.replyPass Two.w3x Pm.Daemon.TwoRun.Ex.ps 1 = some 0 ∧
    Pm.Daemon.TwoRun.replyPass Two.w3x Pm.Daemon.TwoRun.Ex.ps' 1 = some 0 := by decide +kernel

/-! ## 8. A client that vanishes — or whose descriptor does not matter because it sends nothing

Helper module `Pm/TwoRunGone.lean`.  Vocabulary: `Inert envs c` — nothing arrives from client `c` in this pass: its descriptor is
not reported readable (nor hung up) and no complete request line waits in its input buffer; it may be reported writable,
with any capacity, or `POLLERR`/`POLLNVAL` (then it is destroyed at once).  `GoneRun fs w w' pp` — for every pair of pass inputs
along the two runs (`GonePass`): the same clock, `accept` verdict and `connect()` answers; the same events on every descriptor but
`fs`; no device on the number `fs`; the client on `fs`, in either run, if it is (still) there, is `Inert`; both worlds satisfy
the id discipline; neither device phase hits a modelled `assert`.  `BRel fs w₁ w₂` — the relation kept: everything equal except
the client tables, which are equal on the clients not on `fs`, and the logs, equal on every descriptor but `fs`. -/
open Pm.Daemon.TwoRun in
/-- **Disconnection at any moment, two runs.**  Two runs from worlds related by `BRel` — in particular from the *same* world
    (`C11_BRel_init`), or from the two worlds a stuck phase (`C11_backpressure_pairs`) has produced (`C11_stuck_then_vanish`).
    In the first run the client on `fs` stays connected and sends nothing more; in the second its descriptor reports an error
    in some pass — it *vanishes*: `_destroy_client`, descriptor closed — or it never becomes writable, or anything else that
    is not input.  Then after every number `n` of passes the relation still holds, and in the next pass every device does
    exactly the same in both runs (`passSteps`): the actions queued for the vanished client stay queued, run, and complete
    with the same callbacks (which `_act_finish` drops for a client that is gone, `C11_departure_late`); by `C11_BRel_spelled`
    every other client has the same record and was written the same bytes, every device and the arglist store are the same.

    The hypothesis that no modelled `assert` fires (`GonePass.alive`, `alive'`) is needed because a completion for a client
    that is *present* goes through `assert(c->cmd != NULL)` and the sort assertion of the final reply, while one for a client
    that is gone does not; `C06`/`C02` are where these asserts are discussed. -/
theorem C11_vanish (fs : Nat) (w w' : W) (pp : List (PassIn × PassIn)) (hr : BRel fs w w') (hs : GoneRun fs w w' pp) (n : Nat) :
    BRel fs (runPasses w ((pp.take n).map (·.1))) (runPasses w' ((pp.take n).map (·.2))) ∧
    ∀ x, pp[n]? = some x →
      passSteps (runPasses w' ((pp.take n).map (·.2))) x.2 = passSteps (runPasses w ((pp.take n).map (·.1))) x.1 :=
  vanish_plain fs w w' pp hr hs n      -- corollary of `C11_vanish_runX` (passes that bring no regex answer)

open Pm.Daemon.TwoRun in
/-- the two runs may start in the same world (the client on `fs`, if any, is `s`; the descriptor number `fs` has been handed out) -/
theorem C11_BRel_init (s fs : Nat) (w : W) (h1 : ∀ c ∈ w.clients, c.fd = fs → c.id = s) (h2 : fs < 1000 + w.nacc) : BRel fs w w :=
  (ARel.init s fs w h1 h2).toB

open Pm.Daemon.TwoRun in
/-- what `BRel` gives, spelled out (`w'` reachable) -/
theorem C11_BRel_spelled (fs : Nat) (w w' : W) (h : BRel fs w w') (hi' : IdsFresh w') :
    (∀ g c, cliRec w g = some c → c.fd ≠ fs → cliRec w' g = some c) ∧
    (∀ fd, fd ≠ fs → ClientPf.written w'.sys fd = ClientPf.written w.sys fd) ∧
    w'.devs = w.devs ∧ w'.store = w.store ∧ w'.alNext = w.alNext ∧ w'.exited = w.exited ∧
    w'.clients.filter (fun c => c.fd != fs) = w.clients.filter (fun c => c.fd != fs) :=
  h.others hi'

open Pm.Daemon.TwoRun in
/-- **First it stops reading, then it vanishes.**  A stuck phase `pp1` (hypotheses of `C11_backpressure_pairs`) followed by a phase
    `pp2` in which the client sends nothing in either run and its descriptor's events are arbitrary (`GoneRun`, stated on the
    worlds the two runs have reached after `pp1`): the relation `BRel` holds throughout the second phase. -/
theorem C11_stuck_then_vanish (s fs : Nat) (w : W) (pp1 pp2 : List (PassIn × PassIn)) (hi : Iso w)
    (h1 : ∀ c ∈ w.clients, c.fd = fs → c.id = s) (h2 : fs < 1000 + w.nacc) (hs1 : StuckRun fs w pp1)
    (hs2 : GoneRun fs (runPasses w (pp1.map (·.1))) (runPasses w (pp1.map (·.2))) pp2) (n : Nat) :
    BRel fs (runPasses w ((pp1 ++ pp2.take n).map (·.1))) (runPasses w ((pp1 ++ pp2.take n).map (·.2))) :=
  stuck_then_gone_plain s fs w pp1 pp2 hi h1 h2 hs1 hs2 n      -- corollary of the `runX` versions (passes that bring no regex answer)

/- non-vacuity (`Pm/TwoRunEx.lean`).  World `Two.w3x` again; client 2 (descriptor 1001) is the one.  Pass V: the device answers client
   1's action; in the second run descriptor 1001 reports `POLLERR`.  Pass W: the device takes the bytes of client 2's action.
   The hypotheses hold (`goneRun`).  After both passes client 2 is connected in the first run and gone in the second; client 1
   and the device — whose queue still holds client 2's action — are the same. -/
example : Pm.Daemon.TwoRun.BRel 1001 Two.w3x Two.w3x ∧ Pm.Daemon.TwoRun.GoneRun 1001 Two.w3x Two.w3x Pm.Daemon.TwoRun.Ex.ppV :=
  ⟨Pm.Daemon.TwoRun.Ex.brel0, Pm.Daemon.TwoRun.Ex.goneRun⟩
example :
    ids (runPasses Two.w3x (Pm.Daemon.TwoRun.Ex.ppV.map (·.1))) = [1, 2] ∧ ids (runPasses Two.w3x (Pm.Daemon.TwoRun.Ex.ppV.map (·.2))) = [1] ∧
    (runPasses Two.w3x (Pm.Daemon.TwoRun.Ex.ppV.map (·.1))).devs.map (fun nd => (nd.2.acts.map fun a => (a.clientId, a.arglist), nd.2.toBuf)) = [([(2, 2)], [])] ∧
    (runPasses Two.w3x (Pm.Daemon.TwoRun.Ex.ppV.map (·.2))).devs.map (fun nd => (nd.2.acts.map fun a => (a.clientId, a.arglist), nd.2.toBuf)) = [([(2, 2)], [])] := by
  decide +kernel

/- non-vacuity of `C11_stuck_then_vanish`: the two stuck passes of §7, then a pass in which descriptor 1001 reports `POLLERR` in the
   second run only (`goneAfterStuck`); afterwards client 2 is gone in the second run, clients 1 and 3 are the same -/
example : Pm.Daemon.TwoRun.StuckRun 1001 Two.w3x Pm.Daemon.TwoRun.Ex.pp1 ∧
    Pm.Daemon.TwoRun.GoneRun 1001 (runPasses Two.w3x (Pm.Daemon.TwoRun.Ex.pp1.map (·.1))) (runPasses Two.w3x (Pm.Daemon.TwoRun.Ex.pp1.map (·.2)))
      [(Pm.Daemon.TwoRun.Ex.pZ, Pm.Daemon.TwoRun.Ex.pZ')] :=
  ⟨Pm.Daemon.TwoRun.stuckRun_of 1001 _ _ Pm.Daemon.TwoRun.Ex.readerRun, Pm.Daemon.TwoRun.Ex.goneAfterStuck⟩
example :
    ids (runPasses Two.w3x ((Pm.Daemon.TwoRun.Ex.pp1 ++ [(Pm.Daemon.TwoRun.Ex.pZ, Pm.Daemon.TwoRun.Ex.pZ')]).map (·.1))) = [1, 2, 3] ∧
    ids (runPasses Two.w3x ((Pm.Daemon.TwoRun.Ex.pp1 ++ [(Pm.Daemon.TwoRun.Ex.pZ, Pm.Daemon.TwoRun.Ex.pZ')]).map (·.2))) = [1, 3] := by
  decide +kernel

/-! ## 9. The run theorems of §2, §7, §8 with regex answers arbitrary in every pass (`runX`)

The run theorems above quantify over `runPasses w ps`, the plain fold of `daemonPass`.  In such a run only the *first* pass can
see an answer of the regex engine (the answers for the coming pass live in `W.pendingX`; `daemonPass` consumes and clears them;
the driver refills them between passes): from the second pass on every `expect` sees "no match", so no query is ever answered
on/off and no scripted command succeeds after pass 1 — the two-run theorems compared degenerate runs only.  Here they are stated
over `runX w qs` (`Pm/RunX.lean`, the definition shared with C02, C03, C05, C06, C15): a pass `q : PassX` is the kernel's answers
`q.p` and the regex answers `q.rx` recorded for that pass; `feed w rx` appends `rx` to `pendingX` (what the driver does between
passes); `stepX w q = (daemonPass (feed w q.rx) q.p).1`.  **The regex answers are arbitrary in every pass, and the same in both
runs** (`q'.rx = q.rx`: the two runs differ in what the client on `fs` does, not in what the devices say).

Vocabulary (`Pm/RunXTwo.lean`; examples `Pm/RunXTwoEx.lean`): `AlongX H w w' pp` — the per-pass hypothesis `H` holds for every pair
of passes of `pp`, on the worlds the two runs have reached (`C11_AlongX_spelled`); `StuckX fs`, `GoneX fs` — `StuckPass`, `GonePass`
together with "the same regex answers" (`C11_StuckX_spelled`); `stuckInX fs q` — the pass `q` with the writable bit of `fs`
cleared, the regex answers unchanged; `ReaderRunX`, `FaithfulX`, `replyPassRunX` — `ReaderRun`, `Faithful`, `replyPass` for such
runs.  `passSteps (feed w q.rx) q.p` is what every device does in the pass `q` from world `w` (the device phase starts from the
world with the answers handed over).  The `runPasses` statements are the special case of passes that bring no answer
(`C11_runX_plain`). -/

open Pm.Daemon.TwoRun in
/-- what the vocabulary is -/
theorem C11_AlongX_spelled (H : W → W → PassX → PassX → Prop) (w w' : W) (x : PassX × PassX) (r : List (PassX × PassX)) :
    (AlongX H w w' (x :: r) ↔ H w w' x.1 x.2 ∧ AlongX H (stepX w x.1) (stepX w' x.2) r) ∧ (AlongX H w w' [] ↔ True) ∧
    stepX w x.1 = (daemonPass (feed w x.1.rx) x.1.p).1 ∧ feed w x.1.rx = { w with pendingX := w.pendingX ++ x.1.rx } :=
  ⟨Iff.rfl, Iff.rfl, rfl, rfl⟩

open Pm.Daemon.TwoRun in
/-- the per-pass hypotheses, spelled out: the same regex answers in both runs, and `StuckPass` (`C11_StuckPass_spelled`) resp.
    `GonePass` for the kernel's answers — the latter on the worlds with the answers handed over, because its clauses "no modelled
    `assert` fires" speak of the device phases, which consume the answers -/
theorem C11_StuckX_spelled (fs : Nat) (w w' : W) (q q' : PassX) :
    (StuckX fs w w' q q' ↔ q'.rx = q.rx ∧ StuckPass fs w q.p q'.p) ∧
    (GoneX fs w w' q q' ↔ q'.rx = q.rx ∧ GonePass fs (feed w q.rx) (feed w' q'.rx) q.p q'.p) ∧
    stuckInX fs q = ⟨stuckIn fs q.p, q.rx⟩ :=
  ⟨Iff.rfl, Iff.rfl, rfl⟩

open Pm.Daemon.TwoRun in
/-- **The `runPasses` statements are the special case of passes that bring no regex answer**: such a run is a run of
    `runPasses`, and the hypotheses `StuckRun`, `GoneRun`, `ReaderRun` of §7, §8 are `AlongX (StuckX fs)`, `AlongX (GoneX fs)`,
    `ReaderRunX` of the answer-less passes (so `C11_backpressure_pairs`, `C11_vanish`, `C11_ids` follow from the theorems of this
    section: `backpressure_plain`, `vanish_plain`, `runPasses_iso_plain` in `Pm/RunXTwo.lean`) -/
theorem C11_runX_plain (fs : Nat) (w w' : W) (ps : List PassIn) (pp : List (PassIn × PassIn)) :
    runX w (ps.map fun p => ⟨p, []⟩) = runPasses w ps ∧
    (StuckRun fs w pp → AlongX (StuckX fs) w w' (pp.map fun x => (⟨x.1, []⟩, ⟨x.2, []⟩))) ∧
    (GoneRun fs w w' pp → AlongX (GoneX fs) w w' (pp.map fun x => (⟨x.1, []⟩, ⟨x.2, []⟩))) ∧
    (ReaderRun fs w ps → ReaderRunX fs w (ps.map fun p => ⟨p, []⟩)) :=
  ⟨runX_runPasses w ps, stuckRunX_plain fs pp w w', goneRunX_plain fs pp w w', readerRunX_plain fs ps w⟩

/-- **The id and arglist disciplines over a run, regex answers arbitrary in every pass** (`C11_ids`, last part, for `runX`):
    handing the recorded answers to the daemon touches `pendingX` only, which neither discipline mentions. -/
theorem C11_ids_runX :
    (∀ (w : W) (rx : List Pm.Dev2.RxCall), Iso w → Iso (feed w rx)) ∧
    (∀ (w : W) (qs : List PassX), IdsFresh w → IdsFresh (runX w qs)) ∧
    (∀ (w : W) (qs : List PassX), Iso w → Iso (runX w qs)) :=
  ⟨fun _ rx h => Pm.Daemon.TwoRun.feed_iso rx h, Pm.Daemon.TwoRun.runX_ids, Pm.Daemon.TwoRun.runX_iso⟩

example : Iso (runX Two.w3 Pm.Daemon.TwoRun.ExX.qs) := C11_ids_runX.2.2 _ _ Two.iso3

open Pm.Daemon.TwoRun in
/-- **Back-pressure, two runs — regex answers arbitrary in every pass, the same in both runs.**  The statement of
    `C11_backpressure` for runs in which every pass brings its own regex answers.  Start two runs in the same reachable world
    `w`; client `s` is the one client on descriptor `fs`.  First run: passes `qs`, in which `s` behaves (`ReaderRunX`).  Second
    run: the same passes — the same kernel answers except that `fs` is never again reported writable, and the same regex
    answers (`stuckInX fs`).  Then after every number `n` of passes: (1) every other client has the same record in both runs;
    (2) the bytes written to every other descriptor in the last pass are the same; (3) every device is in the same state, the
    arglist store is the same, the same clients are connected, neither or both processes have left; (4) in the next pass every
    device does the same in both runs (`passSteps`), in particular (5) the callbacks carrying `s`'s own id are the same.
    (`_hmodel : FaithfulX` — the explicit exclusions (a) F23 and (b) the 1 MiB cap of `C11_backpressure`; not used by the proof.) -/
theorem C11_backpressure_runX (s fs : Nat) (w : W) (qs : List PassX) (hi : Iso w)
    (hs : ∀ c ∈ w.clients, c.fd = fs → c.id = s) (hf : fs < 1000 + w.nacc) (hrun : ReaderRunX fs w qs)
    (_hmodel : FaithfulX s fs w (qs.map (stuckInX fs))) (n : Nat) :
    (∀ g, g ≠ s → cliRec (runX w ((qs.take n).map (stuckInX fs))) g = cliRec (runX w (qs.take n)) g) ∧
    (∀ fd, fd ≠ fs → ClientPf.written (runX w ((qs.take n).map (stuckInX fs))).sys fd = ClientPf.written (runX w (qs.take n)).sys fd) ∧
    ((runX w ((qs.take n).map (stuckInX fs))).devs = (runX w (qs.take n)).devs ∧
     (runX w ((qs.take n).map (stuckInX fs))).store = (runX w (qs.take n)).store ∧
     ids (runX w ((qs.take n).map (stuckInX fs))) = ids (runX w (qs.take n)) ∧
     (runX w ((qs.take n).map (stuckInX fs))).exited = (runX w (qs.take n)).exited) ∧
    (∀ q, qs[n]? = some q →
      passSteps (feed (runX w ((qs.take n).map (stuckInX fs))) q.rx) (stuckIn fs q.p) = passSteps (feed (runX w (qs.take n)) q.rx) q.p ∧
      callbacksFor s (passSteps (feed (runX w ((qs.take n).map (stuckInX fs))) q.rx) (stuckIn fs q.p)) =
        callbacksFor s (passSteps (feed (runX w (qs.take n)) q.rx) q.p)) :=
  backpressure_stuckInX s fs w qs hi hs hf hrun n

open Pm.Daemon.TwoRun in
/-- The same for two arbitrary lists of passes given pass by pass as pairs `(q, q')` with `AlongX (StuckX fs)`: the same regex
    answers, and `StuckPass` for the kernel's answers (`C11_backpressure_pairs` for `runX`). -/
theorem C11_backpressure_pairs_runX (s fs : Nat) (w : W) (pp : List (PassX × PassX)) (hi : Iso w)
    (hs : ∀ c ∈ w.clients, c.fd = fs → c.id = s) (hf : fs < 1000 + w.nacc) (hrun : AlongX (StuckX fs) w w pp) (n : Nat) :
    ARel s fs (runX w ((pp.take n).map (·.1))) (runX w ((pp.take n).map (·.2))) ∧
    ∀ x, pp[n]? = some x →
      passSteps (feed (runX w ((pp.take n).map (·.2))) x.2.rx) x.2.p = passSteps (feed (runX w ((pp.take n).map (·.1))) x.1.rx) x.1.p :=
  backpressureX s fs w pp hi hs hf hrun n

open Pm.Daemon.TwoRun in
/-- **"… does not delay …", regex answers arbitrary in every pass** (`C11_backpressure_timing` for `runX`): the index of the
    first pass in which client `g`'s command in progress is completed is the same in both runs for every client `g ≠ s`. -/
theorem C11_backpressure_timing_runX (s fs : Nat) (w : W) (qs : List PassX) (hi : Iso w)
    (hs : ∀ c ∈ w.clients, c.fd = fs → c.id = s) (hf : fs < 1000 + w.nacc) (hrun : ReaderRunX fs w qs)
    (hmodel : FaithfulX s fs w (qs.map (stuckInX fs))) (g : Nat) (hg : g ≠ s) :
    replyPassRunX w (qs.map (stuckInX fs)) g = replyPassRunX w qs g := by
  apply replyPassRunX_congr w w qs (qs.map (stuckInX fs)) g (by simp)
  intro n
  rw [← List.map_take]
  exact (C11_backpressure_runX s fs w qs hi hs hf hrun hmodel n).1 g hg

/- non-vacuity (`Pm/RunXTwoEx.lean`), with the regex answers arriving in the SECOND pass of the run.  World `Two.w3`: clients 1
   (descriptor 1000) and 2 (descriptor 1001) both have `status a1` in flight; no regex answer is pending.  Pass 0: nothing
   happens.  Pass 1 (`⟨pA, xs4⟩`): the device answers client 1's action; the answers for `expect` and `setplugstate` are fed
   before this pass.  Pass 2: a third client connects, client 1 asks again, client 2 sends `help`.  In the second run descriptor
   1001 is never writable.  All hypotheses hold; client 2's buffer holds 25 bytes in the first run and 42 in the second; the
   others are the same; client 1's command completes in pass 1 in both runs — and in no pass at all without the answers, which
   is all a run of `runPasses` from `Two.w3` can have. -/
example : Iso Two.w3 ∧ (∀ c ∈ Two.w3.clients, c.fd = 1001 → c.id = 2) ∧ 1001 < 1000 + Two.w3.nacc ∧ Two.w3.pendingX = [] ∧
    Pm.Daemon.TwoRun.ExX.qs = [⟨Pm.Daemon.TwoRun.ExX.p0, []⟩, ⟨Pm.Daemon.TwoRun.Ex.pA, Two.xs4⟩, ⟨Pm.Daemon.TwoRun.Ex.pB, []⟩] ∧
    Pm.Daemon.TwoRun.ReaderRunX 1001 Two.w3 Pm.Daemon.TwoRun.ExX.qs ∧
    Pm.Daemon.TwoRun.FaithfulX 2 1001 Two.w3 (Pm.Daemon.TwoRun.ExX.qs.map (Pm.Daemon.TwoRun.stuckInX 1001)) :=
  ⟨Two.iso3, Pm.Daemon.TwoRun.ExX.onlyS, Pm.Daemon.TwoRun.ExX.fresh, Pm.Daemon.TwoRun.ExX.noPending, rfl,
   Pm.Daemon.TwoRun.ExX.readerRun, Pm.Daemon.TwoRun.ExX.faithful⟩
example :
    (runX Two.w3 Pm.Daemon.TwoRun.ExX.qs).clients.map (fun c => (c.id, c.fd, c.toBuf.length, c.cmd.isSome)) =
      [(1, 1000, 0, true), (2, 1001, 25, true), (3, 1002, 17, false)] ∧
    (runX Two.w3 Pm.Daemon.TwoRun.ExX.qs').clients.map (fun c => (c.id, c.fd, c.toBuf.length, c.cmd.isSome)) =
      [(1, 1000, 0, true), (2, 1001, 42, true), (3, 1002, 17, false)] ∧
    (runX Two.w3 Pm.Daemon.TwoRun.ExX.qs).devs.map (fun nd => nd.2.acts.map fun a => (a.clientId, a.arglist)) = [[(2, 2), (1, 3)]] ∧
    Pm.Daemon.TwoRun.replyPassRunX Two.w3 Pm.Daemon.TwoRun.ExX.qs 1 = some 1 ∧
    Pm.Daemon.TwoRun.replyPassRunX Two.w3 Pm.Daemon.TwoRun.ExX.qs' 1 = some 1 := Pm.Daemon.TwoRun.ExX.outcome
example : Pm.Daemon.TwoRun.replyPassRunX Two.w3
    [⟨Pm.Daemon.TwoRun.ExX.p0, []⟩, ⟨Pm.Daemon.TwoRun.Ex.pA, []⟩, ⟨Pm.Daemon.TwoRun.Ex.pB, []⟩] 1 = none :=
  Pm.Daemon.TwoRun.ExX.without_answer

open Pm.Daemon.TwoRun in
/-- **Disconnection at any moment, two runs — regex answers arbitrary in every pass, the same in both runs** (`C11_vanish` for
    `runX`).  Two runs from worlds related by `BRel`; in the first the client on `fs` stays connected and sends nothing more, in
    the second its descriptor reports an error in some pass, or never becomes writable, or anything else that is not input
    (`AlongX (GoneX fs)`).  Then after every number `n` of passes the relation still holds, and in the next pass every device
    does exactly the same in both runs. -/
theorem C11_vanish_runX (fs : Nat) (w w' : W) (pp : List (PassX × PassX)) (hr : BRel fs w w') (hs : AlongX (GoneX fs) w w' pp) (n : Nat) :
    BRel fs (runX w ((pp.take n).map (·.1))) (runX w' ((pp.take n).map (·.2))) ∧
    ∀ x, pp[n]? = some x →
      passSteps (feed (runX w' ((pp.take n).map (·.2))) x.2.rx) x.2.p = passSteps (feed (runX w ((pp.take n).map (·.1))) x.1.rx) x.1.p :=
  vanishX fs w w' pp hr hs n

open Pm.Daemon.TwoRun in
/-- **First it stops reading, then it vanishes — regex answers arbitrary in every pass, the same in both runs**
    (`C11_stuck_then_vanish` for `runX`). -/
theorem C11_stuck_then_vanish_runX (s fs : Nat) (w : W) (pp1 pp2 : List (PassX × PassX)) (hi : Iso w)
    (h1 : ∀ c ∈ w.clients, c.fd = fs → c.id = s) (h2 : fs < 1000 + w.nacc) (hs1 : AlongX (StuckX fs) w w pp1)
    (hs2 : AlongX (GoneX fs) (runX w (pp1.map (·.1))) (runX w (pp1.map (·.2))) pp2) (n : Nat) :
    BRel fs (runX w ((pp1 ++ pp2.take n).map (·.1))) (runX w ((pp1 ++ pp2.take n).map (·.2))) :=
  stuck_then_goneX s fs w pp1 pp2 hi h1 h2 hs1 hs2 n

/- non-vacuity (`Pm/RunXTwoEx.lean`).  World `Two.w3` (no answer pending); client 2 (descriptor 1001) is the one.  Pass 0: nothing.
   Pass 1: the device answers client 1's action — the regex answers are fed before this pass, to both runs —; in the second run
   descriptor 1001 reports `POLLERR`.  Pass 2: the device takes the bytes of client 2's action.  After the three passes client 2
   is connected in the first run and gone in the second; client 1 has been answered in both (its command is cleared: the `expect`
   matched in the second pass of the run); the device, whose queue still holds client 2's action, is the same. -/
example : Pm.Daemon.TwoRun.BRel 1001 Two.w3 Two.w3 ∧
    AlongX (Pm.Daemon.TwoRun.GoneX 1001) Two.w3 Two.w3 Pm.Daemon.TwoRun.ExX.ppV :=
  ⟨Pm.Daemon.TwoRun.ExX.brel0, Pm.Daemon.TwoRun.ExX.goneRun⟩
example :
    ids (runX Two.w3 (Pm.Daemon.TwoRun.ExX.ppV.map (·.1))) = [1, 2] ∧ ids (runX Two.w3 (Pm.Daemon.TwoRun.ExX.ppV.map (·.2))) = [1] ∧
    (runX Two.w3 (Pm.Daemon.TwoRun.ExX.ppV.map (·.1))).devs.map (fun nd => (nd.2.acts.map fun a => (a.clientId, a.arglist), nd.2.toBuf)) = [([(2, 2)], [])] ∧
    (runX Two.w3 (Pm.Daemon.TwoRun.ExX.ppV.map (·.2))).devs.map (fun nd => (nd.2.acts.map fun a => (a.clientId, a.arglist), nd.2.toBuf)) = [([(2, 2)], [])] ∧
    (cliRec (runX Two.w3 (Pm.Daemon.TwoRun.ExX.ppV.map (·.1))) 1).map (·.cmd.isNone) = some true ∧
    (cliRec (runX Two.w3 (Pm.Daemon.TwoRun.ExX.ppV.map (·.2))) 1).map (·.cmd.isNone) = some true := Pm.Daemon.TwoRun.ExX.outcomeV

/- non-vacuity of `C11_stuck_then_vanish_runX`: the three stuck passes above, then a pass in which descriptor 1001 reports `POLLERR`
   in the second run only; afterwards client 2 is gone in the second run, clients 1 and 3 are the same -/
example : AlongX (Pm.Daemon.TwoRun.StuckX 1001) Two.w3 Two.w3 Pm.Daemon.TwoRun.ExX.pp1 ∧
    AlongX (Pm.Daemon.TwoRun.GoneX 1001) (runX Two.w3 (Pm.Daemon.TwoRun.ExX.pp1.map (·.1))) (runX Two.w3 (Pm.Daemon.TwoRun.ExX.pp1.map (·.2)))
      Pm.Daemon.TwoRun.ExX.ppZ :=
  ⟨Pm.Daemon.TwoRun.stuckRunX_of 1001 _ _ _ Pm.Daemon.TwoRun.ExX.readerRun, Pm.Daemon.TwoRun.ExX.goneAfterStuck⟩
example :
    ids (runX Two.w3 ((Pm.Daemon.TwoRun.ExX.pp1 ++ Pm.Daemon.TwoRun.ExX.ppZ).map (·.1))) = [1, 2, 3] ∧
    ids (runX Two.w3 ((Pm.Daemon.TwoRun.ExX.pp1 ++ Pm.Daemon.TwoRun.ExX.ppZ).map (·.2))) = [1, 3] := Pm.Daemon.TwoRun.ExX.outcomeZ

end Pm.Props.C11
