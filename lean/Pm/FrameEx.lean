import Pm.FrameTwo
import Pm.FrameStutter
import Pm.FrameCli
import Pm.FrameMulti
/-! Concrete worlds for the non-vacuity examples of `Props/C05`: three devices `A`, `B`, `C` (one node each), client 1
    with an `on` for `A`'s node, client 2 with an `on` for `B`'s node. -/
namespace Pm.Daemon.Ex
open Pm Pm.Client Pm.Daemon
open Pm.Dev2 (Dev Action Stmt Plug Arg ExecCtx RxCall Oracle)

def nodeA : Bytes := [97, 49]
def nodeB : Bytes := [98, 49]
def nodeC : Bytes := [99, 49]
def plugA : Plug := { name := [49], node := some nodeA }
def plugB : Plug := { name := [49], node := some nodeB }
def plugC : Plug := { name := [49], node := some nodeC }

/-- `on`: send "on %s\n", expect pattern 1 -/
def onScript : List Stmt := [.send [111, 110, 32, 37, 115, 10], .expect 1]
def scripts : Nat → Option (List Stmt) := fun k => if k == 7 then some onScript else none

/-- an `on` action of client `cid` (arglist `al`) for plug `pl`, waiting in the `expect` since time 1000 -/
def onAct (pl : Plug) (cid al : Nat) : Action :=
  { uid := 0, com := 7, exec := [{ block := onScript, pos := 1, plugs := some [pl], plugItr := none, plugCopy := none, processing := false }],
    clientId := cid, telemetry := false, errnum := .success, timeStamp := some 1000, delayStart := 0, arglist := al }

def devBase (pl : Plug) (fd : Nat) : Dev :=
  { plugs := [pl], scripts := scripts, timeout := 5000000, acts := [], toBuf := [], fromBuf := [], xmStr := none, xmOffs := [],
    xmResult := false, xmUsed := false, args := [], nextUid := 1, shortCircuitDelay := false, conn := 2, loggedIn := true,
    fd := some fd, statConnects := 1 }

/-- `A`: connected, its `on` action has the answer "OK\n" in the buffer -/
def devA : Dev := { devBase plugA 2000 with acts := [onAct plugA 1 0], fromBuf := [79, 75, 10] }
/-- `B`, healthy version: connected, its `on` action still waiting, nothing received -/
def devB : Dev := { devBase plugB 2001 with acts := [onAct plugB 2 1] }
/-- `B`, sick version: garbage in the buffer that matches nothing -/
def devB' : Dev := { devBase plugB 2001 with acts := [onAct plugB 2 1], fromBuf := [1, 2, 3], toBuf := [7] }
/-- `C`: connected and idle -/
def devC : Dev := devBase plugC 2002

def cli1 : Cli := { id := 1, fd := 1000, cmd := some { com := .on, names := [['a', '1']], pending := 1, error := false, al := 0 } }
def cli2 : Cli := { id := 2, fd := 1001, cmd := some { com := .on, names := [['b', '1']], pending := 1, error := false, al := 1 } }

def store0 : List (Nat × List Arg) :=
  [(0, [{ node := nodeA, val := none, state := .unknown, result := .none }]),
   (1, [{ node := nodeB, val := none, state := .unknown, result := .none }])]

def xA : List RxCall := [{ pat := 1, subject := [79, 75, 10], answer := some [(0, 3)] }]
def xB' : List RxCall := [{ pat := 1, subject := [1, 2, 3], answer := none }]

def world (b : Dev) (xs : List RxCall) : W :=
  { cfg := { plugs := [], has := [], nodes := [], version := [] }, clients := [cli1, cli2],
    devs := [([65], devA), ([66], b), ([67], devC)], store := store0, nextId := 3, nacc := 2, nsock := 3, alNext := 2, pendingX := xs }

def pin : PassIn := { now := 2000, acc := 0, con := [0], soe := [0], envs := [] }

def w1 : W := world devB xA
def w2 : W := world devB' (xA ++ xB')

/-- the nodes that are not `B`'s -/
def Q : Bytes → Bool := fun n => n != nodeB

def A : Bytes × Dev := ([65], devA)
def B : Bytes × Dev := ([66], devB)
def B' : Bytes × Dev := ([66], devB')
def C : Bytes × Dev := ([67], devC)

theorem clock : SameClock pin pin := ⟨rfl, rfl, rfl⟩

theorem namesQ : NamesQ Q [['a', '1']] := by
  intro nb h
  simp only [List.mem_singleton] at h
  unfold Q
  by_cases hb : nb = nodeB
  · subst hb; exact absurd h (by decide)
  · simpa using hb

theorem core0 : AccCore Q 1 1 (acc0 w1) (acc0 w2) where
  cli := rfl
  gok := by
    intro c hc k hk
    have h1 : cliRec (acc0 w1).w 1 = some cli1 := rfl
    rw [h1] at hc
    simp only [Option.some.injEq] at hc
    subst hc
    simp only [cli1, Option.some.injEq] at hk
    subst hk
    exact namesQ
  store := fun _ => rfl
  len := rfl
  devs := fun _ _ => rfl

theorem qOn (pl : Plug) (fd : Nat) (n : Bytes) (hn : pl.node = some n) (hq : Q n = true) (d : Dev) (hd : d.plugs = [pl]) :
    Pm.Dev2.QOn Q d := by
  intro p hp m hm
  rw [hd] at hp
  simp only [List.mem_singleton] at hp
  subst hp
  rw [hn] at hm
  simp only [Option.some.injEq] at hm
  subst hm
  exact hq

theorem others : ∀ nd ∈ [A] ++ [C], SameEvents pin pin nd ∧ Pm.Dev2.QOn Q nd.2 ∧ Pm.Dev2.ActsOK Q nd.2.acts := by
  intro nd hnd
  simp only [List.cons_append, List.nil_append, List.mem_cons, List.not_mem_nil, or_false] at hnd
  rcases hnd with h | h
  · subst h
    refine ⟨fun _ _ => rfl, qOn plugA 2000 nodeA rfl (by decide) _ rfl, ?_⟩
    intro a ha
    simp only [A, devA, List.mem_singleton] at ha
    subst ha
    intro e he
    simp only [onAct, List.mem_singleton] at he
    subst he
    constructor
    · intro p hp n hn
      simp only [Option.getD_some, List.mem_singleton] at hp
      subst hp
      simp only [plugA, Option.some.injEq] at hn
      subst hn
      decide
    · intro p hp; simp at hp
  · subst h
    refine ⟨fun _ _ => rfl, qOn plugC 2002 nodeC rfl (by decide) _ rfl, ?_⟩
    intro a ha
    simp [C, devC, devBase] at ha

theorem qOff (d : Dev) (hd : d.plugs = [plugB]) : Pm.Dev2.QOff Q d := by
  intro p hp n hn
  rw [hd] at hp
  simp only [List.mem_singleton] at hp
  subst hp
  simp only [plugB, Option.some.injEq] at hn
  subst hn
  decide

theorem noG (d : Dev) (hd : d.acts = [onAct plugB 2 1]) : ∀ x ∈ d.acts, x.clientId ≠ 1 := by
  intro x hx
  rw [hd] at hx
  simp only [List.mem_singleton] at hx
  subst hx
  decide

theorem exactOne (p : PassIn) (a : DevAcc) (nd : Bytes × Dev) (xs : List RxCall)
    (h1 : Pm.Dev2.NoMis (stepOut p (withOr a ⟨xs⟩) nd).2.1) (h2 : (devPass p (withOr a ⟨xs⟩) nd).oracle.calls = []) :
    ExactOn p a [nd] xs := by
  refine ⟨?_, h2⟩
  intro i x hi
  cases i with
  | zero => simp at hi; subst hi; exact h1
  | succ i => simp at hi

set_option maxRecDepth 8000

theorem alive1 : (([A] ++ B :: [C]).foldl (devPass pin) (acc0 w1)).dead = false := by decide +kernel
theorem alive2 : (([A] ++ B' :: [C]).foldl (devPass pin) (acc0 w2)).dead = false := by decide +kernel

theorem e1 : ExactOn pin (acc0 w1) [A] xA :=
  exactOne _ _ _ _ (by unfold Pm.Dev2.NoMis; decide +kernel) (by decide +kernel)
theorem e1' : ExactOn pin (acc0 w2) [A] xA :=
  exactOne _ _ _ _ (by unfold Pm.Dev2.NoMis; decide +kernel) (by decide +kernel)
theorem e2 : ExactOn pin ([A].foldl (devPass pin) (acc0 w1)) [B] [] :=
  exactOne _ _ _ _ (by unfold Pm.Dev2.NoMis; decide +kernel) (by decide +kernel)
theorem e2' : ExactOn pin ([A].foldl (devPass pin) (acc0 w2)) [B'] xB' :=
  exactOne _ _ _ _ (by unfold Pm.Dev2.NoMis; decide +kernel) (by decide +kernel)

/-- all hypotheses of `fold_noninterference` hold for the two example worlds (healthy `B` / garbage-emitting `B'`) -/
theorem instance_ok :
    AccRel Q 1 1 (([A] ++ B :: [C]).foldl (devPass pin) (acc0 w1)) (([A] ++ B' :: [C]).foldl (devPass pin) (acc0 w2)) :=
  fold_noninterference Q pin pin [A] [C] B B' (acc0 w1) (acc0 w2) 1 xA [] xB' []
    clock core0 rfl rfl rfl rfl rfl rfl others (by decide) (noG _ rfl) (noG _ rfl) (qOff _ rfl) (qOff _ rfl)
    alive1 alive2 e1 e1' e2 e2' (by decide +kernel) (by decide +kernel) (by decide +kernel)

theorem quiet (c : Cli) (hc : c ∈ w1.clients) : QuietCli pin.envs c ∧ QuietCli pin.envs c := by
  simp only [w1, world, List.mem_cons, List.not_mem_nil, or_false] at hc
  rcases hc with h | h <;> subst h <;> exact ⟨⟨fun e he => by simp [pin] at he, rfl, rfl⟩, ⟨fun e he => by simp [pin] at he, rfl, rfl⟩⟩

theorem uniq : UniqueIds w1.clients := by
  intro x hx y hy hxy
  simp only [w1, world, List.mem_cons, List.not_mem_nil, or_false] at hx hy
  rcases hx with h | h <;> rcases hy with h' | h' <;> subst h <;> subst h' <;> first | rfl | exact absurd hxy (by decide)

theorem gok1 : GOk Q w1 1 := by
  intro c hc k hk
  have h1 : cliRec w1 1 = some cli1 := rfl
  rw [h1] at hc
  simp only [Option.some.injEq] at hc
  subst hc
  simp only [cli1, Option.some.injEq] at hk
  subst hk
  exact namesQ

/-- all hypotheses of `pass_noninterference_inflight` hold for the two example worlds -/
theorem inflight_ok :
    cliRec (daemonPass w1 pin).1 1 = cliRec (daemonPass w2 pin).1 1 ∧
    (∀ i, i ≠ 1 → ((daemonPass w1 pin).1.devs[i]?).map strip = ((daemonPass w2 pin).1.devs[i]?).map strip) ∧
    Pm.Dev2.SAgree Q (daemonPass w1 pin).1.store (daemonPass w2 pin).1.store :=
  pass_noninterference_inflight Q w1 w2 pin pin [A] [C] B B' 1 xA [] xB' [] rfl rfl rfl rfl rfl rfl quiet uniq clock gok1
    others (by decide) (noG _ rfl) (noG _ rfl) (qOff _ rfl) (qOff _ rfl)
    (by decide +kernel) (by decide +kernel)
    (exactOne _ _ _ _ (by unfold Pm.Dev2.NoMis; decide +kernel) (by decide +kernel))
    (exactOne _ _ _ _ (by unfold Pm.Dev2.NoMis; decide +kernel) (by decide +kernel))
    (exactOne _ _ _ _ (by unfold Pm.Dev2.NoMis; decide +kernel) (by decide +kernel))
    (exactOne _ _ _ _ (by unfold Pm.Dev2.NoMis; decide +kernel) (by decide +kernel))
    (by decide +kernel) (by decide +kernel) (by decide +kernel)

/-! ### Boolean checkers for the hypotheses (so that they can be discharged by evaluation on computed worlds) -/

def plugsIn (Q : Bytes → Bool) (l : List Plug) : Bool := l.all fun p => match p.node with | some n => Q n | none => true
def plugsOut (Q : Bytes → Bool) (l : List Plug) : Bool := l.all fun p => match p.node with | some n => !Q n | none => true

theorem plugsIn_sound (Q : Bytes → Bool) (l : List Plug) (h : plugsIn Q l = true) : ∀ p ∈ l, ∀ n, p.node = some n → Q n = true := by
  intro p hp n hn
  have := List.all_eq_true.mp h p hp
  rw [hn] at this; exact this

theorem qOnB (Q : Bytes → Bool) (d : Dev) (h : plugsIn Q d.plugs = true) : Pm.Dev2.QOn Q d := plugsIn_sound Q _ h

theorem qOffB (Q : Bytes → Bool) (d : Dev) (h : plugsOut Q d.plugs = true) : Pm.Dev2.QOff Q d := by
  intro p hp n hn
  have := List.all_eq_true.mp h p hp
  rw [hn] at this; simpa using this

def actsOKB (Q : Bytes → Bool) (acts : List Action) : Bool :=
  acts.all fun a => a.exec.all fun e => plugsIn Q (e.plugs.getD []) && plugsIn Q (e.plugCopy.getD [])

theorem actsOKB_sound (Q : Bytes → Bool) (acts : List Action) (h : actsOKB Q acts = true) : Pm.Dev2.ActsOK Q acts := by
  intro a ha e he
  have h1 := List.all_eq_true.mp (List.all_eq_true.mp h a ha) e he
  simp only [Bool.and_eq_true] at h1
  exact ⟨plugsIn_sound Q _ h1.1, plugsIn_sound Q _ h1.2⟩

def noGB (g : Nat) (acts : List Action) : Bool := acts.all fun a => a.clientId != g
theorem noGB_sound (g : Nat) (acts : List Action) (h : noGB g acts = true) : ∀ x ∈ acts, x.clientId ≠ g := by
  intro x hx
  have := List.all_eq_true.mp h x hx
  simpa using this

def quietB (envs : List FdEnv) (c : Cli) : Bool :=
  (match envs.find? (fun x => x.fd == c.fd) with | some e => e.rev == 0 | none => true) &&
  (c.fromBuf.idxOf? 10).isNone && !(c.quit && c.cmd.isNone)

theorem quietB_sound (envs : List FdEnv) (l : List Cli) (h : l.all (quietB envs) = true) : ∀ c ∈ l, QuietCli envs c := by
  intro c hc
  have h1 := List.all_eq_true.mp h c hc
  simp only [quietB, Bool.and_eq_true, Bool.not_eq_true'] at h1
  obtain ⟨⟨h1, h2⟩, h3⟩ := h1
  refine ⟨?_, ?_, h3⟩
  · intro e he; rw [he] at h1; simpa using h1
  · cases hq : c.fromBuf.idxOf? 10 with
    | none => rfl
    | some _ => rw [hq] at h2; simp at h2

theorem uniqB (l : List Cli) (h : (l.map (·.id)).Nodup) : UniqueIds l := by
  intro x hx y hy hxy
  induction l with
  | nil => simp at hx
  | cons a r ih =>
    simp only [List.map_cons, List.nodup_cons, List.mem_map, not_exists, not_and] at h
    simp only [List.mem_cons] at hx hy
    rcases hx with hx | hx <;> rcases hy with hy | hy
    · rw [hx, hy]
    · subst hx; exact absurd hxy.symm (h.1 y hy)
    · subst hy; exact absurd hxy (h.1 x hx)
    · exact ih h.2 hx hy

/-- the hypotheses about the devices other than number `j`, checked by evaluation -/
def othersB (Q : Bytes → Bool) (j : Nat) (devs : List (Bytes × Dev)) : Bool :=
  devs.zipIdx.all fun x => x.2 == j || (plugsIn Q x.1.2.plugs && actsOKB Q x.1.2.acts)

theorem othersB_sound (Q : Bytes → Bool) (j : Nat) (p : PassIn) (devs : List (Bytes × Dev)) (h : othersB Q j devs = true) :
    ∀ i nd, i ≠ j → devs[i]? = some nd → SameEvents p p nd ∧ Pm.Dev2.QOn Q nd.2 ∧ Pm.Dev2.ActsOK Q nd.2.acts := by
  intro i nd hi hnd
  have hm : (nd, i) ∈ devs.zipIdx := by
    rw [List.mem_zipIdx_iff_getElem?]; simpa using hnd
  have h1 := List.all_eq_true.mp h (nd, i) hm
  have hij : (i == j) = false := by simpa using hi
  simp only [hij, Bool.false_or, Bool.and_eq_true] at h1
  exact ⟨fun _ _ => rfl, qOnB Q _ h1.1, actsOKB_sound Q _ h1.2⟩


def noMisB (l : List Pm.Dev2.Out) : Bool := l.all fun x => !Pm.Dev2.isMis x
theorem noMisB_sound (l : List Pm.Dev2.Out) (h : noMisB l = true) : Pm.Dev2.NoMis l := by
  intro x hx
  have := List.all_eq_true.mp h x hx
  simpa using this

def exactB (p : PassIn) (a : DevAcc) (l : List (Bytes × Dev)) (xs : List RxCall) : Bool :=
  ((List.range l.length).all fun i => match l[i]? with
    | some nd => noMisB (stepOut p (accAt p (withOr a ⟨xs⟩) l i) nd).2.1
    | none => true) &&
  (l.foldl (devPass p) (withOr a ⟨xs⟩)).oracle.calls.isEmpty

theorem exactB_sound (p : PassIn) (a : DevAcc) (l : List (Bytes × Dev)) (xs : List RxCall) (h : exactB p a l xs = true) :
    ExactOn p a l xs := by
  simp only [exactB, Bool.and_eq_true] at h
  constructor
  · intro i nd hi
    have hlt : i < l.length := by
      rcases Nat.lt_or_ge i l.length with h' | h'
      · exact h'
      · rw [List.getElem?_eq_none h'] at hi; simp at hi
    have := List.all_eq_true.mp h.1 i (List.mem_range.mpr hlt)
    rw [hi] at this
    exact noMisB_sound _ this
  · simpa using h.2

/-- `PassHyps` from facts that evaluation can check (same pass input in both runs) -/
theorem mkHyps (Q : Bytes → Bool) (g j : Nat) (w w' : W) (p : PassIn) (xp xB xB' xq : List RxCall)
    (h1 : j < w.devs.length) (hacc : p.acc = 0)
    (hq : w.clients.all (quietB p.envs) = true) (hq' : w'.clients.all (quietB p.envs) = true)
    (hu : (w.clients.map (·.id)).Nodup) (hu' : (w'.clients.map (·.id)).Nodup)
    (hx : w.pendingX = xp ++ (xB ++ xq)) (hx' : w'.pendingX = xp ++ (xB' ++ xq))
    (ho : othersB Q j w.devs = true) (hg : g ≠ 0)
    (hBok : (match w.devs[j]? with
      | some B => noGB g B.2.acts && plugsOut Q B.2.plugs &&
          exactB p ((w.devs.take j).foldl (devPass p) (acc0 (cliPostPoll w p.acc p.envs))) [B] xB
      | none => false) = true)
    (hBok' : (match w'.devs[j]? with
      | some B' => noGB g B'.2.acts && plugsOut Q B'.2.plugs &&
          exactB p ((w'.devs.take j).foldl (devPass p) (acc0 (cliPostPoll w' p.acc p.envs))) [B'] xB'
      | none => false) = true)
    (alive : (w.devs.foldl (devPass p) (acc0 (cliPostPoll w p.acc p.envs))).dead = false)
    (alive' : (w'.devs.foldl (devPass p) (acc0 (cliPostPoll w' p.acc p.envs))).dead = false)
    (E1 : exactB p (acc0 (cliPostPoll w p.acc p.envs)) (w.devs.take j) xp = true)
    (E1' : exactB p (acc0 (cliPostPoll w' p.acc p.envs)) (w'.devs.take j) xp = true)
    (c1 : (accAt p (acc0 (cliPostPoll w p.acc p.envs)) w.devs (j + 1)).w.nsock = (accAt p (acc0 (cliPostPoll w' p.acc p.envs)) w'.devs (j + 1)).w.nsock)
    (c2 : (accAt p (acc0 (cliPostPoll w p.acc p.envs)) w.devs (j + 1)).w.npair = (accAt p (acc0 (cliPostPoll w' p.acc p.envs)) w'.devs (j + 1)).w.npair)
    (c3 : (accAt p (acc0 (cliPostPoll w p.acc p.envs)) w.devs (j + 1)).w.nfork = (accAt p (acc0 (cliPostPoll w' p.acc p.envs)) w'.devs (j + 1)).w.nfork) :
    PassHyps Q g j w w' p p xp xB xB' xq where
  j_lt := h1
  acc := hacc
  acc' := hacc
  quiet := quietB_sound _ _ hq
  quiet' := quietB_sound _ _ hq'
  uniq := uniqB _ hu
  uniq' := uniqB _ hu'
  clock := ⟨rfl, rfl, rfl⟩
  hx := hx
  hx' := hx'
  others := othersB_sound Q j p w.devs ho
  g0 := hg
  hB := by
    intro B0 hB0
    rw [hB0] at hBok
    simp only [Bool.and_eq_true] at hBok
    exact ⟨noGB_sound g _ hBok.1.1, qOffB Q _ hBok.1.2, exactB_sound _ _ _ _ hBok.2⟩
  hB' := by
    intro B0 hB0
    rw [hB0] at hBok'
    simp only [Bool.and_eq_true] at hBok'
    exact ⟨noGB_sound g _ hBok'.1.1, qOffB Q _ hBok'.1.2, exactB_sound _ _ _ _ hBok'.2⟩
  alive := alive
  alive' := alive'
  E1 := exactB_sound _ _ _ _ E1
  E1' := exactB_sound _ _ _ _ E1'
  c1 := c1
  c2 := c2
  c3 := c3

/-! ### two passes -/

def pin2 : PassIn := { now := 3000, acc := 0, con := [0], soe := [0], envs := [] }

theorem rel0 : PassRel Q 1 1 w1 w2 where
  cli := rfl
  gok := gok1
  store := fun _ => rfl
  nsock := rfl
  npair := rfl
  nfork := rfl
  devs := ⟨rfl, fun i hi => by
    match i with
    | 0 => rfl
    | 1 => exact absurd rfl hi
    | 2 => rfl
    | _ + 3 => rfl⟩
  ex := rfl
  ex' := rfl

/-- the worlds after the first pass -/
def u1 : W := (daemonPass (withX w1 xA) pin).1
def u2 : W := (daemonPass (withX w2 (xA ++ xB')) pin).1

theorem hyps1 : PassHyps Q 1 1 (withX w1 xA) (withX w2 (xA ++ xB')) pin pin xA [] xB' [] :=
  mkHyps Q 1 1 _ _ pin xA [] xB' [] (by decide) rfl (by decide +kernel) (by decide +kernel) (by decide +kernel) (by decide +kernel)
    rfl rfl (by decide +kernel) (by decide) (by decide +kernel) (by decide +kernel)
    (by decide +kernel) (by decide +kernel) (by decide +kernel) (by decide +kernel)
    (by decide +kernel) (by decide +kernel) (by decide +kernel)

theorem hyps2 : PassHyps Q 1 1 (withX u1 []) (withX u2 xB') pin2 pin2 [] [] xB' [] :=
  mkHyps Q 1 1 _ _ pin2 [] [] xB' [] (by decide +kernel) rfl (by decide +kernel) (by decide +kernel) (by decide +kernel) (by decide +kernel)
    rfl rfl (by decide +kernel) (by decide) (by decide +kernel) (by decide +kernel)
    (by decide +kernel) (by decide +kernel) (by decide +kernel) (by decide +kernel)
    (by decide +kernel) (by decide +kernel) (by decide +kernel)

/-- the two runs: pass inputs and recorded regex answers, pass by pass -/
def runs : List ((PassIn × List RxCall) × (PassIn × List RxCall)) :=
  [((pin, xA), (pin, xA ++ xB')), ((pin2, []), (pin2, xB'))]

/-- two quiet passes of the two example worlds: every hypothesis of `passes_rel` holds -/
theorem good2 : GoodRun Q 1 1 w1 w2 runs :=
  .cons _ _ _ _ _ _ _ _ _ _ _ hyps1 (.cons _ _ _ _ _ _ _ _ _ _ _ hyps2 (.nil _ _))

theorem twoPasses_ok : PassRel Q 1 1 (passes w1 (runs.map (·.1))) (passes w2 (runs.map (·.2))) :=
  passes_rel Q 1 1 w1 w2 runs rel0 good2

end Pm.Daemon.Ex


/-! axiom audit of everything `Props/C05.lean` refers to -/
section Audit
open Pm.Daemon
end Audit
