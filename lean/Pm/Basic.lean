def hello := "world"
