import Pm.RunXE2E
import Pm.E2EEx
/-! A concrete run for the non-vacuity examples of the `runX` statements of `Props/C02`: **an `expect` matches in the second
pass of the run**, which no run of `runPasses` can have (there only the first pass can see a regex answer).

The worlds and pass inputs are those of `Pm/E2EEx.lean` (one device `A`, plug `1` ↦ node `a1`, `on` script
`send "on %s\n"; expect <pat 1>`).  The run starts in `w2`: client 1 has just had `on a1` accepted (`pending = 1`), the action
has started and waits for its bytes to drain.  Pass `p3` (no regex answer needed): the device takes the bytes; the action waits
in the `expect`.  Pass `p4`, **with the regex answer `xs4` fed before it**: the device answers `OK`, the `expect` matches, the
script is at its end — the client is sent `102`. -/
namespace Pm.Daemon.E2E.ExX
open Pm Pm.Client Pm.Daemon Pm.Daemon.E2E
open Pm.Daemon.Reply (okLine errLine isPower)
open Pm.Dev2 (ActErr)

/-- client 1 connected (pass 1) and had `on a1` accepted (pass 2) -/
def w2 : W := runX Ex.w0 [.plain Ex.p1, .plain Ex.p2]
/-- the passes before the answering pass: the device takes the bytes of the action; no regex answer is fed -/
def qs : List PassX := [⟨Ex.p3, []⟩]
/-- the answering pass: the device's reply `OK\n` arrives, and the regex engine's answer for it is fed before the pass -/
def q4 : PassX := ⟨Ex.p4, Ex.xs4⟩

theorem alive2 : AliveX Ex.w0 [.plain Ex.p1, .plain Ex.p2] := ⟨by decide +kernel, by decide +kernel, trivial⟩
theorem inv2 : Inv w2 := runX_inv Ex.w0 _ Ex.inv0 alive2

def c0 : Cli := (cliRec w2 1).getD { id := 0, fd := 0 }
def k0 : CmdC := c0.cmd.getD { com := .status, names := [], pending := 0, error := false }
theorem hc0 : cliRec w2 1 = some c0 := by
  have : (cliRec w2 1).isSome = true := by decide +kernel
  unfold c0; cases h : cliRec w2 1 <;> simp_all
theorem hk0 : c0.cmd = some k0 := by
  have : c0.cmd.isSome = true := by decide +kernel
  unfold k0; cases h : c0.cmd <;> simp_all
theorem power0 : isPower k0.com = true := by decide +kernel
/-- the command at the start of the run: `on a1`, waiting for one completion, error flag clear -/
theorem start : (comIdx k0.com, k0.names, k0.pending, k0.error) = (7, [['a', '1']], 1, false) := by decide +kernel

/-- before the answering pass the command is still in progress: the first pass of the run completed nothing -/
def c3 : Cli := (cliRec (runX w2 qs) 1).getD { id := 0, fd := 0 }
def k3 : CmdC := c3.cmd.getD { com := .status, names := [], pending := 0, error := false }
theorem hc3 : cliRec (runX w2 qs) 1 = some c3 := by
  have : (cliRec (runX w2 qs) 1).isSome = true := by decide +kernel
  unfold c3; cases h : cliRec (runX w2 qs) 1 <;> simp_all
theorem hk3 : c3.cmd = some k3 := by
  have : c3.cmd.isSome = true := by decide +kernel
  unfold k3; cases h : c3.cmd <;> simp_all
theorem al3 : k3.al = k0.al := by decide +kernel
theorem busy : ∃ c k, cliRec (runX w2 qs) 1 = some c ∧ c.cmd = some k ∧ k.al = k0.al := ⟨c3, k3, hc3, hk3, al3⟩
theorem fins3 : runFinsX w2 qs 1 = [] := by decide +kernel

/-- the client after the answering pass -/
def c4 : Cli := (cliRec (runX w2 (qs ++ [q4])) 1).getD { id := 0, fd := 0 }
theorem hc4 : cliRec (runX w2 (qs ++ [q4])) 1 = some c4 := by
  have : (cliRec (runX w2 (qs ++ [q4])) 1).isSome = true := by decide +kernel
  unfold c4; cases h : cliRec (runX w2 (qs ++ [q4])) 1 <;> simp_all
theorem idle4 : c4.cmd = none := by
  have : c4.cmd.isNone = true := by decide +kernel
  cases h : c4.cmd <;> simp_all
theorem alive4 : AliveX w2 (qs ++ [q4]) := ⟨by decide +kernel, by decide +kernel, trivial⟩
/-- the client is sent `102` — in the **second** pass of the run -/
theorem buf4 : c4.toBuf = bstr "001 2\r\npowerman> " ++ (okLine ++ prompt) := by decide +kernel
theorem fins4 : runFinsX w2 (qs ++ [q4]) 1 = [([65], ActErr.success)] := by decide +kernel
/-- the regex answer is consumed by the second pass of the run: it is the completion of that pass -/
theorem fins4_last : passFins (feed (runX w2 qs) q4.rx) q4.p 1 = [([65], ActErr.success)] := by decide +kernel

/-- the same two passes *without* the regex answer (this is all `runPasses` can express from `w2`): the `expect` does not match,
    nothing completes, the command stays in progress -/
theorem without_answer : runFinsX w2 (qs ++ [⟨Ex.p4, []⟩]) 1 = [] ∧
    ((cliRec (runX w2 (qs ++ [⟨Ex.p4, []⟩])) 1).bind (·.cmd)).isSome = true := by decide +kernel

end Pm.Daemon.E2E.ExX
