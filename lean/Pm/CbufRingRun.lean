import Pm.CbufRingLine
/-! Whole runs of cbuf operations: every sequence of calls of the API that `powermand` uses, with any arguments and any
descriptor behaviour, keeps `cbuf_is_valid` true and fires no assertion. -/
namespace Pm.CbufRing

/-- one call of the used API with its arguments; descriptors are given by what they will answer -/
inductive Op where
  | opt (v : Int)
  | flushAll
  | dropN (len : Int)
  | peekN (len : Int)
  | wr (src : List UInt8)
  | wrFd (len : Int) (s : Src)
  | rdFd (len : Int) (d : Dst)
  | rdLine (len lines : Int)

/-- the ring after the call, and whether every assertion held -/
def Op.apply (r : Ring) : Op → Ring × Bool
  | .opt v => ((optSet r v).2, r.valid && (optSet r v).2.valid)
  | .flushAll => (flush r, r.valid && (flush r).valid)
  | .dropN len => ((drop r len).2.1, (drop r len).2.2)
  | .peekN len => (r, (peek r len).2.2)
  | .wr src => ((write r src).ring, (write r src).ok)
  | .wrFd len s => ((writeFromFd r len s).ring, (writeFromFd r len s).ok)
  | .rdFd len d => ((readToFd r len d).2.1, (readToFd r len d).2.2.2)
  | .rdLine len lines => ((readLine r len lines).2.2.1, (readLine r len lines).2.2.2)

/-- a sequence of calls: the ring at the end, and whether every assertion along the way held -/
def run (r : Ring) : List Op → Ring × Bool
  | [] => (r, true)
  | op :: ops => ((run (op.apply r).1 ops).1, (op.apply r).2 && (run (op.apply r).1 ops).2)

theorem Op.apply_valid (r : Ring) (op : Op) (h : ValidP r) : ValidP (op.apply r).1 ∧ (op.apply r).2 = true := by
  have hv := (valid_iff r).mpr h
  cases op with
  | opt v => exact ⟨optSet_valid r v h, by simp [Op.apply, hv, (valid_iff _).mpr (optSet_valid r v h)]⟩
  | flushAll => exact ⟨flush_valid r h, by simp [Op.apply, hv, (valid_iff _).mpr (flush_valid r h)]⟩
  | dropN len => exact ⟨(drop_spec r len h).1, (drop_spec r len h).2.1⟩
  | peekN len => exact ⟨h, (peek_spec r len h).1⟩
  | wr src => exact ⟨(write_spec r src h).1, (write_spec r src h).2.1⟩
  | wrFd len s => exact ⟨(writeFromFd_spec r len s h).1, (writeFromFd_spec r len s h).2.1⟩
  | rdFd len d => exact ⟨(readToFd_spec r len d h).1, (readToFd_spec r len d h).2.1⟩
  | rdLine len lines => exact ⟨(readLine_spec r len lines h).1, (readLine_spec r len lines h).2.1⟩

theorem run_valid (r : Ring) (ops : List Op) (h : ValidP r) : ValidP (run r ops).1 ∧ (run r ops).2 = true := by
  induction ops generalizing r with
  | nil => exact ⟨h, rfl⟩
  | cons op ops ih =>
    obtain ⟨h1, h2⟩ := Op.apply_valid r op h
    obtain ⟨h3, h4⟩ := ih (op.apply r).1 h1
    exact ⟨h3, by simp [run, h2, h4]⟩

theorem drop_ring (r : Ring) (len : Int) : (drop r len).2.1 = r ∨ ∃ n, (drop r len).2.1 = (dropper r n).1 := by
  unfold drop
  by_cases h1 : len < -1
  · rw [if_pos h1]; exact Or.inl rfl
  · rw [if_neg h1]
    by_cases h2 : len = 0
    · rw [if_pos h2]; exact Or.inl rfl
    · rw [if_neg h2]
      dsimp only
      generalize (if len = -1 then r.used else min len.toNat r.used) = n
      by_cases h3 : n > 0
      · rw [if_pos h3]; exact Or.inr ⟨_, rfl⟩
      · rw [if_neg h3]; exact Or.inl rfl

theorem readToFd_ring (r : Ring) (len : Int) (d : Dst) :
    (readToFd r len d).2.1 = r ∨ ∃ n, (readToFd r len d).2.1 = (dropper r n).1 := by
  unfold readToFd
  by_cases h1 : len < -1
  · rw [if_pos h1]; exact Or.inl rfl
  · rw [if_neg h1]
    dsimp only
    generalize (if len = -1 then r.used else len.toNat) = n
    by_cases h3 : n > 0
    · rw [if_pos h3]
      by_cases h4 : (reader r n (.fd d)).1 > 0
      · rw [if_pos h4]; exact Or.inr ⟨_, rfl⟩
      · rw [if_neg h4]; exact Or.inl rfl
    · rw [if_neg h3]; exact Or.inl rfl

theorem readLine_ring (r : Ring) (len lines : Int) :
    (readLine r len lines).2.2.1 = r ∨ ∃ n, (readLine r len lines).2.2.1 = (dropper r n).1 := by
  unfold readLine
  by_cases h1 : len < 0 ∨ lines < -1
  · rw [if_pos h1]; exact Or.inl rfl
  · rw [if_neg h1]
    by_cases h2 : lines = 0
    · rw [if_pos h2]; exact Or.inl rfl
    · rw [if_neg h2]
      dsimp only
      by_cases h3 : (findUnreadLine r (len - 1) lines).1 > 0
      · rw [if_pos h3]; exact Or.inr ⟨_, rfl⟩
      · rw [if_neg h3]; exact Or.inl rfl

theorem size_of_ring_cases (r r' : Ring) (h : r' = r ∨ ∃ n, r' = (dropper r n).1) :
    r'.maxsize = r.maxsize ∧ r'.minsize = r.minsize ∧ r.size ≤ r'.size := by
  rcases h with h | ⟨n, h⟩
  · rw [h]; simp
  · rw [h]; simp [dropper]

/-- the limits never change and the size never shrinks -/
theorem Op.apply_size (r : Ring) (op : Op) (h : ValidP r) :
    (op.apply r).1.maxsize = r.maxsize ∧ (op.apply r).1.minsize = r.minsize ∧ r.size ≤ (op.apply r).1.size := by
  cases op with
  | opt v => simp only [Op.apply]; unfold optSet; (repeat' split) <;> simp
  | flushAll => simp [Op.apply, flush]
  | dropN len => exact size_of_ring_cases r _ (drop_ring r len)
  | peekN len => simp [Op.apply]
  | wr src =>
    obtain ⟨_, _, w3, w4, w5, _⟩ := write_spec r src h
    have := (growStep_spec r src.length h).2.2.2.2.2.2.2.2.2.1
    exact ⟨w4, w5, by simp only [Op.apply]; rw [w3]; exact this⟩
  | wrFd len s =>
    simp only [Op.apply]
    by_cases hl : len < -1
    · have := ((writeFromFd_spec r len s h).2.2.1 hl).2.1
      rw [this]; simp
    · obtain ⟨w3, w4, w5, _⟩ := (writeFromFd_spec r len s h).2.2.2 (by omega)
      have := (growStep_spec r (fdLen r len) h).2.2.2.2.2.2.2.2.2.1
      exact ⟨w4, w5, by rw [w3]; exact this⟩
  | rdFd len d => exact size_of_ring_cases r _ (readToFd_ring r len d)
  | rdLine len lines => exact size_of_ring_cases r _ (readLine_ring r len lines)

/-- below the cap the grown buffer has room for what was asked: nothing is dropped before `maxsize` is reached -/
theorem sizeAfter_fits (r : Ring) (len : Nat) (h : ValidP r) (hfit : r.used + len ≤ r.maxsize) :
    r.used + len ≤ sizeAfter r len := by
  unfold sizeAfter
  have hu := h.used_le
  have hm := h.le_max
  by_cases c : len > r.size - r.used ∧ r.size < r.maxsize
  · rw [if_pos c, grownSize_eq_growTo r _ h]
    have hle := Pm.Cbuf.growTo_le r.size (len - (r.size - r.used)) r.maxsize hm
    by_cases hlt : Pm.Cbuf.growTo r.size (len - (r.size - r.used)) r.maxsize < r.maxsize
    · have := Pm.Cbuf.growTo_grows r.size (len - (r.size - r.used)) r.maxsize hlt
      omega
    · omega
  · rw [if_neg c]; omega

/-- bytes can only be lost by a buffer that has reached `maxsize` -/
theorem sizeAfter_max_of_lt (r : Ring) (len : Nat) (h : ValidP r) (hover : sizeAfter r len < r.used + len) :
    sizeAfter r len = r.maxsize := by
  have hle := (growStep_spec r len h).2.2.2.2.2.2.2.2.2.2
  by_cases hfit : r.used + len ≤ r.maxsize
  · have := sizeAfter_fits r len h hfit; omega
  · unfold sizeAfter at hover hle ⊢
    have hu := h.used_le
    have hm := h.le_max
    by_cases c : len > r.size - r.used ∧ r.size < r.maxsize
    · rw [if_pos c] at hover hle ⊢
      rw [grownSize_eq_growTo r _ h] at hover hle ⊢
      by_cases hlt : Pm.Cbuf.growTo r.size (len - (r.size - r.used)) r.maxsize < r.maxsize
      · have := Pm.Cbuf.growTo_grows r.size (len - (r.size - r.used)) r.maxsize hlt
        omega
      · omega
    · rw [if_neg c] at hover ⊢; omega

/-- what is dropped is what exceeds `maxsize`: the size the buffer grew to for a request of `len` bytes drops out of the
    count for any `n ≤ len` bytes actually stored -/
theorem dropped_eq (r : Ring) (len n : Nat) (h : ValidP r) (hn : n ≤ len) :
    r.used + n - sizeAfter r len = r.used + n - r.maxsize := by
  have hle := (growStep_spec r len h).2.2.2.2.2.2.2.2.2.2
  by_cases hmx : sizeAfter r len = r.maxsize
  · rw [hmx]
  · have hlt : sizeAfter r len < r.maxsize := by omega
    have hfit : r.used + len ≤ sizeAfter r len := by
      by_cases hf : r.used + len ≤ r.maxsize
      · exact sizeAfter_fits r len h hf
      · exact absurd (sizeAfter_max_of_lt r len h (by omega)) hmx
    omega

#print axioms run_valid
#print axioms Op.apply_size
#print axioms write_spec
#print axioms writeFromFd_spec
#print axioms writeFromFd_readPlan
#print axioms readToFd_spec
#print axioms peek_spec
#print axioms drop_spec
#print axioms grow_spec
#print axioms readLine_spec
#print axioms readLine_one
#print axioms create_valid

end Pm.CbufRing
