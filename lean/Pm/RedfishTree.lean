import Pm.Redfish
/-! helper lemmas for C19, part 1: well-formed plug forests (`WF`), ancestors, depth -/
namespace Pm.Redfish

def parentOf (c : Cfg) (p : Nat) : Option Nat := (lookup c p).bind (·.parent)
def known (c : Cfg) (p : Nat) : Bool := (lookup c p).isSome
def depth (c : Cfg) (p : Nat) : Nat := (ancUp c p).length

/-- plug names distinct, every parent defined, acyclic (every upward chain ends before the fuel
    `plugs.length` of `ancUp` runs out) -/
def WF (c : Cfg) : Bool :=
  decide (c.plugs.map (·.name)).Nodup &&
  c.plugs.all (fun pc => match pc.parent with | none => true | some q => known c q) &&
  c.plugs.all (fun pc => decide ((ancUp c pc.name).length < c.plugs.length))

theorem lookup_name {c : Cfg} {p : Nat} {pc : PlugCfg} (h : lookup c p = some pc) : pc.name = p ∧ pc ∈ c.plugs := by
  unfold lookup at h
  have h1 := List.find?_some h
  have h2 := List.mem_of_find?_eq_some h
  simp at h1; exact ⟨h1, h2⟩

theorem known_of_mem {c : Cfg} {pc : PlugCfg} (h : pc ∈ c.plugs) : known c pc.name = true := by
  unfold known lookup
  rw [List.find?_isSome]
  exact ⟨pc, h, by simp⟩

theorem WF_parent_known {c : Cfg} (hw : WF c = true) {p q : Nat} (h : parentOf c p = some q) : known c q = true := by
  unfold parentOf at h
  cases hl : lookup c p with
  | none => simp [hl] at h
  | some pc =>
    simp [hl] at h
    have ⟨_, hm⟩ := lookup_name hl
    unfold WF at hw
    simp only [Bool.and_eq_true, List.all_eq_true] at hw
    have := hw.1.2 pc hm
    simp [h] at this; exact this

theorem WF_len {c : Cfg} (hw : WF c = true) {p : Nat} (h : known c p = true) : (ancUp c p).length < c.plugs.length := by
  unfold known at h
  cases hl : lookup c p with
  | none => simp [hl] at h
  | some pc =>
    have ⟨hn, hm⟩ := lookup_name hl
    unfold WF at hw
    simp only [Bool.and_eq_true, List.all_eq_true] at hw
    have := hw.2 pc hm
    simp [hn] at this; exact this

theorem ancestorsUp_len_le (c : Cfg) (f p : Nat) : (ancestorsUp c f p).length ≤ f := by
  induction f generalizing p with
  | zero => simp [ancestorsUp]
  | succ f ih =>
    unfold ancestorsUp
    split
    · simp; exact ih _
    · simp

/-- once the chain ended before the fuel ran out, more fuel changes nothing -/
theorem ancestorsUp_stable (c : Cfg) (f p : Nat) (h : (ancestorsUp c f p).length < f) (k : Nat) :
    ancestorsUp c (f + k) p = ancestorsUp c f p := by
  induction f generalizing p with
  | zero => simp at h
  | succ f ih =>
    have : f + 1 + k = (f + k) + 1 := by omega
    rw [this]
    cases hq : (lookup c p).bind (·.parent) with
    | none => simp only [ancestorsUp, hq]
    | some q =>
      simp only [ancestorsUp, hq] at h ⊢
      simp at h
      rw [ih q h]

theorem parentOf_known {c : Cfg} {p q : Nat} (h : parentOf c p = some q) : known c p = true := by
  unfold parentOf at h; unfold known
  cases hl : lookup c p <;> simp_all

theorem ancUp_root {c : Cfg} {p : Nat} (h : parentOf c p = none) : ancUp c p = [] := by
  unfold ancUp
  cases hn : c.plugs.length with
  | zero => simp [ancestorsUp]
  | succ n => unfold ancestorsUp; unfold parentOf at h; simp [h]

theorem ancUp_cons {c : Cfg} (hw : WF c = true) {p q : Nat} (h : parentOf c p = some q) :
    ancUp c p = q :: ancUp c q := by
  have hq := WF_len hw (WF_parent_known hw h)
  have hp := WF_len hw (parentOf_known h)
  unfold ancUp at *
  cases hn : c.plugs.length with
  | zero => rw [hn] at hp; simp at hp
  | succ n =>
    rw [hn] at hp hq
    have hpar : (lookup c p).bind (·.parent) = some q := h
    have e1 : ancestorsUp c (n + 1) p = q :: ancestorsUp c n q := by
      rw [ancestorsUp]; simp only [hpar]
    rw [e1] at hp ⊢
    simp at hp
    rw [ancestorsUp_stable c n q hp 1]

theorem depth_cons {c : Cfg} (hw : WF c = true) {p q : Nat} (h : parentOf c p = some q) :
    depth c p = depth c q + 1 := by
  unfold depth; rw [ancUp_cons hw h]; simp

theorem depth_root {c : Cfg} {p : Nat} (h : parentOf c p = none) : depth c p = 0 := by
  unfold depth; rw [ancUp_root h]; rfl

theorem isDesc_iff {c : Cfg} {p a : Nat} : isDesc c p a = true ↔ a ∈ ancUp c p := by
  unfold isDesc; simp

/-- induction principle on the upward chain -/
theorem anc_induction {c : Cfg} (hw : WF c = true) (P : Nat → Prop)
    (hroot : ∀ p, parentOf c p = none → P p)
    (hstep : ∀ p q, parentOf c p = some q → P q → P p) : ∀ p, P p := by
  intro p
  generalize hd : depth c p = d
  induction d generalizing p with
  | zero =>
    cases hp : parentOf c p with
    | none => exact hroot p hp
    | some q => rw [depth_cons hw hp] at hd; omega
  | succ d ih =>
    cases hp : parentOf c p with
    | none => exact hroot p hp
    | some q =>
      rw [depth_cons hw hp] at hd
      exact hstep p q hp (ih q (by omega))

/-- the ancestors of an ancestor are a suffix -/
theorem ancUp_suffix {c : Cfg} (hw : WF c = true) : ∀ p a, a ∈ ancUp c p →
    ∃ pre, ancUp c p = pre ++ a :: ancUp c a ∧ ∀ x ∈ pre, a ∈ ancUp c x := by
  refine anc_induction hw _ ?_ ?_
  · intro p hp a ha; rw [ancUp_root hp] at ha; simp at ha
  · intro p q hp ih a ha
    rw [ancUp_cons hw hp] at ha ⊢
    rcases List.mem_cons.1 ha with rfl | ha'
    · exact ⟨[], by simp⟩
    · obtain ⟨pre, e, hx⟩ := ih a ha'
      refine ⟨q :: pre, by simp [e], ?_⟩
      intro x hxm
      rcases List.mem_cons.1 hxm with rfl | hxm
      · exact ha'
      · exact hx x hxm

theorem anc_trans {c : Cfg} (hw : WF c = true) {p a b : Nat} (h1 : a ∈ ancUp c p) (h2 : b ∈ ancUp c a) :
    b ∈ ancUp c p := by
  obtain ⟨pre, e, _⟩ := ancUp_suffix hw p a h1
  rw [e]; simp [h2]

theorem depth_anc_lt {c : Cfg} (hw : WF c = true) {p a : Nat} (h : a ∈ ancUp c p) : depth c a < depth c p := by
  obtain ⟨pre, e, _⟩ := ancUp_suffix hw p a h
  unfold depth; rw [e]; simp; omega

theorem anc_irrefl {c : Cfg} (hw : WF c = true) (p : Nat) : p ∉ ancUp c p := by
  intro h; have := depth_anc_lt hw h; omega

theorem anc_known {c : Cfg} (hw : WF c = true) : ∀ p a, a ∈ ancUp c p → known c a = true := by
  refine anc_induction hw _ ?_ ?_
  · intro p hp a ha; rw [ancUp_root hp] at ha; simp at ha
  · intro p q hp ih a ha
    rw [ancUp_cons hw hp] at ha
    rcases List.mem_cons.1 ha with rfl | ha'
    · exact WF_parent_known hw hp
    · exact ih a ha'

theorem anc_of_parent {c : Cfg} (hw : WF c = true) {p q : Nat} (h : parentOf c p = some q) : q ∈ ancUp c p := by
  rw [ancUp_cons hw h]; simp

theorem anc_nonempty_parent {c : Cfg} {p a : Nat} (h : a ∈ ancUp c p) : ∃ q, parentOf c p = some q := by
  cases hp : parentOf c p with
  | none => rw [ancUp_root hp] at h; simp at h
  | some q => exact ⟨q, rfl⟩

/-- two ancestors of the same plug are comparable -/
theorem anc_comparable {c : Cfg} (hw : WF c = true) {p a b : Nat} (ha : a ∈ ancUp c p) (hb : b ∈ ancUp c p) :
    a = b ∨ a ∈ ancUp c b ∨ b ∈ ancUp c a := by
  obtain ⟨pre, e, hx⟩ := ancUp_suffix hw p a ha
  rw [e] at hb
  rcases List.mem_append.1 hb with h | h
  · right; left; exact hx b h
  · rcases List.mem_cons.1 h with rfl | h
    · left; rfl
    · right; right; exact h

/-- every link `(x, y)` of the chain from `p` upward: `y` is the parent of `x`, and `x` is `p` or an ancestor of `p` -/
theorem chain_links {c : Cfg} (hw : WF c = true) : ∀ p, ∀ xy ∈ (p :: ancUp c p).zip (ancUp c p),
    parentOf c xy.1 = some xy.2 ∧ (xy.1 = p ∨ xy.1 ∈ ancUp c p) := by
  refine anc_induction hw _ ?_ ?_
  · intro p hp xy h; rw [ancUp_root hp] at h; simp at h
  · intro p q hp ih xy h
    rw [ancUp_cons hw hp] at h ⊢
    simp only [List.zip_cons_cons, List.mem_cons] at h
    rcases h with rfl | h
    · exact ⟨hp, Or.inl rfl⟩
    · have := ih xy h
      refine ⟨this.1, Or.inr ?_⟩
      rcases this.2 with e | e
      · simp [e]
      · simp [e]

theorem childOf_spec {c : Cfg} (hw : WF c = true) {p a : Nat} (h : a ∈ ancUp c p) :
    parentOf c (childOf c p a) = some a ∧ (childOf c p a = p ∨ childOf c p a ∈ ancUp c p) := by
  unfold childOf
  simp only
  cases hf : ((p :: ancUp c p).zip (ancUp c p)).find? (·.2 = a) with
  | none =>
    exfalso
    rw [List.find?_eq_none] at hf
    have hm : a ∈ ((p :: ancUp c p).zip (ancUp c p)).map Prod.snd := by
      rw [List.map_snd_zip (by simp)]; exact h
    obtain ⟨xy, hxy, e⟩ := List.mem_map.1 hm
    exact hf xy hxy (by simp [e])
  | some xy =>
    have h1 := List.find?_some hf
    have h2 := List.mem_of_find?_eq_some hf
    have := chain_links hw p xy h2
    simp at h1
    rw [h1] at this
    exact this

/-- the child of `a` on the way to `p` is strictly below `a` and (unless it is `p` itself) strictly above `p` -/
theorem childOf_anc {c : Cfg} (hw : WF c = true) {p a : Nat} (h : a ∈ ancUp c p) :
    a ∈ ancUp c (childOf c p a) := anc_of_parent hw (childOf_spec hw h).1

theorem childOf_proper {c : Cfg} (hw : WF c = true) {p a : Nat} (h : a ∈ ancUp c p) (hnd : parentOf c p ≠ some a) :
    childOf c p a ∈ ancUp c p := by
  rcases (childOf_spec hw h).2 with e | e
  · exact absurd (e ▸ (childOf_spec hw h).1) hnd
  · exact e

theorem depth_childOf {c : Cfg} (hw : WF c = true) {p a : Nat} (h : a ∈ ancUp c p) :
    depth c (childOf c p a) = depth c a + 1 := depth_cons hw (childOf_spec hw h).1

theorem rootOf_spec {c : Cfg} (hw : WF c = true) : ∀ p, (∃ q, parentOf c p = some q) →
    rootOf c p ∈ ancUp c p ∧ parentOf c (rootOf c p) = none := by
  refine anc_induction hw _ ?_ ?_
  · intro p hp ⟨q, hq⟩; rw [hp] at hq; cases hq
  · intro p q hp ih _
    unfold rootOf
    rw [ancUp_cons hw hp]
    cases hq : parentOf c q with
    | none => rw [ancUp_root hq]; simp [hq]
    | some r =>
      have := ih ⟨r, hq⟩
      unfold rootOf at this
      have hne : ancUp c q ≠ [] := by rw [ancUp_cons hw hq]; simp
      rw [List.getLast?_cons_of_ne_nil hne] at *
      cases hl : (ancUp c q).getLast? with
      | none => rw [List.getLast?_eq_none_iff] at hl; exact absurd hl hne
      | some z =>
        rw [hl] at this; simp at this ⊢
        exact ⟨Or.inr this.1, this.2⟩

end Pm.Redfish
