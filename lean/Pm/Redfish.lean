/- pilot for C19: redfishpower --test-mode, machine as coded vs the documented rules -/
namespace Pm.Redfish

structure PlugCfg where
  name : Nat
  host : Nat
  parent : Option Nat
deriving Repr, DecidableEq

structure Cfg where
  plugs : List PlugCfg
  failing : List Nat          -- hosts whose every request fails
deriving Repr

inductive Cmd where | stat | on | off deriving DecidableEq, Repr
inductive Stat where | on | off | error deriving DecidableEq, Repr

inductive Line where
  | status (plug : Nat) (s : Stat)          -- "P: on|off|error"
  | ok (plug : Nat)                         -- "P: ok"
  | unknown (plug : Nat)                    -- "unknown plug specified: P"
  | dep (plug : Nat) (cmd : Cmd) (s : Stat) (anc : Nat)   -- "P: cannot perform CMD, dependency S (host=.. plug=ANC)"
  | phased (plug : Nat)                     -- "P: cannot turn on parent and child"
deriving DecidableEq, Repr

abbrev St := List (Nat × Bool)              -- test_power_status: plug ↦ on?

def lookup (c : Cfg) (p : Nat) : Option PlugCfg := c.plugs.find? (·.name = p)
def isOn (st : St) (p : Nat) : Bool := (st.lookup p).getD false
def setSt (st : St) (p : Nat) (v : Bool) : St := (p, v) :: st.filter (·.1 ≠ p)
def hostFails (c : Cfg) (p : Nat) : Bool := match lookup c p with | some pc => c.failing.contains pc.host | none => false

/-- ancestors, nearest first (`fuel` = number of plugs: the forest is acyclic) -/
def ancestorsUp (c : Cfg) : Nat → Nat → List Nat
  | 0, _ => []
  | fuel + 1, p => match (lookup c p).bind (·.parent) with
    | some q => q :: ancestorsUp c fuel q
    | none => []
def ancUp (c : Cfg) (p : Nat) : List Nat := ancestorsUp c c.plugs.length p
def isDesc (c : Cfg) (p a : Nat) : Bool := (ancUp c p).contains a
def rootOf (c : Cfg) (p : Nat) : Nat := (ancUp c p).getLast?.getD p
/-- `plugs_child_of_ancestor`: the plug on the path from p up to a whose parent is a -/
def childOf (c : Cfg) (p a : Nat) : Nat :=
  let chain := p :: ancUp c p
  match chain.zip (ancUp c p) |>.find? (·.2 = a) with
  | some (x, _) => x
  | none => p

def statOf (c : Cfg) (st : St) (p : Nat) : Stat := if hostFails c p then .error else if isOn st p then .on else .off

/-! ## the documented rules -/
/-- status of the first ancestor (root first) that is not on, if any -/
def blocker (c : Cfg) (st : St) (p : Nat) : Option (Nat × Stat) :=
  ((ancUp c p).reverse.map fun a => (a, statOf c st a)).find? (·.2 ≠ .on)

def descendantsOff (c : Cfg) (st : St) (p : Nat) : St :=
  c.plugs.foldl (fun s q => if isDesc c q.name p then setSt s q.name false else s) st

def specStat (c : Cfg) (st : St) (targets : List Nat) : List Line :=
  targets.map fun t =>
    if (lookup c t).isNone then .unknown t
    else match blocker c st t with
      | some (_, s) => .status t s
      | none => .status t (statOf c st t)

/-- on / off: targets processed ancestors-first; an ancestor that is itself a target decides its descendants -/
def specPower (c : Cfg) (st : St) (cmd : Cmd) (targets : List Nat) : List Line × St :=
  let known := targets.filter fun t => (lookup c t).isSome
  let unknownLines := (targets.filter fun t => (lookup c t).isNone).map Line.unknown
  let phased := cmd == .on && known.any fun a => known.any fun b => isDesc c a b
  if phased then (unknownLines ++ known.map Line.phased, st) else
  let order := known.mergeSort fun a b => (ancUp c a).length ≤ (ancUp c b).length
  let step := fun (acc : List (Nat × Stat) × List Line × St) (t : Nat) =>
    -- acc.1: for targets already decided, the status their descendants will see
    let (seen, lines, cur) := acc
    let chain := (ancUp c t).reverse
    let blk := (chain.map fun a => (a, match seen.lookup a with | some s => s | none => statOf c st a)).find? (·.2 ≠ .on)
    match blk with
    | some (a, s) =>
      if cmd == .off && s == .off then (((t, Stat.off) :: seen), lines ++ [.ok t], cur)
      else (((t, s) :: seen), lines ++ [.dep t cmd s a], cur)
    | none =>
      if hostFails c t then (((t, Stat.error) :: seen), lines ++ [.status t .error], cur)
      else
        let cur' := if cmd == .on then setSt cur t true else descendantsOff c (setSt cur t false) t
        (((t, if cmd == .on then Stat.on else Stat.off) :: seen), lines ++ [.ok t], cur')
  let (_, lines, st') := order.foldl step ([], [], st)
  (unknownLines ++ lines, st')

/-! ## the machine as coded -/
structure PM where
  cmd : Cmd                -- what the operator asked for (a status poll after on/off keeps on/off)
  plug : Nat
  output : Bool
  waitState : Bool         -- STATE_WAIT_UNTIL_ON_OFF
deriving Repr

structure M where
  active : List PM
  delayed : List PM
  waiting : List PM
  st : St
  out : List Line

def plugActive (m : M) (p : Nat) (cmd : Cmd) : Bool :=
  m.active.any fun pm => pm.plug = p && (pm.cmd == .stat || (cmd == .off && pm.cmd == .off))

def statStr (c : Cfg) (m : M) (p : Nat) : Stat := if isOn m.st p then .on else .off

/-- `process_waiters(ancestor, status)` -/
def processWaiters (c : Cfg) (m : M) (anc : Nat) (s : Stat) : M :=
  -- first pass
  let (keep, moved, lines) := m.waiting.foldl (fun (acc : List PM × List PM × List Line) pm =>
      let (keep, moved, lines) := acc
      if isDesc c pm.plug anc then
        if s ≠ .on then
          let l := if !pm.output then [] else
            if pm.cmd == .stat then [Line.status pm.plug s]
            else if pm.cmd == .off && s == .off then [Line.ok pm.plug]
            else [Line.dep pm.plug pm.cmd s anc]
          (keep, moved, lines ++ l)
        else if (lookup c pm.plug).bind (·.parent) = some anc then (keep, moved ++ [pm], lines)
        else (keep ++ [pm], moved, lines)
      else (keep ++ [pm], moved, lines)) ([], [], [])
  let m1 := { m with waiting := keep, active := m.active ++ moved, out := m.out ++ lines }
  if s ≠ .on then m1 else
  -- second pass: query the next plug on the way down, once
  keep.foldl (fun m pm =>
    if isDesc c pm.plug anc then
      let child := childOf c pm.plug anc
      if plugActive m child pm.cmd then m
      else { m with active := m.active ++ [{ cmd := .stat, plug := child, output := false, waitState := false }] }
    else m) m1

/-- test-mode completion of one active message -/
def processOne (c : Cfg) (m : M) (pm : PM) : M :=
  if hostFails c pm.plug then
    let m := if pm.output then { m with out := m.out ++ [.status pm.plug .error] } else m
    processWaiters c m pm.plug .error
  else match pm.cmd with
  | .stat =>
    let s := statStr c m pm.plug
    let m := if pm.output then { m with out := m.out ++ [.status pm.plug s] } else m
    processWaiters c m pm.plug s
  | cmd =>
    if !pm.waitState then
      let st := if cmd == .on then setSt m.st pm.plug true else descendantsOff c (setSt m.st pm.plug false) pm.plug
      { m with st := st, delayed := m.delayed ++ [{ pm with output := true, waitState := true }] }
    else
      let s := statStr c m pm.plug
      if (s == .on) == (cmd == .on) then
        processWaiters c { m with out := m.out ++ [.ok pm.plug] } pm.plug s
      else { m with delayed := m.delayed ++ [pm] }      -- poll again

/-- the shell loop until all three lists are empty -/
def runLoop (c : Cfg) : Nat → M → M
  | 0, m => m
  | fuel + 1, m =>
    if m.active.isEmpty && m.delayed.isEmpty && m.waiting.isEmpty then m else
    let m := { m with active := m.active ++ m.delayed, delayed := [] }
    let batch := m.active
    let m := batch.foldl (fun m pm => processOne c m pm) m
    runLoop c fuel { m with active := m.active.drop batch.length }

def runCmd (c : Cfg) (st : St) (cmd : Cmd) (targets : List Nat) : List Line × St × Bool :=
  let m0 : M := { active := [], delayed := [], waiting := [], st := st, out := [] }
  let m1 := targets.foldl (fun m t =>
      match lookup c t with
      | none => { m with out := m.out ++ [.unknown t] }
      | some pc =>
        let pm : PM := { cmd, plug := t, output := true, waitState := false }
        if pc.parent.isSome then { m with waiting := m.waiting ++ [pm] } else { m with active := m.active ++ [pm] }) m0
  let m2 :=
    if m1.waiting.isEmpty then m1 else
    let all := m1.active ++ m1.waiting
    let phased := cmd == .on && all.length > 1 && all.any fun a => all.any fun b => isDesc c a.plug b.plug
    let m := if phased then { m1 with out := m1.out ++ (m1.active ++ m1.waiting).map (fun pm => Line.phased pm.plug), active := [], waiting := [] } else m1
    -- send_initial_parent_queries
    m.waiting.foldl (fun m pm =>
      let root := rootOf c pm.plug
      if plugActive m root pm.cmd then m
      else { m with active := m.active ++ [{ cmd := .stat, plug := root, output := false, waitState := false }] }) m
  let m3 := runLoop c (4 * (c.plugs.length + targets.length) + 8) m2
  (m3.out, m3.st, m3.active.isEmpty && m3.delayed.isEmpty && m3.waiting.isEmpty)

end Pm.Redfish

