import Pm.RfCmd
import Pm.RedfishProof
/-! # Proofs about the command layer of redfishpower (`Pm/RfCmd.lean`)

1. which outcome (`Ctl`) which line can have; 2. the plug map stays well-formed under every line, `setplugs` pairs the
i-th plug with the i-th index; 3. target resolution and the composition with the machine theorems (`RedfishProof`);
4. concrete sessions (exact input lines) that terminate or wedge the helper. -/
namespace Pm.RfCmd
open Pm
open Pm.Daemon (createR CR)

/-! ## 1. outcomes -/

/-- the first word of a piece of input (`av[0]`) -/
def firstWord (buf : List Char) : Option Name := (argvCreate (cstr buf)).head?

def isPowerWord (w : Option Name) : Prop := w = some (lit "stat") ∨ w = some (lit "on") ∨ w = some (lit "off")

@[simp] theorem ok_ctl (s : State) (out : List Name) : (ok s out).ctl = .cont := rfl
@[simp] theorem ok_st (s : State) (out : List Name) : (ok s out).st = s := rfl
@[simp] theorem ok_out (s : State) (out : List Name) : (ok s out).out = out := rfl

theorem auth_ctl (s : State) (av : List Name) : (auth s av).ctl = .cont := by
  unfold auth; split
  · rfl
  · split <;> rfl
theorem setheader_ctl (s : State) (av : List Name) : (setheader s av).ctl = .cont := rfl
theorem setstatpath_ctl (s : State) (av : List Name) : (setstatpath s av).ctl = .cont := rfl
theorem setonpath_ctl (s : State) (av : List Name) : (setonpath s av).ctl = .cont := by unfold setonpath; split <;> rfl
theorem setoffpath_ctl (s : State) (av : List Name) : (setoffpath s av).ctl = .cont := by unfold setoffpath; split <;> rfl
theorem settimeout_ctl (s : State) (av : List Name) : (settimeout s av).ctl = .cont := by
  unfold settimeout; split
  · rfl
  · simp only; split <;> rfl

theorem setupPlug_fatal {s : State} {p h : Name} {par : Option Name} {c : Ctl}
    (hf : setupPlug s p h par = .fatal c) : c = .exit 1 := by
  unfold setupPlug at hf
  simp only at hf
  split at hf
  · cases hf
  · split at hf
    · cases hf
    · split at hf
      · cases hf; rfl
      · cases hf

theorem setplugsLoop_ctl (lplugs : Hostlist) (idx : Nat → Option Name) (parent : Option Name) :
    ∀ (k i : Nat) (s : State), (setplugsLoop lplugs idx parent k i s).ctl = .cont ∨
      (setplugsLoop lplugs idx parent k i s).ctl = .exit 1 := by
  intro k
  induction k with
  | zero => intro i s; left; rfl
  | succ k ih =>
    intro i s
    unfold setplugsLoop
    split
    · right; rfl
    · split
      · right; rfl
      · split
        · exact ih _ _
        · left; rfl
        · rename_i c hc
          right; show c = .exit 1; exact setupPlug_fatal hc

def bignum : Ctl := .outside "number of 20 digits or more in a range"

theorem setplugs_ctl (s : State) (av : List Name) :
    (setplugs s av).ctl = .cont ∨ (setplugs s av).ctl = .exit 1 ∨ (setplugs s av).ctl = bignum := by
  unfold setplugs
  split
  · split
    · right; right; rfl
    · split
      · left; rfl
      · split
        · left; rfl
        · simp only
          split
          · split
            · split
              · right; left; rfl
              · rcases setplugsLoop_ctl _ _ _ _ _ _ with h | h
                · left; exact h
                · right; left; exact h
            · left; rfl
          · rcases setplugsLoop_ctl _ _ _ _ _ _ with h | h
            · left; exact h
            · right; left; exact h
  · left; rfl

theorem setpathLoop_ctl (cmd path : Name) (postdata : Option Name) :
    ∀ (l : List Name) (s : State), (setpathLoop cmd path postdata l s).ctl = .cont ∨
      (setpathLoop cmd path postdata l s).ctl = .exit 1 := by
  intro l
  induction l with
  | nil => intro s; left; rfl
  | cons n rest ih =>
    intro s
    unfold setpathLoop
    split
    · left; rfl
    · split
      · right; rfl
      · exact ih _

theorem setpath_ctl (s : State) (av : List Name) :
    (setpath s av).ctl = .cont ∨ (setpath s av).ctl = .exit 1 ∨ (setpath s av).ctl = bignum := by
  unfold setpath
  split
  · split
    · left; rfl
    · split
      · right; right; rfl
      · split
        · left; rfl
        · rcases setpathLoop_ctl _ _ _ _ _ with h | h
          · left; exact h
          · right; left; exact h
  · left; rfl

/-- a state from which `stat` / `on` / `off` are described by the machine theorems: the table handed to the machine is
    well-formed (every parent defined, no cycle), every plug has a status path -/
def Safe (s : State) : Prop :=
  Redfish.WF (mCfg s) = true ∧ allStatPaths s = true

/-- the stored time-out fits an `int` (what `settimeout` guarantees since repair 7f04ec7; 60 at start) and the clock
    is far from the end of `long`: `cmd_timeout > LONG_MAX - now` in `powermsg_create` is never true -/
def TimeoutOK (s : State) : Prop := s.cmdTimeout ≤ INT_MAX ∧ (s.now : Int) ≤ LONG_MAX - INT_MAX

instance (s : State) : Decidable (TimeoutOK s) := by unfold TimeoutOK; exact inferInstance

theorem TimeoutOK.noOverflow {s : State} (h : TimeoutOK s) : timeoutOverflow s = false := by
  unfold timeoutOverflow
  obtain ⟨h1, h2⟩ := h
  simp only [decide_eq_false_iff_not, Int.not_lt]
  omega

instance (s : State) : Decidable (Safe s) := by unfold Safe; exact inferInstance

theorem runMachine_ctl_wf {s : State} (hw : Redfish.WF (mCfg s) = true) (cmd : Redfish.Cmd) (pre : List Name)
    (ts : List Nat) : (runMachine s cmd pre ts).ctl = .cont := by
  unfold runMachine
  simp only [Redfish.runCmd_done hw, if_true]

/-- not back at the prompt, and not by `exit` -/
def Stuck (c : Ctl) : Prop := ∃ w, c = .abort w ∨ c = .hang w ∨ c = .outside w

theorem runMachine_ctl (s : State) (cmd : Redfish.Cmd) (pre : List Name) (ts : List Nat) :
    (runMachine s cmd pre ts).ctl = .cont ∨ Stuck (runMachine s cmd pre ts).ctl := by
  unfold runMachine
  simp only
  split
  · left; rfl
  · right; exact ⟨_, Or.inr (Or.inl rfl)⟩

theorem firstBadWaiter_stuck (s : State) : ∀ (l : List Nat) (c : Ctl), firstBadWaiter s l = some c → Stuck c := by
  intro l
  induction l with
  | nil => intro c h; simp [firstBadWaiter] at h
  | cons i rest ih =>
    intro c h
    unfold firstBadWaiter at h
    split at h
    · exact ih c h
    · cases h; exact ⟨_, Or.inl rfl⟩
    · cases h; exact ⟨_, Or.inr (Or.inl rfl)⟩

/-- `dispatch` comes back to the prompt, or it is stuck and the state is not `Safe` for that reason -/
theorem dispatch_ctl (s : State) (cmd : Redfish.Cmd) (pre : List Name) (ts : List Nat) :
    (dispatch s cmd pre ts).ctl = .cont ∨
    (Stuck (dispatch s cmd pre ts).ctl ∧ (Redfish.WF (mCfg s) = false ∨ allStatPaths s = false)) := by
  unfold dispatch
  split
  · left; rfl
  · simp only
    split
    · rename_i h
      right
      refine ⟨⟨_, Or.inr (Or.inr rfl)⟩, Or.inr ?_⟩
      simp only [Bool.and_eq_true, Bool.not_eq_true'] at h
      exact h.2
    · split
      · rename_i hw; left; exact runMachine_ctl_wf hw _ _ _
      · rename_i hw
        have hw' : Redfish.WF (mCfg s) = false := by simpa using hw
        split
        · right; exact ⟨⟨_, Or.inr (Or.inr rfl)⟩, Or.inl hw'⟩
        · split
          · rcases runMachine_ctl s cmd pre ts with h | h
            · left; exact h
            · right; exact ⟨h, Or.inl hw'⟩
          · split
            · right; exact ⟨⟨_, Or.inr (Or.inr rfl)⟩, Or.inl hw'⟩
            · split
              · rcases runMachine_ctl s cmd pre ts with h | h
                · left; exact h
                · right; exact ⟨h, Or.inl hw'⟩
              · split
                · rename_i c hc
                  right; exact ⟨firstBadWaiter_stuck s _ c hc, Or.inl hw'⟩
                · rcases runMachine_ctl s cmd pre ts with h | h
                  · left; exact h
                  · right; exact ⟨h, Or.inl hw'⟩

theorem resolveLoop_stop (s : State) (cmd : Redfish.Cmd) (ovf : Bool) :
    ∀ (l : List Name), (resolveLoop s cmd ovf l).2.2 = true → ovf = true := by
  intro l
  induction l with
  | nil => intro h; simp [resolveLoop] at h
  | cons n rest ih =>
    intro h
    unfold resolveLoop at h
    split at h
    · exact ih h
    · split at h
      · assumption
      · exact ih h

/-- the outcomes of `stat` / `on` / `off` -/
def PowerClass (s : State) (c : Ctl) : Prop :=
  c = .cont ∨ (c = .exit 1 ∧ timeoutOverflow s = true) ∨ c = bignum ∨
  (Stuck c ∧ (Redfish.WF (mCfg s) = false ∨ allStatPaths s = false))

theorem powerCmd_ctl (s : State) (cmd : Redfish.Cmd) (av : List Name) : PowerClass s (powerCmd s cmd av).ctl := by
  unfold powerCmd PowerClass
  split
  · split
    · right; right; left; rfl
    · split
      · left; rfl
      · simp only
        split
        · rename_i h; right; left; exact ⟨rfl, resolveLoop_stop _ _ _ _ h⟩
        · rcases dispatch_ctl s cmd _ _ with h | h
          · left; exact h
          · right; right; right; exact h
  · simp only
    split
    · rename_i h; right; left; exact ⟨rfl, resolveLoop_stop _ _ _ _ h⟩
    · rcases dispatch_ctl s cmd _ _ with h | h
      · left; exact h
      · right; right; right; exact h

/-- **which line can have which outcome** (`w` = the first word of the line) -/
def StepClass (s : State) (w : Option Name) (c : Ctl) : Prop :=
  c = .cont ∨
  (c = .exit 0 ∧ w = some (lit "quit")) ∨
  (c = .exit 1 ∧ (w = some (lit "setplugs") ∨ w = some (lit "setpath"))) ∨
  (c = bignum ∧ (w = some (lit "setplugs") ∨ w = some (lit "setpath") ∨ isPowerWord w)) ∨
  (isPowerWord w ∧ Stuck c ∧ (Redfish.WF (mCfg s) = false ∨ allStatPaths s = false))

theorem StepClass.ofPower {s : State} {w : Option Name} {c : Ctl} (ht : TimeoutOK s) (hw : isPowerWord w)
    (h : PowerClass s c) : StepClass s w c := by
  rcases h with h | h | h | h
  · left; exact h
  · rw [ht.noOverflow] at h; exact absurd h.2 (by simp)
  · right; right; right; left; exact ⟨h, Or.inr (Or.inr hw)⟩
  · right; right; right; right; exact ⟨hw, h⟩

theorem processCmd_class (s : State) (av : List Name) (ht : TimeoutOK s) : StepClass s av.head? (processCmd s av).ctl := by
  unfold processCmd
  split
  · left; rfl
  · rename_i c args
    show StepClass s (some c) _
    by_cases h : c = lit "help"
    · rw [if_pos h]; left; rfl
    rw [if_neg h]; clear h
    by_cases h : c = lit "quit"
    · rw [if_pos h]; right; left; exact ⟨rfl, by rw [h]⟩
    rw [if_neg h]; clear h
    by_cases h : c = lit "auth"
    · rw [if_pos h]; left; exact auth_ctl _ _
    rw [if_neg h]; clear h
    by_cases h : c = lit "setheader"
    · rw [if_pos h]; left; rfl
    rw [if_neg h]; clear h
    by_cases h : c = lit "setstatpath"
    · rw [if_pos h]; left; rfl
    rw [if_neg h]; clear h
    by_cases h : c = lit "setonpath"
    · rw [if_pos h]; left; exact setonpath_ctl _ _
    rw [if_neg h]; clear h
    by_cases h : c = lit "setoffpath"
    · rw [if_pos h]; left; exact setoffpath_ctl _ _
    rw [if_neg h]; clear h
    by_cases h : c = lit "setplugs"
    · rw [if_pos h]
      rcases setplugs_ctl s args with h' | h' | h'
      · left; exact h'
      · right; right; left; exact ⟨h', Or.inl (by rw [h])⟩
      · right; right; right; left; exact ⟨h', Or.inl (by rw [h])⟩
    rw [if_neg h]; clear h
    by_cases h : c = lit "setpath"
    · rw [if_pos h]
      rcases setpath_ctl s args with h' | h' | h'
      · left; exact h'
      · right; right; left; exact ⟨h', Or.inr (by rw [h])⟩
      · right; right; right; left; exact ⟨h', Or.inr (Or.inl (by rw [h]))⟩
    rw [if_neg h]; clear h
    by_cases h : c = lit "settimeout"
    · rw [if_pos h]; left; exact settimeout_ctl _ _
    rw [if_neg h]; clear h
    by_cases h : c = lit "stat"
    · rw [if_pos h]; exact StepClass.ofPower ht (Or.inl (by rw [h])) (powerCmd_ctl _ _ _)
    rw [if_neg h]; clear h
    by_cases h : c = lit "on"
    · rw [if_pos h]; exact StepClass.ofPower ht (Or.inr (Or.inl (by rw [h]))) (powerCmd_ctl _ _ _)
    rw [if_neg h]; clear h
    by_cases h : c = lit "off"
    · rw [if_pos h]; exact StepClass.ofPower ht (Or.inr (Or.inr (by rw [h]))) (powerCmd_ctl _ _ _)
    rw [if_neg h]; left; rfl

/-- every piece of input, any bytes, in any state -/
theorem step_class (s : State) (buf : List Char) (ht : TimeoutOK s) : StepClass s (firstWord buf) (step s buf).ctl :=
  processCmd_class s _ ht

/-- `quit` ends the helper with status 0, whatever follows it on the line -/
theorem step_quit (s : State) (buf : List Char) (h : firstWord buf = some (lit "quit")) :
    (step s buf).ctl = .exit 0 ∧ (step s buf).out = [] := by
  unfold step firstWord at *
  generalize argvCreate (cstr buf) = av at *
  cases av with
  | nil => simp at h
  | cons c args =>
    simp only [List.head?_cons, Option.some.injEq] at h
    subst h
    unfold processCmd
    simp only
    rw [if_pos trivial]
    exact ⟨rfl, rfl⟩

/-- from a `Safe` state, a line that is not `setplugs` / `setpath` and has no 20-digit number in a range comes back to
    the prompt unless it is `quit` -/
theorem step_safe (s : State) (buf : List Char) (hs : Safe s) (ht : TimeoutOK s)
    (h1 : firstWord buf ≠ some (lit "setplugs")) (h2 : firstWord buf ≠ some (lit "setpath"))
    (hb : (step s buf).ctl ≠ bignum) :
    (step s buf).ctl = .cont ∨ ((step s buf).ctl = .exit 0 ∧ firstWord buf = some (lit "quit")) := by
  obtain ⟨hw, hp⟩ := hs
  rcases step_class s buf ht with h | h | h | h | h
  · left; exact h
  · right; exact h
  · rcases h.2 with h' | h'
    · exact absurd h' h1
    · exact absurd h' h2
  · exact absurd h.1 hb
  · rcases h.2.2 with h' | h'
    · rw [hw] at h'; cases h'
    · rw [hp] at h'; cases h'

/-! ## 2. the plug map stays well-formed; `setplugs` pairs the i-th plug with the i-th index -/

/-- names distinct, every entry filed under its own name, its host index is an index into `hosts` and names that host -/
def MapOK (H : Hostlist) (m : PlugMap) : Prop :=
  (m.map (·.1)).Nodup ∧ ∀ e ∈ m, e.2.plugname = e.1 ∧ nthC H e.2.hostIdx = some e.2.hostname

def TInv (s : State) : Prop := MapOK s.hosts s.plugMap

theorem lookup_mem : ∀ (m : PlugMap) (n : Name) (pd : PlugData), m.lookup n = some pd → (n, pd) ∈ m
  | [], _, _, h => by simp at h
  | (k, v) :: r, n, pd, h => by
    by_cases hk : n = k
    · subst hk; simp at h; subst h; simp
    · have : (n == k) = false := by simpa using hk
      simp only [List.lookup_cons, this] at h
      exact List.mem_cons_of_mem _ (lookup_mem r n pd h)

theorem lookup_none_keys : ∀ (m : PlugMap) (n : Name), m.lookup n = none → n ∉ m.map (·.1)
  | [], _, _ => by simp
  | (k, v) :: r, n, h => by
    by_cases hk : n = k
    · subst hk; simp at h
    · have : (n == k) = false := by simpa using hk
      simp only [List.lookup_cons, this] at h
      simp only [List.map_cons, List.mem_cons, not_or]
      exact ⟨hk, lookup_none_keys r n h⟩

theorem mapUpdate_keys (m : PlugMap) (n : Name) (pd : PlugData) :
    (mapUpdate m n pd).map (·.1) = if (m.lookup n).isSome then m.map (·.1) else m.map (·.1) ++ [n] := by
  unfold mapUpdate
  split
  · rw [List.map_map]
    apply List.map_congr_left
    intro e _
    simp only [Function.comp]
    split
    · rename_i h; exact h.symm
    · rfl
  · simp

theorem mem_mapUpdate {m : PlugMap} {n : Name} {pd : PlugData} {e : Name × PlugData}
    (h : e ∈ mapUpdate m n pd) : e = (n, pd) ∨ e ∈ m := by
  unfold mapUpdate at h
  split at h
  · obtain ⟨x, hx, rfl⟩ := List.mem_map.mp h
    split
    · left; rfl
    · right; exact hx
  · rcases List.mem_append.mp h with h | h
    · right; exact h
    · left; simpa using h

theorem MapOK_update {H : Hostlist} {m : PlugMap} (h : MapOK H m) (n : Name) (pd : PlugData)
    (hn : pd.plugname = n) (hh : nthC H pd.hostIdx = some pd.hostname) : MapOK H (mapUpdate m n pd) := by
  refine ⟨?_, ?_⟩
  · rw [mapUpdate_keys]
    split
    · exact h.1
    · rename_i hl
      have : m.lookup n = none := by
        cases hx : m.lookup n with
        | none => rfl
        | some v => rw [hx] at hl; exact absurd rfl hl
      have hnot := lookup_none_keys m n this
      rw [List.nodup_append]
      refine ⟨h.1, by simp, ?_⟩
      intro a ha b hb
      simp at hb; subst hb
      intro e; subst e; exact hnot ha
  · intro e he
    rcases mem_mapUpdate he with rfl | he
    · exact ⟨hn, hh⟩
    · exact h.2 e he

theorem MapOK_delete {H : Hostlist} {m : PlugMap} (h : MapOK H m) (n : Name) : MapOK H (mapDelete m n) := by
  unfold mapDelete
  refine ⟨?_, ?_⟩
  · exact List.Nodup.sublist (List.Sublist.map _ List.filter_sublist) h.1
  · intro e he; exact h.2 e (List.mem_filter.mp he).1

/-! frame: which commands touch `hosts` and `plugMap` -/

theorem plugsRemove_hosts (s : State) (n : Name) : (plugsRemove s n).hosts = s.hosts := rfl

theorem foldl_plugsRemove_inv (l : List Name) : ∀ (s : State), TInv s →
    (l.foldl plugsRemove s).hosts = s.hosts ∧ TInv (l.foldl plugsRemove s) := by
  induction l with
  | nil => intro s h; exact ⟨rfl, h⟩
  | cons n r ih =>
    intro s h
    have h1 : TInv (plugsRemove s n) := MapOK_delete h n
    obtain ⟨a, b⟩ := ih (plugsRemove s n) h1
    exact ⟨a, b⟩

theorem removeInitialPlugs_inv (s : State) (h : TInv s) :
    (removeInitialPlugs s).hosts = s.hosts ∧ TInv (removeInitialPlugs s) := by
  unfold removeInitialPlugs
  split
  · exact ⟨rfl, h⟩
  · obtain ⟨a, b⟩ := foldl_plugsRemove_inv (expand s.hosts) s h
    refine ⟨a, ?_⟩
    unfold TInv at b ⊢
    exact b

theorem plugsAdd_inv {s s' : State} {p host : Name} {i : Nat} {par : Option Name} (h : TInv s)
    (hh : nthC s.hosts i = some host) (ha : plugsAdd s p host i par = some s') :
    s'.hosts = s.hosts ∧ TInv s' ∧
      s'.plugMap = mapUpdate s.plugMap p { plugname := p, hostname := host, hostIdx := i, parent := par } := by
  unfold plugsAdd at ha
  simp only at ha
  have hok : MapOK s.hosts (mapUpdate s.plugMap p { plugname := p, hostname := host, hostIdx := i, parent := par }) :=
    MapOK_update h p _ rfl hh
  split at ha
  · split at ha
    · cases ha
    · cases ha; exact ⟨rfl, hok, rfl⟩
  · cases ha; exact ⟨rfl, hok, rfl⟩

theorem setupPlug_inv {s s' : State} {p his : Name} {par : Option Name} (h : TInv s)
    (ha : setupPlug s p his par = .ok s') :
    s'.hosts = s.hosts ∧ TInv s' ∧
      ∃ host, nthC s.hosts (toInt32 (strtol his).1).toNat = some host ∧
        s'.plugMap = mapUpdate s.plugMap p
          { plugname := p, hostname := host, hostIdx := (toInt32 (strtol his).1).toNat, parent := par } := by
  unfold setupPlug at ha
  simp only at ha
  split at ha
  · cases ha
  · split at ha
    · cases ha
    · rename_i host hn
      split at ha
      · cases ha
      · rename_i s1 h1
        cases ha
        obtain ⟨a, b, c⟩ := plugsAdd_inv h hn h1
        exact ⟨a, b, host, hn, c⟩

theorem setplugsLoop_inv (lplugs : Hostlist) (idx : Nat → Option Name) (parent : Option Name) :
    ∀ (k i : Nat) (s : State), TInv s →
      (setplugsLoop lplugs idx parent k i s).st.hosts = s.hosts ∧ TInv (setplugsLoop lplugs idx parent k i s).st := by
  intro k
  induction k with
  | zero => intro i s h; exact ⟨rfl, h⟩
  | succ k ih =>
    intro i s h
    unfold setplugsLoop
    split
    · exact ⟨rfl, h⟩
    · split
      · exact ⟨rfl, h⟩
      · split
        · rename_i s' hs
          obtain ⟨a, b, _⟩ := setupPlug_inv h hs
          obtain ⟨c, d⟩ := ih (i + 1) s' b
          exact ⟨c.trans a, d⟩
        · exact ⟨rfl, h⟩
        · exact ⟨rfl, h⟩

theorem setplugs_inv (s : State) (av : List Name) (h : TInv s) :
    (setplugs s av).st.hosts = s.hosts ∧ TInv (setplugs s av).st := by
  obtain ⟨r1, r2⟩ := removeInitialPlugs_inv s h
  unfold setplugs
  split
  · split
    · exact ⟨rfl, h⟩
    · split
      · exact ⟨rfl, h⟩
      · split
        · exact ⟨rfl, h⟩
        · simp only
          split
          · split
            · split
              · exact ⟨r1, r2⟩
              · obtain ⟨a, b⟩ := setplugsLoop_inv _ _ _ _ 0 _ r2
                exact ⟨a.trans r1, b⟩
            · exact ⟨r1, r2⟩
          · obtain ⟨a, b⟩ := setplugsLoop_inv _ _ _ _ 0 _ r2
            exact ⟨a.trans r1, b⟩
  · exact ⟨rfl, h⟩

theorem updPath_fields (pd : PlugData) (cmd path : Name) (post : Option Name) :
    (updPath pd cmd path post).plugname = pd.plugname ∧ (updPath pd cmd path post).hostname = pd.hostname ∧
    (updPath pd cmd path post).hostIdx = pd.hostIdx ∧ (updPath pd cmd path post).parent = pd.parent := by
  unfold updPath
  split
  · exact ⟨rfl, rfl, rfl, rfl⟩
  · split <;> exact ⟨rfl, rfl, rfl, rfl⟩

theorem plugsUpdatePath_inv {s s' : State} {n cmd path : Name} {post : Option Name} (h : TInv s)
    (ha : plugsUpdatePath s n cmd path post = some s') : s'.hosts = s.hosts ∧ TInv s' := by
  unfold plugsUpdatePath at ha
  split at ha
  · cases ha
  · rename_i pd hpd
    cases ha
    refine ⟨rfl, ?_⟩
    have hm := lookup_mem _ _ _ hpd
    obtain ⟨h1, h2⟩ := h.2 _ hm
    obtain ⟨f1, f2, f3, _⟩ := updPath_fields pd cmd path post
    exact MapOK_update h n _ (by rw [f1]; exact h1) (by rw [f3, f2]; exact h2)

theorem setpathLoop_inv (cmd path : Name) (post : Option Name) :
    ∀ (l : List Name) (s : State), TInv s →
      (setpathLoop cmd path post l s).st.hosts = s.hosts ∧ TInv (setpathLoop cmd path post l s).st := by
  intro l
  induction l with
  | nil => intro s h; exact ⟨rfl, h⟩
  | cons n r ih =>
    intro s h
    unfold setpathLoop
    split
    · exact ⟨rfl, h⟩
    · split
      · exact ⟨rfl, h⟩
      · rename_i s' hs
        obtain ⟨a, b⟩ := plugsUpdatePath_inv h hs
        obtain ⟨c, d⟩ := ih s' b
        exact ⟨c.trans a, d⟩

theorem setpath_inv (s : State) (av : List Name) (h : TInv s) :
    (setpath s av).st.hosts = s.hosts ∧ TInv (setpath s av).st := by
  unfold setpath
  split
  · split
    · exact ⟨rfl, h⟩
    · split
      · exact ⟨rfl, h⟩
      · split
        · exact ⟨rfl, h⟩
        · exact setpathLoop_inv _ _ _ _ _ h
  · exact ⟨rfl, h⟩

theorem runMachine_frame (s : State) (cmd : Redfish.Cmd) (pre : List Name) (ts : List Nat) :
    (runMachine s cmd pre ts).st.hosts = s.hosts ∧ (runMachine s cmd pre ts).st.plugMap = s.plugMap := ⟨rfl, rfl⟩

theorem dispatch_frame (s : State) (cmd : Redfish.Cmd) (pre : List Name) (ts : List Nat) :
    (dispatch s cmd pre ts).st.hosts = s.hosts ∧ (dispatch s cmd pre ts).st.plugMap = s.plugMap := by
  unfold dispatch
  split
  · exact ⟨rfl, rfl⟩
  · simp only
    repeat' split
    all_goals first | exact ⟨rfl, rfl⟩ | exact runMachine_frame _ _ _ _

theorem powerCmd_frame (s : State) (cmd : Redfish.Cmd) (av : List Name) :
    (powerCmd s cmd av).st.hosts = s.hosts ∧ (powerCmd s cmd av).st.plugMap = s.plugMap := by
  unfold powerCmd
  split
  · split
    · exact ⟨rfl, rfl⟩
    · split
      · exact ⟨rfl, rfl⟩
      · simp only
        split
        · exact ⟨rfl, rfl⟩
        · exact dispatch_frame _ _ _ _
  · simp only
    split
    · exact ⟨rfl, rfl⟩
    · exact dispatch_frame _ _ _ _

theorem TInv_of_frame {s s' : State} (h : TInv s) (hf : s'.hosts = s.hosts ∧ s'.plugMap = s.plugMap) : TInv s' := by
  unfold TInv at *; rw [hf.1, hf.2]; exact h

/-- every piece of input keeps `hosts` and keeps the plug map well-formed -/
theorem processCmd_inv (s : State) (av : List Name) (h : TInv s) :
    (processCmd s av).st.hosts = s.hosts ∧ TInv (processCmd s av).st := by
  unfold processCmd
  split
  · exact ⟨rfl, h⟩
  · rename_i c args
    by_cases h1 : c = lit "help"
    · rw [if_pos h1]; exact ⟨rfl, h⟩
    rw [if_neg h1]; clear h1
    by_cases h1 : c = lit "quit"
    · rw [if_pos h1]; exact ⟨rfl, h⟩
    rw [if_neg h1]; clear h1
    by_cases h1 : c = lit "auth"
    · rw [if_pos h1]; unfold auth; split
      · exact ⟨rfl, h⟩
      · split <;> exact ⟨rfl, h⟩
    rw [if_neg h1]; clear h1
    by_cases h1 : c = lit "setheader"
    · rw [if_pos h1]; exact ⟨rfl, h⟩
    rw [if_neg h1]; clear h1
    by_cases h1 : c = lit "setstatpath"
    · rw [if_pos h1]; exact ⟨rfl, h⟩
    rw [if_neg h1]; clear h1
    by_cases h1 : c = lit "setonpath"
    · rw [if_pos h1]; unfold setonpath; split <;> exact ⟨rfl, h⟩
    rw [if_neg h1]; clear h1
    by_cases h1 : c = lit "setoffpath"
    · rw [if_pos h1]; unfold setoffpath; split <;> exact ⟨rfl, h⟩
    rw [if_neg h1]; clear h1
    by_cases h1 : c = lit "setplugs"
    · rw [if_pos h1]; exact setplugs_inv s args h
    rw [if_neg h1]; clear h1
    by_cases h1 : c = lit "setpath"
    · rw [if_pos h1]; exact setpath_inv s args h
    rw [if_neg h1]; clear h1
    by_cases h1 : c = lit "settimeout"
    · rw [if_pos h1]; unfold settimeout; split
      · exact ⟨rfl, h⟩
      · simp only; split <;> exact ⟨rfl, h⟩
    rw [if_neg h1]; clear h1
    by_cases h1 : c = lit "stat"
    · rw [if_pos h1]; exact ⟨(powerCmd_frame _ _ _).1, TInv_of_frame h (powerCmd_frame _ _ _)⟩
    rw [if_neg h1]; clear h1
    by_cases h1 : c = lit "on"
    · rw [if_pos h1]; exact ⟨(powerCmd_frame _ _ _).1, TInv_of_frame h (powerCmd_frame _ _ _)⟩
    rw [if_neg h1]; clear h1
    by_cases h1 : c = lit "off"
    · rw [if_pos h1]; exact ⟨(powerCmd_frame _ _ _).1, TInv_of_frame h (powerCmd_frame _ _ _)⟩
    rw [if_neg h1]; exact ⟨rfl, h⟩

theorem step_inv (s : State) (buf : List Char) (h : TInv s) :
    (step s buf).st.hosts = s.hosts ∧ TInv (step s buf).st := processCmd_inv s _ h

/-! ### `setplugs` accepted: the i-th plug name gets the i-th host index, the parent is recorded -/

/-- the host index a `setplugs` index string stands for (`strtol`, then the conversion to `int`) -/
def hostIndexOf (his : Name) : Nat := (toInt32 (strtol his).1).toNat

/-- the checks of `setup_plug` on the index string: no overflow, nothing after the number, not negative -/
def ValidIndexStr (his : Name) : Prop :=
  (strtol his).2.2 = false ∧ (strtol his).2.1 = his.length ∧ 0 ≤ toInt32 (strtol his).1

instance (his : Name) : Decidable (ValidIndexStr his) := by unfold ValidIndexStr; exact inferInstance

theorem lookup_mapUpdate_self (m : PlugMap) (n : Name) (pd : PlugData) : (mapUpdate m n pd).lookup n = some pd := by
  unfold mapUpdate
  split
  · rename_i h
    induction m with
    | nil => simp at h
    | cons e r ih =>
      obtain ⟨k, v⟩ := e
      by_cases hk : n = k
      · subst hk; simp
      · have hb : (n == k) = false := by simpa using hk
        have hk' : ¬ k = n := fun e => hk e.symm
        simp only [List.lookup_cons, hb] at h
        simp only [List.map_cons, hk', if_false, List.lookup_cons, hb]
        exact ih h
  · rename_i h
    have hn : m.lookup n = none := by
      cases hx : m.lookup n with
      | none => rfl
      | some v => rw [hx] at h; exact absurd rfl h
    induction m with
    | nil => simp
    | cons e r ih =>
      obtain ⟨k, v⟩ := e
      by_cases hk : n = k
      · subst hk; simp at hn
      · have hb : (n == k) = false := by simpa using hk
        simp only [List.lookup_cons, hb] at hn
        simp only [List.cons_append, List.lookup_cons, hb]
        exact ih (by rw [hn]; simp) hn

theorem lookup_map_ne (n' n : Name) (pd : PlugData) (hne : n' ≠ n) : ∀ (m : PlugMap),
    (m.map (fun e => if e.1 = n then (n, pd) else e)).lookup n' = m.lookup n'
  | [] => rfl
  | (k, v) :: r => by
    simp only [List.map_cons]
    by_cases hk : k = n
    · subst hk
      have hb : (n' == k) = false := by simpa using hne
      simp only [if_true, List.lookup_cons, hb]
      exact lookup_map_ne n' k pd hne r
    · simp only [hk, if_false, List.lookup_cons]
      rw [lookup_map_ne n' n pd hne r]

theorem lookup_append_ne (n' n : Name) (pd : PlugData) (hne : n' ≠ n) : ∀ (m : PlugMap),
    (m ++ [(n, pd)]).lookup n' = m.lookup n'
  | [] => by
    have hb : (n' == n) = false := by simpa using hne
    simp [List.lookup_cons, hb]
  | (k, v) :: r => by
    simp only [List.cons_append, List.lookup_cons]
    rw [lookup_append_ne n' n pd hne r]

theorem lookup_mapUpdate_ne (m : PlugMap) (n n' : Name) (pd : PlugData) (hne : n' ≠ n) :
    (mapUpdate m n pd).lookup n' = m.lookup n' := by
  unfold mapUpdate
  split
  · exact lookup_map_ne n' n pd hne m
  · exact lookup_append_ne n' n pd hne m

theorem setupPlug_ok {s s' : State} {p his : Name} {par : Option Name} (h : TInv s)
    (ha : setupPlug s p his par = .ok s') :
    s'.hosts = s.hosts ∧ TInv s' ∧ ValidIndexStr his ∧
      ∃ host, nthC s.hosts (hostIndexOf his) = some host ∧
        s'.plugMap = mapUpdate s.plugMap p
          { plugname := p, hostname := host, hostIdx := hostIndexOf his, parent := par } := by
  obtain ⟨a, b, c⟩ := setupPlug_inv h ha
  refine ⟨a, b, ?_, c⟩
  unfold setupPlug at ha
  simp only at ha
  split at ha
  · cases ha
  · rename_i hc
    simp only [Bool.or_eq_true, bne_iff_ne, ne_eq, decide_eq_true_eq, not_or, Bool.not_eq_true, Decidable.not_not,
      Int.not_lt] at hc
    exact ⟨hc.1.1, hc.1.2, hc.2⟩

/-- the data an accepted pair records -/
def pairData (p his host : Name) (par : Option Name) : PlugData :=
  { plugname := p, hostname := host, hostIdx := hostIndexOf his, parent := par }

theorem setplugsLoop_accept (lplugs : Hostlist) (idx : Nat → Option Name) (parent : Option Name) :
    ∀ (k i : Nat) (s : State), TInv s →
      (setplugsLoop lplugs idx parent k i s).ctl = .cont → (setplugsLoop lplugs idx parent k i s).out = [] →
      (∀ j, i ≤ j → j < i + k → ∃ p his host, nthC lplugs j = some p ∧ idx j = some his ∧ ValidIndexStr his ∧
          nthC s.hosts (hostIndexOf his) = some host ∧
          ((∀ j', j < j' → j' < i + k → nthC lplugs j' ≠ some p) →
            (setplugsLoop lplugs idx parent k i s).st.plugMap.lookup p = some (pairData p his host parent))) ∧
      (∀ n, (∀ j, i ≤ j → j < i + k → nthC lplugs j ≠ some n) →
          (setplugsLoop lplugs idx parent k i s).st.plugMap.lookup n = s.plugMap.lookup n) := by
  intro k
  induction k with
  | zero =>
    intro i s _ _ _
    refine ⟨fun j h1 h2 => by omega, fun n _ => rfl⟩
  | succ k ih =>
    intro i s hinv hctl hout
    unfold setplugsLoop at hctl hout ⊢
    cases hp : nthC lplugs i with
    | none => rw [hp] at hctl; simp at hctl
    | some plug =>
      rw [hp] at hctl hout
      simp only at hctl hout ⊢
      cases hi : idx i with
      | none => rw [hi] at hctl; simp at hctl
      | some his =>
        rw [hi] at hctl hout
        simp only at hctl hout ⊢
        cases hs : setupPlug s plug his parent with
        | bad line => rw [hs] at hout; simp at hout
        | fatal c => rw [hs] at hctl; simp only at hctl; rw [setupPlug_fatal hs] at hctl; cases hctl
        | ok s' =>
          rw [hs] at hctl hout
          simp only at hctl hout ⊢
          obtain ⟨hh, hinv', hval, host, hhost, hmap⟩ := setupPlug_ok hinv hs
          obtain ⟨ih1, ih2⟩ := ih (i + 1) s' hinv' hctl hout
          refine ⟨?_, ?_⟩
          · intro j hj1 hj2
            by_cases hji : j = i
            · subst hji
              refine ⟨plug, his, host, hp, hi, hval, hhost, ?_⟩
              intro hlast
              rw [ih2 plug (fun j' h1 h2 => hlast j' (by omega) (by omega)), hmap]
              exact lookup_mapUpdate_self _ _ _
            · obtain ⟨p, his', host', a, b, c, d, e⟩ := ih1 j (by omega) (by omega)
              refine ⟨p, his', host', a, b, c, by rw [← hh]; exact d, ?_⟩
              intro hlast
              exact e (fun j' h1 h2 => hlast j' h1 (by omega))
          · intro n hn
            rw [ih2 n (fun j h1 h2 => hn j (by omega) (by omega)), hmap]
            exact lookup_mapUpdate_ne _ _ _ _ (fun e => hn i (Nat.le_refl _) (by omega) (by rw [hp, e]))

/-! ## 3. which line is answered with which diagnostic -/

def commandWords : List Name :=
  [lit "help", lit "quit", lit "auth", lit "setheader", lit "setstatpath", lit "setonpath", lit "setoffpath",
   lit "setplugs", lit "setpath", lit "settimeout", lit "stat", lit "on", lit "off"]

theorem processCmd_empty (s : State) : processCmd s [] = ok s [] := rfl

/-- a first word that is not one of the thirteen commands: the hint, nothing else, nothing changes -/
theorem processCmd_unknown (s : State) (c : Name) (args : List Name) (h : c ∉ commandWords) :
    processCmd s (c :: args) = ok s [lit "type \"help\" for a list of commands"] := by
  simp only [commandWords, List.mem_cons, List.not_mem_nil, or_false, not_or] at h
  obtain ⟨h1, h2, h3, h4, h5, h6, h7, h8, h9, h10, h11, h12, h13⟩ := h
  unfold processCmd
  simp only
  rw [if_neg h1, if_neg h2, if_neg h3, if_neg h4, if_neg h5, if_neg h6, if_neg h7, if_neg h8, if_neg h9, if_neg h10,
    if_neg h11, if_neg h12, if_neg h13]

theorem processCmd_help (s : State) (args : List Name) : processCmd s (lit "help" :: args) = ok s helpLines := by
  unfold processCmd; simp only; rw [if_pos trivial]

theorem setplugs_usage (s : State) (av : List Name) (h : av.length < 2) :
    setplugs s av = ok s [lit "Usage: setplugs <plugnames> <hostindices> [<parentplug>]]"] := by
  unfold setplugs
  split
  · simp at h; omega
  · rfl

theorem setplugs_illegal_plugnames (s : State) (a0 a1 : Name) (rest : List Name)
    (hb : (hlArgOK a0 && hlArgOK a1) = true) (h0 : hlCreate a0 = none) :
    setplugs s (a0 :: a1 :: rest) = ok s [lit "setplugs: illegal plugnames input"] := by
  unfold setplugs; simp only [hb, h0, Bool.not_true, Bool.false_eq_true, if_false]

theorem setplugs_illegal_hostindices (s : State) (a0 a1 : Name) (rest : List Name) (lplugs : Hostlist)
    (hb : (hlArgOK a0 && hlArgOK a1) = true) (h0 : hlCreate a0 = some lplugs) (h1 : hlCreate a1 = none) :
    setplugs s (a0 :: a1 :: rest) = ok s [lit "setplugs: illegal hostindices input"] := by
  unfold setplugs; simp only [hb, h0, h1, Bool.not_true, Bool.false_eq_true, if_false]

/-- count mismatch (and not "several plugs, one index"): reported — and the initial per-host plugs are gone all the same -/
theorem setplugs_mismatch (s : State) (a0 a1 : Name) (rest : List Name) (lplugs hostindices : Hostlist)
    (hb : (hlArgOK a0 && hlArgOK a1) = true) (h0 : hlCreate a0 = some lplugs) (h1 : hlCreate a1 = some hostindices)
    (hc : hlCount lplugs ≠ hlCount hostindices) (hs : ¬ (hlCount lplugs > 1 ∧ hlCount hostindices = 1)) :
    setplugs s (a0 :: a1 :: rest) =
      ok (removeInitialPlugs s) [lit "setplugs: plugs count not equal to host index count"] := by
  unfold setplugs
  simp only [hb, h0, h1, Bool.not_true, Bool.false_eq_true, if_false]
  have e1 : (hlCount lplugs != hlCount hostindices) = true := by simpa using hc
  have e2 : (decide (hlCount lplugs > 1) && hlCount hostindices == 1) = false := by
    cases h : (decide (hlCount lplugs > 1) && hlCount hostindices == 1) with
    | false => rfl
    | true => simp only [Bool.and_eq_true, decide_eq_true_eq, beq_iff_eq] at h; exact absurd h hs
  rw [if_pos e1, e2]; rfl

/-- equal counts: the loop that pairs the i-th plug with the i-th index, on the table without the initial plugs -/
theorem setplugs_eq_loop (s : State) (a0 a1 : Name) (rest : List Name) (lplugs hostindices : Hostlist)
    (hb : (hlArgOK a0 && hlArgOK a1) = true) (h0 : hlCreate a0 = some lplugs) (h1 : hlCreate a1 = some hostindices)
    (hc : hlCount lplugs = hlCount hostindices) :
    setplugs s (a0 :: a1 :: rest) =
      setplugsLoop lplugs (fun i => nthC hostindices i) rest.head? (hlCount lplugs) 0 (removeInitialPlugs s) := by
  unfold setplugs
  simp only [hb, h0, h1, Bool.not_true, Bool.false_eq_true, if_false]
  have e1 : (hlCount lplugs != hlCount hostindices) = false := by simpa using hc
  rw [e1]; rfl

/-- several plugs, one index: every plug gets that index -/
theorem setplugs_eq_subst (s : State) (a0 a1 : Name) (rest : List Name) (lplugs hostindices : Hostlist) (his : Name)
    (hb : (hlArgOK a0 && hlArgOK a1) = true) (h0 : hlCreate a0 = some lplugs) (h1 : hlCreate a1 = some hostindices)
    (hc : hlCount lplugs > 1) (h1' : hlCount hostindices = 1) (hn : nthC hostindices 0 = some his) :
    setplugs s (a0 :: a1 :: rest) =
      setplugsLoop lplugs (fun _ => some his) rest.head? (hlCount lplugs) 0 (removeInitialPlugs s) := by
  unfold setplugs
  simp only [hb, h0, h1, Bool.not_true, Bool.false_eq_true, if_false]
  have e1 : (hlCount lplugs != hlCount hostindices) = true := by rw [h1']; simp; omega
  have e2 : (decide (hlCount lplugs > 1) && hlCount hostindices == 1) = true := by simp [hc, h1']
  rw [if_pos e1, if_pos e2, hn]

theorem not_ValidIndexStr_iff (his : Name) :
    ¬ ValidIndexStr his ↔
      ((strtol his).2.2 || (strtol his).2.1 != his.length || decide (toInt32 (strtol his).1 < 0)) = true := by
  unfold ValidIndexStr
  simp only [Bool.or_eq_true, bne_iff_ne, ne_eq, decide_eq_true_eq]
  constructor
  · intro h
    by_cases h1 : (strtol his).2.2 = true
    · left; left; exact h1
    · by_cases h2 : (strtol his).2.1 = his.length
      · right
        have h1' : (strtol his).2.2 = false := by simpa using h1
        have : ¬ 0 ≤ toInt32 (strtol his).1 := fun h3 => h ⟨h1', h2, h3⟩
        omega
      · left; right; exact h2
  · rintro ((h | h) | h) ⟨a, b, c⟩
    · rw [a] at h; cases h
    · exact h b
    · omega

/-- an index string that is not a non-negative decimal `int` (overflow of `long`, trailing characters, negative after
    the conversion to `int`): "invalid hostindex", the plug is not defined -/
theorem setupPlug_invalid (s : State) (p his : Name) (par : Option Name) (h : ¬ ValidIndexStr his) :
    setupPlug s p his par = .bad (lit "setplugs: invalid hostindex " ++ his ++ lit " specified") := by
  unfold setupPlug
  simp only
  rw [if_pos ((not_ValidIndexStr_iff his).mp h)]

/-- a valid index string naming no host: "out of range" -/
theorem setupPlug_range (s : State) (p his : Name) (par : Option Name) (h : ValidIndexStr his)
    (hn : nthC s.hosts (hostIndexOf his) = none) :
    setupPlug s p his par =
      .bad (lit "setplugs: hostindex " ++ (toString (toInt32 (strtol his).1)).toList ++ lit " out of range") := by
  unfold setupPlug
  simp only
  have : ¬ ((strtol his).2.2 || (strtol his).2.1 != his.length || decide (toInt32 (strtol his).1 < 0)) = true :=
    fun h' => ((not_ValidIndexStr_iff his).mpr h') h
  rw [if_neg this]
  unfold hostIndexOf at hn
  rw [hn]

/-- a target expression `hostlist_create` refuses (reversed, open, oversized, non-numeric range …): one line, nothing
    else happens -/
theorem powerCmd_illegal (s : State) (cmd : Redfish.Cmd) (a : Name) (rest : List Name) (hb : hlArgOK a = true)
    (h : hlCreate a = none) : powerCmd s cmd (a :: rest) = ok s [lit "illegal hosts input"] := by
  unfold powerCmd; simp only [hb, h, Bool.not_true, Bool.false_eq_true, if_false]

theorem setpath_usage (s : State) (av : List Name) (h : av.length < 3) :
    setpath s av = ok s [lit "Usage: setpath <plugnames> <cmd> <path> [<postdata>]"] := by
  unfold setpath
  split
  · simp at h; omega
  · rfl

theorem setpath_invalid_command (s : State) (a0 a1 a2 : Name) (rest : List Name)
    (h : a1 ≠ lit "stat" ∧ a1 ≠ lit "on" ∧ a1 ≠ lit "off") :
    setpath s (a0 :: a1 :: a2 :: rest) = ok s [lit "setpath: invalid command specified"] := by
  unfold setpath; simp only; rw [if_pos h]

theorem settimeout_spec (s : State) (a : Name) (rest : List Name) :
    settimeout s (a :: rest) =
      if (strtol a).2.2 = true ∨ (strtol a).2.1 ≠ a.length ∨ (strtol a).1 ≤ 0 ∨ (strtol a).1 > INT_MAX
      then ok s [lit "invalid timeout specified"] else ok { s with cmdTimeout := (strtol a).1 } := by
  unfold settimeout
  simp only [Bool.or_eq_true, bne_iff_ne, ne_eq, decide_eq_true_eq, or_assoc]

/-- **`setplugs` accepted** (equal counts, no diagnostic, back at the prompt): for every position `j` the `j`-th plug
    name and the `j`-th index string exist, the index string is a valid index naming host `host`, and — unless the same
    name occurs again further right — the table now maps that name to (that host, that index, the parent given);
    names not in the expression keep what they had after the initial plugs were removed -/
theorem setplugs_pairs (s : State) (a0 a1 : Name) (rest : List Name) (lplugs hostindices : Hostlist) (h : TInv s)
    (hb : (hlArgOK a0 && hlArgOK a1) = true) (h0 : hlCreate a0 = some lplugs) (h1 : hlCreate a1 = some hostindices)
    (hc : hlCount lplugs = hlCount hostindices)
    (hctl : (setplugs s (a0 :: a1 :: rest)).ctl = .cont) (hout : (setplugs s (a0 :: a1 :: rest)).out = []) :
    (∀ j, j < hlCount lplugs → ∃ p his host, nthC lplugs j = some p ∧ nthC hostindices j = some his ∧
        ValidIndexStr his ∧ nthC s.hosts (hostIndexOf his) = some host ∧
        ((∀ j', j < j' → j' < hlCount lplugs → nthC lplugs j' ≠ some p) →
          (setplugs s (a0 :: a1 :: rest)).st.plugMap.lookup p = some (pairData p his host rest.head?))) ∧
    (∀ n, (∀ j, j < hlCount lplugs → nthC lplugs j ≠ some n) →
        (setplugs s (a0 :: a1 :: rest)).st.plugMap.lookup n = (removeInitialPlugs s).plugMap.lookup n) := by
  rw [setplugs_eq_loop s a0 a1 rest lplugs hostindices hb h0 h1 hc] at hctl hout ⊢
  obtain ⟨r1, r2⟩ := removeInitialPlugs_inv s h
  obtain ⟨A, B⟩ := setplugsLoop_accept lplugs (fun i => nthC hostindices i) rest.head? (hlCount lplugs) 0
    (removeInitialPlugs s) r2 hctl hout
  refine ⟨?_, ?_⟩
  · intro j hj
    obtain ⟨p, his, host, a, b, c, d, e⟩ := A j (Nat.zero_le _) (by omega)
    refine ⟨p, his, host, a, b, c, by rw [← r1]; exact d, ?_⟩
    intro hlast
    exact e (fun j' x y => hlast j' x (by omega))
  · intro n hn
    exact B n (fun j _ y => hn j (by omega))

/-- the initial plugs are removed by the first `setplugs` that gets as far as counting (only then) -/
theorem removeInitialPlugs_idem (s : State) : (removeInitialPlugs s).initial = false := by
  unfold removeInitialPlugs
  split
  · rename_i h; simpa using h
  · rfl

instance (H : Hostlist) (m : PlugMap) : Decidable (MapOK H m) := by unfold MapOK; exact inferInstance
instance (s : State) : Decidable (TInv s) := by unfold TInv; exact inferInstance

/-- a host index recorded in a well-formed table is smaller than the number of hosts -/
theorem hostIdx_lt (s : State) (hh : HWF s.hosts) (h : TInv s) (e : Name × PlugData) (he : e ∈ s.plugMap) :
    e.2.hostIdx < (expand s.hosts).length := by
  have := (h.2 e he).2
  rw [nthC_spec s.hosts _ hh] at this
  rcases Nat.lt_or_ge e.2.hostIdx (expand s.hosts).length with h1 | h1
  · exact h1
  · rw [List.getElem?_eq_none h1] at this; cases this

/-! ## 4. target resolution, and the composition with the machine theorems -/

def tgtLines : List Tgt → List Name
  | [] => []
  | .line l :: r => l :: tgtLines r
  | .target _ :: r => tgtLines r
def tgtIdx : List Tgt → List Nat
  | [] => []
  | .line _ :: r => tgtIdx r
  | .target i :: r => i :: tgtIdx r

/-- without the time-out overflow the loop is a `map`: each name is judged on its own, in expression order -/
theorem resolveLoop_map (s : State) (cmd : Redfish.Cmd) : ∀ (names : List Name),
    resolveLoop s cmd false names =
      (tgtLines (names.map (resolveOne s cmd)), tgtIdx (names.map (resolveOne s cmd)), false)
  | [] => rfl
  | n :: rest => by
    unfold resolveLoop
    rw [resolveLoop_map s cmd rest]
    cases h : resolveOne s cmd n with
    | line l => simp [tgtLines, tgtIdx, h]
    | target i => simp [tgtLines, tgtIdx, h]

/-- the plug list and the plug map name the same plugs -/
def Linked (s : State) : Prop := ∀ n, plugsNameValid s n = true ↔ (s.plugMap.lookup n).isSome = true

/-- the path `cmd` needs is set for every plug (by the default path or by the plug's own) -/
def PathsFor (s : State) (cmd : Redfish.Cmd) : Prop := ∀ n, (s.plugMap.lookup n).isSome = true → (getPath s cmd n).isSome = true

theorem lookup_isSome_iff_mem_keys : ∀ (m : PlugMap) (n : Name), (m.lookup n).isSome = true ↔ n ∈ m.map (·.1)
  | [], _ => by simp
  | (k, v) :: r, n => by
    by_cases hk : n = k
    · subst hk; simp
    · have hb : (n == k) = false := by simpa using hk
      simp only [List.lookup_cons, hb, List.map_cons, List.mem_cons, hk, false_or]
      exact lookup_isSome_iff_mem_keys r n

theorem mIndex_of_lookup (m : PlugMap) (n : Name) (h : (m.lookup n).isSome = true) :
    ∃ i, mIndex m n = some i ∧ i < m.length ∧ (m[i]?.map (·.1)) = some n := by
  have hmem := (lookup_isSome_iff_mem_keys m n).mp h
  obtain ⟨e, he, hen⟩ := List.mem_map.mp hmem
  have hlt : m.findIdx (fun e => e.1 == n) < m.length :=
    List.findIdx_lt_length.mpr ⟨e, he, by simp [hen]⟩
  refine ⟨m.findIdx (fun e => e.1 == n), ?_, hlt, ?_⟩
  · unfold mIndex; simp only [hlt, if_true]
  · have := List.findIdx_getElem (p := fun e : Name × PlugData => e.1 == n) (xs := m) (w := hlt)
    rw [List.getElem?_eq_getElem hlt]
    simp only [Option.map_some, Option.some.injEq]
    simpa using this

theorem mIndex_none_of_lookup (m : PlugMap) (n : Name) (h : (m.lookup n).isSome = false) : mIndex m n = none := by
  unfold mIndex
  have : ∀ x ∈ m, (fun e : Name × PlugData => e.1 == n) x = false := by
    intro x hx
    cases hb : (x.1 == n) with
    | false => simpa using hb
    | true =>
      have hx1 : x.1 = n := by simpa using hb
      have : n ∈ m.map (·.1) := List.mem_map.mpr ⟨x, hx, hx1⟩
      rw [(lookup_isSome_iff_mem_keys m n).mpr this] at h; cases h
  rw [List.findIdx_eq_length.mpr this]; simp

/-- the line for a name the table does not know -/
def unknownLine (n : Name) : Name := lit "unknown plug specified: " ++ n

/-- **one name**: with list and map in step and the path set, a name is either unknown (one `unknown plug specified`
    line) or handed to the machine as its index in the table -/
theorem resolveOne_spec (s : State) (cmd : Redfish.Cmd) (hl : Linked s) (hp : PathsFor s cmd) (n : Name) :
    resolveOne s cmd n =
      match mIndex s.plugMap n with
      | some i => .target i
      | none => .line (unknownLine n) := by
  unfold resolveOne
  by_cases hv : plugsNameValid s n = true
  · have hm := (hl n).mp hv
    obtain ⟨i, hi, _, _⟩ := mIndex_of_lookup s.plugMap n hm
    have hpath := hp n hm
    simp only [hv, Bool.not_true, Bool.false_eq_true, if_false, hi]
    cases hg : getPath s cmd n with
    | none => rw [hg] at hpath; cases hpath
    | some _ => rfl
  · have hv' : plugsNameValid s n = false := by simpa using hv
    have hm : (s.plugMap.lookup n).isSome = false := by
      cases h : (s.plugMap.lookup n).isSome with
      | false => rfl
      | true => rw [(hl n).mpr h] at hv'; cases hv'
    rw [mIndex_none_of_lookup _ _ hm]
    simp only [hv', Bool.not_false, if_true]
    rfl

/-- **the whole expression**: one `unknown plug specified: n` line per unknown name, in expression order, and the
    machine is handed exactly the known ones, in expression order (duplicates kept) -/
theorem resolveLoop_spec (s : State) (cmd : Redfish.Cmd) (hl : Linked s) (hp : PathsFor s cmd) (names : List Name) :
    resolveLoop s cmd false names =
      ((names.filter fun n => (mIndex s.plugMap n).isNone).map unknownLine,
       names.filterMap (mIndex s.plugMap), false) := by
  rw [resolveLoop_map]
  induction names with
  | nil => rfl
  | cons n rest ih =>
    simp only [List.map_cons, resolveOne_spec s cmd hl hp n]
    simp only [Prod.mk.injEq, and_true] at ih ⊢
    cases h : mIndex s.plugMap n with
    | none => simp [tgtLines, tgtIdx, h, ih.1, ih.2]
    | some i => simp [tgtLines, tgtIdx, h, ih.1, ih.2]

theorem mCfg_names (s : State) : (mCfg s).plugs.map (·.name) = List.range s.plugMap.length := by
  unfold mCfg
  simp only [List.map_map]
  have : ((fun (x : Redfish.PlugCfg) => x.name) ∘ fun (e : (Name × PlugData) × Nat) =>
      ({ name := e.2, host := e.2, parent := e.1.2.parent.map fun p => (mIndex s.plugMap p).getD s.plugMap.length } : Redfish.PlugCfg)) = Prod.snd := by
    funext e; rfl
  rw [this, List.zipIdx_map_snd, List.range_eq_range']

theorem known_mCfg (s : State) (i : Nat) : Redfish.known (mCfg s) i = decide (i < s.plugMap.length) := by
  unfold Redfish.known Redfish.lookup
  have hn := mCfg_names s
  by_cases hi : i < s.plugMap.length
  · have : i ∈ (mCfg s).plugs.map (·.name) := by rw [hn]; exact List.mem_range.mpr hi
    obtain ⟨x, hx, hxi⟩ := List.mem_map.mp this
    have : ((mCfg s).plugs.find? (fun x => decide (x.name = i))).isSome = true :=
      List.find?_isSome.mpr ⟨x, hx, by simp [hxi]⟩
    rw [this]; simp [hi]
  · cases hf : ((mCfg s).plugs.find? (fun x => decide (x.name = i))).isSome with
    | false => simp [hi]
    | true =>
      obtain ⟨x, hx, hxi⟩ := List.find?_isSome.mp hf
      have : i ∈ (mCfg s).plugs.map (·.name) := List.mem_map.mpr ⟨x, hx, by simpa using hxi⟩
      rw [hn] at this
      exact absurd (List.mem_range.mp this) hi

theorem mIndex_lt (m : PlugMap) (n : Name) (i : Nat) (h : mIndex m n = some i) : i < m.length := by
  unfold mIndex at h
  simp only at h
  split at h
  · cases h; assumption
  · cases h

/-- everything `resolveLoop` hands to the machine is a plug of the machine's configuration -/
theorem resolved_known (s : State) (names : List Name) :
    ∀ t ∈ names.filterMap (mIndex s.plugMap), Redfish.known (mCfg s) t = true := by
  intro t ht
  obtain ⟨n, _, hn⟩ := List.mem_filterMap.mp ht
  rw [known_mCfg]; simpa using mIndex_lt _ _ _ hn

/-- `dispatch` from a `Safe` state is the machine -/
theorem dispatch_safe (s : State) (cmd : Redfish.Cmd) (pre : List Name) (ts : List Nat) (hs : Safe s) (hne : ts ≠ []) :
    dispatch s cmd pre ts = runMachine s cmd pre ts := by
  obtain ⟨hw, hp⟩ := hs
  unfold dispatch
  have h1 : ts.isEmpty = false := by cases ts with | nil => exact absurd rfl hne | cons => rfl
  simp only [h1, Bool.false_eq_true, if_false, hp, Bool.not_true, Bool.and_false, hw, if_true]

theorem runMachine_nil (s : State) (cmd : Redfish.Cmd) (pre : List Name) :
    (runMachine s cmd pre []).out = pre ∧ (runMachine s cmd pre []).ctl = .cont := by
  have h : Redfish.runCmd (mCfg s) (mSt s) cmd [] = ([], mSt s, true) := by
    unfold Redfish.runCmd Redfish.runLoop
    simp
  unfold runMachine
  simp [h]

/-- **`stat` / `on` / `off` with a target expression, composed with the machine theorems.**  From a `Safe` state with
    list and map in step and the command's path set: the helper comes back to its prompt; it prints one
    `unknown plug specified: n` line per unknown name of the expression (first, in expression order), then the
    machine's lines `M` for exactly the known names in expression order: one line per known target (`linePlug` of `M`
    is a permutation of the targets), none of them an "unknown plug" line -/
theorem powerCmd_resolved (s : State) (cmd : Redfish.Cmd) (a : Name) (rest : List Name) (hl : Hostlist)
    (hs : Safe s) (ht : TimeoutOK s) (hlk : Linked s) (hp : PathsFor s cmd) (hb : hlArgOK a = true)
    (hc : hlCreate a = some hl) :
    let names := expand hl
    let T := names.filterMap (mIndex s.plugMap)
    let M := (Redfish.runCmd (mCfg s) (mSt s) cmd T).1
    (powerCmd s cmd (a :: rest)).ctl = .cont ∧
    (powerCmd s cmd (a :: rest)).out =
      (names.filter fun n => (mIndex s.plugMap n).isNone).map unknownLine ++ M.map (render s) ∧
    (M.map Redfish.linePlug).Perm T ∧ (∀ l ∈ M, Redfish.isUnk l = false) := by
  intro names T M
  have hov : timeoutOverflow s = false := ht.noOverflow
  have hw := hs.1
  have hres := resolveLoop_spec s cmd hlk hp names
  have hperm : (M.map Redfish.linePlug).Perm T := Redfish.runCmd_plugs hw _ _ _
  have hunk : ∀ l ∈ M, Redfish.isUnk l = false := by
    intro l hl'
    have h1 := Redfish.runCmd_unknowns hw (mSt s) cmd T
    have : (Redfish.linePlug l, Redfish.isUnk l) ∈ T.map fun t => (t, !Redfish.known (mCfg s) t) :=
      h1.subset (List.mem_map.mpr ⟨l, hl', rfl⟩)
    obtain ⟨t, ht, hte⟩ := List.mem_map.mp this
    have hk := resolved_known s names t ht
    simp only [Prod.mk.injEq] at hte
    rw [← hte.2, hk]; rfl
  have e : powerCmd s cmd (a :: rest) =
      dispatch s cmd ((names.filter fun n => (mIndex s.plugMap n).isNone).map unknownLine) T := by
    unfold powerCmd
    simp only [hb, hc, Bool.not_true, Bool.false_eq_true, if_false, hov]
    rw [show resolveLoop s cmd false (expand hl) = _ from hres]
    simp only [Bool.false_eq_true, if_false]
    rfl
  rw [e]
  by_cases hT : T = []
  · refine ⟨?_, ?_, hperm, hunk⟩
    · unfold dispatch; simp [hT]
    · have hM : M = [] := by
        show (Redfish.runCmd (mCfg s) (mSt s) cmd T).1 = []
        rw [hT]
        unfold Redfish.runCmd Redfish.runLoop
        simp
      unfold dispatch; simp [hT, hM]
  · rw [dispatch_safe s cmd _ T hs hT]
    exact ⟨runMachine_ctl_wf hw _ _ _, rfl, hperm, hunk⟩

/-- … and those lines are the documented rules' lines, up to order (`C19_refines`) -/
theorem powerCmd_rules (s : State) (cmd : Redfish.Cmd) (names : List Name) (hs : Safe s) :
    (Redfish.runCmd (mCfg s) (mSt s) cmd (names.filterMap (mIndex s.plugMap))).1.Perm
      (Redfish.specRun (mCfg s) (mSt s) cmd (names.filterMap (mIndex s.plugMap))).1 :=
  (Redfish.runCmd_refines hs.1 _ _ _).1

/-! ### list and map in step: a checkable form -/

/-- the plug list is built as `hostlist_push_host` builds lists (so `hostlist_find` sees every member), and it holds
    exactly the names the map holds -/
def LinkedD (s : State) : Prop :=
  (∀ r ∈ s.plugs, r.single = true ∨ ((splitDigits r.pfx).2 = [] ∧ r.hi ≤ MAX_HOST_SUFFIX)) ∧
  (∀ n ∈ expand s.plugs, n ∈ s.plugMap.map (·.1)) ∧ (∀ n ∈ s.plugMap.map (·.1), n ∈ expand s.plugs)

instance (s : State) : Decidable (LinkedD s) := by unfold LinkedD; exact inferInstance

theorem LinkedD.linked {s : State} (h : LinkedD s) : Linked s := by
  obtain ⟨hp, h1, h2⟩ := h
  have hp' : HPushed s.plugs := hp
  intro n
  unfold plugsNameValid
  rw [lookup_isSome_iff_mem_keys]
  constructor
  · intro hf
    cases hfi : find s.plugs n with
    | none => rw [hfi] at hf; cases hf
    | some i => exact h1 n (find_mem s.plugs n i hfi)
  · intro hk
    have hmem := h2 n hk
    rw [find_complete s.plugs n hmem (HPushed_findable s.plugs n hp')]
    rfl

/-- the default path of the command is set: every plug has a path for it -/
theorem PathsFor_of_default (s : State) (cmd : Redfish.Cmd)
    (h : (match cmd with | .stat => s.statpath | .on => s.onpath | .off => s.offpath).isSome = true) : PathsFor s cmd := by
  intro n _
  have hor : ∀ (a b : Option Name), b.isSome = true → (a.or b).isSome = true := by
    intro a b hb; cases a <;> simp [Option.or, hb]
  unfold getPath
  simp only [Option.isSome_map]
  cases cmd <;> exact hor _ _ h

end Pm.RfCmd
