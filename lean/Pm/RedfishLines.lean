import Pm.RedfishSetup
/-! helper lemmas for C19, part 6: conservation of "lines printed + lines still owed", generic in a labelling
    (labels = plug names gives "one line per target"; labels = the specification's lines gives refinement) -/
namespace Pm.Redfish

/-- the line printed for a waiter with `output` set whose ancestor `anc` is `s ≠ on` -/
def wline1 (anc : Nat) (s : Stat) (pm : PM) : Line :=
  if pm.cmd == .stat then Line.status pm.plug s
  else if pm.cmd == .off && s == .off then Line.ok pm.plug
  else Line.dep pm.plug pm.cmd s anc

theorem wline_eq (anc : Nat) (s : Stat) (pm : PM) : wline anc s pm = if pm.output then [wline1 anc s pm] else [] := by
  unfold wline wline1
  cases pm.output <;> simp
  repeat' split
  all_goals rfl

/-- the status a completing message hands to `process_waiters` -/
def resStat (c : Cfg) (m : M) (i : PM) : Stat := if hostFails c i.plug then .error else statStr c m i.plug
/-- the line a completing message prints for itself -/
def ownLine (c : Cfg) (m : M) (i : PM) : Line :=
  if hostFails c i.plug then .status i.plug .error
  else if i.cmd = .stat then .status i.plug (statStr c m i.plug) else .ok i.plug
/-- a power message that has not yet "sent" its command: processing it prints nothing -/
def isFresh (c : Cfg) (i : PM) : Bool := !hostFails c i.plug && decide (i.cmd ≠ .stat) && !i.waitState
/-- "poll again" -/
def isAgain (c : Cfg) (m : M) (i : PM) : Bool :=
  !hostFails c i.plug && decide (i.cmd ≠ .stat) && i.waitState && ((statStr c m i.plug == .on) != (i.cmd == .on))

/-- `processOne` in three shapes -/
theorem processOne_shape (c : Cfg) (m : M) (i : PM) (ho : i.cmd ≠ .stat → i.output = true) :
    processOne c m i =
      if isFresh c i then { m with st := powerSt c m.st i.cmd i.plug,
                                   delayed := m.delayed ++ [{ i with output := true, waitState := true }] }
      else if isAgain c m i then { m with delayed := m.delayed ++ [i] }
      else processWaiters c (outIf m i.output (ownLine c m i)) i.plug (resStat c m i) := by
  by_cases hf : hostFails c i.plug = true
  · rw [processOne_fail _ _ _ hf]; simp [isFresh, isAgain, hf, ownLine, resStat]
  · have hf : hostFails c i.plug = false := by simpa using hf
    by_cases hc : i.cmd = .stat
    · rw [processOne_stat _ _ _ hf hc]; simp [isFresh, isAgain, hf, hc, ownLine, resStat]
    · cases hwt : i.waitState
      · rw [processOne_fresh _ _ _ hf hc hwt]; simp [isFresh, hf, hc, hwt]
      · by_cases hs : (statStr c m i.plug == .on) = (i.cmd == .on)
        · rw [processOne_done _ _ _ hf hc hwt hs]
          simp [isFresh, isAgain, hf, hc, hwt, hs, ownLine, resStat, ho hc, outIf]
        · rw [processOne_again _ _ _ hf hc hwt hs]
          have : ((statStr c m i.plug == .on) != (i.cmd == .on)) = true := by
            cases h1 : (statStr c m i.plug == .on) <;> cases h2 : (i.cmd == .on) <;> simp_all
          simp [isFresh, isAgain, hf, hc, hwt, this]

section
variable {α : Type} [DecidableEq α] (lab : Nat → α) (ll : Line → α)

def lc (x : α) (out : List Line) : Nat := out.countP (fun L => ll L == x)
def oc (x : α) (l : List PM) : Nat := l.countP (fun i => i.output && lab i.plug == x)
def TT (x : α) (pend : List PM) (m : M) : Nat := lc ll x m.out + oc lab x pend + oc lab x m.delayed + oc lab x m.waiting

theorem lc_append (x : α) (a b : List Line) : lc ll x (a ++ b) = lc ll x a + lc ll x b := by
  simp [lc, List.countP_append]
theorem oc_append (x : α) (a b : List PM) : oc lab x (a ++ b) = oc lab x a + oc lab x b := by
  simp [oc, List.countP_append]

theorem oc_split (x : α) (q : PM → Bool) (l : List PM) :
    oc lab x l = oc lab x (l.filter q) + oc lab x (l.filter (fun a => !q a)) := by
  unfold oc; exact List.countP_eq_countP_filter_add _ _ _

/-- lines printed for the removed waiters, against what they were owed -/
theorem lc_linesF {c : Cfg} (x : α) (a : Nat) (s : Stat) (ws : List PM)
    (H : ∀ w ∈ ws, a ∈ ancUp c w.plug → w.output = true → ll (wline1 a s w) = lab w.plug) :
    lc ll x ((ws.filter (descB c a)).flatMap (wline a s)) = oc lab x (ws.filter (descB c a)) := by
  induction ws with
  | nil => simp [lc, oc]
  | cons w ws ih =>
    have ih := ih (fun w' hw' => H w' (List.mem_cons_of_mem _ hw'))
    by_cases hd : descB c a w = true
    · rw [List.filter_cons_of_pos hd, List.flatMap_cons, lc_append, ih]
      have hoc : oc lab x (w :: ws.filter (descB c a)) =
          (if (w.output && lab w.plug == x) = true then 1 else 0) + oc lab x (ws.filter (descB c a)) := by
        unfold oc; rw [List.countP_cons]; omega
      rw [hoc, wline_eq]
      cases ho : w.output
      · simp [lc]
      · have := H w (by simp) (isDesc_iff.1 hd) ho
        simp [lc, this]
    · rw [List.filter_cons_of_neg hd]; exact ih

/-- what `process_waiters` does to the books -/
theorem pw_books {c : Cfg} (x : α) (m : M) (a : Nat) (s : Stat)
    (H : s ≠ .on → ∀ w ∈ m.waiting, a ∈ ancUp c w.plug → w.output = true → ll (wline1 a s w) = lab w.plug) :
    ∃ added, (processWaiters c m a s).active = m.active ++ added ∧
      (processWaiters c m a s).delayed = m.delayed ∧ (processWaiters c m a s).st = m.st ∧
      (∀ j ∈ added, j ∈ m.waiting ∨ j.cmd = .stat) ∧
      (∀ w ∈ (processWaiters c m a s).waiting, w ∈ m.waiting) ∧
      lc ll x (processWaiters c m a s).out + oc lab x added + oc lab x (processWaiters c m a s).waiting
        = lc ll x m.out + oc lab x m.waiting := by
  rw [processWaiters_eq']
  by_cases hs : s = .on
  · subst hs
    simp only [ne_eq, not_true_eq_false, if_false]
    obtain ⟨qs, e, hq1, _⟩ := pass2_fold c a (keepF c a .on m.waiting) (afterPass1 c m a .on)
    rw [e]
    refine ⟨movedF c a .on m.waiting ++ qs, by simp [afterPass1], rfl, rfl, ?_, ?_, ?_⟩
    · intro j hj
      rcases List.mem_append.1 hj with hj | hj
      · exact Or.inl (mem_movedF_on.1 hj).1
      · obtain ⟨w, _, _, rfl⟩ := hq1 j hj; exact Or.inr rfl
    · intro w hwk; exact (mem_keepF_on.1 hwk).1
    · have hqs : oc lab x qs = 0 := by
        unfold oc; rw [List.countP_eq_zero]
        intro q hq; obtain ⟨w, _, _, rfl⟩ := hq1 q hq; simp [query]
      have hl : linesF c a .on m.waiting = [] := by simp [linesF]
      simp only [afterPass1, hl, List.append_nil, oc_append, hqs]
      have := oc_split lab x (fun pm => descB c a pm && directB c a pm) m.waiting
      simp only [keepF, movedF, ne_eq, not_true_eq_false, if_false]
      omega
  · simp only [hs, ne_eq, not_false_eq_true, if_true]
    have hmv : movedF c a s m.waiting = [] := by simp [movedF, hs]
    refine ⟨[], by simp [afterPass1, hmv], rfl, rfl, by simp, ?_, ?_⟩
    · intro w hwk; exact ((mem_keepF_off hs).1 hwk).1
    · simp only [afterPass1, lc_append, linesF, keepF, hs, ne_eq, not_false_eq_true, if_true]
      rw [lc_linesF lab ll x a s m.waiting (H hs)]
      have := oc_split lab x (descB c a) m.waiting
      simp [oc] at this ⊢
      omega

/-- books across one `processOne`; `pend` = the not yet processed part of the active list behind `i` -/
theorem one_books {c : Cfg} (x : α) (m : M) (i : PM) (P pend : List PM) (hact : m.active = P ++ i :: pend)
    (ho : i.cmd ≠ .stat → i.output = true)
    (Hown : isFresh c i = false → isAgain c m i = false → i.output = true → ll (ownLine c m i) = lab i.plug)
    (Hw : isFresh c i = false → isAgain c m i = false → resStat c m i ≠ .on →
      ∀ w ∈ m.waiting, i.plug ∈ ancUp c w.plug → w.output = true → ll (wline1 i.plug (resStat c m i) w) = lab w.plug) :
    ∃ added, (processOne c m i).active = P ++ i :: (pend ++ added) ∧
      (∀ j ∈ added, j ∈ m.waiting ∨ j.cmd = .stat) ∧
      (∀ w ∈ (processOne c m i).waiting, w ∈ m.waiting) ∧
      TT lab ll x (pend ++ added) (processOne c m i) = TT lab ll x (i :: pend) m := by
  rw [processOne_shape c m i ho]
  by_cases hfr : isFresh c i = true
  · simp only [hfr, if_true]
    refine ⟨[], by simp [hact], by simp, fun w h => h, ?_⟩
    have hc : i.cmd ≠ .stat := by simp [isFresh] at hfr; exact hfr.1.2
    simp [TT, oc, List.countP_cons, List.countP_append, ho hc]
    omega
  · have hfr : isFresh c i = false := by simpa using hfr
    by_cases hag : isAgain c m i = true
    · simp only [hfr, hag, if_true, Bool.false_eq_true, if_false]
      refine ⟨[], by simp [hact], by simp, fun w h => h, ?_⟩
      simp [TT, oc, List.countP_cons, List.countP_append]
      omega
    · have hag : isAgain c m i = false := by simpa using hag
      simp only [hfr, hag, Bool.false_eq_true, if_false]
      have hm' : (outIf m i.output (ownLine c m i)).waiting = m.waiting := by cases i.output <;> rfl
      obtain ⟨added, e1, e2, e3, e4, e5, e6⟩ := pw_books lab ll (c := c) x (outIf m i.output (ownLine c m i)) i.plug
        (resStat c m i) (by rw [hm']; exact Hw hfr hag)
      refine ⟨added, ?_, ?_, ?_, ?_⟩
      · rw [e1]; cases i.output <;> simp [outIf, hact]
      · rw [hm'] at e4; exact e4
      · rw [hm'] at e5; exact e5
      · unfold TT
        rw [e2, oc_append]
        have hd : (outIf m i.output (ownLine c m i)).delayed = m.delayed := by cases i.output <;> rfl
        rw [hd]
        rw [hm'] at e6
        have hout : lc ll x (outIf m i.output (ownLine c m i)).out =
            lc ll x m.out + (if (i.output && lab i.plug == x) = true then 1 else 0) := by
          cases hio : i.output
          · simp [outIf]
          · have := Hown hfr hag hio
            simp [outIf, lc, List.countP_append, this]
        have hoc : oc lab x (i :: pend) = (if (i.output && lab i.plug == x) = true then 1 else 0) + oc lab x pend := by
          unfold oc; rw [List.countP_cons]; omega
        rw [hoc]
        omega

end

/-! ### the books across the whole loop, for any invariant that justifies the printed lines -/
section
variable {α : Type} [DecidableEq α] (lab : Nat → α) (ll : Line → α)

/-- what an invariant has to provide -/
structure Justifies (c : Cfg) (Inv : Nat → List PM → List PM → List PM → M → Prop) : Prop where
  act : ∀ d P rest new m, Inv d P rest new m → m.active = P ++ rest ++ new
  outp : ∀ d P i rest new m, Inv d P (i :: rest) new m → i.cmd ≠ .stat → i.output = true
  own : ∀ d P i rest new m, Inv d P (i :: rest) new m → isFresh c i = false → isAgain c m i = false →
    i.output = true → ll (ownLine c m i) = lab i.plug
  waiters : ∀ d P i rest new m, Inv d P (i :: rest) new m → isFresh c i = false → isAgain c m i = false →
    resStat c m i ≠ .on → ∀ w ∈ m.waiting, i.plug ∈ ancUp c w.plug → w.output = true →
      ll (wline1 i.plug (resStat c m i) w) = lab w.plug
  step : ∀ d P i rest new m, Inv d P (i :: rest) new m → ∃ new', Inv d (P ++ [i]) rest new' (processOne c m i)
  turn : ∀ d P new m, Inv d P [] new m →
    Inv (d + 1) [] (new ++ m.delayed) [] { m with active := new ++ m.delayed, delayed := [] }

theorem fold_books {c : Cfg} {Inv : Nat → List PM → List PM → List PM → M → Prop} (J : Justifies lab ll c Inv)
    (x : α) (d : Nat) (rest : List PM) : ∀ (P new : List PM) (m : M), Inv d P rest new m →
    ∃ new', Inv d (P ++ rest) [] new' (rest.foldl (fun m pm => processOne c m pm) m) ∧
      TT lab ll x new' (rest.foldl (fun m pm => processOne c m pm) m) = TT lab ll x (rest ++ new) m := by
  induction rest with
  | nil => intro P new m h; exact ⟨new, by simpa using h, by simp⟩
  | cons i rest ih =>
    intro P new m h
    have hact := J.act _ _ _ _ _ h
    obtain ⟨new', h'⟩ := J.step _ _ _ _ _ _ h
    have hact' := J.act _ _ _ _ _ h'
    obtain ⟨added, e1, _, _, e4⟩ := one_books lab ll (c := c) x m i P (rest ++ new) (by simp [hact])
      (J.outp _ _ _ _ _ _ h) (J.own _ _ _ _ _ _ h) (J.waiters _ _ _ _ _ _ h)
    have hn : new' = new ++ added := by
      rw [hact'] at e1
      have : P ++ (i :: (rest ++ new')) = P ++ (i :: (rest ++ (new ++ added))) := by simpa using e1
      have := List.append_cancel_left this
      simp at this
      exact this
    obtain ⟨new'', h'', e''⟩ := ih (P ++ [i]) new' _ h'
    refine ⟨new'', by simpa using h'', ?_⟩
    rw [List.foldl_cons, e'', hn, ← List.append_assoc, e4]
    simp

theorem round_books {c : Cfg} {Inv : Nat → List PM → List PM → List PM → M → Prop} (J : Justifies lab ll c Inv)
    (x : α) (d : Nat) (m : M)
    (h : Inv d [] (m.active ++ m.delayed) [] { m with active := m.active ++ m.delayed, delayed := [] }) :
    Inv (d + 1) [] ((roundM c m).active ++ (roundM c m).delayed) []
        { roundM c m with active := (roundM c m).active ++ (roundM c m).delayed, delayed := [] } ∧
      TT lab ll x (roundM c m).active (roundM c m) = TT lab ll x m.active m := by
  obtain ⟨new', h1, e1⟩ := fold_books lab ll J x d (m.active ++ m.delayed) [] [] _ h
  unfold roundM
  simp only
  generalize List.foldl (fun m pm => processOne c m pm) { m with active := m.active ++ m.delayed, delayed := [] }
    (m.active ++ m.delayed) = m' at h1 e1
  have hact := J.act _ _ _ _ _ h1
  simp only [List.nil_append, List.append_nil] at hact
  simp only [hact, List.drop_left]
  refine ⟨J.turn _ _ _ _ h1, ?_⟩
  simp only [TT, oc_append] at e1 ⊢
  simp [oc] at e1 ⊢
  omega

theorem loop_books {c : Cfg} {Inv : Nat → List PM → List PM → List PM → M → Prop} (J : Justifies lab ll c Inv)
    (x : α) : ∀ (f d : Nat) (m : M),
    Inv d [] (m.active ++ m.delayed) [] { m with active := m.active ++ m.delayed, delayed := [] } →
    TT lab ll x (runLoop c f m).active (runLoop c f m) = TT lab ll x m.active m := by
  intro f
  induction f with
  | zero => intro d m _; rfl
  | succ f ih =>
    intro d m h
    rw [runLoop_succ]
    split
    · rfl
    · have := round_books lab ll J x d m h
      rw [ih (d + 1) _ this.1, this.2]

end

/-- the lists after `process_waiters`, without the counting -/
theorem pw_shape (c : Cfg) (m : M) (a : Nat) (s : Stat) :
    ∃ added, (processWaiters c m a s).active = m.active ++ added ∧
      (processWaiters c m a s).delayed = m.delayed ∧ (processWaiters c m a s).st = m.st ∧
      (processWaiters c m a s).waiting = keepF c a s m.waiting ∧
      (∀ j ∈ added, s = .on ∧ ((j ∈ m.waiting ∧ parentOf c j.plug = some a) ∨
        (∃ w ∈ m.waiting, a ∈ ancUp c w.plug ∧ parentOf c w.plug ≠ some a ∧ j = query (childOf c w.plug a)))) := by
  rw [processWaiters_eq']
  by_cases hs : s = .on
  · subst hs
    simp only [ne_eq, not_true_eq_false, if_false]
    obtain ⟨qs, e, hq1, _⟩ := pass2_fold c a (keepF c a .on m.waiting) (afterPass1 c m a .on)
    rw [e]
    refine ⟨movedF c a .on m.waiting ++ qs, by simp [afterPass1], rfl, rfl, rfl, ?_⟩
    intro j hj
    refine ⟨trivial, ?_⟩
    rcases List.mem_append.1 hj with hj | hj
    · have := mem_movedF_on.1 hj; exact Or.inl ⟨this.1, this.2.2⟩
    · obtain ⟨w, hwk, hd, rfl⟩ := hq1 j hj
      have := mem_keepF_on.1 hwk
      exact Or.inr ⟨w, this.1, isDesc_iff.1 hd, this.2 (isDesc_iff.1 hd), rfl⟩
  · simp only [hs, ne_eq, not_false_eq_true, if_true]
    have hmv : movedF c a s m.waiting = [] := by simp [movedF, hs]
    exact ⟨[], by simp [afterPass1, hmv], rfl, rfl, rfl, by simp⟩

/-- as `pw_shape`, recording why each query was sent: its plug was not "active" after the first pass -/
theorem pw_shape' (c : Cfg) (m : M) (a : Nat) (s : Stat) :
    ∃ added, (processWaiters c m a s).active = m.active ++ added ∧
      (processWaiters c m a s).delayed = m.delayed ∧ (processWaiters c m a s).st = m.st ∧
      (processWaiters c m a s).out = m.out ++ linesF c a s m.waiting ∧
      (processWaiters c m a s).waiting = keepF c a s m.waiting ∧
      (∀ j ∈ added, s = .on ∧ ((j ∈ m.waiting ∧ parentOf c j.plug = some a) ∨
        (∃ w ∈ m.waiting, a ∈ ancUp c w.plug ∧ parentOf c w.plug ≠ some a ∧ j = query (childOf c w.plug a) ∧
          plugActive { m with active := m.active ++ movedF c a .on m.waiting } (childOf c w.plug a) w.cmd = false))) := by
  rw [processWaiters_eq']
  by_cases hs : s = .on
  · subst hs
    simp only [ne_eq, not_true_eq_false, if_false]
    obtain ⟨qs, e, hq1, _⟩ := pass2_fold' c a (keepF c a .on m.waiting) (afterPass1 c m a .on)
    rw [e]
    refine ⟨movedF c a .on m.waiting ++ qs, by simp [afterPass1], rfl, rfl, by simp [afterPass1, linesF], rfl, ?_⟩
    intro j hj
    refine ⟨trivial, ?_⟩
    rcases List.mem_append.1 hj with hj | hj
    · have := mem_movedF_on.1 hj; exact Or.inl ⟨this.1, this.2.2⟩
    · obtain ⟨w, hwk, hd, rfl, hpa⟩ := hq1 j hj
      have := mem_keepF_on.1 hwk
      refine Or.inr ⟨w, this.1, isDesc_iff.1 hd, this.2 (isDesc_iff.1 hd), rfl, ?_⟩
      unfold plugActive at hpa ⊢
      simpa [afterPass1] using hpa
  · simp only [hs, ne_eq, not_false_eq_true, if_true]
    have hmv : movedF c a s m.waiting = [] := by simp [movedF, hs]
    exact ⟨[], by simp [afterPass1, hmv], rfl, rfl, rfl, rfl, by simp⟩

section
variable {α : Type} [DecidableEq α] (lab : Nat → α) (ll : Line → α)

/-- the invariant survives the whole loop -/
theorem loop_inv {c : Cfg} {Inv : Nat → List PM → List PM → List PM → M → Prop} (J : Justifies lab ll c Inv) :
    ∀ (f d : Nat) (m : M),
    Inv d [] (m.active ++ m.delayed) [] { m with active := m.active ++ m.delayed, delayed := [] } →
    ∃ d', Inv d' [] ((runLoop c f m).active ++ (runLoop c f m).delayed) []
      { runLoop c f m with active := (runLoop c f m).active ++ (runLoop c f m).delayed, delayed := [] } := by
  intro f
  induction f with
  | zero => intro d m h; exact ⟨d, h⟩
  | succ f ih =>
    intro d m h
    rw [runLoop_succ]
    split
    · exact ⟨d, h⟩
    · exact ih (d + 1) _ (round_books lab ll J (ll (.ok 0)) d m h).1

end

end Pm.Redfish
