import Pm.Dev2Login
import Pm.Dev2Clip
import Pm.Dev2Walk
/-! descriptor / child-process bookkeeping of the connection layer (`device.c:_connect/_disconnect/_reconnect/
    _handle_ready_device`, `device_tcp.c`, `device_pipe.c`) on the mirror `Pm/Dev2.lean`: helper lemmas for
    `Props/C20` (no resource leaks) and `Props/C07` (no device behaviour can crash the daemon). -/
namespace Pm.Dev2.Fd

/-! ### the four fields the bookkeeping is about, and what script statements may touch -/

/-- `d'` has the same descriptor, connection state, child pid and transport as `d` -/
structure SameFd (d d' : Dev) : Prop where
  fd : d'.fd = d.fd
  conn : d'.conn = d.conn
  cpid : d'.cpid = d.cpid
  isPipe : d'.isPipe = d.isPipe

theorem SameFd.rfl' (d : Dev) : SameFd d d := ⟨rfl, rfl, rfl, rfl⟩
theorem SameFd.trans {a b c : Dev} (h1 : SameFd a b) (h2 : SameFd b c) : SameFd a c :=
  ⟨h2.fd.trans h1.fd, h2.conn.trans h1.conn, h2.cpid.trans h1.cpid, h2.isPipe.trans h1.isPipe⟩

theorem stmtExpect_sameFd (d a o pat) : SameFd d (stmtExpect d a o pat).dev := by
  unfold stmtExpect; constructor <;> grind
theorem stmtSend_sameFd (d a o e fmt) : SameFd d (stmtSend d a o e fmt).dev := by
  unfold stmtSend; constructor <;> grind
theorem stmtDelay_sameFd (d a o e now us) : SameFd d (stmtDelay d a o e now us).dev := by
  unfold stmtDelay; constructor <;> grind
theorem stmtSetplugstate_sameFd (d a o e l p s i) : SameFd d (stmtSetplugstate d a o e l p s i).dev := by
  unfold stmtSetplugstate; constructor <;> grind [setArgs]
theorem stmtSetresult_sameFd (d a o p s i) : SameFd d (stmtSetresult d a o p s i).dev := by
  unfold stmtSetresult; constructor <;> grind [setArgs]
theorem stmtForeach_sameFd (d a o e b n) : SameFd d (stmtForeach d a o e b n).dev := by
  unfold stmtForeach; constructor <;> grind
theorem stmtIf_sameFd (d a o e b n) : SameFd d (stmtIf d a o e b n).dev := by
  unfold stmtIf; constructor <;> grind

theorem processStmt_sameFd (d : Dev) (a : Action) (o : Oracle) (now : Time) : SameFd d (processStmt d a o now).dev := by
  unfold processStmt
  dsimp only
  split
  · exact SameFd.rfl' d
  all_goals first
    | exact stmtExpect_sameFd _ _ _ _
    | exact stmtSend_sameFd _ _ _ _ _
    | exact stmtDelay_sameFd _ _ _ _ _ _
    | exact stmtSetplugstate_sameFd _ _ _ _ _ _ _ _
    | exact stmtSetresult_sameFd _ _ _ _ _ _
    | exact stmtForeach_sameFd _ _ _ _ _ _
    | exact stmtIf_sameFd _ _ _ _ _ _

/-- no script statement touches the descriptor, the connection state, the child pid or the transport kind -/
theorem innerLoop_sameFd (now : Time) (fuel : Nat) (d : Dev) (a : Action) (o : Oracle) (acc : List Out) :
    SameFd d (innerLoop now fuel d a o acc).dev := by
  induction fuel generalizing d a o acc with
  | zero => simpa [innerLoop] using processStmt_sameFd d a o now
  | succ n ih =>
    unfold innerLoop; dsimp only
    have hp := processStmt_sameFd d a o now
    split
    · exact hp.trans (ih _ _ _ _)
    · simpa using hp

/-! ### lifting an invariant of the connection layer through `_process_action` and `dev_post_poll`

An invariant `I` of the pass state that (1) only looks at the four fields above and at the system-call log,
(2) is kept by `_reconnect`, (3) is kept by `_handle_ready_device` when a descriptor is held, is kept by everything
else: by the error branch, the timeout branch, the statement runner (with the rest of the loop as a parameter),
the whole loop for every fuel, and the whole of `dev_post_poll`.  No "not aborted" hypothesis is needed. -/

structure Stable (I : CS → Prop) : Prop where
  soft : ∀ c c' : CS, SameFd c.dev c'.dev → c'.sys = c.sys → I c → I c'
  reconnect : ∀ (c : CS) (tmo : Option Time), I c → I (reconnectDev c tmo).1
  ready : ∀ c : CS, c.dev.fd.isSome = true → I c → I (handleReady c).1

theorem failAll_stable {I : CS → Prop} (hI : Stable I) (rest : List Action) (c : CS) (a : Action) (o : Oracle)
    (out : List Out) (tmo : Option Time) (h : I c) : I (failAll rest c a o out tmo).1 := by
  unfold failAll; dsimp only
  split
  · exact hI.reconnect _ _ (hI.soft c _ ⟨rfl, rfl, rfl, rfl⟩ rfl h)
  · exact hI.soft c _ ⟨rfl, rfl, rfl, rfl⟩ rfl h

theorem onTimeout_stable {I : CS → Prop} (hI : Stable I) (rest : List Action) (c : CS) (a : Action) (o : Oracle)
    (out : List Out) (tmo : Option Time) (h : I c) : I (onTimeout rest c a o out tmo).1 := by
  unfold onTimeout; dsimp only
  generalize (if a.telemetry = true then
      (if (c.dev.conn != 2) = true then [Out.telemetry a.clientId (str "connect(dev): timeout")]
       else teleMem a.clientId "recv(dev): '" c.dev.fromBuf) else []) = tele
  cases hh : hasAbort tele
  · simp only [Bool.false_eq_true, ↓reduceIte]
    exact failAll_stable hI _ _ _ _ _ _ h
  · simp only [↓reduceIte]
    exact hI.soft c _ ⟨rfl, rfl, rfl, rfl⟩ rfl h

theorem onRun_stable {I : CS → Prop} (hI : Stable I) (k : CS → Oracle → List Out → Option Time → PA)
    (rest : List Action) (c : CS) (a : Action) (o : Oracle) (out : List Out) (tmo : Option Time) (left : Time)
    (hk : ∀ c' o' out' tmo', I c' → I (k c' o' out' tmo').1) (h : I c) :
    I (onRun k rest c a o out tmo left).1 := by
  unfold onRun; dsimp only
  have hS := innerLoop_sameFd c.env.now (loopBound a) { c.dev with wake := none } a o []
  generalize innerLoop c.env.now (loopBound a) { c.dev with wake := none } a o [] = r at *
  have hS' : SameFd c.dev r.dev := ⟨hS.fd, hS.conn, hS.cpid, hS.isPipe⟩
  split
  · exact hI.soft c _ ⟨hS'.fd, hS'.conn, hS'.cpid, hS'.isPipe⟩ rfl h
  · split
    · exact hI.soft c _ ⟨hS'.fd, hS'.conn, hS'.cpid, hS'.isPipe⟩ rfl h
    · split
      · split
        · exact hk _ _ _ _ (hI.soft c _ ⟨hS'.fd, hS'.conn, hS'.cpid, hS'.isPipe⟩ rfl h)
        · exact hk _ _ _ _ (hI.soft c _ ⟨hS'.fd, hS'.conn, hS'.cpid, hS'.isPipe⟩ rfl h)
      · exact failAll_stable hI _ _ _ _ _ _ (hI.soft c _ ⟨hS'.fd, hS'.conn, hS'.cpid, hS'.isPipe⟩ rfl h)

theorem processActionF_stable {I : CS → Prop} (hI : Stable I) (fuel : Nat) (c : CS) (o : Oracle) (out : List Out)
    (tmo : Option Time) (h : I c) : I (processActionF fuel c o out tmo).1 := by
  induction fuel generalizing c o out tmo with
  | zero => exact hI.soft c _ ⟨rfl, rfl, rfl, rfl⟩ rfl h
  | succ n ih =>
    unfold processActionF processActionBody
    split
    · exact h
    · split
      · exact h
      · dsimp only
        split
        · exact onTimeout_stable hI _ _ _ _ _ _ h
        · split
          · exact hI.soft c _ ⟨rfl, rfl, rfl, rfl⟩ rfl h
          · exact onRun_stable hI _ _ _ _ _ _ _ _ (fun c' o' out' tmo' => ih c' o' out' tmo') h

theorem processAction_stable {I : CS → Prop} (hI : Stable I) (c : CS) (o : Oracle) (out : List Out)
    (tmo : Option Time) (h : I c) : I (processAction c o out tmo).1 :=
  processActionF_stable hI _ c o out tmo h

/-! `dev_post_poll` cut into its four steps -/

/-- step 1: the descriptor's poll bits are looked at only if a descriptor is held -/
def ppReady (d : Dev) (env : Env) : CS × Bool :=
  let c : CS := { dev := d, env := env, sys := [] }
  let flags := if c.dev.fd.isSome then env.revents else 0
  if flags != 0 then handleReady { c with env := { env with revents := flags } } else (c, false)

/-- step 2: reconnect after an i/o error or when not connected -/
def ppReconnect (c : CS) (ioerr : Bool) : CS × Option Time :=
  if ioerr || c.dev.conn == 0 then reconnectDev c none else (c, none)

/-- step 3: `_enqueue_ping` -/
def ppPing (env : Env) (c : CS) (tmo : Option Time) : CS × Option Time :=
  if c.dev.conn == 2 && (c.dev.scripts 6).isSome && c.dev.pingPeriod > 0 then
    match c.dev.lastPing with
    | some t =>
      if env.now ≥ t + c.dev.pingPeriod then
        ({ c with dev := { c.dev with acts := c.dev.acts ++ [{ loginAction c.dev with com := 6, exec := [{ block := (c.dev.scripts 6).getD [], pos := 0, plugs := none, plugItr := none, plugCopy := none, processing := false }] }], lastPing := some env.now } }, tmo)
      else (c, upd tmo (t + c.dev.pingPeriod - env.now))
    | none =>
      ({ c with dev := { c.dev with acts := c.dev.acts ++ [{ loginAction c.dev with com := 6, exec := [{ block := (c.dev.scripts 6).getD [], pos := 0, plugs := none, plugItr := none, plugCopy := none, processing := false }] }], lastPing := some env.now } }, tmo)
  else (c, tmo)

theorem postPoll_eq (d : Dev) (env : Env) (o : Oracle) :
    postPoll d env o =
      if (ppReady d env).1.aborted then ((ppReady d env).1, o, [], none) else
      processAction (ppPing env (ppReconnect (ppReady d env).1 (ppReady d env).2).1 (ppReconnect (ppReady d env).1 (ppReady d env).2).2).1 o []
        (ppPing env (ppReconnect (ppReady d env).1 (ppReady d env).2).1 (ppReconnect (ppReady d env).1 (ppReady d env).2).2).2 := rfl

theorem ppReady_stable {I : CS → Prop} (hI : Stable I) (d : Dev) (env : Env)
    (h : I { dev := d, env := env, sys := [] }) : I (ppReady d env).1 := by
  unfold ppReady; dsimp only
  cases hd : d.fd.isSome
  · simpa using h
  · simp only [↓reduceIte]
    split
    · exact hI.ready _ hd (hI.soft _ _ ⟨rfl, rfl, rfl, rfl⟩ rfl h)
    · exact h

theorem ppReconnect_stable {I : CS → Prop} (hI : Stable I) (c : CS) (ioerr : Bool) (h : I c) :
    I (ppReconnect c ioerr).1 := by
  unfold ppReconnect; split
  · exact hI.reconnect _ _ h
  · exact h

theorem ppPing_sameFd (env : Env) (c : CS) (tmo : Option Time) :
    SameFd c.dev (ppPing env c tmo).1.dev ∧ (ppPing env c tmo).1.sys = c.sys := by
  unfold ppPing
  split
  · split
    · split
      · exact ⟨⟨rfl, rfl, rfl, rfl⟩, rfl⟩
      · exact ⟨⟨rfl, rfl, rfl, rfl⟩, rfl⟩
    · exact ⟨⟨rfl, rfl, rfl, rfl⟩, rfl⟩
  · exact ⟨⟨rfl, rfl, rfl, rfl⟩, rfl⟩

theorem ppPing_stable {I : CS → Prop} (hI : Stable I) (env : Env) (c : CS) (tmo : Option Time) (h : I c) :
    I (ppPing env c tmo).1 :=
  hI.soft c _ (ppPing_sameFd env c tmo).1 (ppPing_sameFd env c tmo).2 h

/-- an invariant of the connection layer that holds when `dev_post_poll` begins holds when it ends -/
theorem postPoll_stable {I : CS → Prop} (hI : Stable I) (d : Dev) (env : Env) (o : Oracle)
    (h : I { dev := d, env := env, sys := [] }) : I (postPoll d env o).1 := by
  rw [postPoll_eq]
  have h1 := ppReady_stable hI d env h
  split
  · exact h1
  · exact processAction_stable hI _ _ _ _ (ppPing_stable hI _ _ _ (ppReconnect_stable hI _ _ h1))

/-! ### the invariants -/

/-- a descriptor is held exactly when the connection state is not `DEV_NOT_CONNECTED` -/
def FdInv (d : Dev) : Prop := d.fd = none ↔ d.conn = 0

/-- a child pid is recorded exactly for a coprocess device that is connected; a coprocess device is never
    `DEV_CONNECTING` (the third conjunct is what makes the first two inductive, see
    `C20_child_inv_two_conjuncts_counterexample` in `Props/C20`) -/
def ChildInv (d : Dev) : Prop :=
  (d.cpid.isSome = true → d.isPipe = true ∧ d.conn ≠ 0) ∧
  (d.isPipe = true → d.conn ≠ 0 → d.cpid.isSome = true) ∧
  (d.isPipe = true → d.conn ≠ 1)

/-- the connection state is one of the three enum values -/
def ConnRange (d : Dev) : Prop := d.conn ≤ 2

/-! ### reading the system-call log -/

/-- the four `assert`s of the C code on descriptor / connection state (`tcp_connect`, `pipe_connect`,
    `_handle_ready_device`); the other `Sys.abort` strings are the harness running out of scripted kernel answers -/
def isCAssertStr (s : String) : Bool :=
  s == "assert fd == NO_FD" || s == "assert connect_state == NOT_CONNECTED" ||
  s == "assert connect_state != NOT_CONNECTED" || s == "assert fd != NO_FD"

def isCAssert : Sys → Bool
  | .abort s => isCAssertStr s
  | _ => false

/-- the fifth assert of the connection layer: `_handle_ready_device: assert(dev->finish_connect != NULL)` — the method exists
    for tcp devices only -/
def pAssertStr : String := "assert finish_connect != NULL"
def isPAssert : Sys → Bool
  | .abort s => s == pAssertStr
  | _ => false

/-- log entries that neither open nor close a descriptor, neither create nor signal nor reap a child, and are not
    a C assert -/
def neutral : Sys → Bool
  | .connect _ | .soerror _ | .read _ | .write _ _ => true
  | .abort s => !isCAssertStr s && !(s == pAssertStr)
  | _ => false

/-- descriptor audit: the list of open descriptors after one system call; `none` = a `close` of a descriptor that
    is not open (double close / close of a stale number) -/
def fdStep (held : List Nat) : Sys → Option (List Nat)
  | .socket fd => some (fd :: held)
  | .socketpair a b => some (a :: b :: held)
  | .close fd => if fd ∈ held then some (held.erase fd) else none
  | _ => some held

def fdRun (held : List Nat) : List Sys → Option (List Nat)
  | [] => some held
  | s :: r => (fdStep held s).bind fun h => fdRun h r

/-- child audit: (live children, children signalled and not yet waited for) after one system call; `none` = a
    `kill` of a pid that is not a live child of ours, or a `waitpid` for a pid that was not signalled -/
def kidStep (k : List Nat × List Nat) : Sys → Option (List Nat × List Nat)
  | .fork pid => some (pid :: k.1, k.2)
  | .kill pid => if pid ∈ k.1 then some (k.1.erase pid, pid :: k.2) else none
  | .waitpid pid => if pid ∈ k.2 then some (k.1, k.2.erase pid) else none
  | _ => some k

def kidRun (k : List Nat × List Nat) : List Sys → Option (List Nat × List Nat)
  | [] => some k
  | s :: r => (kidStep k s).bind fun k' => kidRun k' r

def opened : List Sys → List Nat
  | [] => []
  | .socket fd :: r => fd :: opened r
  | .socketpair a b :: r => a :: b :: opened r
  | _ :: r => opened r
def closed : List Sys → List Nat
  | [] => []
  | .close fd :: r => fd :: closed r
  | _ :: r => closed r
def forked : List Sys → List Nat
  | [] => []
  | .fork p :: r => p :: forked r
  | _ :: r => forked r
def killed : List Sys → List Nat
  | [] => []
  | .kill p :: r => p :: killed r
  | _ :: r => killed r
def waited : List Sys → List Nat
  | [] => []
  | .waitpid p :: r => p :: waited r
  | _ :: r => waited r

theorem fdRun_append (h : List Nat) (a b : List Sys) : fdRun h (a ++ b) = (fdRun h a).bind fun h' => fdRun h' b := by
  induction a generalizing h with
  | nil => simp [fdRun]
  | cons s r ih =>
    simp only [List.cons_append, fdRun]
    cases fdStep h s <;> simp [ih]

theorem kidRun_append (k : List Nat × List Nat) (a b : List Sys) :
    kidRun k (a ++ b) = (kidRun k a).bind fun k' => kidRun k' b := by
  induction a generalizing k with
  | nil => simp [kidRun]
  | cons s r ih =>
    simp only [List.cons_append, kidRun]
    cases kidStep k s <;> simp [ih]

theorem fdStep_neutral (h : List Nat) (s : Sys) (hs : neutral s = true) : fdStep h s = some h := by
  cases s <;> simp_all [neutral, fdStep]
theorem kidStep_neutral (k : List Nat × List Nat) (s : Sys) (hs : neutral s = true) : kidStep k s = some k := by
  cases s <;> simp_all [neutral, kidStep]
theorem isCAssert_neutral (s : Sys) (hs : neutral s = true) : isCAssert s = false := by
  cases s <;> simp_all [neutral, isCAssert]
theorem isPAssert_neutral (s : Sys) (hs : neutral s = true) : isPAssert s = false := by
  cases s <;> simp_all [neutral, isPAssert]

theorem fdRun_neutral (h : List Nat) (l : List Sys) (hl : l.all neutral = true) : fdRun h l = some h := by
  induction l with
  | nil => rfl
  | cons s r ih => simp only [List.all_cons, Bool.and_eq_true] at hl; simp [fdRun, fdStep_neutral h s hl.1, ih hl.2]
theorem kidRun_neutral (k : List Nat × List Nat) (l : List Sys) (hl : l.all neutral = true) : kidRun k l = some k := by
  induction l with
  | nil => rfl
  | cons s r ih => simp only [List.all_cons, Bool.and_eq_true] at hl; simp [kidRun, kidStep_neutral k s hl.1, ih hl.2]
theorem noAssert_neutral (l : List Sys) (hl : l.all neutral = true) : l.any isCAssert = false := by
  induction l with
  | nil => rfl
  | cons s r ih => simp only [List.all_cons, Bool.and_eq_true] at hl; simp [isCAssert_neutral s hl.1, ih hl.2]
theorem noPAssert_neutral (l : List Sys) (hl : l.all neutral = true) : l.any isPAssert = false := by
  induction l with
  | nil => rfl
  | cons s r ih => simp only [List.all_cons, Bool.and_eq_true] at hl; simp [isPAssert_neutral s hl.1, ih hl.2]

/-! ### the moves of the connection layer on (descriptor, connection state, child pid)

Every function of the connection layer, seen from outside, does one of these eight things.  The invariants are
checked against this list once; the functions are shown to perform only such moves (`*_step` below). -/

structure Lk where
  fd : Option Nat
  conn : Nat
  cpid : Option Nat

def lk (d : Dev) : Lk := ⟨d.fd, d.conn, d.cpid⟩

def closeOf : Option Nat → List Sys
  | some fd => [Sys.close fd]
  | none => []
def reapOf : Bool → Option Nat → List Sys
  | true, some pid => [Sys.kill pid, Sys.waitpid pid]
  | _, _ => []

/-- `p` = coprocess transport -/
inductive Tr (p : Bool) (l : Lk) (δ : List Sys) (l' : Lk) : Prop
  /-- nothing about descriptors or children happens -/
  | quiet : δ.all neutral = true → l' = l → Tr p l δ l'
  /-- one of the four C asserts fires: only from a state in which `fd == NO_FD` and
      `connect_state == DEV_NOT_CONNECTED` disagree -/
  | cassert (s : String) : isCAssertStr s = true → ¬(l.fd = none ↔ l.conn = 0) → δ = [Sys.abort s] → l' = l → Tr p l δ l'
  /-- `tcp_connect`: socket obtained, connected or connecting -/
  | tcpOpen (x : Nat) (ν : List Sys) (k : Nat) : p = false → ν.all neutral = true → (k = 1 ∨ k = 2) →
      l.fd = none → l.conn = 0 → δ = Sys.socket x :: ν → l' = ⟨some x, k, l.cpid⟩ → Tr p l δ l'
  /-- `tcp_connect`: socket obtained, connect failed, socket closed again -/
  | tcpOpenFail (x : Nat) (ν : List Sys) : p = false → ν.all neutral = true →
      l.fd = none → l.conn = 0 → δ = Sys.socket x :: ν ++ [Sys.close x] → l' = l → Tr p l δ l'
  /-- `pipe_connect` -/
  | pipeOpen (a pid : Nat) : p = true → l.fd = none → l.conn = 0 →
      δ = [Sys.socketpair a (a + 1), Sys.fork pid, Sys.close (a + 1)] → l' = ⟨some a, 2, some pid⟩ → Tr p l δ l'
  /-- `tcp_finish_connect` succeeds -/
  | finished (ν : List Sys) : ν.all neutral = true → l.fd.isSome = true → l.conn = 1 → δ = ν →
      l' = ⟨l.fd, 2, l.cpid⟩ → Tr p l δ l'
  /-- `tcp_finish_connect` fails: the socket is closed -/
  | finishFail (x : Nat) (ν : List Sys) : ν.all neutral = true → l.fd = some x → l.conn = 1 →
      δ = ν ++ [Sys.close x] → l' = ⟨none, 0, l.cpid⟩ → Tr p l δ l'
  /-- `_disconnect` -/
  | disconnect : δ = closeOf l.fd ++ reapOf p l.cpid → l' = ⟨none, 0, if p then none else l.cpid⟩ → Tr p l δ l'
  /-- `assert(dev->finish_connect != NULL)` fires: only on a coprocess device that is CONNECTING (which `ChildInv` excludes) -/
  | passert : p = true → l.conn = 1 → δ = [Sys.abort pAssertStr] → l' = l → Tr p l δ l'

def FdInvL (l : Lk) : Prop := l.fd = none ↔ l.conn = 0
def ChildInvL (p : Bool) (l : Lk) : Prop :=
  (l.cpid.isSome = true → p = true ∧ l.conn ≠ 0) ∧ (p = true → l.conn ≠ 0 → l.cpid.isSome = true) ∧ (p = true → l.conn ≠ 1)

theorem FdInv_iff (d : Dev) : FdInv d ↔ FdInvL (lk d) := Iff.rfl
theorem ChildInv_iff (d : Dev) : ChildInv d ↔ ChildInvL d.isPipe (lk d) := Iff.rfl

theorem Tr.fdInv {p l δ l'} (h : Tr p l δ l') (hi : FdInvL l) : FdInvL l' := by
  unfold FdInvL at *
  cases h <;> simp_all <;> omega

theorem Tr.connRange {p l δ l'} (h : Tr p l δ l') (hi : l.conn ≤ 2) : l'.conn ≤ 2 := by
  cases h <;> simp_all <;> omega

theorem Tr.childInv {p l δ l'} (h : Tr p l δ l') (hi : ChildInvL p l) : ChildInvL p l' := by
  obtain ⟨a, b, c⟩ := hi
  cases h with
  | quiet _ h2 => subst h2; exact ⟨a, b, c⟩
  | cassert s _ _ _ h2 => subst h2; exact ⟨a, b, c⟩
  | tcpOpen x ν k hp _ hk _ hc _ h2 =>
    subst h2 hp
    refine ⟨?_, ?_, ?_⟩ <;> simp_all
  | tcpOpenFail x ν _ _ _ _ _ h2 => subst h2; exact ⟨a, b, c⟩
  | pipeOpen x pid hp _ _ _ h2 => subst h2 hp; refine ⟨?_, ?_, ?_⟩ <;> simp
  | finished ν _ _ hc _ h2 =>
    subst h2
    refine ⟨?_, ?_, ?_⟩
    · intro h; exact ⟨(a h).1, by simp⟩
    · intro hp _; exact b hp (by simp [hc])
    · simp
  | finishFail x ν _ _ hc _ h2 =>
    subst h2
    refine ⟨?_, ?_, ?_⟩
    · intro h; exact absurd hc (c (a h).1)
    · simp
    · simp
  | disconnect _ h2 =>
    subst h2
    refine ⟨?_, ?_, ?_⟩
    · cases p
      · intro h; simpa using (a (by simpa using h)).1
      · simp
    · simp
    · simp
  | passert _ _ _ h2 => subst h2; exact ⟨a, b, c⟩

theorem Tr.noAssert {p l δ l'} (h : Tr p l δ l') (hi : FdInvL l) : δ.any isCAssert = false := by
  unfold FdInvL at *
  cases h with
  | quiet h1 => exact noAssert_neutral _ h1
  | cassert s h1 h2 => exact absurd hi h2
  | tcpOpen x ν k _ h1 _ _ _ h2 => subst h2; simp [isCAssert, noAssert_neutral _ h1]
  | tcpOpenFail x ν _ h1 _ _ h2 => subst h2; simp [isCAssert, noAssert_neutral _ h1]
  | pipeOpen a pid _ _ _ h2 => subst h2; simp [isCAssert]
  | finished ν h1 _ _ h2 => subst h2; exact noAssert_neutral _ h1
  | finishFail x ν h1 _ _ h2 => subst h2; simp [isCAssert, noAssert_neutral _ h1]
  | disconnect h2 =>
    subst h2
    cases l.fd <;> cases p <;> cases l.cpid <;> simp [closeOf, reapOf, isCAssert]
  | passert _ _ h2 _ => subst h2; decide

/-- the fifth assert is reached only from a state in which a coprocess device is CONNECTING -/
theorem Tr.noPAssert {p l δ l'} (h : Tr p l δ l') (hi : ChildInvL p l) : δ.any isPAssert = false := by
  cases h with
  | quiet h1 => exact noPAssert_neutral _ h1
  | cassert s h1 _ h3 => subst h3; simp only [List.any_cons, List.any_nil, Bool.or_false, isPAssert]; revert h1; unfold isCAssertStr pAssertStr; intro h1; simp only [Bool.or_eq_true, beq_iff_eq] at h1; rcases h1 with ((h1 | h1) | h1) | h1 <;> subst h1 <;> decide
  | tcpOpen x ν k _ h1 _ _ _ h2 => subst h2; simp [isPAssert, noPAssert_neutral _ h1]
  | tcpOpenFail x ν _ h1 _ _ h2 => subst h2; simp [isPAssert, noPAssert_neutral _ h1]
  | pipeOpen a pid _ _ _ h2 => subst h2; simp [isPAssert]
  | finished ν h1 _ _ h2 => subst h2; exact noPAssert_neutral _ h1
  | finishFail x ν h1 _ _ h2 => subst h2; simp [isPAssert, noPAssert_neutral _ h1]
  | disconnect h2 =>
    subst h2
    cases l.fd <;> cases p <;> cases l.cpid <;> simp [closeOf, reapOf, isPAssert]
  | passert hp h1 _ _ => exact absurd h1 (hi.2.2 hp)

theorem Tr.fd_ledger {p l δ l'} (h : Tr p l δ l') : fdRun l.fd.toList δ = some l'.fd.toList := by
  cases h with
  | quiet h1 h2 => subst h2; exact fdRun_neutral _ _ h1
  | cassert s h1 h2 h3 h4 => subst h3 h4; simp [fdRun, fdStep]
  | tcpOpen x ν k _ h1 _ hf _ h2 h3 => subst h2 h3; simp [fdRun, fdStep, hf, fdRun_neutral _ _ h1]
  | tcpOpenFail x ν _ h1 hf _ h2 h3 =>
    subst h2 h3; simp [fdRun, fdStep, hf, fdRun_append, fdRun_neutral _ _ h1]
  | pipeOpen a pid _ hf _ h2 h3 => subst h2 h3; simp [fdRun, fdStep, hf]
  | finished ν h1 _ _ h2 h3 => subst h2 h3; exact fdRun_neutral _ _ h1
  | finishFail x ν h1 hf _ h2 h3 => subst h2 h3; simp [fdRun, fdStep, hf, fdRun_append, fdRun_neutral _ _ h1]
  | disconnect h2 h3 =>
    subst h2 h3
    cases l.fd <;> cases p <;> cases l.cpid <;> simp [closeOf, reapOf, fdRun, fdStep]
  | passert _ _ h2 h3 => subst h2 h3; simp [fdRun, fdStep]

theorem Tr.kid_ledger {p l δ l'} (h : Tr p l δ l') (hi : ChildInvL p l) :
    kidRun (l.cpid.toList, []) δ = some (l'.cpid.toList, []) := by
  unfold ChildInvL at hi
  cases h with
  | quiet h1 h2 => subst h2; exact kidRun_neutral _ _ h1
  | cassert s h1 h2 h3 h4 => subst h3 h4; simp [kidRun, kidStep]
  | tcpOpen x ν k _ h1 _ hf _ h2 h3 => subst h2 h3; simp [kidRun, kidStep, kidRun_neutral _ _ h1]
  | tcpOpenFail x ν _ h1 hf _ h2 h3 =>
    subst h2 h3; simp [kidRun, kidStep, kidRun_append, kidRun_neutral _ _ h1]
  | pipeOpen a pid hp hf hc h2 h3 =>
    subst h2 h3
    have : l.cpid = none := by
      cases hcp : l.cpid
      · rfl
      · simp [hcp, hc] at hi
    simp [kidRun, kidStep, this]
  | finished ν h1 _ _ h2 h3 => subst h2 h3; exact kidRun_neutral _ _ h1
  | finishFail x ν h1 hf _ h2 h3 => subst h2 h3; simp [kidRun, kidStep, kidRun_append, kidRun_neutral _ _ h1]
  | disconnect h2 h3 =>
    subst h2 h3
    cases hfd : l.fd <;> cases p <;> cases hcp : l.cpid <;> simp_all [closeOf, reapOf, kidRun, kidStep]
  | passert _ _ h2 h3 => subst h2 h3; simp [kidRun, kidStep]

/-! ### the functions of the connection layer perform only such moves -/

/-- one move between two pass states: the log grows by `δ`, the transport kind stays -/
def Step (c c' : CS) : Prop :=
  c'.dev.isPipe = c.dev.isPipe ∧ ∃ δ, c'.sys = c.sys ++ δ ∧ Tr c.dev.isPipe (lk c.dev) δ (lk c'.dev)

inductive Moves : CS → CS → Prop
  | refl (c : CS) : Moves c c
  | tail {a b c : CS} : Moves a b → Step b c → Moves a c

theorem Moves.single {a b : CS} (h : Step a b) : Moves a b := .tail (.refl a) h
theorem Moves.trans {a b c : CS} (h1 : Moves a b) (h2 : Moves b c) : Moves a c := by
  induction h2 with
  | refl => exact h1
  | tail _ hs ih => exact .tail ih hs

/-- a change that leaves descriptor, connection state, child pid, transport kind and log alone -/
theorem Step.soft {c c' : CS} (h : SameFd c.dev c'.dev) (hs : c'.sys = c.sys) : Step c c' :=
  ⟨h.isPipe, [], by simp [hs], .quiet rfl (by simp [lk, h.fd, h.conn, h.cpid])⟩

/-- `tcp_finish_connect_one`: one `getsockopt(SO_ERROR)`, the state becomes CONNECTED on success -/
theorem finishConnectOne_shape (c : CS) :
    ∃ ν, ν.all neutral = true ∧ (finishConnectOne c).1.sys = c.sys ++ ν ∧
      (finishConnectOne c).1.dev.fd = c.dev.fd ∧ (finishConnectOne c).1.dev.cpid = c.dev.cpid ∧
      (finishConnectOne c).1.dev.isPipe = c.dev.isPipe ∧ (finishConnectOne c).1.dev.cur = c.dev.cur ∧
      ((finishConnectOne c).2 = true → (finishConnectOne c).1.dev.conn = 2) ∧
      ((finishConnectOne c).2 = false → (finishConnectOne c).1.dev.conn = c.dev.conn) := by
  unfold finishConnectOne
  split
  · rename_i e r _
    dsimp only
    split
    · exact ⟨[Sys.soerror e], rfl, rfl, rfl, rfl, rfl, rfl, fun _ => rfl, fun h => by simp at h⟩
    · exact ⟨[Sys.soerror e], rfl, rfl, rfl, rfl, rfl, rfl, fun h => by simp at h, fun _ => rfl⟩
  · exact ⟨[Sys.abort "no SO_ERROR answer"], by decide, rfl, rfl, rfl, rfl, rfl, fun h => by simp at h, fun _ => rfl⟩

/-- `tcp_connect_one`: `socket`, `connect`, and on failure `close` of that very socket -/
theorem connectOne_shape (c : CS) :
    (connectOne c).1.dev.cpid = c.dev.cpid ∧ (connectOne c).1.dev.isPipe = c.dev.isPipe ∧
    (connectOne c).1.dev.cur = c.dev.cur ∧
    ∃ x ν, ν.all neutral = true ∧
      (((connectOne c).2 = true ∧ (connectOne c).1.sys = c.sys ++ Sys.socket x :: ν ∧ (connectOne c).1.dev.fd = some x ∧
          ((connectOne c).1.dev.conn = 2 ∨ (connectOne c).1.dev.conn = c.dev.conn)) ∨
       ((connectOne c).2 = false ∧ (connectOne c).1.sys = c.sys ++ (Sys.socket x :: ν ++ [Sys.close x]) ∧
          (connectOne c).1.dev.fd = none ∧ (connectOne c).1.dev.conn = c.dev.conn) ∨
       ((connectOne c).2 = false ∧ (connectOne c).1.sys = c.sys ++ ν ∧ (connectOne c).1.dev.fd = c.dev.fd ∧
          (connectOne c).1.dev.conn = c.dev.conn)) := by
  unfold connectOne
  split
  · rename_i fd fr ans ar _ _
    dsimp only
    split
    · obtain ⟨ν, hν, hs, hfd, hcp, hpi, hcu, hok, hno⟩ := finishConnectOne_shape
        { c with env := { c.env with sockets := fr, connects := ar }, sys := c.sys ++ [.socket fd, .connect ans],
                 dev := { c.dev with fd := some fd } }
      generalize finishConnectOne _ = r at *
      obtain ⟨c2, ok⟩ := r
      simp only at hs hfd hcp hpi hcu hok hno
      cases ok
      · refine ⟨hcp, hpi, hcu, fd, Sys.connect ans :: ν, by simpa [neutral] using hν, Or.inr (Or.inl ⟨rfl, ?_, rfl, ?_⟩)⟩
        · simp [hs]
        · simpa using hno
      · refine ⟨hcp, hpi, hcu, fd, Sys.connect ans :: ν, by simpa [neutral] using hν, Or.inl ⟨rfl, ?_, ?_, Or.inl ?_⟩⟩
        · simp [hs]
        · simpa using hfd
        · simpa using hok
    · split
      · exact ⟨rfl, rfl, rfl, fd, [Sys.connect ans], rfl, Or.inl ⟨rfl, rfl, rfl, Or.inr rfl⟩⟩
      · exact ⟨rfl, rfl, rfl, fd, [Sys.connect ans], rfl, Or.inr (Or.inl ⟨rfl, by simp, rfl, rfl⟩)⟩
  · exact ⟨rfl, rfl, rfl, 0, [Sys.abort "no socket/connect answer"], by decide, Or.inr (Or.inr ⟨rfl, rfl, rfl, rfl⟩)⟩

/-- the pass state with `connect_state` set to `v` -/
def setConn (c : CS) (v : Nat) : CS := { c with dev := { c.dev with conn := v } }

/-- `DEV_NOT_CONNECTED` if the walk left `cur == NULL` -/
def walkEnd (c : CS) : CS := if c.dev.cur.isNone then setConn c 0 else c

/-- **the address walk** (`while (tcp->cur && !tcp_connect_one(dev, tcp->cur)) tcp->cur = tcp->cur->ai_next`), entered — as both
    callers enter it — without a descriptor and in state CONNECTING, followed by the callers' `if (tcp->cur == NULL)
    connect_state = DEV_NOT_CONNECTED`: seen from outside (the state read as NOT_CONNECTED while no descriptor is held) it is a
    sequence of moves — one `tcpOpenFail` per address that fails (its socket is closed before the next address is tried), then
    at most one `tcpOpen` -/
theorem connectWalk_moves (n : Nat) (c : CS) (hp : c.dev.isPipe = false) (hfd : c.dev.fd = none) (h1 : c.dev.conn = 1) :
    Moves (setConn c 0) (walkEnd (connectWalk n c)) := by
  induction n generalizing c with
  | zero =>
    unfold connectWalk walkEnd
    simp only [Option.isNone_none, ↓reduceIte]
    exact .single (Step.soft ⟨rfl, rfl, rfl, rfl⟩ rfl)
  | succ n ih =>
    unfold connectWalk
    split
    · rename_i hcur
      unfold walkEnd; simp only [hcur, Option.isNone_none, ↓reduceIte]
      exact .refl _
    · rename_i i hcur
      obtain ⟨hcp, hpi, hcu, x, ν, hν, hsh⟩ := connectOne_shape c
      split
      · rename_i hok
        simp only [hok, reduceCtorEq, false_and, or_false, true_and] at hsh
        obtain ⟨hs, hf, hk⟩ := hsh
        have hne : (connectOne c).1.dev.cur.isNone = false := by rw [hcu, hcur]; rfl
        unfold walkEnd; simp only [hne, Bool.false_eq_true, ↓reduceIte]
        refine .single ⟨hpi, _, hs, .tcpOpen x ν (connectOne c).1.dev.conn hp hν (by omega) (by simp [setConn, lk, hfd]) (by simp [setConn, lk]) rfl
          (by simp [setConn, lk, hf, hcp])⟩
      · rename_i hok
        have hok' : (connectOne c).2 = false := by simpa using hok
        simp only [hok', reduceCtorEq, false_and, false_or, true_and] at hsh
        have hfd2 : (connectOne c).1.dev.fd = none := by
          rcases hsh with ⟨_, hf, _⟩ | ⟨_, hf, _⟩
          · exact hf
          · rw [hf]; exact hfd
        have hc2 : (connectOne c).1.dev.conn = 1 := by
          rcases hsh with ⟨_, _, hk⟩ | ⟨_, _, hk⟩ <;> rw [hk] <;> exact h1
        have hstep : Step (setConn c 0) (setConn { (connectOne c).1 with dev := { (connectOne c).1.dev with cur := aiNext c.dev.naddr i } } 0) := by
          refine ⟨hpi, ?_⟩
          rcases hsh with ⟨hs, hf, _⟩ | ⟨hs, hf, _⟩
          · exact ⟨_, hs, .tcpOpenFail x ν hp hν (by simp [setConn, lk, hfd]) (by simp [setConn, lk]) rfl (by simp [setConn, lk, hf, hfd, hcp])⟩
          · exact ⟨_, hs, .quiet hν (by simp [setConn, lk, hf, hfd, hcp])⟩
        exact (Moves.single hstep).trans
          (ih { (connectOne c).1 with dev := { (connectOne c).1.dev with cur := aiNext c.dev.naddr i } } (hpi.trans hp) hfd2 hc2)

/-- `tcp_connect`, called in state NOT_CONNECTED -/
theorem tcpConnect_moves (c : CS) (hp : c.dev.isPipe = false) (h0 : c.dev.conn = 0) : Moves c (tcpConnect c).1 := by
  unfold tcpConnect
  simp only [h0, bne_self_eq_false, Bool.false_eq_true, ↓reduceIte]
  cases hfs : c.dev.fd.isSome with
  | true =>
    simp only [↓reduceIte]
    have : c.dev.fd ≠ none := by intro h; simp [h] at hfs
    exact .single ⟨rfl, _, rfl, .cassert _ (by decide) (by simp [lk, this, h0]) rfl rfl⟩
  | false =>
    have hfd : c.dev.fd = none := by simpa using hfs
    simp only [Bool.false_eq_true, ↓reduceIte]
    have hw := connectWalk_moves c.dev.naddr { c with dev := { c.dev with conn := 1, cur := some 0 } } hp hfd rfl
    have h1 : Step c (setConn { c with dev := { c.dev with conn := 1, cur := some 0 } } 0) :=
      Step.soft ⟨rfl, h0.symm, rfl, rfl⟩ rfl
    exact (Moves.single h1).trans hw

/-- `pipe_connect`, called in state NOT_CONNECTED -/
theorem pipeConnect_step (c : CS) (hp : c.dev.isPipe = true) (h0 : c.dev.conn = 0) : Step c (pipeConnect c).1 := by
  unfold pipeConnect
  simp only [h0, bne_self_eq_false, Bool.false_eq_true, ↓reduceIte]
  cases hfs : c.dev.fd.isSome with
  | true =>
    simp only [↓reduceIte]
    have : c.dev.fd ≠ none := by intro h; simp [h] at hfs
    exact ⟨rfl, _, rfl, .cassert _ (by decide) (by simp [lk, this, h0]) rfl rfl⟩
  | false =>
    have hfd : c.dev.fd = none := by simpa using hfs
    simp only [Bool.false_eq_true, ↓reduceIte]
    split
    · rename_i fa pr pid qr _ _
      exact ⟨rfl, _, rfl, .pipeOpen fa pid hp (by simp [lk, hfd]) (by simp [lk, h0]) rfl rfl⟩
    · exact ⟨rfl, _, rfl, .quiet (by decide) rfl⟩

theorem Step.of_same {c c1 c' : CS} (h : SameFd c.dev c1.dev) (hs : c1.sys = c.sys) (hst : Step c1 c') : Step c c' := by
  obtain ⟨hi, δ, hsys, ht⟩ := hst
  have hl : lk c1.dev = lk c.dev := by simp [lk, h.fd, h.conn, h.cpid]
  rw [h.isPipe, hl] at ht
  exact ⟨hi.trans h.isPipe, δ, by rw [hsys, hs], ht⟩

theorem Step.to_same {c c' c'' : CS} (hst : Step c c') (h : SameFd c'.dev c''.dev) (hs : c''.sys = c'.sys) : Step c c'' := by
  obtain ⟨hi, δ, hsys, ht⟩ := hst
  have hl : lk c''.dev = lk c'.dev := by simp [lk, h.fd, h.conn, h.cpid]
  exact ⟨h.isPipe.trans hi, δ, by rw [hs, hsys], by rw [hl]; exact ht⟩

/-- `_connect` cut into its three steps -/
def bump (c : CS) : CS := { c with dev := { c.dev with lastRetry := c.env.now, retryCount := c.dev.retryCount + 1 } }
def connTail (r : CS × Bool) : CS := if r.2 && !r.1.aborted then { r.1 with dev := enqueueLogin r.1.dev } else r.1
theorem connectDev_eq (c : CS) :
    connectDev c = connTail (if (bump c).dev.isPipe then pipeConnect (bump c) else tcpConnect (bump c)) := rfl

theorem connTail_same (r : CS × Bool) : SameFd r.1.dev (connTail r).dev ∧ (connTail r).sys = r.1.sys := by
  unfold connTail; split
  · exact ⟨⟨rfl, rfl, rfl, rfl⟩, rfl⟩
  · exact ⟨SameFd.rfl' _, rfl⟩

theorem Moves.of_same {c c1 c' : CS} (h : SameFd c.dev c1.dev) (hs : c1.sys = c.sys) (hm : Moves c1 c') : Moves c c' :=
  (Moves.single (Step.soft h hs)).trans hm

theorem Moves.to_same {c c' c'' : CS} (hm : Moves c c') (h : SameFd c'.dev c''.dev) (hs : c''.sys = c'.sys) : Moves c c'' :=
  .tail hm (Step.soft h hs)

/-- `_connect`, called in state NOT_CONNECTED -/
theorem connectDev_moves (c : CS) (h0 : c.dev.conn = 0) : Moves c (connectDev c) := by
  rw [connectDev_eq]
  have hb : SameFd c.dev (bump c).dev := ⟨rfl, rfl, rfl, rfl⟩
  have h0' : (bump c).dev.conn = 0 := h0
  have hbs : (bump c).sys = c.sys := rfl
  generalize bump c = c1 at *
  refine Moves.of_same hb hbs ?_
  · split
    · rename_i hp
      exact (Moves.single (pipeConnect_step c1 hp h0')).to_same (connTail_same _).1 (connTail_same _).2
    · rename_i hp
      exact (tcpConnect_moves c1 (by simpa using hp) h0').to_same (connTail_same _).1 (connTail_same _).2

/-- `_disconnect` cut into `close`, reap, and the bookkeeping of `_disconnect` itself -/
def dcClose (c : CS) : CS :=
  match c.dev.fd with
  | some fd => { c with sys := c.sys ++ [Sys.close fd], dev := { c.dev with fd := none } }
  | none => c
def dcReap (c : CS) : CS :=
  match c.dev.isPipe, c.dev.cpid with
  | true, some pid => { c with sys := c.sys ++ [Sys.kill pid, Sys.waitpid pid], dev := { c.dev with cpid := none } }
  | _, _ => c
def dcTail (c : CS) : CS :=
  let acts := match c.dev.acts with | a :: r => if a.com == 0 then r else a :: r | [] => []
  { c with dev := { c.dev with toBuf := [], fromBuf := [], conn := 0, loggedIn := false, acts := acts } }
theorem disconnectDev_eq (c : CS) : disconnectDev c = dcTail (dcReap (dcClose c)) := rfl

theorem dcClose_shape (c : CS) : (dcClose c).sys = c.sys ++ closeOf c.dev.fd ∧ (dcClose c).dev.fd = none ∧
    (dcClose c).dev.cpid = c.dev.cpid ∧ (dcClose c).dev.isPipe = c.dev.isPipe := by
  unfold dcClose; split
  · rename_i fd h; simp [h, closeOf]
  · rename_i h; simp [h, closeOf]

theorem dcReap_shape (c : CS) : (dcReap c).sys = c.sys ++ reapOf c.dev.isPipe c.dev.cpid ∧ (dcReap c).dev.fd = c.dev.fd ∧
    (dcReap c).dev.cpid = (if c.dev.isPipe then none else c.dev.cpid) ∧ (dcReap c).dev.isPipe = c.dev.isPipe := by
  unfold dcReap; split
  · rename_i pid hp hc; simp [hp, hc, reapOf]
  · rename_i hne
    cases hp : c.dev.isPipe <;> cases hc : c.dev.cpid <;> simp_all [reapOf]

/-- `_disconnect` with `tcp_disconnect` / `pipe_disconnect` -/
theorem disconnectDev_step (c : CS) : Step c (disconnectDev c) := by
  rw [disconnectDev_eq]
  obtain ⟨a1, a2, a3, a4⟩ := dcClose_shape c
  obtain ⟨b1, b2, b3, b4⟩ := dcReap_shape (dcClose c)
  generalize dcClose c = c1 at *
  generalize dcReap c1 = c2 at *
  refine ⟨b4.trans a4, closeOf c.dev.fd ++ reapOf c.dev.isPipe c.dev.cpid, ?_, .disconnect rfl ?_⟩
  · show c2.sys = _
    rw [b1, a1, a4, a3, List.append_assoc]
  · show lk (dcTail c2).dev = _
    simp [lk, dcTail, b2, a2, b3, a4, a3]

theorem disconnectDev_link (c : CS) : (disconnectDev c).dev.fd = none ∧ (disconnectDev c).dev.conn = 0 := by
  rw [disconnectDev_eq]
  exact ⟨((dcReap_shape _).2.1).trans (dcClose_shape c).2.1, rfl⟩

/-- `_reconnect`: at most a `_disconnect` followed by at most a `_connect` in state NOT_CONNECTED -/
theorem reconnectDev_moves (c : CS) (tmo : Option Time) : Moves c (reconnectDev c tmo).1 := by
  unfold reconnectDev
  dsimp only
  have h1 : Moves c (if (c.dev.conn != 0) = true then disconnectDev c else c) := by
    split
    · exact .single (disconnectDev_step c)
    · exact .refl c
  have h0 : (if (c.dev.conn != 0) = true then disconnectDev c else c).dev.conn = 0 := by
    split
    · exact (disconnectDev_link c).2
    · rename_i h; simpa using h
  generalize (if (c.dev.conn != 0) = true then disconnectDev c else c) = c1 at *
  split
  · exact h1.trans (connectDev_moves c1 h0)
  · exact h1
  · exact h1

/-! `_handle_ready_device` cut into its branches -/

/-- POLLOUT while CONNECTING: `tcp_finish_connect` -/
def hrFinish (c : CS) : CS × Bool × Bool :=
  let (c, ok) := finishConnectOne c
  let c := if ok then c else finishConnectFail c
  if c.dev.conn == 0 then (c, true, true)
  else if c.dev.conn == 2 then ({ c with dev := enqueueLogin c.dev }, false, true)
  else (c, false, true)

/-- POLLOUT while CONNECTED: `_handle_write` -/
def hrWrite (c : CS) : CS × Bool × Bool :=
  if c.dev.toBuf.isEmpty then (c, true, false)
  else if c.env.writeOk then
    if c.env.wcap == 0 then ({ c with sys := c.sys ++ [.write [] true] }, true, false)
    else ({ c with sys := c.sys ++ [.write (c.dev.toBuf.take c.env.wcap) true], dev := { c.dev with toBuf := c.dev.toBuf.drop c.env.wcap } }, false, false)
  else ({ c with sys := c.sys ++ [.write c.dev.toBuf false] }, true, false)

def hrOut (f : Nat) (c : CS) : CS × Bool × Bool :=
  if f &&& 2 != 0 then
    (if c.dev.conn == 1 then
      (if c.dev.isPipe then ({ c with sys := c.sys ++ [.abort "assert finish_connect != NULL"], aborted := true }, false, true) else hrFinish c)
     else hrWrite c)
  else (c, false, false)

/-- `_handle_read` after the capacity half (`clipRead`), and the telnet preprocessing -/
def hrRd (c : CS) : CS × Bool :=
  match c.env.read with
  | some (some bs) =>
    if bs.isEmpty then ({ c with sys := c.sys ++ [.read 0] }, true)
    else ({ c with sys := c.sys ++ [.read bs.length],
                   dev := if c.dev.isPipe then { c.dev with fromBuf := c.dev.fromBuf ++ bs } else telnetFilter c.dev bs }, false)
  | some none => ({ c with sys := c.sys ++ [.read (-1)] }, true)
  | none => ({ c with sys := c.sys ++ [.abort "no read answer"], aborted := true }, false)

/-- POLLIN: `_handle_read` and the telnet preprocessing -/
def hrIn (f : Nat) (c : CS) : CS × Bool :=
  if f &&& 1 != 0 then hrRd (clipRead c) else (c, false)

theorem handleReady_eq (c : CS) :
    handleReady c =
      if c.dev.conn == 0 then ({ c with sys := c.sys ++ [.abort "assert connect_state != NOT_CONNECTED"], aborted := true }, false) else
      if c.dev.fd.isNone then ({ c with sys := c.sys ++ [.abort "assert fd != NO_FD"], aborted := true }, false) else
      if c.env.revents &&& 4 != 0 || c.env.revents &&& 8 != 0 || c.env.revents &&& 16 != 0 then (c, true) else
      if (hrOut c.env.revents c).2.1 then ((hrOut c.env.revents c).1, true) else
      if (hrOut c.env.revents c).2.2 then ((hrOut c.env.revents c).1, false) else
      hrIn c.env.revents (hrOut c.env.revents c).1 := rfl

theorem closeFd_shape (c : CS) : (closeFd c).sys = c.sys ++ closeOf c.dev.fd ∧ (closeFd c).dev.fd = none ∧
    (closeFd c).dev.cpid = c.dev.cpid ∧ (closeFd c).dev.isPipe = c.dev.isPipe ∧ (closeFd c).dev.conn = c.dev.conn ∧
    (closeFd c).dev.cur = c.dev.cur ∧ (closeFd c).dev.naddr = c.dev.naddr := by
  unfold closeFd; split
  · rename_i fd h; simp [h, closeOf]
  · rename_i h; simp [h, closeOf]

/-- `tcp_finish_connect` after a failed `SO_ERROR`: the pending socket is closed (`finishFail`), then the walk goes on -/
theorem finishConnectFail_moves (c0 c : CS) (ν : List Sys) (hν : ν.all neutral = true) (hs : c.sys = c0.sys ++ ν)
    (hsame : SameFd c0.dev c.dev) (hp : c0.dev.isPipe = false) (x : Nat) (hx : c0.dev.fd = some x) (h1 : c0.dev.conn = 1) :
    Moves c0 (finishConnectFail c) := by
  unfold finishConnectFail
  obtain ⟨a1, a2, a3, a4, a5, a6, a7⟩ := closeFd_shape c
  generalize closeFd c = c1 at *
  have hfd : c.dev.fd = some x := hsame.fd.trans hx
  have hstep : Step c0 (setConn c1 0) :=
    ⟨a4.trans hsame.isPipe, ν ++ [Sys.close x], by simp [setConn, a1, hs, hfd, closeOf],
      .finishFail x ν hν (by simp [lk, hx]) (by simp [lk, h1]) rfl (by simp [setConn, lk, a2, a3, hsame.cpid])⟩
  split
  · exact .tail (.single hstep) ⟨rfl, [Sys.abort "tcp->cur == NULL in tcp_finish_connect"], rfl, .quiet (by decide) rfl⟩
  · rename_i i _
    dsimp only
    have hc1 : c1.dev.conn = 1 := by rw [a5, hsame.conn, h1]
    have hw := connectWalk_moves c1.dev.naddr { c1 with dev := { c1.dev with cur := aiNext c1.dev.naddr i } }
      (by simp [a4, hsame.isPipe, hp]) a2 hc1
    have hsoft : Step (setConn c1 0) (setConn { c1 with dev := { c1.dev with cur := aiNext c1.dev.naddr i } } 0) :=
      Step.soft ⟨rfl, rfl, rfl, rfl⟩ rfl
    exact (Moves.single hstep).trans ((Moves.single hsoft).trans hw)

theorem hrFinish_moves (c : CS) (hp : c.dev.isPipe = false) (hfd : c.dev.fd.isSome = true) (h1 : c.dev.conn = 1) :
    Moves c (hrFinish c).1 := by
  unfold hrFinish
  obtain ⟨ν, hν, hs, hf, hcp, hpi, _, hok, hno⟩ := finishConnectOne_shape c
  obtain ⟨x, hx⟩ := Option.isSome_iff_exists.mp hfd
  dsimp only
  cases hb : (finishConnectOne c).2
  · have hm : Moves c (finishConnectFail (finishConnectOne c).1) :=
      finishConnectFail_moves c _ ν hν hs ⟨hf, hno hb, hcp, hpi⟩ hp x hx h1
    simp only [Bool.false_eq_true, ↓reduceIte]
    generalize finishConnectFail (finishConnectOne c).1 = c2 at *
    split
    · exact hm
    · split
      · exact hm.to_same ⟨rfl, rfl, rfl, rfl⟩ rfl
      · exact hm
  · have h2 : (finishConnectOne c).1.dev.conn = 2 := hok hb
    simp only [↓reduceIte, h2]
    exact .single ⟨hpi, ν, hs, .finished ν hν (by simp [lk, hfd]) (by simp [lk, h1]) rfl (by simp [lk, enqueueLogin, hf, h2, hcp])⟩

theorem hrWrite_step (c : CS) : Step c (hrWrite c).1 := by
  unfold hrWrite
  split
  · exact Step.soft (SameFd.rfl' _) rfl
  · split
    · split
      · exact ⟨rfl, [Sys.write [] true], rfl, .quiet rfl rfl⟩
      · exact ⟨rfl, [Sys.write (c.dev.toBuf.take c.env.wcap) true], rfl, .quiet rfl rfl⟩
    · exact ⟨rfl, [Sys.write c.dev.toBuf false], rfl, .quiet rfl rfl⟩

theorem hrOut_moves (f : Nat) (c : CS) (hfd : c.dev.fd.isSome = true) : Moves c (hrOut f c).1 := by
  unfold hrOut
  split
  · split
    · rename_i h
      split
      · rename_i hp; exact .single ⟨rfl, _, rfl, .passert hp (by simpa [lk] using h) rfl rfl⟩
      · rename_i hp; exact hrFinish_moves c (by simpa using hp) hfd (by simpa using h)
    · exact .single (hrWrite_step c)
  · exact .refl c

theorem telnetFilter_sameFd (d : Dev) (bs : Bytes) : SameFd d (telnetFilter d bs) := by
  unfold telnetFilter; exact ⟨rfl, rfl, rfl, rfl⟩

theorem hrRd_step (c : CS) : Step c (hrRd c).1 := by
  unfold hrRd
  split
  · split
    · exact ⟨rfl, [Sys.read 0], rfl, .quiet rfl rfl⟩
    · refine ⟨?_, [Sys.read _], rfl, .quiet rfl ?_⟩
      · dsimp only; split
        · rfl
        · exact (telnetFilter_sameFd _ _).isPipe
      · dsimp only; split
        · rfl
        · have := telnetFilter_sameFd c.dev ‹_›; simp [lk, this.fd, this.conn, this.cpid]
  · exact ⟨rfl, [Sys.read (-1)], rfl, .quiet rfl rfl⟩
  · exact ⟨rfl, [Sys.abort "no read answer"], rfl, .quiet (by decide) rfl⟩

/-- the capacity half of the read touches neither the descriptor, nor the connection, nor the log -/
theorem clipRead_step (c : CS) : Step c (clipRead c) :=
  Step.soft ⟨by simp, by simp, by simp, by simp⟩ (by simp)

theorem hrIn_moves (f : Nat) (c : CS) : Moves c (hrIn f c).1 := by
  unfold hrIn
  split
  · exact .tail (.single (clipRead_step c)) (hrRd_step _)
  · exact .refl c

/-- `_handle_ready_device`, called (as `dev_post_poll` does) only when a descriptor is held -/
theorem handleReady_moves (c : CS) (hfd : c.dev.fd.isSome = true) : Moves c (handleReady c).1 := by
  rw [handleReady_eq]
  split
  · rename_i h0
    have h0' : c.dev.conn = 0 := by simpa using h0
    have : c.dev.fd ≠ none := by intro h; simp [h] at hfd
    exact .single ⟨rfl, _, rfl, .cassert _ (by decide) (by simp [lk, this, h0']) rfl rfl⟩
  · split
    · rename_i h; rw [Option.isNone_iff_eq_none] at h; simp [h] at hfd
    · split
      · exact .refl c
      · have h1 := hrOut_moves c.env.revents c hfd
        have h2 := hrIn_moves c.env.revents (hrOut c.env.revents c).1
        generalize hrOut c.env.revents c = r at *
        split
        · exact h1
        · split
          · exact h1
          · exact h1.trans h2

/-! ### from moves to everything -/

/-- `I` is kept by every single move (soft changes included) -/
def StepInv (I : CS → Prop) : Prop := ∀ c c' : CS, Step c c' → I c → I c'

theorem Moves.keeps {I : CS → Prop} (hI : StepInv I) {c c' : CS} (hm : Moves c c') (h : I c) : I c' := by
  induction hm with
  | refl => exact h
  | tail _ hs ih => exact hI _ _ hs ih

theorem StepInv.stable {I : CS → Prop} (hI : StepInv I) : Stable I where
  soft c c' hs hsys h := hI c c' (Step.soft hs hsys) h
  reconnect c tmo h := (reconnectDev_moves c tmo).keeps hI h
  ready c hfd h := (handleReady_moves c hfd).keeps hI h

theorem stepInv_moves (c0 : CS) : StepInv (Moves c0) := fun _ _ hs h => .tail h hs

/-- a whole pass of `dev_post_poll` is a sequence of moves from the state it starts in -/
theorem postPoll_moves (d : Dev) (env : Env) (o : Oracle) :
    Moves { dev := d, env := env, sys := [] } (postPoll d env o).1 :=
  postPoll_stable (stepInv_moves _).stable d env o (.refl _)

theorem stepInv_fdInv : StepInv fun c => FdInv c.dev := by
  intro c c' ⟨_, δ, _, ht⟩ h
  exact ht.fdInv h

theorem stepInv_childInv : StepInv fun c => ChildInv c.dev := by
  intro c c' ⟨hp, δ, _, ht⟩ h
  have := ht.childInv h
  rw [ChildInv_iff, hp]; exact this

theorem stepInv_connRange : StepInv fun c => ConnRange c.dev := by
  intro c c' ⟨_, δ, _, ht⟩ h
  exact ht.connRange h

/-- no C assert in the log, as long as the descriptor invariant holds -/
theorem stepInv_noAssert : StepInv fun c => FdInv c.dev ∧ c.sys.any isCAssert = false := by
  intro c c' ⟨_, δ, hs, ht⟩ ⟨h1, h2⟩
  refine ⟨ht.fdInv h1, ?_⟩
  rw [hs, List.any_append, h2, ht.noAssert h1]; rfl

/-- the fifth assert is not in the log, as long as the child invariant holds -/
theorem stepInv_noPAssert : StepInv fun c => ChildInv c.dev ∧ c.sys.any isPAssert = false := by
  intro c c' ⟨hp, δ, hs, ht⟩ ⟨h1, h2⟩
  refine ⟨stepInv_childInv c c' ⟨hp, δ, hs, ht⟩ h1, ?_⟩
  rw [hs, List.any_append, h2, ht.noPAssert h1]; rfl

/-- descriptor ledger: replaying the log from the descriptors held at the start never closes a descriptor that is
    not open and ends with exactly the descriptor the device holds -/
theorem stepInv_fdLedger (h0 : List Nat) : StepInv fun c => fdRun h0 c.sys = some c.dev.fd.toList := by
  intro c c' ⟨_, δ, hs, ht⟩ h
  rw [hs, fdRun_append, h]
  exact ht.fd_ledger

/-- child ledger -/
theorem stepInv_kidLedger (k0 : List Nat × List Nat) :
    StepInv fun c => ChildInv c.dev ∧ kidRun k0 c.sys = some (c.dev.cpid.toList, []) := by
  intro c c' ⟨hp, δ, hs, ht⟩ ⟨h1, h2⟩
  refine ⟨stepInv_childInv c c' ⟨hp, δ, hs, ht⟩ h1, ?_⟩
  rw [hs, kidRun_append, h2]
  exact ht.kid_ledger h1

/-! ### what a successful audit means, in counts -/

theorem count_erase_mem (l : List Nat) (a n : Nat) (h : a ∈ l) :
    (l.erase a).count n + (if a = n then 1 else 0) = l.count n := by
  rw [List.count_erase]
  have := List.count_pos_iff.mpr h
  by_cases han : a = n
  · subst han; simp; omega
  · have : (a == n) = false := by simpa using han
    simp [han, this]

/-- if the descriptor audit succeeds then, for every number `n`:
    held before + opened in the log = closed in the log + held after -/
theorem fdRun_count (l : List Sys) (h h' : List Nat) (hr : fdRun h l = some h') (n : Nat) :
    h.count n + (opened l).count n = (closed l).count n + h'.count n := by
  induction l generalizing h with
  | nil => simp [fdRun] at hr; subst hr; simp [opened, closed]
  | cons s r ih =>
    simp only [fdRun] at hr
    cases s with
    | socket fd =>
      simp only [fdStep, Option.bind_some] at hr
      have := ih _ hr
      simp only [opened, closed, List.count_cons] at this ⊢; omega
    | socketpair a b =>
      simp only [fdStep, Option.bind_some] at hr
      have := ih _ hr
      simp only [opened, closed, List.count_cons] at this ⊢; omega
    | close fd =>
      simp only [fdStep] at hr
      split at hr
      · rename_i hm
        simp only [Option.bind_some] at hr
        have := ih _ hr
        have he := count_erase_mem h fd n hm
        simp only [opened, closed, List.count_cons, beq_iff_eq] at this ⊢; omega
      · simp at hr
    | _ =>
      simp only [fdStep, Option.bind_some] at hr
      have := ih _ hr
      simpa only [opened, closed] using this

/-- no double close: when the audit succeeds, at every `close fd` in the log the descriptor was held at the start or
    opened earlier in the log more often than it has been closed so far -/
theorem fdRun_close_held (p r : List Sys) (fd : Nat) (h h' : List Nat)
    (hr : fdRun h (p ++ Sys.close fd :: r) = some h') :
    (closed p).count fd < h.count fd + (opened p).count fd := by
  rw [fdRun_append] at hr
  cases hp : fdRun h p with
  | none => simp [hp] at hr
  | some hm =>
    simp only [hp, Option.bind_some, fdRun, fdStep] at hr
    split at hr
    · rename_i hmem
      have := fdRun_count p h hm hp fd
      have := List.count_pos_iff.mpr hmem
      omega
    · simp at hr

/-- if the child audit succeeds then, for every pid `n`: live before + forked = signalled + live after, and
    signalled-unreaped before + signalled = waited for + signalled-unreaped after -/
theorem kidRun_count (l : List Sys) (k k' : List Nat × List Nat) (hr : kidRun k l = some k') (n : Nat) :
    k.1.count n + (forked l).count n = (killed l).count n + k'.1.count n ∧
    k.2.count n + (killed l).count n = (waited l).count n + k'.2.count n := by
  induction l generalizing k with
  | nil => simp [kidRun] at hr; subst hr; simp [forked, killed, waited]
  | cons s r ih =>
    simp only [kidRun] at hr
    cases s with
    | fork pid =>
      simp only [kidStep, Option.bind_some] at hr
      have := ih _ hr
      simp only [forked, killed, waited, List.count_cons] at this ⊢; omega
    | kill pid =>
      simp only [kidStep] at hr
      split at hr
      · rename_i hm
        simp only [Option.bind_some] at hr
        have := ih _ hr
        have he := count_erase_mem k.1 pid n hm
        simp only [forked, killed, waited, List.count_cons, beq_iff_eq] at this ⊢; omega
      · simp at hr
    | waitpid pid =>
      simp only [kidStep] at hr
      split at hr
      · rename_i hm
        simp only [Option.bind_some] at hr
        have := ih _ hr
        have he := count_erase_mem k.2 pid n hm
        simp only [forked, killed, waited, List.count_cons, beq_iff_eq] at this ⊢; omega
      · simp at hr
    | _ =>
      simp only [kidStep, Option.bind_some] at hr
      have := ih _ hr
      simpa only [forked, killed, waited] using this

/-- a `kill pid` in an audited log is for a pid forked (or held) and not yet signalled; a `waitpid pid` is for a
    pid signalled and not yet waited for -/
theorem kidRun_kill_live (p r : List Sys) (pid : Nat) (k k' : List Nat × List Nat)
    (hr : kidRun k (p ++ Sys.kill pid :: r) = some k') :
    (killed p).count pid < k.1.count pid + (forked p).count pid := by
  rw [kidRun_append] at hr
  cases hp : kidRun k p with
  | none => simp [hp] at hr
  | some km =>
    simp only [hp, Option.bind_some, kidRun, kidStep] at hr
    split at hr
    · rename_i hmem
      have := (kidRun_count p k km hp pid).1
      have := List.count_pos_iff.mpr hmem
      omega
    · simp at hr

theorem kidRun_wait_signalled (p r : List Sys) (pid : Nat) (k k' : List Nat × List Nat)
    (hr : kidRun k (p ++ Sys.waitpid pid :: r) = some k') :
    (waited p).count pid < k.2.count pid + (killed p).count pid := by
  rw [kidRun_append] at hr
  cases hp : kidRun k p with
  | none => simp [hp] at hr
  | some km =>
    simp only [hp, Option.bind_some, kidRun, kidStep] at hr
    split at hr
    · rename_i hmem
      have := (kidRun_count p k km hp pid).2
      have := List.count_pos_iff.mpr hmem
      omega
    · simp at hr

/-! ### `dbg_memstr` and the telemetry built from it -/

theorem memstr_fold (cap : Nat) (l : List UInt8) (j : Nat) (h : j + 4 * l.length + 1 ≤ cap) :
    (l.foldl (fun (acc : Nat × Bool) b =>
      let (j, bad) := acc
      if b == 13 || b == 10 || b == 9 then (j + 2, bad || j + 3 > cap)
      else if isPrint b then (j + 1, bad || j + 1 > cap)
      else (j + 4, bad || j + 5 > cap)) (j, false)).2 = false := by
  induction l generalizing j with
  | nil => rfl
  | cons b r ih =>
    simp only [List.length_cons] at h
    simp only [List.foldl_cons]
    split
    · have : decide (j + 3 > cap) = false := by simp; omega
      simp only [Bool.false_or, this]
      exact ih _ (by omega)
    · split
      · have : decide (j + 1 > cap) = false := by simp; omega
        simp only [Bool.false_or, this]
        exact ih _ (by omega)
      · have : decide (j + 5 > cap) = false := by simp; omega
        simp only [Bool.false_or, this]
        exact ih _ (by omega)

/-- the repaired `dbg_memstr` never writes past its `4*len+1` bytes, whatever the bytes are -/
theorem memstrOverflows_false (bs : Bytes) : memstrOverflows bs = false := by
  unfold memstrOverflows
  exact memstr_fold _ bs 0 (by omega)

theorem teleMem_eq (cid : Nat) (pre : String) (bs : Bytes) :
    teleMem cid pre bs = [Out.telemetry cid (str pre ++ memstr bs ++ str "'")] := by
  unfold teleMem; simp [memstrOverflows_false]

theorem teleMem_noAbort (cid : Nat) (pre : String) (bs : Bytes) : hasAbort (teleMem cid pre bs) = false := by
  rw [teleMem_eq]; rfl

/-- the error and the telemetry line of the timeout branch of `_process_action` -/
def timeoutErr (d : Dev) : ActErr := if d.conn != 2 then .connectTimeout else if !d.loggedIn then .loginTimeout else .expfail
def timeoutTele (d : Dev) (a : Action) : List Out :=
  if a.telemetry then
    (if d.conn != 2 then [Out.telemetry a.clientId (str "connect(dev): timeout")]
     else teleMem a.clientId "recv(dev): '" d.fromBuf) else []

theorem timeoutTele_noAbort (d : Dev) (a : Action) : hasAbort (timeoutTele d a) = false := by
  unfold timeoutTele
  split
  · split
    · rfl
    · exact teleMem_noAbort _ _ _
  · rfl

/-- the telemetry of the timeout branch never carries an abort, so the branch always goes on to fail the queue -/
theorem onTimeout_eq_failAll (rest : List Action) (c : CS) (a : Action) (o : Oracle) (out : List Out) (tmo : Option Time) :
    onTimeout rest c a o out tmo
      = failAll rest c { a with errnum := timeoutErr c.dev } o (out ++ timeoutTele c.dev a) tmo := by
  have h := timeoutTele_noAbort c.dev a
  unfold onTimeout; dsimp only
  unfold timeoutTele at h
  simp only [h, Bool.false_eq_true, ↓reduceIte]
  rfl

theorem hasAbort_append (l m : List Out) : hasAbort (l ++ m) = (hasAbort l || hasAbort m) := by
  simp [hasAbort]

theorem askRx_noAbort (o : Oracle) (pat : Nat) (s : Bytes) : hasAbort (askRx o pat s).2.2 = false := by
  unfold askRx; split
  · split <;> rfl
  · rfl

/-- `_process_expect` never aborts: the only assert it could reach is `dbg_memstr`'s -/
theorem stmtExpect_noAbort (d : Dev) (a : Action) (o : Oracle) (pat : Nat) : hasAbort (stmtExpect d a o pat).out = false := by
  unfold stmtExpect
  dsimp only
  split
  · rfl
  · have h1 := askRx_noAbort o pat (d.fromBuf.map fun b => if b == 0 then 255 else b)
    generalize askRx o pat _ = r at *
    obtain ⟨o', ans, errs⟩ := r
    simp only at h1 ⊢
    split
    · exact h1
    · simp only [hasAbort_append, h1, Bool.false_or]
      split
      · exact teleMem_noAbort _ _ _
      · rfl

/-- `xregex_match_sub_strdup`: a captured substring is a contiguous piece of the subject of the last match -/
theorem subOf_infix (d : Dev) (i : Int) (s : Bytes) (h : subOf d i = some s) :
    ∃ subj, d.xmStr = some subj ∧ s <:+: subj ∧ s.length ≤ subj.length := by
  unfold subOf at h
  split at h
  · simp at h
  · split at h
    · split at h
      · simp at h
      · cases hx : d.xmStr with
        | none => simp [hx] at h
        | some subj =>
          simp only [hx, Option.map_some, Option.some.injEq] at h
          subst h
          refine ⟨subj, rfl, ?_, ?_⟩
          · exact ((List.take_prefix _ _).isInfix).trans (List.drop_suffix _ _).isInfix
          · simp; omega
    · simp at h

/-! the text `dbg_memstr` produces fits the buffer it allocates (`4*len+1` with the terminator) -/
theorem str_r : (str "\\r").length = 2 := by decide +kernel
theorem str_n : (str "\\n").length = 2 := by decide +kernel
theorem str_t : (str "\\t").length = 2 := by decide +kernel

theorem octal_len (b : UInt8) : (octal b.toNat).length ≤ 3 := by
  have h : b.toNat < 256 := UInt8.toNat_lt b
  unfold octal
  rw [List.length_map, Nat.length_toDigits_le_iff (by decide) (by decide)]
  omega

theorem memstr_cell (b : UInt8) :
    (if b == 13 then str "\\r" else if b == 10 then str "\\n" else if b == 9 then str "\\t"
     else if isPrint b then [b]
     else
      let ds := octal b.toNat
      let ds := List.replicate (3 - ds.length) (48 : UInt8) ++ ds
      (92 : UInt8) :: ds).length ≤ 4 := by
  have := octal_len b
  split
  · simp [str_r]
  · split
    · simp [str_n]
    · split
      · simp [str_t]
      · split
        · simp
        · simp; omega

theorem memstr_length (bs : Bytes) : (memstr bs).length ≤ 4 * bs.length := by
  induction bs with
  | nil => simp [memstr]
  | cons b r ih =>
    unfold memstr at ih ⊢
    rw [List.flatMap_cons, List.length_append, List.length_cons]
    have := memstr_cell b
    omega

/-- when the regex offsets lie inside the subject (what `regexec` guarantees) the copy has exactly `eo - so` bytes -/
theorem subOf_length (d : Dev) (i so eo : Int) (subj : Bytes) (hu : d.xmUsed = true) (hr : d.xmResult = true) (hi : 0 ≤ i)
    (ho : d.xmOffs[i.toNat]? = some (so, eo)) (hs : d.xmStr = some subj) (h0 : 0 ≤ so)
    (h2 : eo.toNat ≤ subj.length) : ∃ s, subOf d i = some s ∧ s.length = (eo - so).toNat := by
  have hne : (so == -1) = false := by
    cases hq : so == -1
    · rfl
    · have : so = -1 := by simpa using hq
      omega
  have hi' : ¬ i < 0 := by omega
  refine ⟨(subj.drop so.toNat).take (eo - so).toNat, ?_, ?_⟩
  · simp [subOf, hu, hr, hi', ho, hs, hne]
  · simp; omega

/-! ### the functions below `tcp_connect`, where the descriptor invariant is suspended

`tcp_connect` sets `connect_state = DEV_CONNECTING` before `tcp_connect_one` calls `socket()`, and resets it after a
failure: between those points `fd == NO_FD` with a state that is not NOT_CONNECTED.  So `FdInv` is a property of
`tcp_connect` and everything above it; for the two functions below it the contract is: -/

theorem finishConnectOne_fdInv (c : CS) (hfd : c.dev.fd.isSome = true) (h0 : c.dev.conn ≠ 0) :
    FdInv (finishConnectOne c).1.dev := by
  obtain ⟨ν, _, _, hf, _, _, _, hok, hno⟩ := finishConnectOne_shape c
  unfold FdInv
  rw [hf]
  have hne : c.dev.fd ≠ none := by intro h; simp [h] at hfd
  cases hb : (finishConnectOne c).2
  · rw [hno hb]; simp [hne, h0]
  · rw [hok hb]; simp [hne]

theorem finishConnectOne_childInv (c : CS) (hp : c.dev.isPipe = false) (h : ChildInv c.dev) :
    ChildInv (finishConnectOne c).1.dev := by
  obtain ⟨ν, _, _, _, hcp, hpi, _, _, _⟩ := finishConnectOne_shape c
  unfold ChildInv at *
  rw [hcp, hpi]
  simp only [hp] at h ⊢
  refine ⟨fun hh => absurd (h.1 hh).1 (by simp), fun hh => by simp at hh, fun hh => by simp at hh⟩

/-- `tcp_connect_one`, called as `tcp_connect` calls it (no descriptor, state already CONNECTING): on success the
    invariant holds again; on failure no descriptor is held and the state is left for the caller to reset -/
theorem connectOne_contract (c : CS) (hfd : c.dev.fd = none) (h0 : c.dev.conn ≠ 0) :
    ((connectOne c).2 = true → FdInv (connectOne c).1.dev) ∧
    ((connectOne c).2 = false → (connectOne c).1.dev.fd = none ∧ (connectOne c).1.dev.conn = c.dev.conn) := by
  obtain ⟨_, _, _, x, ν, _, hsh⟩ := connectOne_shape c
  unfold FdInv
  rcases hsh with ⟨hb, _, hf, hk⟩ | ⟨hb, _, hf, hk⟩ | ⟨hb, _, hf, hk⟩
  · refine ⟨fun _ => ?_, fun h => by simp [hb] at h⟩
    rw [hf]; rcases hk with hk | hk <;> simp [hk, h0]
  · exact ⟨fun h => by simp [hb] at h, fun _ => ⟨hf, hk⟩⟩
  · exact ⟨fun h => by simp [hb] at h, fun _ => ⟨hf.trans hfd, hk⟩⟩

theorem connectOne_childInv (c : CS) (hp : c.dev.isPipe = false) (h : ChildInv c.dev) :
    ChildInv (connectOne c).1.dev := by
  obtain ⟨hcp, hpi, _, _⟩ := connectOne_shape c
  unfold ChildInv at *
  rw [hcp, hpi]
  simp only [hp] at h ⊢
  refine ⟨fun hh => absurd (h.1 hh).1 (by simp), fun hh => by simp at hh, fun hh => by simp at hh⟩

/-- `_handle_ready_device` called without a descriptor stops at its assert and changes nothing in the device -/
theorem handleReady_noFd (c : CS) (hfd : c.dev.fd = none) : (handleReady c).1.dev = c.dev := by
  rw [handleReady_eq]
  split
  · rfl
  · simp [hfd]

/-- … so the invariants are kept by `_handle_ready_device` whether or not a descriptor is held -/
theorem handleReady_keeps_dev {P : Dev → Prop} (hI : StepInv fun c => P c.dev) (c : CS) (h : P c.dev) :
    P (handleReady c).1.dev := by
  cases hfd : c.dev.fd with
  | none => rw [handleReady_noFd c hfd]; exact h
  | some x => exact (handleReady_moves c (by simp [hfd])).keeps hI h

/-! ### every function of the pass is a sequence of moves -/

theorem pipeConnect_moves (c : CS) (hp : c.dev.isPipe = true) (h0 : c.dev.conn = 0) : Moves c (pipeConnect c).1 :=
  .single (pipeConnect_step c hp h0)
theorem disconnectDev_moves (c : CS) : Moves c (disconnectDev c) := .single (disconnectDev_step c)

theorem failAll_moves (rest : List Action) (c : CS) (a : Action) (o : Oracle) (out : List Out) (tmo : Option Time) :
    Moves c (failAll rest c a o out tmo).1 :=
  failAll_stable (stepInv_moves c).stable _ _ _ _ _ _ (.refl c)

theorem onTimeout_moves (rest : List Action) (c : CS) (a : Action) (o : Oracle) (out : List Out) (tmo : Option Time) :
    Moves c (onTimeout rest c a o out tmo).1 :=
  onTimeout_stable (stepInv_moves c).stable _ _ _ _ _ _ (.refl c)

theorem onRun_moves (k : CS → Oracle → List Out → Option Time → PA) (rest : List Action) (c : CS) (a : Action)
    (o : Oracle) (out : List Out) (tmo : Option Time) (left : Time)
    (hk : ∀ c' o' out' tmo', Moves c' (k c' o' out' tmo').1) : Moves c (onRun k rest c a o out tmo left).1 :=
  onRun_stable (stepInv_moves c).stable _ _ _ _ _ _ _ _ (fun c' o' out' tmo' h => h.trans (hk c' o' out' tmo')) (.refl c)

theorem processActionF_moves (fuel : Nat) (c : CS) (o : Oracle) (out : List Out) (tmo : Option Time) :
    Moves c (processActionF fuel c o out tmo).1 :=
  processActionF_stable (stepInv_moves c).stable _ _ _ _ _ (.refl c)

theorem processAction_moves (c : CS) (o : Oracle) (out : List Out) (tmo : Option Time) :
    Moves c (processAction c o out tmo).1 :=
  processActionF_moves _ c o out tmo

/-- what a sequence of moves keeps: each line is independent of the others (own hypotheses only) -/
structure Keeps (c c' : CS) : Prop where
  isPipe : c'.dev.isPipe = c.dev.isPipe
  fdInv : FdInv c.dev → FdInv c'.dev
  childInv : ChildInv c.dev → ChildInv c'.dev
  connRange : ConnRange c.dev → ConnRange c'.dev
  noAssert : FdInv c.dev → c.sys.any isCAssert = false → c'.sys.any isCAssert = false
  noPAssert : ChildInv c.dev → c.sys.any isPAssert = false → c'.sys.any isPAssert = false
  fdLedger : ∀ h0, fdRun h0 c.sys = some c.dev.fd.toList → fdRun h0 c'.sys = some c'.dev.fd.toList
  kidLedger : ∀ k0, ChildInv c.dev → kidRun k0 c.sys = some (c.dev.cpid.toList, []) →
    kidRun k0 c'.sys = some (c'.dev.cpid.toList, [])

theorem Moves.isPipe {c c' : CS} (hm : Moves c c') : c'.dev.isPipe = c.dev.isPipe := by
  induction hm with
  | refl => rfl
  | tail _ hs ih => exact hs.1.trans ih

theorem Moves.keeps_all {c c' : CS} (hm : Moves c c') : Keeps c c' where
  isPipe := hm.isPipe
  fdInv h := hm.keeps stepInv_fdInv h
  childInv h := hm.keeps stepInv_childInv h
  connRange h := hm.keeps stepInv_connRange h
  noAssert h1 h2 := (hm.keeps stepInv_noAssert ⟨h1, h2⟩).2
  noPAssert h1 h2 := (hm.keeps stepInv_noPAssert ⟨h1, h2⟩).2
  fdLedger h0 h := hm.keeps (stepInv_fdLedger h0) h
  kidLedger k0 h1 h2 := (hm.keeps (stepInv_kidLedger k0) ⟨h1, h2⟩).2

/-! ### concrete devices for the non-vacuity examples -/

def exDev : Dev :=
  { plugs := [], scripts := fun n => if n = 0 then some [Stmt.delay 0] else none, timeout := 1000000, acts := [],
    toBuf := [], fromBuf := [], xmStr := none, xmOffs := [], xmResult := false, xmUsed := false, args := [],
    nextUid := 1, shortCircuitDelay := false }
/-- a connected, logged-in tcp device holding descriptor 2000 -/
def exTcp : Dev := { exDev with conn := 2, fd := some 2000, loggedIn := true }
/-- a connected, logged-in coprocess device holding descriptor 3000 and child 5000 -/
def exPipe : Dev := { exDev with conn := 2, fd := some 3000, isPipe := true, cpid := some 5000, loggedIn := true }
/-- the F6 state: a stale descriptor number left in `dev->fd` while NOT_CONNECTED -/
def exStale : Dev := { exDev with conn := 0, fd := some 2000 }
/-- a coprocess device (wrongly) in state CONNECTING -/
def exPipeConnecting : Dev := { exDev with conn := 1, fd := some 3000, isPipe := true, cpid := some 5000 }
/-- a pass in which poll reports a hang-up and the kernel has answers for one reconnect -/
def exEnv : Env :=
  { now := 0, revents := 4, sockets := [2001], connects := [1], soerrs := [], read := none, writeOk := true,
    pairs := [3002], pids := [5001] }
/-- the same, but the reconnect's `connect` fails at once -/
def exEnvFail : Env := { exEnv with connects := [2] }
/-- a pass in which the descriptor is writable and `SO_ERROR` is ECONNREFUSED -/
def exEnvRefused : Env :=
  { now := 0, revents := 2, sockets := [], connects := [], soerrs := [111], read := none, writeOk := true }


end Pm.Dev2.Fd
