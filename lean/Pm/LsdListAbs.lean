import Pm.LsdListNode
/-! # The list with cursors, and how the node-level list refines it

`Abs`: a plain list of items and, for every registered iterator, a cursor `(j, g)`: the iterator stands at the `j`-th gap of
the list (`0` = before the first item); `g = true`: the item right after the gap has been returned by `list_next` and is the
one `list_remove` will take, the next item to return is the one after it; `g = false`: the next item to return is the one
right after the gap and there is nothing to remove.  The operations of `list.c` on this machine are one-liners.

`absOf l`: the list with cursors that a node-level state (`Pm/LsdList.lean`) stands for — the items on the chain and, for every
iterator, the place the harness prints (`iterPlace`).  The theorems `*_refines` say: if `l` is represented (`Rep`), the C function
does not die, the result is represented, and `absOf` of the result is the abstract operation applied to `absOf l`. -/
namespace Pm.LsdList
variable {α : Type}

/-- the list with cursors -/
structure Abs (α : Type) where
  items : List α
  /-- the iterator chain, newest first: handle and cursor -/
  curs : List (Nat × (Nat × Bool))
  fdel : Bool

namespace Abs

/-- insert `x` at gap `f`: cursors at or behind that gap move with the items behind it -/
def createAt (a : Abs α) (f : Nat) (x : α) : Abs α :=
  { a with items := a.items.insertIdx f x, curs := a.curs.map (fun kc => (kc.1, curCreate f kc.2)) }

/-- remove the item after gap `f` -/
def destroyAt (a : Abs α) (f : Nat) : Abs α :=
  { a with items := a.items.eraseIdx f, curs := a.curs.map (fun kc => (kc.1, curDestroy f kc.2)) }

def curOf (a : Abs α) (k : Nat) : Option (Nat × Bool) := a.curs.lookup k

def setCur (a : Abs α) (k : Nat) (c : Nat × Bool) : Abs α :=
  { a with curs := a.curs.map (fun kc => if kc.1 = k then (k, c) else kc) }

def append (a : Abs α) (x : α) : Abs α := a.createAt a.items.length x
def prepend (a : Abs α) (x : α) : Abs α := a.createAt 0 x

def pop (a : Abs α) : Option α × Abs α :=
  match a.items[0]? with
  | none => (none, a)
  | some v => (some v, a.destroyAt 0)

def itCreate (a : Abs α) (k : Nat) : Abs α := { a with curs := (k, (0, false)) :: a.curs }

def itReset (a : Abs α) (k : Nat) : Option (Abs α) := (a.curOf k).map (fun _ => a.setCur k (0, false))

def itDestroy (a : Abs α) (k : Nat) : Option (Abs α) :=
  (a.curOf k).map (fun _ => { a with curs := a.curs.eraseP (fun kc => kc.1 == k) })

/-- `list_next`: the item after the cursor (after the returned item, if there is one) -/
def next (a : Abs α) (k : Nat) : Option (Option α × Abs α) :=
  (a.curOf k).map (fun c =>
    (a.items[c.1 + c.2.toNat]?, a.setCur k (if c.2 then c.1 + 1 else c.1, decide (c.1 + c.2.toNat < a.items.length))))

/-- `list_insert`: at the cursor's gap -/
def insert (a : Abs α) (k : Nat) (x : α) : Option (Abs α) := (a.curOf k).map (fun c => a.createAt c.1 x)

/-- `list_remove`: the returned item after the cursor's gap, if there is one -/
def remove (a : Abs α) (k : Nat) : Option (Option α × Abs α) :=
  (a.curOf k).map (fun c => if c.2 then (a.items[c.1]?, a.destroyAt c.1) else (none, a))

end Abs

/-- the cursor of an iterator on the chain `ns`: the place the harness prints -/
def cur (ns : List Nat) (i : Iter) : Nat × Bool := (iterPlace ns i).getD (0, false)

/-- the list with cursors a node-level state stands for -/
def absOf (l : LList α) : Abs α :=
  { items := contents l, curs := l.iters.map (fun ki => (ki.1, cur ((nodes l).getD []) ki.2)), fdel := l.fdel }

/-! ## `Rep` determines `nodes`, `contents`, the cursors -/

theorem walk_of_chain {l : LList α} {ns : List Nat} {items : List α} (h : Chain l ns items) :
    ∀ (k fuel : Nat), k ≤ ns.length → ns.length - k < fuel → walk l.cells fuel ns[k]? = some (ns.drop k) := by
  intro k fuel hk hfuel
  induction fuel generalizing k with
  | zero => omega
  | succ fuel ih =>
    by_cases hlt : k < ns.length
    · obtain ⟨n, hn⟩ : ∃ n, ns[k]? = some n := ⟨ns[k]'hlt, by simp⟩
      rw [hn]
      simp only [walk, h.cell k n hn]
      rw [ih (k + 1) (by omega) (by omega)]
      have : ns.drop k = n :: ns.drop (k + 1) := by
        rw [List.drop_eq_getElem_cons hlt]
        have : ns[k] = n := by simpa [List.getElem?_eq_getElem hlt] using hn
        rw [this]
      simp [this]
    · have e : k = ns.length := by omega
      subst e
      simp [walk]

/-- pigeonhole: distinct numbers below `n` are at most `n` -/
theorem length_le_of_nodup_lt : ∀ (n : Nat) (xs : List Nat), xs.Nodup → (∀ x ∈ xs, x < n) → xs.length ≤ n := by
  intro n
  induction n with
  | zero =>
    intro xs _ hb
    cases xs with
    | nil => simp
    | cons x _ => exact absurd (hb x (by simp)) (by omega)
  | succ n ih =>
    intro xs hn hb
    have h1 := ih (xs.erase n) (hn.erase n) (by
      intro x hx
      have hx' := (hn.mem_erase_iff).mp hx
      have := hb x hx'.2
      have := hx'.1
      omega)
    have h2 : xs.length ≤ (xs.erase n).length + 1 := by
      rw [List.length_erase]; split <;> omega
    omega

theorem Inj.nodup {ns : List Nat} (hi : Inj ns) : ns.Nodup := by
  rw [List.Nodup, List.pairwise_iff_getElem]
  intro a b ha hb hab e
  have := hi a b ns[a] (by simp [List.getElem?_eq_getElem ha]) (by simp [List.getElem?_eq_getElem hb, e])
  omega

theorem Chain.length_le {l : LList α} {ns : List Nat} {items : List α} (h : Chain l ns items) : ns.length ≤ l.cells.size := by
  apply length_le_of_nodup_lt _ _ h.inj.nodup
  intro x hx
  obtain ⟨k, hk, rfl⟩ := List.getElem_of_mem hx
  exact h.lt_size k _ (by simp [List.getElem?_eq_getElem hk])

theorem Chain.nodes {l : LList α} {ns : List Nat} {items : List α} (h : Chain l ns items) : nodes l = some ns := by
  have := walk_of_chain h 0 (l.cells.size + 1) (by omega) (by have := h.length_le; omega)
  simpa [LsdList.nodes, h.head] using this

theorem Chain.dataOf {l : LList α} {ns : List Nat} {items : List α} (h : Chain l ns items) (k n : Nat) (hn : ns[k]? = some n) :
    dataOf l n = items[k]? := by
  simp [LsdList.dataOf, h.cell k n hn]

theorem Chain.contents {l : LList α} {ns : List Nat} {items : List α} (h : Chain l ns items) : contents l = items := by
  have hmap : ns.map (fun p => LsdList.dataOf l p) = items.map some := by
    apply List.ext_getElem?
    intro k
    simp only [List.getElem?_map]
    by_cases hlt : k < ns.length
    · have hn : ns[k]? = some ns[k] := by simp [List.getElem?_eq_getElem hlt]
      have hlt' : k < items.length := by rw [h.len]; exact hlt
      rw [hn, Option.map_some, h.dataOf k _ hn]
      simp [List.getElem?_eq_getElem hlt']
    · have h1 : ns[k]? = none := by simp; omega
      have h2 : items[k]? = none := by simp; rw [h.len]; omega
      simp [h1, h2]
  unfold LsdList.contents
  rw [h.nodes]
  simp only [Option.getD_some]
  have e : List.filterMap (fun p => LsdList.dataOf l p) ns = List.filterMap id (List.map (fun p => LsdList.dataOf l p) ns) := by
    rw [List.filterMap_map]; rfl
  rw [e, hmap, List.filterMap_map]
  simp

theorem fieldsOf_getElem? (ns : List Nat) (j : Nat) (hj : j ≤ ns.length) : (fieldsOf ns)[j]? = some (fieldAt ns j) := by
  cases j with
  | zero => simp [fieldsOf, fieldAt]
  | succ j =>
    have hlt : j < ns.length := by omega
    simp [fieldsOf, fieldAt, List.getElem?_eq_getElem hlt]

theorem fieldsOf_length (ns : List Nat) : (fieldsOf ns).length = ns.length + 1 := by simp [fieldsOf]

theorem fieldsOf_nodup {ns : List Nat} (hi : Inj ns) : (fieldsOf ns).Nodup := by
  rw [List.Nodup, List.pairwise_iff_getElem]
  intro a b ha hb hab e
  rw [fieldsOf_length] at ha hb
  have h1 := fieldsOf_getElem? ns a (by omega)
  have h2 := fieldsOf_getElem? ns b (by omega)
  rw [List.getElem?_eq_getElem (by rw [fieldsOf_length]; omega)] at h1 h2
  have : fieldAt ns a = fieldAt ns b := by
    have h1' := Option.some.inj h1
    have h2' := Option.some.inj h2
    rw [← h1', ← h2', e]
  have := fieldAt_inj ns hi a b (by omega) (by omega) this
  omega

theorem idxOf_fieldAt {ns : List Nat} (hi : Inj ns) (j : Nat) (hj : j ≤ ns.length) : (fieldsOf ns).idxOf (fieldAt ns j) = j := by
  have hlt : j < (fieldsOf ns).length := by rw [fieldsOf_length]; omega
  have h1 := fieldsOf_getElem? ns j hj
  rw [List.getElem?_eq_getElem hlt] at h1
  have h1' := Option.some.inj h1
  rw [← h1']
  exact (fieldsOf_nodup hi).idxOf_getElem j hlt

theorem targetsOf_getElem? (ns : List Nat) (j : Nat) (hj : j ≤ ns.length) : (targetsOf ns)[j]? = some ns[j]? := by
  unfold targetsOf
  by_cases hlt : j < ns.length
  · rw [List.getElem?_append_left (by simpa using hlt)]
    simp [List.getElem?_eq_getElem hlt]
  · have e : j = ns.length := by omega
    subst e
    rw [List.getElem?_append_right (by simp)]
    simp

theorem Place.iterPlace {ns : List Nat} (hi : Inj ns) {i : Iter} {j : Nat} {g : Bool} (p : Place ns i j g) :
    iterPlace ns i = some (j, g) := by
  have hle := p.le
  have hj : j ≤ ns.length := by omega
  unfold LsdList.iterPlace
  simp only [p.prev, idxOf_fieldAt hi j hj, hj, if_true, targetsOf_getElem? ns j hj]
  cases g with
  | false => simp [p.pos]
  | true =>
    simp at hle
    have h1 : ¬ ns[j]? = i.pos := by
      rw [p.pos]; intro e
      have := hi.idx_eq j (j + 1) hj (by simpa using hle) (by simpa using e)
      omega
    have h1' : ¬ some ns[j]? = some i.pos := by simpa using h1
    simp only [h1', if_false, targetsOf_getElem? ns (j + 1) hle]
    simp [p.pos]

theorem Place.cur {ns : List Nat} (hi : Inj ns) {i : Iter} {j : Nat} {g : Bool} (p : Place ns i j g) : cur ns i = (j, g) := by
  simp [LsdList.cur, p.iterPlace hi]
end Pm.LsdList
