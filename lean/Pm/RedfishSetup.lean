import Pm.RedfishTerm
/-! helper lemmas for C19, part 5: `runCmd` cut into enqueue / phased check / root queries / loop;
    the loop's invariant holds initially, hence `runCmd` ends with all three lists empty -/
namespace Pm.Redfish

def mk (cmd : Cmd) (t : Nat) : PM := { cmd := cmd, plug := t, output := true, waitState := false }

def m0 (st : St) : M := { active := [], delayed := [], waiting := [], st := st, out := [] }

/-- the target loop of `stat_cmd` / `power_cmd`, verbatim -/
def enqStep (c : Cfg) (cmd : Cmd) (m : M) (t : Nat) : M :=
  match lookup c t with
  | none => { m with out := m.out ++ [.unknown t] }
  | some pc =>
    let pm : PM := { cmd, plug := t, output := true, waitState := false }
    if pc.parent.isSome then { m with waiting := m.waiting ++ [pm] } else { m with active := m.active ++ [pm] }

def enq (c : Cfg) (st : St) (cmd : Cmd) (targets : List Nat) : M := targets.foldl (enqStep c cmd) (m0 st)

def phasedB (c : Cfg) (cmd : Cmd) (m1 : M) : Bool :=
  let all := m1.active ++ m1.waiting
  cmd == .on && all.length > 1 && all.any fun a => all.any fun b => isDesc c a.plug b.plug

def rootStep (c : Cfg) (m : M) (pm : PM) : M :=
  let root := rootOf c pm.plug
  if plugActive m root pm.cmd then m
  else { m with active := m.active ++ [{ cmd := .stat, plug := root, output := false, waitState := false }] }

def afterPhased (c : Cfg) (cmd : Cmd) (m1 : M) : M :=
  if phasedB c cmd m1 then
    { m1 with out := m1.out ++ (m1.active ++ m1.waiting).map (fun pm => Line.phased pm.plug), active := [], waiting := [] }
  else m1

def setup (c : Cfg) (cmd : Cmd) (m1 : M) : M :=
  if m1.waiting.isEmpty then m1 else
  (afterPhased c cmd m1).waiting.foldl (rootStep c) (afterPhased c cmd m1)

def fuelOf (c : Cfg) (targets : List Nat) : Nat := 4 * (c.plugs.length + targets.length) + 8

theorem runCmd_eq (c : Cfg) (st : St) (cmd : Cmd) (targets : List Nat) :
    runCmd c st cmd targets =
      (let m3 := runLoop c (fuelOf c targets) (setup c cmd (enq c st cmd targets))
       (m3.out, m3.st, isDone m3)) := by
  rfl

def isRootT (c : Cfg) (t : Nat) : Bool := known c t && (parentOf c t).isNone
def isChildT (c : Cfg) (t : Nat) : Bool := (parentOf c t).isSome

theorem enq_fold (c : Cfg) (cmd : Cmd) (ts : List Nat) (m : M) :
    ts.foldl (enqStep c cmd) m =
      { m with active := m.active ++ (ts.filter (isRootT c)).map (mk cmd),
               waiting := m.waiting ++ (ts.filter (isChildT c)).map (mk cmd),
               out := m.out ++ (ts.filter (fun t => !known c t)).map Line.unknown } := by
  induction ts generalizing m with
  | nil => simp
  | cons t ts ih =>
    rw [List.foldl_cons, ih]
    unfold enqStep
    cases hl : lookup c t with
    | none => simp [isRootT, isChildT, known, parentOf, hl]
    | some pc =>
      cases hp : pc.parent with
      | none => simp [isRootT, isChildT, known, parentOf, hl, hp, mk]
      | some q => simp [isRootT, isChildT, known, parentOf, hl, hp, mk]

theorem enq_eq (c : Cfg) (st : St) (cmd : Cmd) (ts : List Nat) :
    enq c st cmd ts =
      { active := (ts.filter (isRootT c)).map (mk cmd), delayed := [],
        waiting := (ts.filter (isChildT c)).map (mk cmd), st := st,
        out := (ts.filter (fun t => !known c t)).map Line.unknown } := by
  unfold enq; rw [enq_fold]; simp [m0]

theorem root_fold (c : Cfg) (ws : List PM) (m : M) :
    ∃ qs, ws.foldl (rootStep c) m = { m with active := m.active ++ qs } ∧
      (∀ q ∈ qs, ∃ w ∈ ws, q = query (rootOf c w.plug)) ∧
      (∀ w ∈ ws, plugActive { m with active := m.active ++ qs } (rootOf c w.plug) w.cmd = true) := by
  induction ws generalizing m with
  | nil => exact ⟨[], by simp⟩
  | cons w ws ih =>
    rw [List.foldl_cons]
    by_cases ha : plugActive m (rootOf c w.plug) w.cmd = true
    · have e : rootStep c m w = m := by simp [rootStep, ha]
      rw [e]
      obtain ⟨qs, e1, h1, h2⟩ := ih m
      refine ⟨qs, e1, ?_, ?_⟩
      · intro q hq; obtain ⟨w', hw', r⟩ := h1 q hq; exact ⟨w', List.mem_cons_of_mem _ hw', r⟩
      · intro w' hw'
        rcases List.mem_cons.1 hw' with rfl | hw'
        · exact plugActive_mono m _ _ qs _ rfl ha
        · exact h2 w' hw'
    · have e : rootStep c m w = { m with active := m.active ++ [query (rootOf c w.plug)] } := by
        simp [rootStep, ha, query]
      rw [e]
      obtain ⟨qs, e1, h1, h2⟩ := ih { m with active := m.active ++ [query (rootOf c w.plug)] }
      refine ⟨query (rootOf c w.plug) :: qs, ?_, ?_, ?_⟩
      · rw [e1]; simp
      · intro q hq
        rcases List.mem_cons.1 hq with rfl | hq
        · exact ⟨w, by simp, rfl⟩
        · obtain ⟨w', hw', r⟩ := h1 q hq; exact ⟨w', List.mem_cons_of_mem _ hw', r⟩
      · intro w' hw'
        rcases List.mem_cons.1 hw' with rfl | hw'
        · unfold plugActive; simp [query]
        · have := h2 w' hw'
          simpa using this


/-- as `root_fold`, recording that a root is only queried when it was not "active" -/
theorem root_fold' (c : Cfg) (ws : List PM) (m : M) :
    ∃ qs, ws.foldl (rootStep c) m = { m with active := m.active ++ qs } ∧
      (∀ q ∈ qs, ∃ w ∈ ws, q = query (rootOf c w.plug) ∧ plugActive m (rootOf c w.plug) w.cmd = false) := by
  induction ws generalizing m with
  | nil => exact ⟨[], by simp⟩
  | cons w ws ih =>
    rw [List.foldl_cons]
    by_cases ha : plugActive m (rootOf c w.plug) w.cmd = true
    · have e : rootStep c m w = m := by simp [rootStep, ha]
      rw [e]
      obtain ⟨qs, e1, h1⟩ := ih m
      refine ⟨qs, e1, ?_⟩
      intro q hq; obtain ⟨w', hw', r⟩ := h1 q hq; exact ⟨w', List.mem_cons_of_mem _ hw', r⟩
    · have e : rootStep c m w = { m with active := m.active ++ [query (rootOf c w.plug)] } := by
        simp [rootStep, ha, query]
      rw [e]
      obtain ⟨qs, e1, h1⟩ := ih { m with active := m.active ++ [query (rootOf c w.plug)] }
      refine ⟨query (rootOf c w.plug) :: qs, ?_, ?_⟩
      · rw [e1]; simp
      · intro q hq
        rcases List.mem_cons.1 hq with rfl | hq
        · exact ⟨w, by simp, rfl, by simpa using ha⟩
        · obtain ⟨w', hw', r2, r3⟩ := h1 q hq
          refine ⟨w', List.mem_cons_of_mem _ hw', r2, ?_⟩
          cases hpa : plugActive m (rootOf c w'.plug) w'.cmd
          · rfl
          · have := plugActive_mono m _ _ [query (rootOf c w.plug)]
              { m with active := m.active ++ [query (rootOf c w.plug)] } rfl hpa
            rw [this] at r3; cases r3

theorem depth_lt {c : Cfg} (hw : WF c = true) {p : Nat} (h : known c p = true) : depth c p < c.plugs.length :=
  WF_len hw h

theorem SInv_setup' {c : Cfg} (hw : WF c = true) (cmd : Cmd) (m1 : M)
    (hA : ∀ i ∈ m1.active, i.cmd = cmd ∧ i.waitState = false) (hD : m1.delayed = [])
    (hW : ∀ w ∈ m1.waiting, w.cmd = cmd ∧ w.waitState = false ∧ ∃ q, parentOf c w.plug = some q) :
    SInv c (2 * c.plugs.length + 2) cmd (setup c cmd m1) := by
  unfold setup
  split
  · -- nothing waits
    rename_i hemp
    rw [List.isEmpty_iff] at hemp
    constructor
    · intro i hi
      rw [hD] at hi; simp at hi
      have := rem_le i
      have := hA i hi
      exact ⟨by omega, Or.inr ⟨this.1, by simp [this.2]⟩⟩
    · intro w hwm; rw [hemp] at hwm; simp at hwm
    · intro w hwm; rw [hemp] at hwm; simp at hwm
  · unfold afterPhased
    split
    · -- refused: nothing left
      constructor
      · intro i hi; simp [hD] at hi
      · intro w hwm; simp at hwm
      · intro w hwm; simp at hwm
    · obtain ⟨qs, e, h1, h2⟩ := root_fold c m1.waiting m1
      rw [e]
      constructor
      · intro i hi
        have := rem_le i
        refine ⟨by omega, ?_⟩
        simp only [List.mem_append, hD] at hi
        rcases hi with (hi | hi) | hi
        · have := hA i hi; exact Or.inr ⟨this.1, by simp [this.2]⟩
        · obtain ⟨w, _, rfl⟩ := h1 i hi; exact Or.inl rfl
        · simp at hi
      · intro w hwm
        have := hW w hwm
        exact ⟨Or.inr this.1, this.2.1⟩
      · intro w hwm
        obtain ⟨_, _, hq⟩ := hW w hwm
        have hr := rootOf_spec hw w.plug hq
        obtain ⟨i, hi, hip⟩ := plugActive_item (h2 w hwm)
        refine ⟨i, by simp only [hD, List.append_nil] at hi ⊢; exact hi, hip ▸ hr.1, ?_⟩
        have := rem_le i
        have hk : known c w.plug = true := by obtain ⟨q, hq⟩ := hq; exact parentOf_known hq
        have := depth_lt hw hk
        omega

theorem enq_props (c : Cfg) (st : St) (cmd : Cmd) (ts : List Nat) :
    (∀ i ∈ (enq c st cmd ts).active, i.cmd = cmd ∧ i.waitState = false) ∧ (enq c st cmd ts).delayed = [] ∧
    (∀ w ∈ (enq c st cmd ts).waiting, w.cmd = cmd ∧ w.waitState = false ∧ ∃ q, parentOf c w.plug = some q) := by
  rw [enq_eq]
  refine ⟨?_, rfl, ?_⟩
  · intro i hi; simp at hi; obtain ⟨t, _, rfl⟩ := hi; exact ⟨rfl, rfl⟩
  · intro w hwm
    simp at hwm
    obtain ⟨t, ht, rfl⟩ := hwm
    refine ⟨rfl, rfl, ?_⟩
    have := ht.2
    unfold isChildT at this
    cases hp : parentOf c t with
    | none => simp [hp] at this
    | some q => exact ⟨q, by simp [mk, hp]⟩

theorem SInv_setup {c : Cfg} (hw : WF c = true) (st : St) (cmd : Cmd) (ts : List Nat) :
    SInv c (2 * c.plugs.length + 2) cmd (setup c cmd (enq c st cmd ts)) :=
  SInv_setup' hw cmd _ (enq_props c st cmd ts).1 (enq_props c st cmd ts).2.1 (enq_props c st cmd ts).2.2

theorem fuel_enough (c : Cfg) (ts : List Nat) : 2 * c.plugs.length + 2 < fuelOf c ts := by
  unfold fuelOf; omega

theorem runCmd_done {c : Cfg} (hw : WF c = true) (st : St) (cmd : Cmd) (ts : List Nat) :
    (runCmd c st cmd ts).2.2 = true := by
  rw [runCmd_eq]
  exact runLoop_done hw _ _ _ (SInv_setup hw st cmd ts) (fuel_enough c ts)

end Pm.Redfish
