import Pm.Dev2Timer
/-! Device half of the end-to-end composition for C02 (`Pm/EndToEnd.lean`).

    1. counting: over a whole `dev_post_poll` pass, for every client, (completions reported) + (actions still queued) is
       what was queued before (`postPoll_count`; from `postPoll_fifo`);
    2. where a `success` completion can come from: only from the branch of `_process_action` in which the statement the
       head action stood at finished, the action had not failed, and there was no statement left (`bodyStep_success`,
       `processActionF_success`); everything the time-out branch and the error branch report is a failure;
    3. the last word: once no action of a client is left in the queue, the last callback the pass addressed to that
       client is a completion (`postPoll_lastFin`) — nothing is written behind the terminal reply. -/
namespace Pm.Dev2.E2E
open Pm.Dev2 Pm.Dev2.Login2 Pm.Dev2.Timer

/-! ## 1. counting -/

theorem count_finishesOf (cid : Nat) (l : List Out) : (finishesOf l).count cid = fcount cid l := by
  induction l with
  | nil => rfl
  | cons x r ih =>
    cases x with
    | finish c e =>
      have e1 : finishesOf (Out.finish c e :: r) = c :: finishesOf r := by simp [finishesOf]
      have e2 : fcount cid (Out.finish c e :: r) = (if c == cid then 1 else 0) + fcount cid r := by
        simp [fcount, List.countP_cons]; omega
      rw [e1, e2, List.count_cons, ih]; omega
    | sent _ => simpa [fcount, List.countP_cons, finishesOf] using ih
    | telemetry _ _ => simpa [fcount, List.countP_cons, finishesOf] using ih
    | diag _ _ => simpa [fcount, List.countP_cons, finishesOf] using ih
    | rxMismatch _ _ => simpa [fcount, List.countP_cons, finishesOf] using ih
    | abortAssert _ => simpa [fcount, List.countP_cons, finishesOf] using ih

theorem count_clientIds (cid : Nat) (hc : cid ≠ 0) (l : List Action) : (clientIds l).count cid = qcount cid l := by
  induction l with
  | nil => rfl
  | cons a r ih =>
    rw [clientIds_cons, qcount_cons, List.count_append, ih]
    by_cases h0 : a.clientId = 0
    · simp [h0]; exact fun e => hc e.symm
    · by_cases h1 : a.clientId = cid
      · subst h1; simp [h0]
      · have : (a.clientId == cid) = false := by simpa using h1
        simp [h0, this, h1]

/-- **conservation over a whole `dev_post_poll` pass**: completions reported for `cid` plus actions of `cid` still queued
    is the number of actions of `cid` queued before — through `_handle_ready_device`, `_reconnect` (which drops a login
    action at the head silently: hence `NoClientLogin`), the ping and `_process_action` -/
theorem postPoll_count (d : Dev) (env : Env) (o : Oracle) (h : NoClientLogin d) (cid : Nat) (hc : cid ≠ 0) :
    fcount cid (postPoll d env o).2.2.1 + qcount cid (postPoll d env o).1.dev.acts = qcount cid d.acts := by
  have := congrArg (List.count cid) (postPoll_fifo d env o h).2
  rw [List.count_append, count_finishesOf, count_clientIds cid hc, count_clientIds cid hc] at this
  exact this

/-! ## 2. where `success` comes from -/

/-- the iteration ran the head action `a` and the script came to its end: the device is connected, the action within
    its time-out, the statement interpreter reported the statement the action stood at finished (every `expect` on the
    way matched, every `send` drained, every `delay` elapsed), no assertion fired, the action was not failed (`ifon`/
    `ifoff` on an unknown state), and stepping on left no statement in any block -/
def Completes (c : CS) (o : Oracle) (a : Action) : Prop :=
  speaker c = some a ∧
  hasAbort (innerLoop c.env.now (loopBound a) { c.dev with wake := none } a o []).out = false ∧
  (innerLoop c.env.now (loopBound a) { c.dev with wake := none } a o []).finished = true ∧
  (innerLoop c.env.now (loopBound a) { c.dev with wake := none } a o []).act.errnum = .success ∧
  (advance (innerLoop c.env.now (loopBound a) { c.dev with wake := none } a o []).act).exec = []

theorem timeoutErr_ne_success (d : Dev) : Fd.timeoutErr d ≠ .success := by
  unfold Fd.timeoutErr; split
  · simp
  · split <;> simp

theorem mem_headFin {a : Action} {e : ActErr} {x : Out} (h : x ∈ headFin a e) : x = Out.finish a.clientId e ∧ a.clientId ≠ 0 := by
  unfold headFin at h
  split at h
  · rename_i h0; exact ⟨by simpa using h, by simpa using h0⟩
  · simp at h

theorem mem_restFin {rest : List Action} {e : ActErr} {x : Out} (h : x ∈ restFin rest e) :
    ∃ b ∈ rest, b.clientId ≠ 0 ∧ x = Out.finish b.clientId (if e == .expfail then .abort else e) := by
  unfold restFin at h
  rw [List.mem_map] at h
  obtain ⟨b, hb, rfl⟩ := h
  rw [List.mem_filter] at hb
  exact ⟨b, hb.1, by simpa using hb.2, rfl⟩

/-- what the error branch reports is never a success -/
theorem failAll_noSuccess (rest : List Action) (c : CS) (a : Action) (o : Oracle) (out : List Out) (tmo : Option Time)
    (he : a.errnum ≠ .success) (cid : Nat) (h : Out.finish cid .success ∈ (failAll rest c a o out tmo).2.2.1) :
    Out.finish cid .success ∈ out := by
  rw [(Timer.failAll_out rest c a o out tmo).1] at h
  rcases List.mem_append.mp h with h | h
  · exact h
  · rcases List.mem_append.mp h with h | h
    · have := (mem_headFin h).1
      simp only [Out.finish.injEq] at this
      exact absurd this.2.symm he
    · obtain ⟨b, _, _, hx⟩ := mem_restFin h
      simp only [Out.finish.injEq] at hx
      have := hx.2
      split at this
      · cases this
      · exact absurd this.symm he

theorem teleMem_noFin (cid : Nat) (pre : String) (bs : Bytes) (g : Nat) (e : ActErr) : Out.finish g e ∉ teleMem cid pre bs := by
  intro h
  have := teleMem_noFinish cid pre bs _ h
  simp [isFinish] at this

theorem timeoutTele_noFin (d : Dev) (a : Action) (g : Nat) (e : ActErr) : Out.finish g e ∉ Fd.timeoutTele d a := by
  unfold Fd.timeoutTele
  split
  · split
    · simp
    · exact teleMem_noFin _ _ _ _ _
  · simp

/-- what the time-out branch reports is never a success -/
theorem onTimeout_noSuccess (rest : List Action) (c : CS) (a : Action) (o : Oracle) (out : List Out) (tmo : Option Time)
    (cid : Nat) (h : Out.finish cid .success ∈ (onTimeout rest c a o out tmo).2.2.1) : Out.finish cid .success ∈ out := by
  rw [Fd.onTimeout_eq_failAll] at h
  have := failAll_noSuccess rest c { a with errnum := Fd.timeoutErr c.dev } o (out ++ Fd.timeoutTele c.dev a) tmo
    (timeoutErr_ne_success c.dev) cid h
  rcases List.mem_append.mp this with h1 | h1
  · exact h1
  · exact absurd h1 (timeoutTele_noFin _ _ _ _)

theorem innerLoop_noFin (now : Time) (fuel : Nat) (d : Dev) (a : Action) (o : Oracle) (g : Nat) (e : ActErr) :
    Out.finish g e ∉ (innerLoop now fuel d a o []).out := by
  intro h
  have := innerLoop_noFinish now fuel d a o [] (by simp) _ h
  simp [isFinish] at this

/-- **one iteration of `_process_action`'s loop reports a success only for a script that ran to its end**: a
    `finish cid success` in the output after the iteration was there before, or the iteration is a completing run
    (`Completes`) of the head action, which belongs to client `cid` -/
theorem bodyStep_success (c : CS) (o : Oracle) (out : List Out) (tmo : Option Time) (cid : Nat)
    (h : Out.finish cid .success ∈ (bodyStep c o out tmo).1.2.2.1) :
    Out.finish cid .success ∈ out ∨ ∃ a, Completes c o a ∧ a.clientId = cid := by
  rcases bodyStep_cases c o out tmo with ⟨_, h2⟩ | ⟨a0, rest, _, _, h2⟩ | ⟨a0, rest, left, _, _, _, h2⟩ | ⟨a0, rest, left, _, hsp, _, h2⟩
  · rw [h2] at h; exact Or.inl h
  · rw [h2] at h; exact Or.inl (onTimeout_noSuccess _ _ _ _ _ _ cid h)
  · rw [h2] at h; exact Or.inl h
  · rw [h2] at h
    unfold onRunStep at h
    dsimp only at h
    have hIC := innerLoop_clientId c.env.now (loopBound (stamp c.env.now a0)) { c.dev with wake := none } (stamp c.env.now a0) o []
    have hNF := innerLoop_noFin c.env.now (loopBound (stamp c.env.now a0)) { c.dev with wake := none } (stamp c.env.now a0) o cid .success
    have hC : Completes c o (stamp c.env.now a0) ↔
        (hasAbort (innerLoop c.env.now (loopBound (stamp c.env.now a0)) { c.dev with wake := none } (stamp c.env.now a0) o []).out = false ∧
         (innerLoop c.env.now (loopBound (stamp c.env.now a0)) { c.dev with wake := none } (stamp c.env.now a0) o []).finished = true ∧
         (innerLoop c.env.now (loopBound (stamp c.env.now a0)) { c.dev with wake := none } (stamp c.env.now a0) o []).act.errnum = .success ∧
         (advance (innerLoop c.env.now (loopBound (stamp c.env.now a0)) { c.dev with wake := none } (stamp c.env.now a0) o []).act).exec = []) := by
      unfold Completes; simp [hsp]
    generalize innerLoop c.env.now (loopBound (stamp c.env.now a0)) { c.dev with wake := none } (stamp c.env.now a0) o [] = r at *
    have noF : Out.finish cid .success ∈ out ++ r.out → Out.finish cid .success ∈ out := by
      intro hx; rcases List.mem_append.mp hx with hx | hx
      · exact hx
      · exact absurd hx hNF
    split at h
    · exact Or.inl (noF h)
    · rename_i hab
      split at h
      · exact Or.inl (noF h)
      · rename_i hfin
        split at h
        · rename_i herr
          split at h
          · rename_i hemp
            rcases List.mem_append.mp h with h | h
            · exact Or.inl (noF h)
            · split at h
              · simp only [List.mem_singleton, Out.finish.injEq, and_true] at h
                right
                refine ⟨stamp c.env.now a0, hC.mpr ⟨by simpa using hab, by simpa using hfin, by simpa using herr, by simpa using hemp⟩, ?_⟩
                rw [h, advance_clientId, hIC]
              · simp at h
          · exact Or.inl (noF h)
        · rename_i herr
          exact Or.inl (noF (failAll_noSuccess _ _ _ _ _ _ (by simpa using herr) cid h))

/-- the same for a whole run of `_process_action`: every success it adds to the output was added by a completing
    iteration — one of the states `iterStates` lists, in which the head action belongs to client `cid` -/
theorem processActionF_success (fuel : Nat) (c : CS) (o : Oracle) (out : List Out) (tmo : Option Time) (cid : Nat)
    (h : Out.finish cid .success ∈ (processActionF fuel c o out tmo).2.2.1) :
    Out.finish cid .success ∈ out ∨ ∃ s ∈ iterStates fuel c o out tmo, ∃ a, Completes s.1 s.2 a ∧ a.clientId = cid := by
  induction fuel generalizing c o out tmo with
  | zero =>
    simp only [processActionF, List.mem_append, List.mem_singleton] at h
    rcases h with h | h
    · exact Or.inl h
    · cases h
  | succ n ih =>
    rw [processActionF_succ] at h
    unfold andThen at h
    unfold iterStates
    cases hb : (bodyStep c o out tmo).2
    · rw [hb] at h
      simp only [Bool.false_eq_true, ↓reduceIte] at h ⊢
      rcases bodyStep_success c o out tmo cid h with h1 | ⟨a, ha, hc⟩
      · exact Or.inl h1
      · exact Or.inr ⟨(c, o), by simp, a, ha, hc⟩
    · rw [hb] at h
      simp only [↓reduceIte] at h ⊢
      rcases ih _ _ _ _ h with h1 | ⟨s, hs, a, ha, hc⟩
      · rcases bodyStep_success c o out tmo cid h1 with h2 | ⟨a, ha, hc⟩
        · exact Or.inl h2
        · exact Or.inr ⟨(c, o), by simp, a, ha, hc⟩
      · exact Or.inr ⟨s, by simp [hs], a, ha, hc⟩

/-- … and for a whole `dev_post_poll` pass: `postPollPre d env` is the device as `_handle_ready_device`, `_reconnect` and
    the ping leave it, the state in which `_process_action` starts -/
theorem postPoll_success (d : Dev) (env : Env) (o : Oracle) (cid : Nat)
    (h : Out.finish cid .success ∈ (postPoll d env o).2.2.1) :
    ∃ s ∈ iterStates (passFuel (postPollPre d env).1.dev) (postPollPre d env).1 o [] (postPollPre d env).2,
      ∃ a, Completes s.1 s.2 a ∧ a.clientId = cid := by
  rw [Login2.postPoll_eq] at h
  unfold Login2.postPoll' at h
  split at h
  · simp at h
  · unfold processAction at h
    rcases processActionF_success _ _ _ _ _ cid h with h1 | h1
    · simp at h1
    · exact h1

/-! ### … and a completing iteration is a run of the C08 reference to the end of the program -/

open Pm.Dev2.Interp in
/-- **`Completes` in terms of the loop-free reference of C08.**  If the head action is well-formed (`Interp.Inv`: true of a
    fresh action, kept by every pass, restored by `_rewind_action`: `C08_initial`, `C08_refines`, `C08_rewind`) and the
    iteration completes it, then the reference program its context stack denotes (`abs R dp a.exec`: what is left of the
    unrolled script) runs, on the same device state, oracle and clock, to status `done` with nothing left to execute — every
    remaining `send` written, every remaining `expect` matched, every `delay` elapsed. -/
theorem completes_reference (R : Bool) (dp : List Plug) (c : CS) (o : Oracle) (a : Action) (hc : Completes c o a)
    (hinv : Interp.Inv R dp c.dev a) (hne : a.exec ≠ []) :
    ∃ k, (frun c.env.now k { c.dev with wake := none } (info a) o (abs R dp a.exec) []).status = .done ∧
         (frun c.env.now k { c.dev with wake := none } (info a) o (abs R dp a.exec) []).f.rem = [] := by
  obtain ⟨_, hab, hfin, herr, hemp⟩ := hc
  have hinv' : Interp.Inv R dp { c.dev with wake := none } a := ⟨hinv.ranged, hinv.plugs, hinv.ok, hinv.err⟩
  obtain ⟨j, a1, h1, h2, h3, _, _, _, h7, h8⟩ :=
    innerLoop_trip R dp c.env.now (loopBound a) { c.dev with wake := none } a o [] hinv' hne (topDepth_le a)
  rw [h8] at hab hfin herr hemp
  simp only [List.nil_append] at hab hfin herr hemp
  have hm := mstep_of_nopush c.env.now { c.dev with wake := none } a1 o h7
  simp only [hab, hfin, herr, Bool.false_eq_true, ↓reduceIte, Bool.not_true, beq_self_eq_true] at hm
  have hrun : mrun c.env.now (2 + j) { c.dev with wake := none } a o [] =
      ⟨(processStmt { c.dev with wake := none } a1 o c.env.now).dev, advance (processStmt { c.dev with wake := none } a1 o c.env.now).act,
       (processStmt { c.dev with wake := none } a1 o c.env.now).oracle, [] ++ (processStmt { c.dev with wake := none } a1 o c.env.now).out, .done⟩ := by
    rw [h1 2 [], mrun_succ_running c.env.now 1 _ a1 o [] h3 (by rw [hm]), hm]
    exact mrun_done _ _ _ _ _ _ hemp
  obtain ⟨k, _, hsim⟩ := refines_run R dp c.env.now (2 + j) { c.dev with wake := none } a o [] hinv'
  rw [hrun] at hsim
  refine ⟨k, hsim.status, ?_⟩
  have := (hsim.cont (Or.inr (Or.inl rfl))).1
  simp only at this
  rw [this, hemp]
  rfl

/-! ## 3. the last word -/

/-- the callbacks addressed to client `cid`, in order -/
def forCid (cid : Nat) (l : List Out) : List Out := l.filter fun x => outCid x == some cid

@[simp] theorem forCid_append (cid : Nat) (l m : List Out) : forCid cid (l ++ m) = forCid cid l ++ forCid cid m := by
  simp [forCid]
@[simp] theorem forCid_nil (cid : Nat) : forCid cid [] = [] := rfl

/-- the last callback addressed to `cid`, if there is any, is a completion -/
def LastFin (cid : Nat) (l : List Out) : Prop := ∀ x, (forCid cid l).getLast? = some x → isFinish x = true

/-- the invariant of `_process_action`'s loop: a client none of whose actions is (still) queued has had a completion as
    the last callback — or no callback at all -/
def Closed (acts : List Action) (out : List Out) : Prop := ∀ cid, cid ≠ 0 → qcount cid acts = 0 → LastFin cid out

theorem forCid_of_addr (cid a : Nat) (l : List Out) (h : ∀ x ∈ l, ∀ c, outCid x = some c → c = a) (hne : cid ≠ a) :
    forCid cid l = [] := by
  unfold forCid
  rw [List.filter_eq_nil_iff]
  intro x hx hc
  exact hne ((h x hx cid (by simpa using hc)).symm ▸ rfl)

/-- one step: the output grows by `add`, the queue becomes `acts'`; a client with nothing queued afterwards either had
    nothing queued before and is not addressed by `add`, or the last callback `add` addresses to it is a completion -/
theorem Closed.step {acts acts' : List Action} {out add : List Out} (h : Closed acts out)
    (hs : ∀ cid, cid ≠ 0 → qcount cid acts' = 0 →
      (qcount cid acts = 0 ∧ forCid cid add = []) ∨ ∃ x, (forCid cid add).getLast? = some x ∧ isFinish x = true) :
    Closed acts' (out ++ add) := by
  intro cid hc hq x hx
  rw [forCid_append, List.getLast?_append] at hx
  rcases hs cid hc hq with ⟨h0, hn⟩ | ⟨y, hy, hf⟩
  · rw [hn] at hx
    simp only [List.getLast?_nil, Option.none_or] at hx
    exact h cid hc h0 x hx
  · rw [hy] at hx
    simp only [Option.some_or, Option.some.injEq] at hx
    exact hx ▸ hf

theorem qcount_pos_of_mem {cid : Nat} {acts : List Action} {b : Action} (hb : b ∈ acts) (h : b.clientId = cid) :
    0 < qcount cid acts := by
  unfold qcount
  exact List.countP_pos_iff.mpr ⟨b, hb, by simpa using h⟩

theorem qcount_zero_iff {cid : Nat} {acts : List Action} : qcount cid acts = 0 ↔ ∀ b ∈ acts, b.clientId ≠ cid := by
  unfold qcount
  rw [List.countP_eq_zero]
  simp

/-- the completions of the error branch, as far as they are addressed to `cid`: if `cid` owns the head or anything behind
    it, the last of them is a completion; otherwise there is none -/
theorem failFins_last (a : Action) (rest : List Action) (e e' : ActErr) (cid : Nat) (hc : cid ≠ 0) :
    (qcount cid (a :: rest) = 0 ∧ forCid cid (headFin a e ++ (rest.filter (·.clientId != 0)).map fun b => Out.finish b.clientId e') = []) ∨
    ∃ x, (forCid cid (headFin a e ++ (rest.filter (·.clientId != 0)).map fun b => Out.finish b.clientId e')).getLast? = some x ∧
      isFinish x = true := by
  have hall : ∀ x ∈ forCid cid (headFin a e ++ (rest.filter (·.clientId != 0)).map fun b => Out.finish b.clientId e'), isFinish x = true := by
    intro x hx
    have hx := (List.mem_filter.mp hx).1
    rcases List.mem_append.mp hx with hx | hx
    · rw [(mem_headFin hx).1]; rfl
    · obtain ⟨b, _, rfl⟩ := List.mem_map.mp hx; rfl
  by_cases hq : qcount cid (a :: rest) = 0
  · left
    refine ⟨hq, ?_⟩
    rw [qcount_zero_iff] at hq
    unfold forCid
    rw [List.filter_eq_nil_iff]
    intro x hx hcx
    rcases List.mem_append.mp hx with hx | hx
    · rw [(mem_headFin hx).1] at hcx
      exact hq a (by simp) (by simpa [outCid] using hcx)
    · obtain ⟨b, hb, rfl⟩ := List.mem_map.mp hx
      exact hq b (by simp [(List.mem_filter.mp hb).1]) (by simpa [outCid] using hcx)
  · right
    have hne : forCid cid (headFin a e ++ (rest.filter (·.clientId != 0)).map fun b => Out.finish b.clientId e') ≠ [] := by
      obtain ⟨b, hb, hbc⟩ : ∃ b ∈ a :: rest, b.clientId = cid := by
        have hp : 0 < qcount cid (a :: rest) := Nat.pos_of_ne_zero hq
        unfold qcount at hp
        obtain ⟨b, hb, hbc⟩ := List.countP_pos_iff.mp hp
        exact ⟨b, hb, by simpa using hbc⟩
      intro hnil
      unfold forCid at hnil
      rw [List.filter_eq_nil_iff] at hnil
      rcases List.mem_cons.mp hb with rfl | hb
      · refine hnil (Out.finish b.clientId e) (List.mem_append_left _ ?_) (by simp [outCid, hbc])
        unfold headFin
        simp [hbc, hc]
      · refine hnil (Out.finish b.clientId e') (List.mem_append_right _ (List.mem_map.mpr ⟨b, ?_, rfl⟩)) (by simp [outCid, hbc])
        exact List.mem_filter.mpr ⟨hb, by simp [hbc, hc]⟩
    obtain ⟨x, hx⟩ : ∃ x, (forCid cid (headFin a e ++ (rest.filter (·.clientId != 0)).map fun b => Out.finish b.clientId e')).getLast? = some x := by
      cases hl : (forCid cid (headFin a e ++ (rest.filter (·.clientId != 0)).map fun b => Out.finish b.clientId e')).getLast? with
      | none => exact absurd (List.getLast?_eq_none_iff.mp hl) hne
      | some x => exact ⟨x, rfl⟩
    exact ⟨x, hx, hall x (List.mem_of_getLast? hx)⟩

/-- what the error branch leaves in the queue belongs to no client -/
theorem failAll_closed (rest : List Action) (c : CS) (a : Action) (o : Oracle) (out : List Out) (tmo : Option Time)
    (h : Closed (a :: rest) out) :
    Closed (failAll rest c a o out tmo).1.dev.acts (failAll rest c a o out tmo).2.2.1 := by
  rw [(Timer.failAll_out rest c a o out tmo).1]
  apply h.step
  intro cid hc _
  exact failFins_last a rest a.errnum _ cid hc

/-- callbacks addressed to the owner of the head, while an action of that owner stays at the head -/
theorem Closed.addr_step {a b : Action} {rest : List Action} {out add : List Out} (h : Closed (a :: rest) out)
    (hadd : ∀ x ∈ add, ∀ c, outCid x = some c → c = a.clientId) (hb : b.clientId = a.clientId) :
    Closed (b :: rest) (out ++ add) := by
  apply h.step
  intro cid hc hq
  left
  have hq' : qcount cid (a :: rest) = 0 := by rw [qcount_cons_congr cid a b rest hb.symm]; exact hq
  refine ⟨hq', forCid_of_addr cid a.clientId add hadd ?_⟩
  intro e
  rw [qcount_zero_iff] at hq'
  exact hq' a (by simp) e.symm

theorem Closed.congr_head {a b : Action} {rest : List Action} {out : List Out} (h : Closed (a :: rest) out)
    (hb : b.clientId = a.clientId) : Closed (b :: rest) out := by
  have := h.addr_step (add := []) (by simp) hb
  simpa using this

theorem timeoutTele_addr (d : Dev) (a : Action) : ∀ x ∈ Fd.timeoutTele d a, ∀ c, outCid x = some c → c = a.clientId := by
  unfold Fd.timeoutTele
  split
  · split
    · intro x hx c hc
      simp only [List.mem_singleton] at hx
      subst hx
      simpa [outCid] using hc.symm
    · exact teleMem_addr _ _ _
  · simp

theorem onTimeout_closed (rest : List Action) (c : CS) (a : Action) (o : Oracle) (out : List Out) (tmo : Option Time)
    (h : Closed (a :: rest) out) :
    Closed (onTimeout rest c a o out tmo).1.dev.acts (onTimeout rest c a o out tmo).2.2.1 := by
  rw [Fd.onTimeout_eq_failAll]
  exact failAll_closed _ _ _ _ _ _ (h.addr_step (timeoutTele_addr c.dev a) rfl)

theorem onRunStep_closed (rest : List Action) (c : CS) (a : Action) (o : Oracle) (out : List Out) (tmo : Option Time) (left : Time)
    (h : Closed (a :: rest) out) :
    Closed (onRunStep rest c a o out tmo left).1.1.dev.acts (onRunStep rest c a o out tmo left).1.2.2.1 := by
  unfold onRunStep
  dsimp only
  have hF := innerLoop_frame (fun _ => false) c.env.now (loopBound a) { c.dev with wake := none } a o [] (fun _ _ _ _ => rfl) (by simp)
  generalize innerLoop c.env.now (loopBound a) { c.dev with wake := none } a o [] = r at *
  have h1 : Closed (r.act :: rest) (out ++ r.out) := h.addr_step hF.addr hF.cid
  split
  · exact h1
  · split
    · exact h1
    · split
      · split
        · -- the action is complete
          have hcid : (advance r.act).clientId = a.clientId := by rw [advance_clientId, hF.cid]
          apply h1.step
          intro cid hc hq
          by_cases hown : a.clientId = cid
          · right
            refine ⟨Out.finish cid .success, ?_, rfl⟩
            rw [hcid, hown]
            simp [forCid, outCid, hc]
          · left
            refine ⟨?_, ?_⟩
            · rw [qcount_cons]
              have : (r.act.clientId == cid) = false := by rw [hF.cid]; simpa using hown
              simp [this, hq]
            · rw [hcid]
              split
              · simp [forCid, outCid, hown]
              · rfl
        · exact h1.congr_head (advance_clientId r.act)
      · exact failAll_closed _ _ _ _ _ _ h1

theorem bodyStep_closed (c : CS) (o : Oracle) (out : List Out) (tmo : Option Time) (h : Closed c.dev.acts out) :
    Closed (bodyStep c o out tmo).1.1.dev.acts (bodyStep c o out tmo).1.2.2.1 := by
  rcases bodyStep_cases c o out tmo with ⟨_, h2⟩ | ⟨a0, rest, ha, _, h2⟩ | ⟨a0, rest, left, ha, _, _, h2⟩ | ⟨a0, rest, left, ha, _, _, h2⟩
  · rw [h2]; exact h
  · rw [h2]; rw [ha] at h
    exact onTimeout_closed _ _ _ _ _ _ (h.congr_head (stamp_clientId _ _))
  · rw [h2]; rw [ha] at h
    exact h.congr_head (stamp_clientId _ _)
  · rw [h2]; rw [ha] at h
    exact onRunStep_closed _ _ _ _ _ _ _ (h.congr_head (stamp_clientId _ _))

theorem processActionF_closed (fuel : Nat) (c : CS) (o : Oracle) (out : List Out) (tmo : Option Time) (h : Closed c.dev.acts out) :
    Closed (processActionF fuel c o out tmo).1.dev.acts (processActionF fuel c o out tmo).2.2.1 := by
  induction fuel generalizing c o out tmo with
  | zero =>
    simp only [processActionF]
    apply h.step
    intro cid _ hq
    exact Or.inl ⟨hq, rfl⟩
  | succ n ih =>
    rw [processActionF_succ]
    unfold andThen
    have hb := bodyStep_closed c o out tmo h
    generalize bodyStep c o out tmo = s at *
    split
    · exact ih _ _ _ _ hb
    · exact hb

/-- **nothing behind the last completion.**  After a whole `dev_post_poll` pass, a client none of whose actions is left
    in this device's queue has had a completion as the last callback of the pass (if it had any callback): no telemetry
    line, no diagnostic follows it -/
theorem postPoll_lastFin (d : Dev) (env : Env) (o : Oracle) (cid : Nat) (hc : cid ≠ 0)
    (hq : qcount cid (postPoll d env o).1.dev.acts = 0) : LastFin cid (postPoll d env o).2.2.1 := by
  have key : Closed (postPoll d env o).1.dev.acts (postPoll d env o).2.2.1 := by
    rw [postPoll_eq]; unfold postPoll'
    dsimp only
    split
    · intro cid _ _ x hx; simp [forCid] at hx
    · unfold processAction
      apply processActionF_closed
      intro cid _ _ x hx; simp [forCid] at hx
  exact key cid hc hq

end Pm.Dev2.E2E

section AxiomChecks
open Pm.Dev2.E2E
/-- info: 'Pm.Dev2.E2E.postPoll_count' depends on axioms: [propext, Classical.choice, Quot.sound] -/
#guard_msgs in #print axioms postPoll_count
/-- info: 'Pm.Dev2.E2E.postPoll_success' depends on axioms: [propext, Classical.choice, Quot.sound] -/
#guard_msgs in #print axioms postPoll_success
/-- info: 'Pm.Dev2.E2E.postPoll_lastFin' depends on axioms: [propext, Classical.choice, Quot.sound] -/
#guard_msgs in #print axioms postPoll_lastFin
/-- info: 'Pm.Dev2.E2E.completes_reference' depends on axioms: [propext, Classical.choice, Quot.sound] -/
#guard_msgs in #print axioms completes_reference
end AxiomChecks
