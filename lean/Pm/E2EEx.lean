import Pm.EndToEnd
/-! A concrete run for the non-vacuity examples of `Props/C02` (end-to-end part).

One device `A` (connected, logged in) with one plug `1` ↦ node `a1` and an `on` script `send "on %s\n"; expect <pat 1>`.
Pass 1: a client connects (id 1).  Pass 2: it sends `on a1`; the request is accepted (`pending = 1`), the action starts and
waits for its bytes to drain.  Pass 3: the device takes the bytes; the action waits in the `expect`.  Then either
pass 4: the device answers `OK`, the `expect` matches, the script is at its end — `102`; or, instead, a pass six seconds
later: the action's time-out has passed — `308 A: action timed out …`, `210`. -/
namespace Pm.Daemon.E2E.Ex
open Pm Pm.Client Pm.Daemon Pm.Daemon.E2E
open Pm.Daemon.Isolation (runPasses)
open Pm.Daemon.Reply (okLine errLine isPower)
open Pm.Dev2 (Dev Stmt Plug Arg RxCall ActErr)

def nodeA : Bytes := [97, 49]
def plugA : Plug := { name := [49], node := some nodeA }
def onScript : List Stmt := [.send [111, 110, 32, 37, 115, 10], .expect 1]
def scripts : Nat → Option (List Stmt) := fun k => if k == 7 then some onScript else none
def devA : Dev :=
  { plugs := [plugA], scripts := scripts, timeout := 5000000, acts := [], toBuf := [], fromBuf := [], xmStr := none, xmOffs := [],
    xmResult := false, xmUsed := false, args := [], nextUid := 1, shortCircuitDelay := false, conn := 2, loggedIn := true,
    fd := some 2000, statConnects := 1 }
/-- the daemon after start-up: no client, an empty queue -/
def w0 : W :=
  { cfg := { plugs := [], has := [], nodes := pushHost [] ['a', '1'], version := [50] }, clients := [],
    devs := [([65], devA)], nsock := 1 }
def p1 : PassIn := { now := 1000, acc := 1, con := [0], soe := [0], envs := [] }
def p2 : PassIn := { now := 2000, acc := 0, con := [0], soe := [0], envs := [{ fd := 1000, rev := 1, rk := 0, data := bstr "on a1\n", cap := 100 }] }
def p3 : PassIn := { now := 3000, acc := 0, con := [0], soe := [0], envs := [{ fd := 2000, rev := 2, rk := 0, data := [], cap := 100 }] }
/-- the request is in flight: client 1 waits for one completion, the queue of `A` holds its action -/
def w3 : W := runPasses w0 [p1, p2, p3]
/-- the regex engine's answer for the device's reply `OK\n` -/
def xs4 : List RxCall := [{ pat := 1, subject := bstr "OK\n", answer := some [(0, 3)] }]
def p4 : PassIn := { now := 4000, acc := 0, con := [0], soe := [0], envs := [{ fd := 2000, rev := 1, rk := 0, data := bstr "OK\n", cap := 100 }] }
def w3x : W := { w3 with pendingX := xs4 }
/-- instead of pass 4: nothing happens until the action's five seconds are over -/
def pLate : PassIn := { now := 9000000, acc := 0, con := [0], soe := [0], envs := [] }

theorem inv0 : Inv w0 := inv_init w0 rfl (by intro nd hnd; simp [w0] at hnd; subst hnd; rfl) (by decide) (by decide)
theorem alive3 : Alive w0 [p1, p2, p3] := ⟨by decide +kernel, by decide +kernel, by decide +kernel, trivial⟩
theorem inv3 : Inv w3 := runPasses_inv w0 _ inv0 alive3
theorem inv3x : Inv w3x :=
  ⟨⟨inv3.1.1.congr rfl rfl rfl, inv3.1.2.congr rfl rfl rfl⟩, inv3.2.congr rfl rfl rfl⟩

/-- the state reached: client 1 has an `on` command for `a1` waiting for one completion, with a clear error flag; the
    queue of `A` holds one action of client 1 -/
theorem reached : w3.clients.map (fun (c : Cli) => (c.id, c.cmd.map fun (k : CmdC) => (comIdx k.com, k.pending, k.error, k.al))) =
      [(1, some (7, 1, false, 1))] ∧
    w3.clients.map (fun (c : Cli) => c.cmd.map fun (k : CmdC) => k.names) = [some [['a', '1']]] ∧
    w3.devs.map (fun (nd : Bytes × Dev) => nd.2.acts.map fun (a : Pm.Dev2.Action) => (a.clientId, a.com, a.arglist)) = [[(1, 7, 1)]] ∧ totalQ 1 w3.devs = 1 :=
  ⟨by decide +kernel, by decide +kernel, by decide +kernel, by decide +kernel⟩

def c0 : Cli := (cliRec w3 1).getD { id := 0, fd := 0 }
def k0 : CmdC := c0.cmd.getD { com := .status, names := [], pending := 0, error := false }
theorem hc0 : cliRec w3 1 = some c0 := by
  have : (cliRec w3 1).isSome = true := by decide +kernel
  unfold c0; cases h : cliRec w3 1 <;> simp_all
theorem hk0 : c0.cmd = some k0 := by
  have : c0.cmd.isSome = true := by decide +kernel
  unfold k0; cases h : c0.cmd <;> simp_all
theorem hc0x : cliRec w3x 1 = some c0 := hc0
theorem power0 : isPower k0.com = true := by decide +kernel

/-- the client after pass 4 -/
def c4 : Cli := (cliRec (runPasses w3x ([] ++ [p4])) 1).getD { id := 0, fd := 0 }
theorem hc4 : cliRec (runPasses w3x ([] ++ [p4])) 1 = some c4 := by
  have : (cliRec (runPasses w3x ([] ++ [p4])) 1).isSome = true := by decide +kernel
  unfold c4; cases h : cliRec (runPasses w3x ([] ++ [p4])) 1 <;> simp_all
theorem idle4 : c4.cmd = none := by
  have : c4.cmd.isNone = true := by decide +kernel
  cases h : c4.cmd <;> simp_all
theorem alive4 : Alive w3x ([] ++ [p4]) := ⟨by decide +kernel, trivial⟩
theorem buf4 : c4.toBuf = bstr "001 2\r\npowerman> " ++ (okLine ++ prompt) := by decide +kernel

/-- the client after the late pass -/
def cL : Cli := (cliRec (runPasses w3 ([] ++ [pLate])) 1).getD { id := 0, fd := 0 }
theorem hcL : cliRec (runPasses w3 ([] ++ [pLate])) 1 = some cL := by
  have : (cliRec (runPasses w3 ([] ++ [pLate])) 1).isSome = true := by decide +kernel
  unfold cL; cases h : cliRec (runPasses w3 ([] ++ [pLate])) 1 <;> simp_all
theorem idleL : cL.cmd = none := by
  have : cL.cmd.isNone = true := by decide +kernel
  cases h : cL.cmd <;> simp_all
theorem aliveL : Alive w3 ([] ++ [pLate]) := ⟨by decide +kernel, trivial⟩
theorem finsL : runFins w3 ([] ++ [pLate]) 1 = [([65], ActErr.expfail)] := by decide +kernel
theorem fins4 : runFins w3x ([] ++ [p4]) 1 = [([65], ActErr.success)] := by decide +kernel

end Pm.Daemon.E2E.Ex
