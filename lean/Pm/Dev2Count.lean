import Pm.Dev2Proof
import Pm.Dev2Walk
namespace Pm.Dev2

/-- completions reported for client `cid` -/
def fcount (cid : Nat) (l : List Out) : Nat := l.countP fun o => match o with | .finish c _ => c == cid | _ => false
/-- actions of client `cid` in a queue -/
def qcount (cid : Nat) (acts : List Action) : Nat := acts.countP fun a => a.clientId == cid

@[simp] theorem fcount_append (cid l m) : fcount cid (l ++ m) = fcount cid l + fcount cid m := by simp [fcount]
@[simp] theorem fcount_nil (cid) : fcount cid [] = 0 := rfl
@[simp] theorem qcount_nil (cid) : qcount cid [] = 0 := rfl
theorem qcount_cons (cid a r) : qcount cid (a :: r) = (if a.clientId == cid then 1 else 0) + qcount cid r := by
  simp [qcount, List.countP_cons]; omega

theorem fcount_noFinish (cid : Nat) (l : List Out) (h : ∀ x ∈ l, isFinish x = false) : fcount cid l = 0 := by
  induction l with
  | nil => rfl
  | cons x r ih =>
    have hx := h x (by simp)
    have := ih (fun y hy => h y (by simp [hy]))
    cases x <;> simp_all [fcount, isFinish, List.countP_cons]

theorem finishConnectOne_acts (c : CS) : (finishConnectOne c).1.dev.acts = c.dev.acts := by
  unfold finishConnectOne; grind
theorem connectOne_acts (c : CS) : (connectOne c).1.dev.acts = c.dev.acts := (connectOne_frame c).dev.acts
theorem tcpConnect_acts (c : CS) : (tcpConnect c).1.dev.acts = c.dev.acts := (tcpConnect_frame c).dev.acts
theorem pipeConnect_acts (c : CS) : (pipeConnect c).1.dev.acts = c.dev.acts := by
  unfold pipeConnect; grind

theorem connectDev_empty (c : CS) (cid : Nat) (hc : cid ≠ 0) (h : c.dev.acts = []) :
    qcount cid (connectDev c).dev.acts = 0 := by
  unfold connectDev
  dsimp only
  have h1 := tcpConnect_acts { c with dev := { c.dev with lastRetry := c.env.now, retryCount := c.dev.retryCount + 1 } }
  have h2 := pipeConnect_acts { c with dev := { c.dev with lastRetry := c.env.now, retryCount := c.dev.retryCount + 1 } }
  split
  · generalize pipeConnect _ = r at *
    split
    · simp [enqueueLogin, h2, h, qcount_cons, loginAction]; omega
    · simp [h2, h]
  · generalize tcpConnect _ = r at *
    split
    · simp [enqueueLogin, h1, h, qcount_cons, loginAction]; omega
    · simp [h1, h]

theorem disconnectDev_empty (c : CS) (h : c.dev.acts = []) : (disconnectDev c).dev.acts = [] := by
  unfold disconnectDev; grind

theorem reconnectDev_empty (c : CS) (tmo : Option Time) (cid : Nat) (hc : cid ≠ 0) (h : c.dev.acts = []) :
    qcount cid (reconnectDev c tmo).1.dev.acts = 0 := by
  unfold reconnectDev
  dsimp only
  have hd := disconnectDev_empty c h
  split <;> split <;> simp_all [connectDev_empty]

theorem fcount_restFin (cid : Nat) (hc : cid ≠ 0) (e : ActErr) (rest : List Action) :
    fcount cid ((rest.filter (·.clientId != 0)).map fun b => Out.finish b.clientId e) = qcount cid rest := by
  induction rest with
  | nil => rfl
  | cons b r ih =>
    rw [qcount_cons]
    by_cases hb : b.clientId = 0
    · have : (b.clientId == cid) = false := by simp [hb]; omega
      simp [List.filter_cons, hb, ih]; omega
    · simp only [List.filter_cons, bne_iff_ne, ne_eq, hb, not_false_eq_true, ↓reduceIte, List.map_cons]
      have : fcount cid (Out.finish b.clientId e :: List.map (fun b => Out.finish b.clientId e) (List.filter (fun x => x.clientId != 0) r))
           = (if b.clientId == cid then 1 else 0) + fcount cid (List.map (fun b => Out.finish b.clientId e) (List.filter (fun x => x.clientId != 0) r)) := by
        simp [fcount, List.countP_cons]; omega
      rw [this, ih]

theorem fcount_headFin (cid : Nat) (hc : cid ≠ 0) (a : Action) (e : ActErr) :
    fcount cid (if a.clientId != 0 then [Out.finish a.clientId e] else []) = (if a.clientId == cid then 1 else 0) := by
  by_cases ha : a.clientId = 0
  · have : (a.clientId == cid) = false := by simp [ha]; omega
    simp [ha]; omega
  · simp [ha, fcount, List.countP_cons]

theorem failAll_count (rest : List Action) (c : CS) (a : Action) (o : Oracle) (out : List Out) (tmo : Option Time)
    (cid : Nat) (hc : cid ≠ 0) :
    fcount cid (failAll rest c a o out tmo).2.2.1 + qcount cid (failAll rest c a o out tmo).1.dev.acts
      = fcount cid out + qcount cid (a :: rest) := by
  unfold failAll
  dsimp only
  have hr := reconnectDev_empty { c with dev := { c.dev with acts := [], xmStr := none, xmResult := false, xmUsed := false } } tmo cid hc rfl
  split
  · simp only [fcount_append, fcount_headFin cid hc, fcount_restFin cid hc, qcount_cons]
    generalize reconnectDev _ tmo = r at *
    simp [hr]
  · simp only [fcount_append, fcount_headFin cid hc, fcount_restFin cid hc, qcount_cons]
    simp

theorem qcount_cons_congr (cid : Nat) (a b : Action) (r : List Action) (h : a.clientId = b.clientId) :
    qcount cid (a :: r) = qcount cid (b :: r) := by simp [qcount_cons, h]

theorem onTimeout_count (rest : List Action) (c : CS) (a : Action) (o : Oracle) (out : List Out) (tmo : Option Time)
    (cid : Nat) (hc : cid ≠ 0) (hq : qcount cid c.dev.acts = qcount cid (a :: rest)) :
    fcount cid (onTimeout rest c a o out tmo).2.2.1 + qcount cid (onTimeout rest c a o out tmo).1.dev.acts
      = fcount cid out + qcount cid (a :: rest) := by
  unfold onTimeout
  dsimp only
  have hT := teleMem_noFinish a.clientId "recv(dev): '" c.dev.fromBuf
  generalize htele : (if a.telemetry = true then
      (if (c.dev.conn != 2) = true then [Out.telemetry a.clientId (str "connect(dev): timeout")]
       else teleMem a.clientId "recv(dev): '" c.dev.fromBuf) else []) = tele
  have hnt : ∀ x ∈ tele, isFinish x = false := by
    subst htele; intro x hx
    split at hx
    · split at hx
      · simp at hx; subst hx; rfl
      · exact hT x hx
    · simp at hx
  have h0 := fcount_noFinish cid tele hnt
  split
  · simp [h0, hq]
  · rw [failAll_count _ _ _ _ _ _ cid hc]
    simp [h0, qcount_cons]

theorem onRun_count (k : CS → Oracle → List Out → Option Time → PA) (rest : List Action) (c : CS) (a : Action) (o : Oracle)
    (out : List Out) (tmo : Option Time) (left : Time) (cid : Nat) (hc : cid ≠ 0)
    (hk : ∀ c' o' out' tmo', fcount cid (k c' o' out' tmo').2.2.1 + qcount cid (k c' o' out' tmo').1.dev.acts
        = fcount cid out' + qcount cid c'.dev.acts) :
    fcount cid (onRun k rest c a o out tmo left).2.2.1 + qcount cid (onRun k rest c a o out tmo left).1.dev.acts
      = fcount cid out + qcount cid (a :: rest) := by
  unfold onRun
  dsimp only
  have hIL := innerLoop_noFinish c.env.now (loopBound a) { c.dev with wake := none } a o [] (by simp)
  have hIC := innerLoop_clientId c.env.now (loopBound a) { c.dev with wake := none } a o []
  generalize innerLoop c.env.now (loopBound a) { c.dev with wake := none } a o [] = r at *
  have hadv := advance_clientId r.act
  generalize advance r.act = a' at *
  have h0 := fcount_noFinish cid r.out hIL
  have hra : qcount cid (r.act :: rest) = qcount cid (a :: rest) := qcount_cons_congr _ _ _ _ hIC
  have ha' : qcount cid (a' :: rest) = qcount cid (a :: rest) := qcount_cons_congr _ _ _ _ (by rw [hadv, hIC])
  split
  · simp [h0, hra]
  · split
    · simp [h0, hra]
    · split
      · split
        · rw [hk]; simp only [fcount_append, h0, fcount_headFin cid hc]
          rw [← ha', qcount_cons]; simp; omega
        · rw [hk]; simp [h0, ha']
      · rw [failAll_count _ _ _ _ _ _ cid hc]; simp [h0, hra]

/-- C04/C02, device half, on the mirror that was compared with `device.c`: over one pass of `_process_action`,
    for every client, (completions reported) + (its actions still queued) is conserved — every action that leaves
    the queue is reported exactly once, none is reported while it stays, none is lost; ∀ fuel, queue, scripts,
    oracle answers, environment, including the passes that end in a modelled abort. -/
theorem completions_conserved (fuel : Nat) (c : CS) (o : Oracle) (out : List Out) (tmo : Option Time)
    (cid : Nat) (hc : cid ≠ 0) :
    fcount cid (processActionF fuel c o out tmo).2.2.1 + qcount cid (processActionF fuel c o out tmo).1.dev.acts
      = fcount cid out + qcount cid c.dev.acts := by
  induction fuel generalizing c o out tmo with
  | zero => simp [processActionF, fcount, List.countP_cons]
  | succ n ih =>
    unfold processActionF processActionBody
    split
    · rfl
    · split
      · rfl
      · rename_i a0 rest hacts
        dsimp only
        have hs := stamp_clientId c.env.now a0
        generalize stamp c.env.now a0 = a at *
        have hq : qcount cid c.dev.acts = qcount cid (a :: rest) := by
          rw [hacts]; exact qcount_cons_congr _ _ _ _ hs.symm
        split
        · rw [onTimeout_count _ _ _ _ _ _ cid hc hq, hq]
        · split
          · simp [hq]
          · rw [onRun_count _ _ _ _ _ _ _ _ cid hc (fun c' o' out' tmo' => ih c' o' out' tmo'), hq]


/-- after the error branch no action of any client is left in the queue -/
theorem failAll_queue_empty (rest : List Action) (c : CS) (a : Action) (o : Oracle) (out : List Out) (tmo : Option Time)
    (cid : Nat) (hc : cid ≠ 0) : qcount cid (failAll rest c a o out tmo).1.dev.acts = 0 := by
  unfold failAll
  dsimp only
  have hr := reconnectDev_empty { c with dev := { c.dev with acts := [], xmStr := none, xmResult := false, xmUsed := false } } tmo cid hc rfl
  split
  · simpa using hr
  · simp
