/-! # liblsd's hash table (`liblsd/hash.c`) at bucket level

A mirror of `hash.c`, one definition per C function: `size` slots, each a chain of `(key, data)` nodes in the order of the
`next` pointers (a new node becomes the head of its chain), `count`, slot = `key_f (key) % size` in `unsigned int` arithmetic.
`powermand` uses it for the argument list of a command (`arglist.c`: key = node name, `hash_key_string`, `strcmp`).

Conventions.
* A chain is a Lean list (the pointer-level reading of singly linked chains with `pp` removal is exercised in
  `Pm/LsdList.lean`); the per-process free list of hash nodes is carried as its length (`HASH_ALLOC` = 256 per chunk).
* Keys are values of a type with decidable equality (`cmp_f (a, b) == 0` is `a = b`: `strcmp`); `key_f` is a function to
  naturals below `2 ^ 32`; `keyString` is `hash_key_string` on byte strings.  `NULL` keys / data (`EINVAL`) do not exist by typing.
* `malloc` succeeds; threads are not modelled; `count` is a natural number; callbacks are pure.
* No proofs in this file.  It is compared with the real `hash.c` by `harness/u_hash.c` / `lib/hashlayer.py` (driver `LhMain.lean`). -/
namespace Pm.LsdHash

/-- `HASH_ALLOC` -/
def hashAlloc : Nat := 256
/-- `HASH_DEF_SIZE` -/
def hashDefSize : Nat := 1213

/-- `hash_key_string`: `hval += (31 * hval) + *p` in `unsigned int` -/
def keyString (s : List UInt8) : UInt32 := s.foldl (fun h c => h + 31 * h + c.toUInt32) 0

/-- `struct hash` with its chains, and the length of `hash_free_list` -/
structure Table (κ δ : Type) where
  size : Nat
  table : Array (List (κ × δ))
  count : Nat
  keyf : κ → Nat
  hasDel : Bool
  nfree : Nat

variable {κ δ : Type} [DecidableEq κ]

/-- `hash_node_alloc`: how many nodes are on the free list afterwards -/
def nodeAlloc (nfree : Nat) : Nat := if nfree = 0 then hashAlloc - 1 else nfree - 1

/-- `hash_create (size, key_f, cmp_f, del_f)` (`nfree`: the free list of the process at that moment) -/
def create (size : Int) (keyf : κ → Nat) (hasDel : Bool) (nfree : Nat) : Table κ δ :=
  let n := if size ≤ 0 then hashDefSize else size.toNat
  { size := n, table := Array.replicate n [], count := 0, keyf := keyf, hasDel := hasDel, nfree := nfree }

/-- `key_f (key) % h->size` -/
def slotOf (t : Table κ δ) (k : κ) : Nat := t.keyf k % t.size

/-- the chain of a slot -/
def chain (t : Table κ δ) (s : Nat) : List (κ × δ) := t.table[s]?.getD []

/-- `hash_destroy`: the items `del_f` was called on (slot by slot, each chain from its head), the free list afterwards -/
def destroy (t : Table κ δ) : List δ × Nat :=
  let all := t.table.toList.flatten
  (if t.hasDel then all.map (·.2) else [], t.nfree + all.length)

/-- `hash_is_empty` -/
def isEmpty (t : Table κ δ) : Bool := t.count == 0

/-- `hash_count` -/
def countOf (t : Table κ δ) : Nat := t.count

/-- `hash_find (h, key)` -/
def find (t : Table κ δ) (k : κ) : Option δ :=
  ((chain t (slotOf t k)).find? (fun e => e.1 = k)).map (·.2)

/-- `hash_insert (h, key, data)`: `data`, or `NULL` (`EEXIST`) when the key is there already -/
def insert (t : Table κ δ) (k : κ) (d : δ) : Option δ × Table κ δ :=
  let s := slotOf t k
  match (chain t s).find? (fun e => e.1 = k) with
  | some _ => (none, t)
  | none =>
    (some d, { t with table := t.table.setIfInBounds s ((k, d) :: chain t s), count := t.count + 1, nfree := nodeAlloc t.nfree })

/-- the loop of `hash_remove` on one chain: the first node with the key is unlinked -/
def removeFirst (k : κ) : List (κ × δ) → Option δ × List (κ × δ)
  | [] => (none, [])
  | e :: rest => if e.1 = k then (some e.2, rest) else ((removeFirst k rest).1, e :: (removeFirst k rest).2)

/-- `hash_remove (h, key)` -/
def remove (t : Table κ δ) (k : κ) : Option δ × Table κ δ :=
  let s := slotOf t k
  match removeFirst k (chain t s) with
  | (some d, c) => (some d, { t with table := t.table.setIfInBounds s c, count := t.count - 1, nfree := t.nfree + 1 })
  | (none, _) => (none, t)

/-- `hash_delete_if (h, arg_f, arg)`: the number of deleted items, the items `del_f` was called on, in order -/
def deleteIf (t : Table κ δ) (f : δ → Int) : Nat × List δ × Table κ δ :=
  let gone := (t.table.toList.flatten.filter (fun e => f e.2 > 0)).map (·.2)
  (gone.length, if t.hasDel then gone else [],
   { t with table := t.table.map (fun c => c.filter (fun e => !(f e.2 > 0))), count := t.count - gone.length, nfree := t.nfree + gone.length })

/-- `hash_for_each (h, arg_f, arg)`: the number of items for which the callback returned a positive value -/
def forEach (t : Table κ δ) (f : δ → Int) : Nat := t.table.toList.flatten.countP (fun e => f e.2 > 0)

/-- all items, slot by slot -/
def toList (t : Table κ δ) : List (κ × δ) := t.table.toList.flatten

/-- the representation invariant: `size` slots, every node sits in the slot of its key, no key twice in a chain, `count`
    is the number of nodes -/
def valid (t : Table κ δ) : Bool :=
  decide (0 < t.size) && t.table.size == t.size
  && (List.range t.size).all (fun s => (chain t s).all (fun e => slotOf t e.1 == s) && decide ((chain t s).map (·.1)).Nodup)
  && t.count == (toList t).length

/-- one call -/
inductive Op (κ δ : Type) where
  | find (k : κ) | insert (k : κ) (d : δ) | remove (k : κ) | count | deleteIf (f : δ → Int) | forEach (f : δ → Int)

/-- what a call answers -/
inductive Res (δ : Type) where
  | item (v : Option δ)
  | num (n : Nat)
  | deleted (n : Nat) (items : List δ)
  deriving Repr, DecidableEq

def Op.apply (t : Table κ δ) : Op κ δ → Res δ × Table κ δ
  | .find k => (.item (LsdHash.find t k), t)
  | .insert k d => let r := LsdHash.insert t k d; (.item r.1, r.2)
  | .remove k => let r := LsdHash.remove t k; (.item r.1, r.2)
  | .count => (.num (countOf t), t)
  | .deleteIf f => let r := LsdHash.deleteIf t f; (.deleted r.1 r.2.1, r.2.2)
  | .forEach f => (.num (LsdHash.forEach t f), t)

def run (t : Table κ δ) : List (Op κ δ) → List (Res δ) × Table κ δ
  | [] => ([], t)
  | op :: ops => let r := op.apply t; let x := run r.2 ops; (r.1 :: x.1, x.2)

end Pm.LsdHash
