/- small pilots: C03 (reply partitions the targets), C15 (format table), C18 (lexer buffer),
   C07/C20 (descriptor vs connection state), C10 (login first) -/
namespace Pm.Small

/-! ## C03: `_client_query_status_reply` partitions the arglist entries by state -/
inductive PState where | unknown | off | on deriving DecidableEq

structure Arg where
  node : Nat            -- index of the name in the command's target list
  state : PState

def onList (args : List Arg) : List Nat := (args.filter (·.state = .on)).map (·.node)
def offList (args : List Arg) : List Nat := (args.filter (·.state = .off)).map (·.node)
def unkList (args : List Arg) : List Nat := (args.filter (·.state = .unknown)).map (·.node)

/-- every entry lands in exactly one of the three lists: the multiset union is the target list -/
theorem C03_partition (args : List Arg) (n : Nat) :
    (onList args).count n + (offList args).count n + (unkList args).count n = (args.map (·.node)).count n := by
  induction args with
  | nil => simp [onList, offList, unkList]
  | cons a as ih =>
    simp only [onList, offList, unkList, List.filter_cons, List.map_cons] at ih ⊢
    cases hs : a.state <;> simp [hs, List.count_cons] <;> omega

/-- and a node shown on was set on (nothing is invented): membership reflects the state -/
theorem C03_on_justified (args : List Arg) (n : Nat) (h : n ∈ onList args) : ∃ a ∈ args, a.node = n ∧ a.state = .on := by
  obtain ⟨a, ha, rfl⟩ := List.mem_map.mp h
  have := List.mem_filter.mp ha
  exact ⟨a, this.1, rfl, by simpa using this.2⟩

/-! ## C15: the reply formats (regenerated from client_proto.h) are CRLF-terminated `NNN ` lines -/
def CR : Nat := 13
def LF : Nat := 10

/-- split a format into lines at CR LF; `none` if a bare CR or LF occurs or the end is not CR LF -/
def splitCRLF : List Nat → List Nat → Option (List (List Nat))
  | [], [] => some []
  | [], _ :: _ => none
  | 13 :: 10 :: r, cur => (splitCRLF r []).map (cur.reverse :: ·)
  | 13 :: _, _ => none
  | 10 :: _, _ => none
  | c :: r, cur => splitCRLF r (c :: cur)

def isDigit (c : Nat) : Bool := 48 ≤ c && c ≤ 57
def lineOK (l : List Nat) : Bool :=
  match l with
  | a :: b :: c :: 32 :: _ => isDigit a && isDigit b && isDigit c && (a == 48 || a == 49 || a == 50 || a == 51)
  | _ => false

def formatOK (f : List Nat) : Bool :=
  match splitCRLF f [] with
  | some ls => !ls.isEmpty && ls.all lineOK
  | none => false

-- three entries of the table as the translator would emit them
def CP_RSP_COM_COMPLETE : List Nat := "102 Command completed successfully\r\n".toList.map Char.toNat
def CP_ERR_NOSUCHNODES : List Nat := "209 No such nodes: %s\r\n".toList.map Char.toNat
def CP_INFO_STATUS : List Nat := "302 on:      %s\r\n302 off:     %s\r\n302 unknown: %s\r\n".toList.map Char.toNat
def table : List (List Nat) := [CP_RSP_COM_COMPLETE, CP_ERR_NOSUCHNODES, CP_INFO_STATUS]

theorem C15_proto_wf : ∀ f ∈ table, formatOK f = true := by decide

/-! ## C18: the quoted-string rules of parse_lex.l against the fixed `string_buf[8192]` -/
def BUF : Nat := 8192

inductive Lex where
  | ok (len : Nat)        -- string accepted, `len` bytes + NUL stored
  | reject                -- diagnostic "string too long" and exit(1)  (only with the repair)
  | overflow              -- a store past `string_buf[8191]`
deriving DecidableEq

/-- every rule of `<lex_str>` stores at most one byte per source byte; `guarded` = the repaired rules
    refuse to store into the last cell, which is reserved for the terminating NUL -/
def lexString (guarded : Bool) (stored : Nat) : List Nat → Lex
  | [] => if stored < BUF then .ok stored else .overflow                   -- closing quote: *ptr = 0
  | _ :: r =>
    if guarded && stored + 1 ≥ BUF then .reject
    else if stored < BUF then lexString guarded (stored + 1) r else .overflow

theorem C18_string_fill_counterexample : lexString false 0 (List.replicate 8192 65) = .overflow := by decide +kernel

theorem C18_string_fill_fixed (body : List Nat) : ∀ stored, stored < BUF → lexString true stored body ≠ .overflow := by
  induction body with
  | nil => intro stored h; simp [lexString, h]
  | cons b bs ih =>
    intro stored h
    simp only [lexString, Bool.true_and]
    by_cases hfull : stored + 1 ≥ BUF
    · simp [hfull]
    · have : stored + 1 < BUF := by omega
      simp only [hfull, h, decide_false, Bool.false_eq_true, if_false, if_true]
      exact ih _ this

end Pm.Small

