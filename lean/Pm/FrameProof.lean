import Pm.FrameConn
import Pm.FrameOracle
/-! Helper lemmas for C05, daemon level: `devPass`/`daemonPass` of `Pm/Daemon.lean` restated in pieces, the frame of
    `applyOuts`, and the single-run frame of one device's step inside the pass. -/
namespace Pm.Daemon
open Pm Pm.Client
open Pm.Dev2 (Oracle CS Env Dev Action outCid cell)

/-! ### restatement of `devPass` -/

/-- the kernel answers as device `nd` sees them in this pass -/
def devEnv (p : PassIn) (w : W) (nd : Bytes × Dev) : Env :=
  let d := { nd.2 with args := w.store }
  let env := mkDevEnv w d p.now p.con p.soe p.envs
  match Pm.Dev2.prePoll d with
  | some (_, f) => { env with revents := (env.revents &&& f) ||| (env.revents &&& 28) }
  | none => { env with revents := 0 }

/-- one device's own `dev_post_poll` share: its state with the shared store plugged in, its kernel answers, the oracle -/
def devStep (p : PassIn) (w : W) (o : Oracle) (nd : Bytes × Dev) : CS × Oracle × List Pm.Dev2.Out × Option Nat :=
  Pm.Dev2.postPoll { nd.2 with args := w.store } (devEnv p w nd) o

/-- the world after the device's step, before its callbacks are delivered -/
def afterStep (w : W) (c : CS) : W :=
  { w with store := c.dev.args, nsock := w.nsock + countSock c.sys, npair := w.npair + countPair c.sys, nfork := w.nfork + countFork c.sys }

def isAbortMsg (msgs : List String) : Bool := msgs.any (·.startsWith "O ABORT")

def devPass' (p : PassIn) (a : DevAcc) (nd : Bytes × Dev) : DevAcc :=
  if a.dead then { a with devs := a.devs ++ [nd] } else
  let r := devStep p a.w a.oracle nd
  let x := applyOuts (afterStep a.w r.1) nd.1 r.2.2.1
  { w := x.1, ylines := a.ylines ++ showSys [] r.1.sys (nd.2.fd.getD 0), msgs := a.msgs ++ x.2, tmo := minOpt a.tmo r.2.2.2,
    oracle := r.2.1, devs := a.devs ++ [(nd.1, r.1.dev)], dead := r.1.aborted || isAbortMsg x.2 }

theorem devPass_eq (p : PassIn) (a : DevAcc) (nd : Bytes × Dev) : devPass p a nd = devPass' p a nd := by
  unfold devPass devPass' devStep devEnv afterStep isAbortMsg
  rfl

/-! ### `applyOuts`: callbacks reach only the client they are addressed to -/

/-- client `g`'s record -/
def cliRec (w : W) (g : Nat) : Option Cli := w.clients.find? (·.id == g)

theorem find_map_id (F : Cli → Cli) (hF : ∀ c, (F c).id = c.id) (g : Nat) (l : List Cli) :
    (l.map F).find? (·.id == g) = (l.find? (·.id == g)).map F := by
  rw [List.find?_map]
  congr 1
  apply congrArg (fun q => List.find? q l)
  funext c
  simp [hF]

theorem updCli_other (w : W) (id g : Nat) (f : Cli → Cli) (hf : ∀ c, (f c).id = c.id) (h : id ≠ g) :
    cliRec (updCli w id f) g = cliRec w g := by
  unfold cliRec updCli
  dsimp only
  rw [find_map_id (fun c => if c.id == id then f c else c) (by intro c; split <;> simp [hf]) g]
  cases hq : w.clients.find? (·.id == g) with
  | none => rfl
  | some c =>
    have : c.id = g := by simpa using List.find?_some hq
    have hne : ¬ c.id = id := by rw [this]; exact fun e => h e.symm
    simp [hne]

theorem updCli_self (w : W) (g : Nat) (f : Cli → Cli) (hf : ∀ c, (f c).id = c.id) :
    cliRec (updCli w g f) g = (cliRec w g).map f := by
  unfold cliRec updCli
  dsimp only
  rw [find_map_id (fun c => if c.id == g then f c else c) (by intro c; split <;> simp [hf]) g]
  cases hq : w.clients.find? (·.id == g) with
  | none => rfl
  | some c =>
    have : c.id = g := by simpa using List.find?_some hq
    simp [this]

/-- everything of the world except the client list -/
def sansClients (w : W) : W := { w with clients := [] }

theorem updCli_sans (w : W) (id : Nat) (f : Cli → Cli) : sansClients (updCli w id f) = sansClients w := rfl

@[simp] theorem put_id (c : Cli) (b : Bytes) : (put c b).id = c.id := rfl

theorem actFinish_sans (w : W) (id : Nat) (e : Pm.Dev2.ActErr) (name : Bytes) : sansClients (actFinish w id e name).1 = sansClients w := by
  unfold actFinish
  split
  · rfl
  · split
    · rfl
    · dsimp only
      split
      · split <;> rfl
      · rfl

theorem actFinish_other (w : W) (id g : Nat) (e : Pm.Dev2.ActErr) (name : Bytes) (h : id ≠ g) :
    cliRec (actFinish w id e name).1 g = cliRec w g := by
  unfold actFinish
  split
  · rfl
  · rename_i c hc
    have hid : c.id = id := by simpa using List.find?_some hc
    split
    · rfl
    · dsimp only
      split
      · split
        · exact updCli_other _ _ _ _ (fun c => rfl) (by rw [hid]; exact h)
        · rfl
      · exact updCli_other _ _ _ _ (fun c => rfl) (by rw [hid]; exact h)

/-- one callback -/
def applyOut (name : Bytes) (acc : W × List String) (o : Pm.Dev2.Out) : W × List String :=
  let (w, msgs) := acc
  match o with
  | .finish cid e => let (w, bad) := actFinish w cid e name; (w, if bad then msgs ++ ["O ABORT act_finish"] else msgs)
  | .telemetry cid t =>
    let t' := (String.fromUTF8! ⟨t.toArray⟩).replace "(dev)" ("(" ++ String.fromUTF8! ⟨name.toArray⟩ ++ ")")
    (updCli w cid fun c => put c (bstr "305 " ++ t'.toUTF8.toList ++ crlf), msgs)
  | .diag cid t => (updCli w cid fun c => put c (bstr "309 " ++ t ++ crlf), msgs)
  | .sent _ => (w, msgs)
  | .rxMismatch want got => (w, msgs ++ [s!"O RXMISMATCH want pat {want.pat} subj {hexOf want.subject} asked pat {got.1} subj {hexOf got.2}"])
  | .abortAssert site => (w, msgs ++ [s!"O ABORT {site}"])

theorem applyOuts_eq (w : W) (name : Bytes) (outs : List Pm.Dev2.Out) :
    applyOuts w name outs = outs.foldl (applyOut name) (w, []) := by
  unfold applyOuts applyOut
  rfl

theorem applyOut_sans (name : Bytes) (acc : W × List String) (o : Pm.Dev2.Out) :
    sansClients (applyOut name acc o).1 = sansClients acc.1 := by
  obtain ⟨w, msgs⟩ := acc
  cases o <;> simp [applyOut, actFinish_sans, updCli_sans]

theorem applyOut_other (name : Bytes) (acc : W × List String) (o : Pm.Dev2.Out) (g : Nat) (h : outCid o ≠ some g) :
    cliRec (applyOut name acc o).1 g = cliRec acc.1 g := by
  obtain ⟨w, msgs⟩ := acc
  cases o with
  | finish cid e => simp only [applyOut]; exact actFinish_other _ _ _ _ _ (by simpa [outCid] using h)
  | telemetry cid t => simp only [applyOut]; exact updCli_other _ _ _ _ (fun c => rfl) (by simpa [outCid] using h)
  | diag cid t => simp only [applyOut]; exact updCli_other _ _ _ _ (fun c => rfl) (by simpa [outCid] using h)
  | sent _ => rfl
  | rxMismatch _ _ => rfl
  | abortAssert _ => rfl

theorem foldl_applyOut_sans (name : Bytes) (outs : List Pm.Dev2.Out) (acc : W × List String) :
    sansClients (outs.foldl (applyOut name) acc).1 = sansClients acc.1 := by
  induction outs generalizing acc with
  | nil => rfl
  | cons o r ih => rw [List.foldl_cons, ih, applyOut_sans]

theorem foldl_applyOut_other (name : Bytes) (g : Nat) (outs : List Pm.Dev2.Out) (acc : W × List String)
    (h : ∀ x ∈ outs, outCid x ≠ some g) : cliRec (outs.foldl (applyOut name) acc).1 g = cliRec acc.1 g := by
  induction outs generalizing acc with
  | nil => rfl
  | cons o r ih =>
    rw [List.foldl_cons, ih _ (fun x hx => h x (by simp [hx])), applyOut_other _ _ _ _ (h o (by simp))]

/-- `applyOuts` changes nothing but the client list -/
theorem applyOuts_sans (w : W) (name : Bytes) (outs : List Pm.Dev2.Out) : sansClients (applyOuts w name outs).1 = sansClients w := by
  rw [applyOuts_eq, foldl_applyOut_sans]

/-- ... and in the client list only the records of clients a callback is addressed to -/
theorem applyOuts_other (w : W) (name : Bytes) (outs : List Pm.Dev2.Out) (g : Nat) (h : ∀ x ∈ outs, outCid x ≠ some g) :
    cliRec (applyOuts w name outs).1 g = cliRec w g := by
  rw [applyOuts_eq, foldl_applyOut_other _ _ _ _ h]

/-! ### the frame of one device's step inside the pass (single run) -/

theorem devStep_frame (Q : Bytes → Bool) (C L : Nat → Prop) (p : PassIn) (w : W) (o : Oracle) (nd : Bytes × Dev)
    (hQ : Pm.Dev2.QOff Q nd.2) (h0 : C 0 ∧ L 0) (hacts : Pm.Dev2.Keyed C L nd.2.acts) :
    Pm.Dev2.PAFrame Q C L { nd.2 with args := w.store } (devStep p w o nd) :=
  Pm.Dev2.postPoll_frame Q C L _ _ _ hQ h0 hacts

/-- the world after `devPass`, apart from the client list, is the world after the device's own step -/
theorem devPass_sans (p : PassIn) (a : DevAcc) (nd : Bytes × Dev) (hd : a.dead = false) :
    sansClients (devPass p a nd).w = sansClients (afterStep a.w (devStep p a.w a.oracle nd).1) := by
  rw [devPass_eq]; unfold devPass'; simp only [hd, Bool.false_eq_true, ↓reduceIte]
  exact applyOuts_sans _ _ _

theorem devPass_dead (p : PassIn) (a : DevAcc) (nd : Bytes × Dev) (hd : a.dead = true) :
    devPass p a nd = { a with devs := a.devs ++ [nd] } := by
  rw [devPass_eq]; unfold devPass'; simp [hd]

/-- C05 frame, clients: a client (id `g ≠ 0`) none of whose actions is queued on the device keeps its record -/
theorem devPass_client (p : PassIn) (a : DevAcc) (nd : Bytes × Dev) (g : Nat) (hg : g ≠ 0)
    (hq : ∀ x ∈ nd.2.acts, x.clientId ≠ g) : cliRec (devPass p a nd).w g = cliRec a.w g := by
  cases hd : a.dead with
  | true => rw [devPass_dead _ _ _ hd]
  | false =>
    rw [devPass_eq]; unfold devPass'; simp only [hd, Bool.false_eq_true, ↓reduceIte]
    have h := devStep_frame (fun _ => false) (fun c => c ≠ g) (fun _ => True) p a.w a.oracle nd
      (fun _ _ _ _ => rfl) ⟨fun e => hg e.symm, trivial⟩ (fun x hx => ⟨hq x hx, trivial⟩)
    rw [applyOuts_other _ _ _ g (fun x hx e => h.addr x hx g e rfl)]
    rfl

/-- C05 frame, devices: the step appends exactly one entry, under the device's own name, to the processed devices;
    nothing already there is touched (and the devices still to come are not in the accumulator at all) -/
theorem devPass_devs (p : PassIn) (a : DevAcc) (nd : Bytes × Dev) :
    ∃ d', (devPass p a nd).devs = a.devs ++ [(nd.1, d')] ∧ d'.plugs = nd.2.plugs ∧ d'.scripts = nd.2.scripts := by
  cases hd : a.dead with
  | true => rw [devPass_dead _ _ _ hd]; exact ⟨nd.2, rfl, rfl, rfl⟩
  | false =>
    rw [devPass_eq]; unfold devPass'; simp only [hd, Bool.false_eq_true, ↓reduceIte]
    have h := devStep_frame (fun _ => false) (fun _ => True) (fun _ => True) p a.w a.oracle nd
      (fun _ _ _ _ => rfl) ⟨trivial, trivial⟩ (fun x hx => ⟨trivial, trivial⟩)
    exact ⟨_, rfl, h.plugs, h.scripts⟩

theorem devPass_store_eq (p : PassIn) (a : DevAcc) (nd : Bytes × Dev) (hd : a.dead = false) :
    (devPass p a nd).w.store = (devStep p a.w a.oracle nd).1.dev.args := by
  have := congrArg W.store (devPass_sans p a nd hd)
  simpa [sansClients, afterStep] using this

/-- C05 frame, store (by arglist): an arglist (id `al ≠ 0`) no action queued on the device refers to keeps its cell -/
theorem devPass_store_cell (p : PassIn) (a : DevAcc) (nd : Bytes × Dev) (al : Nat) (hal : al ≠ 0)
    (hq : ∀ x ∈ nd.2.acts, x.arglist ≠ al) : (devPass p a nd).w.store.lookup al = a.w.store.lookup al := by
  cases hd : a.dead with
  | true => rw [devPass_dead _ _ _ hd]
  | false =>
    rw [devPass_store_eq _ _ _ hd]
    have h := devStep_frame (fun _ => false) (fun _ => True) (fun x => x ≠ al) p a.w a.oracle nd
      (fun _ _ _ _ => rfl) ⟨trivial, fun e => hal e.symm⟩ (fun x hx => ⟨trivial, hq x hx⟩)
    exact h.store.1 al (fun hn => hn rfl)

/-- C05 frame, store (by node): in every arglist, the entries of nodes that are not wired to this device are kept — so
    a request spanning this device and others keeps the per-node results of the others -/
theorem devPass_store_nodes (p : PassIn) (a : DevAcc) (nd : Bytes × Dev) (Q : Bytes → Bool) (hQ : Pm.Dev2.QOff Q nd.2) (al : Nat) :
    (cell (devPass p a nd).w.store al).filter (fun x => Q x.node) = (cell a.w.store al).filter (fun x => Q x.node) := by
  cases hd : a.dead with
  | true => rw [devPass_dead _ _ _ hd]
  | false =>
    rw [devPass_store_eq _ _ _ hd]
    have h := devStep_frame Q (fun _ => True) (fun _ => True) p a.w a.oracle nd
      hQ ⟨trivial, trivial⟩ (fun x hx => ⟨trivial, trivial⟩)
    exact h.store.2 al

/-- everything else in the world: only the three descriptor/pid counters move (and only upwards) -/
theorem devPass_rest (p : PassIn) (a : DevAcc) (nd : Bytes × Dev) :
    { (devPass p a nd).w with clients := a.w.clients, store := a.w.store, nsock := a.w.nsock, npair := a.w.npair, nfork := a.w.nfork } = a.w ∧
    a.w.nsock ≤ (devPass p a nd).w.nsock ∧ a.w.npair ≤ (devPass p a nd).w.npair ∧ a.w.nfork ≤ (devPass p a nd).w.nfork := by
  cases hd : a.dead with
  | true => rw [devPass_dead _ _ _ hd]; simp
  | false =>
    have h := devPass_sans p a nd hd
    generalize (devPass p a nd).w = w' at *
    generalize (devStep p a.w a.oracle nd).1 = c at *
    obtain ⟨cfg, clients, devs, specs, store, nextId, nacc, nsock, npair, nfork, alNext, sys, caps, exited, tmo, pendingX⟩ := w'
    simp only [sansClients, afterStep, W.mk.injEq] at h
    obtain ⟨h1, -, h3, h4, h5, h6, h7, h8, h9, h10, h11, h12, h13, h14, h15, h16⟩ := h
    subst h1 h3 h4 h6 h7 h11 h12 h13 h14 h15 h16
    subst h8 h9 h10
    simp

/-! ### what the step reads -/

/-- the same descriptor events for the descriptor of `nd` -/
def SameEvents (p p' : PassIn) (nd : Bytes × Dev) : Prop :=
  ∀ fd, nd.2.fd = some fd → p.envs.find? (fun x => x.fd == fd) = p'.envs.find? (fun x => x.fd == fd)

/-- the kernel answers a device sees depend, of the pass input and the world, only on: the three counters (which number
    the descriptors and pids it may be handed), the clock, the `connect`/`SO_ERROR` answers, and the descriptor event
    addressed to its own descriptor — in particular not on the store -/
theorem devEnv_reads (p p' : PassIn) (w w' : W) (nd : Bytes × Dev)
    (h1 : w.nsock = w'.nsock) (h2 : w.npair = w'.npair) (h3 : w.nfork = w'.nfork)
    (hn : p.now = p'.now) (hc : p.con = p'.con) (he : p.soe = p'.soe) (hev : SameEvents p p' nd) :
    devEnv p w nd = devEnv p' w' nd := by
  have hpp : ∀ s : Pm.Dev2.Store, Pm.Dev2.prePoll { nd.2 with args := s } = Pm.Dev2.prePoll nd.2 := fun _ => rfl
  have hmk : mkDevEnv w { nd.2 with args := w.store } p.now p.con p.soe p.envs
      = mkDevEnv w' { nd.2 with args := w'.store } p'.now p'.con p'.soe p'.envs := by
    unfold mkDevEnv maxCalls
    dsimp only
    rw [h1, h2, h3, hn, hc, he]
    cases hfd : nd.2.fd with
    | none => rfl
    | some fd => simp only [hev fd hfd]
  unfold devEnv
  dsimp only
  rw [hpp w.store, hpp w'.store, hmk]

/-- the step of device `nd` reads, of the pass input and the world, only: the store, the three counters, the clock and
    the `connect`/`SO_ERROR` answers, and the descriptor event addressed to `nd`'s own descriptor -/
theorem devStep_reads (p p' : PassIn) (w w' : W) (o : Oracle) (nd : Bytes × Dev)
    (hs : w.store = w'.store) (h1 : w.nsock = w'.nsock) (h2 : w.npair = w'.npair) (h3 : w.nfork = w'.nfork)
    (hn : p.now = p'.now) (hc : p.con = p'.con) (he : p.soe = p'.soe) (hev : SameEvents p p' nd) :
    devStep p w o nd = devStep p' w' o nd := by
  unfold devStep
  rw [devEnv_reads p p' w w' nd h1 h2 h3 hn hc he hev, hs]

/-! ### the device phase of the pass as a whole -/

/-- the entry device `nd` leaves in the processed list when the accumulator is `a` -/
def stepped (p : PassIn) (a : DevAcc) (nd : Bytes × Dev) : Bytes × Dev :=
  (nd.1, if a.dead then nd.2 else (devStep p a.w a.oracle nd).1.dev)

theorem devPass_devs_eq (p : PassIn) (a : DevAcc) (nd : Bytes × Dev) : (devPass p a nd).devs = a.devs ++ [stepped p a nd] := by
  cases hd : a.dead with
  | true => rw [devPass_dead _ _ _ hd]; simp [stepped, hd]
  | false => rw [devPass_eq]; unfold devPass'; simp [stepped, hd]

/-- the accumulator when the turn of device number `i` comes -/
def accAt (p : PassIn) (a : DevAcc) (l : List (Bytes × Dev)) (i : Nat) : DevAcc := (l.take i).foldl (devPass p) a

@[simp] theorem accAt_zero (p a l) : accAt p a l 0 = a := by simp [accAt]
theorem accAt_succ_cons (p a nd r i) : accAt p a (nd :: r) (i + 1) = accAt p (devPass p a nd) r i := by simp [accAt]
theorem accAt_all (p a) (l : List (Bytes × Dev)) : accAt p a l l.length = l.foldl (devPass p) a := by simp [accAt]

/-- the processed-device entries a list of devices leaves, each stepped from the accumulator of its own turn -/
def steppedList (p : PassIn) : DevAcc → List (Bytes × Dev) → List (Bytes × Dev)
  | _, [] => []
  | a, nd :: r => stepped p a nd :: steppedList p (devPass p a nd) r

/-- every device of the list is stepped, in order -/
theorem foldl_devs (p : PassIn) (l : List (Bytes × Dev)) (a : DevAcc) :
    (l.foldl (devPass p) a).devs = a.devs ++ steppedList p a l := by
  induction l generalizing a with
  | nil => simp [steppedList]
  | cons nd r ih => rw [List.foldl_cons, ih, devPass_devs_eq, List.append_assoc]; rfl

theorem steppedList_length (p : PassIn) (l : List (Bytes × Dev)) (a : DevAcc) : (steppedList p a l).length = l.length := by
  induction l generalizing a with
  | nil => rfl
  | cons nd r ih => simp [steppedList, ih]

theorem steppedList_names (p : PassIn) (l : List (Bytes × Dev)) (a : DevAcc) : (steppedList p a l).map (·.1) = l.map (·.1) := by
  induction l generalizing a with
  | nil => rfl
  | cons nd r ih => simp [steppedList, ih, stepped]

theorem steppedList_get (p : PassIn) (l : List (Bytes × Dev)) (a : DevAcc) (i : Nat) (nd : Bytes × Dev) (h : l[i]? = some nd) :
    (steppedList p a l)[i]? = some (stepped p (accAt p a l i) nd) := by
  induction l generalizing a i with
  | nil => simp at h
  | cons x r ih =>
    cases i with
    | zero => simp at h; subst h; simp [steppedList]
    | succ i => simp at h; simp [steppedList, accAt_succ_cons, ih _ _ h]

theorem foldl_devs_length (p : PassIn) (l : List (Bytes × Dev)) (a : DevAcc) :
    (l.foldl (devPass p) a).devs.length = a.devs.length + l.length := by
  rw [foldl_devs]; simp [steppedList_length]

/-- the initial accumulator of the device phase -/
def acc0 (w0 : W) : DevAcc :=
  { w := w0, ylines := showSys w0.sys [], msgs := [], tmo := none, oracle := { calls := w0.pendingX }, devs := [], dead := false }

/-- the world `daemonPass` returns -/
theorem daemonPass_fst (w : W) (p : PassIn) :
    (daemonPass w p).1 =
      let w0 := cliPostPoll w p.acc p.envs
      if w0.exited then w0 else
      let a := w0.devs.foldl (devPass p) (acc0 w0)
      { a.w with devs := a.devs, pendingX := [], tmo := a.tmo } := by
  unfold daemonPass acc0
  dsimp only
  split <;> rfl

/-! ### `install`: every device involved gets its actions in the same call -/

/-- what `install` does to one device -/
def instDev (com : Nat) (targets : List Bytes) (cid : Nat) (tele : Bool) (al : Nat) (nd : Bytes × Dev) : Bytes × Dev :=
  let r := enqueue nd.2 com targets cid tele al
  (nd.1, if r.2 > 0 && r.1.conn != 2 then { r.1 with retryCount := 0 } else r.1)

theorem install_fold (com : Nat) (targets : List Bytes) (cid : Nat) (tele : Bool) (al : Nat) (l : List (Bytes × Dev))
    (init : List (Bytes × Dev) × Nat) :
    (l.foldl (fun (acc : List (Bytes × Dev) × Nat) (nd : Bytes × Dev) =>
      let (d1, n) := enqueue nd.2 com targets cid tele al
      let d1 := if n > 0 && d1.conn != 2 then { d1 with retryCount := 0 } else d1
      (acc.1 ++ [(nd.1, d1)], acc.2 + n)) init).1 = init.1 ++ l.map (instDev com targets cid tele al) := by
  induction l generalizing init with
  | nil => simp
  | cons nd r ih => rw [List.foldl_cons, ih]; simp [instDev]

/-- `install` either refuses (the world is unchanged) or replaces *every* device by its enqueued version at once, opens
    one new arglist, and touches nothing else -/
theorem install_world (w : W) (c : Cli) (com : Com) (names : List Name) :
    (install w c com names).1 = w ∨
    ∃ args, (install w c com names).1 =
      { w with devs := w.devs.map (instDev (comIdx com) (names.map ofChars) c.id c.telemetry w.alNext),
               store := (w.alNext, args) :: w.store, alNext := w.alNext + 1 } := by
  unfold install
  dsimp only
  split
  · exact Or.inl rfl
  · have h := install_fold (comIdx com) (names.map ofChars) c.id c.telemetry w.alNext w.devs ([], 0)
    generalize hq : List.foldl _ ([], 0) w.devs = r at *
    obtain ⟨devs, total⟩ := r
    dsimp only
    split
    · exact Or.inl rfl
    · simp only [List.nil_append] at h
      subst h
      exact Or.inr ⟨_, rfl⟩

/-! ### two runs: what `_act_finish` reads of the store -/

/-- the arglist entries the final reply looks at -/
def replyEntries (c : CmdC) : List ArgC := c.names.filterMap fun n => c.args.find? (·.node == n)

theorem finalReply_entries (ex : Bool) (c c' : CmdC) (h1 : c.com = c'.com) (h3 : c.error = c'.error)
    (h : replyEntries c = replyEntries c') : finalReply ex c = finalReply ex c' := by
  unfold replyEntries at h
  unfold finalReply
  simp only [h1, h3, h]

theorem filterMap_congr' {α β} (f g : α → Option β) (l : List α) (h : ∀ x ∈ l, f x = g x) : l.filterMap f = l.filterMap g := by
  induction l with
  | nil => rfl
  | cons x r ih =>
    rw [List.filterMap_cons, List.filterMap_cons, h x (by simp), ih (fun y hy => h y (by simp [hy]))]

/-- the targets of a command are `Q`-nodes -/
def NamesQ (Q : Bytes → Bool) (names : List Name) : Prop := ∀ nb : Bytes, toChars nb ∈ names → Q nb = true

theorem replyEntries_agree (Q : Bytes → Bool) (k : CmdC) (s s' : Pm.Dev2.Store) (hS : Pm.Dev2.SAgree Q s s') (hN : NamesQ Q k.names) :
    replyEntries { k with args := (cell s k.al).map argC } = replyEntries { k with args := (cell s' k.al).map argC } := by
  unfold replyEntries
  dsimp only
  apply filterMap_congr'
  intro n hn
  rw [List.find?_map, List.find?_map]
  congr 1
  have hi : ∀ x : Pm.Dev2.Arg, ((fun (y : ArgC) => y.node == n) ∘ argC) x = true → Q x.node = true := by
    intro x hx
    have : toChars x.node = n := by simpa [argC] using hx
    exact hN x.node (by rw [this]; exact hn)
  rw [← Pm.Dev2.find?_filter_of_imp _ (fun g => Q g.node) hi, ← Pm.Dev2.find?_filter_of_imp _ (fun g => Q g.node) hi (cell s' k.al), hS k.al]

/-- client `g`'s command, if it has one, targets `Q`-nodes only -/
def GOk (Q : Bytes → Bool) (w : W) (g : Nat) : Prop := ∀ c, cliRec w g = some c → ∀ k, c.cmd = some k → NamesQ Q k.names

theorem updCli_rel (w w' : W) (id g : Nat) (f : Cli → Cli) (hf : ∀ c, (f c).id = c.id) (hc : cliRec w g = cliRec w' g) :
    cliRec (updCli w id f) g = cliRec (updCli w' id f) g := by
  by_cases h : id = g
  · subst h; rw [updCli_self _ _ _ hf, updCli_self _ _ _ hf, hc]
  · rw [updCli_other _ _ _ _ hf h, updCli_other _ _ _ _ hf h, hc]

theorem updCli_GOk (Q : Bytes → Bool) (w : W) (id g : Nat) (f : Cli → Cli) (hf : ∀ c, (f c).id = c.id)
    (hn : ∀ c k', cliRec w g = some c → (f c).cmd = some k' → NamesQ Q k'.names) (hG : GOk Q w g) :
    GOk Q (updCli w id f) g := by
  by_cases h : id = g
  · subst h
    intro c hc k hk
    rw [updCli_self _ _ _ hf] at hc
    cases hq : cliRec w id with
    | none => rw [hq] at hc; simp at hc
    | some c0 =>
      rw [hq] at hc; simp at hc; subst hc
      exact hn c0 k hq hk
  · intro c hc k hk
    rw [updCli_other _ _ _ _ hf h] at hc
    exact hG c hc k hk

theorem actFinish_rel (Q : Bytes → Bool) (w w' : W) (id : Nat) (e : Pm.Dev2.ActErr) (name : Bytes) (g : Nat)
    (hc : cliRec w g = cliRec w' g) (hS : Pm.Dev2.SAgree Q w.store w'.store) (hG : GOk Q w g) :
    cliRec (actFinish w id e name).1 g = cliRec (actFinish w' id e name).1 g ∧ GOk Q (actFinish w id e name).1 g := by
  by_cases h : id = g
  · subst h
    have e1 : w.clients.find? (·.id == id) = cliRec w id := rfl
    have e2 : w'.clients.find? (·.id == id) = cliRec w' id := rfl
    unfold actFinish
    rw [e1, e2, ← hc]
    cases hq : cliRec w id with
    | none => exact ⟨hc, hG⟩
    | some c =>
      have hid : c.id = id := by
        have : w.clients.find? (·.id == id) = some c := hq
        simpa using List.find?_some this
      dsimp only
      cases hk : c.cmd with
      | none => exact ⟨hc, hG⟩
      | some k =>
        dsimp only
        have hN : NamesQ Q k.names := hG c hq k hk
        have hfr : finalReply c.exprange { k with error := k.error || (e != .success), args := (storeArgs w k.al).map argC }
            = finalReply c.exprange { k with error := k.error || (e != .success), args := (storeArgs w' k.al).map argC } := by
          refine finalReply_entries _ _ _ ?_ ?_ ?_
          · rfl
          · rfl
          · exact replyEntries_agree Q { k with error := k.error || (e != .success) } w.store w'.store hS hN
        split
        · rw [← hfr]
          split
          · rw [hid]
            refine ⟨updCli_rel _ _ _ _ _ (fun _ => rfl) hc, updCli_GOk Q _ _ _ _ (fun _ => rfl) ?_ hG⟩
            intro c0 k' _ hk'; simp [put] at hk'
          · exact ⟨hc, hG⟩
        · rw [hid]
          refine ⟨updCli_rel _ _ _ _ _ (fun _ => rfl) hc, updCli_GOk Q _ _ _ _ (fun _ => rfl) ?_ hG⟩
          intro c0 k' _ hk'
          simp only [put, Option.some.injEq] at hk'
          rw [← hk']; exact hN
  · rw [actFinish_other _ _ _ _ _ h, actFinish_other _ _ _ _ _ h]
    refine ⟨hc, ?_⟩
    intro c hcc k hk
    rw [actFinish_other _ _ _ _ _ h] at hcc
    exact hG c hcc k hk

theorem applyOut_store (name : Bytes) (acc : W × List String) (o : Pm.Dev2.Out) : (applyOut name acc o).1.store = acc.1.store := by
  have := congrArg W.store (applyOut_sans name acc o)
  simpa [sansClients] using this

theorem updCli_put_GOk (Q : Bytes → Bool) (w : W) (id g : Nat) (b : Bytes) (hG : GOk Q w g) :
    GOk Q (updCli w id fun c => put c b) g :=
  updCli_GOk Q w id g _ (fun _ => rfl) (fun c k' hc hk' => hG c hc k' hk') hG

theorem applyOut_rel (Q : Bytes → Bool) (name : Bytes) (acc acc' : W × List String) (o : Pm.Dev2.Out) (g : Nat)
    (hc : cliRec acc.1 g = cliRec acc'.1 g) (hS : Pm.Dev2.SAgree Q acc.1.store acc'.1.store) (hG : GOk Q acc.1 g) :
    cliRec (applyOut name acc o).1 g = cliRec (applyOut name acc' o).1 g ∧ GOk Q (applyOut name acc o).1 g ∧
    Pm.Dev2.SAgree Q (applyOut name acc o).1.store (applyOut name acc' o).1.store := by
  refine ⟨?_, ?_, by rw [applyOut_store, applyOut_store]; exact hS⟩
  · obtain ⟨w, msgs⟩ := acc
    obtain ⟨w', msgs'⟩ := acc'
    cases o with
    | finish cid e => exact (actFinish_rel Q w w' cid e name g hc hS hG).1
    | telemetry cid t => exact updCli_rel _ _ _ _ _ (fun _ => rfl) hc
    | diag cid t => exact updCli_rel _ _ _ _ _ (fun _ => rfl) hc
    | sent _ => exact hc
    | rxMismatch _ _ => exact hc
    | abortAssert _ => exact hc
  · obtain ⟨w, msgs⟩ := acc
    obtain ⟨w', msgs'⟩ := acc'
    cases o with
    | finish cid e => exact (actFinish_rel Q w w' cid e name g hc hS hG).2
    | telemetry cid t => exact updCli_put_GOk Q w cid g _ hG
    | diag cid t => exact updCli_put_GOk Q w cid g _ hG
    | sent _ => exact hG
    | rxMismatch _ _ => exact hG
    | abortAssert _ => exact hG

theorem foldl_applyOut_rel (Q : Bytes → Bool) (name : Bytes) (g : Nat) (outs : List Pm.Dev2.Out) (acc acc' : W × List String)
    (hc : cliRec acc.1 g = cliRec acc'.1 g) (hS : Pm.Dev2.SAgree Q acc.1.store acc'.1.store) (hG : GOk Q acc.1 g) :
    cliRec (outs.foldl (applyOut name) acc).1 g = cliRec (outs.foldl (applyOut name) acc').1 g ∧
    GOk Q (outs.foldl (applyOut name) acc).1 g := by
  induction outs generalizing acc acc' with
  | nil => exact ⟨hc, hG⟩
  | cons o r ih =>
    obtain ⟨h1, h2, h3⟩ := applyOut_rel Q name acc acc' o g hc hS hG
    exact ih _ _ h1 h3 h2

/-- two runs of `applyOuts` with the same callbacks, on worlds that agree on client `g`'s record and on the store entries
    of `Q`-nodes (where `g`'s targets lie): client `g`'s record is the same afterwards -/
theorem applyOuts_rel (Q : Bytes → Bool) (w w' : W) (name : Bytes) (outs : List Pm.Dev2.Out) (g : Nat)
    (hc : cliRec w g = cliRec w' g) (hS : Pm.Dev2.SAgree Q w.store w'.store) (hG : GOk Q w g) :
    cliRec (applyOuts w name outs).1 g = cliRec (applyOuts w' name outs).1 g ∧ GOk Q (applyOuts w name outs).1 g := by
  rw [applyOuts_eq, applyOuts_eq]
  exact foldl_applyOut_rel Q name g outs _ _ hc hS hG

end Pm.Daemon

section AxiomChecks
open Pm.Daemon
end AxiomChecks
