import Pm.FrameDev
/-! Helper lemmas for C05, daemon level: `devPass`/`daemonPass` of `Pm/Daemon.lean` restated in pieces, the frame of
    `applyOuts`, and the single-run frame of one device's step inside the pass. -/
namespace Pm.Daemon
open Pm Pm.Client
open Pm.Dev2 (Out Oracle CS Env Dev Action Store outCid cell)

/-! ### restatement of `devPass` -/

/-- the kernel answers as device `nd` sees them in this pass -/
def devEnv (p : PassIn) (w : W) (nd : Bytes × Dev) : Env :=
  let d := { nd.2 with args := w.store }
  let env := mkDevEnv w d p.now p.con p.soe p.envs
  match Pm.Dev2.prePoll d with
  | some (_, f) => { env with revents := (env.revents &&& f) ||| (env.revents &&& 28) }
  | none => { env with revents := 0 }

/-- one device's own `dev_post_poll` share: its state with the shared store plugged in, its kernel answers, the oracle -/
def devStep (p : PassIn) (w : W) (o : Oracle) (nd : Bytes × Dev) : CS × Oracle × List Out × Option Nat :=
  Pm.Dev2.postPoll { nd.2 with args := w.store } (devEnv p w nd) o

/-- the world after the device's step, before its callbacks are delivered -/
def afterStep (w : W) (c : CS) : W :=
  { w with store := c.dev.args, nsock := w.nsock + countSock c.sys, npair := w.npair + countPair c.sys, nfork := w.nfork + countFork c.sys }

def isAbortMsg (msgs : List String) : Bool := msgs.any (·.startsWith "O ABORT")

def devPass' (p : PassIn) (a : DevAcc) (nd : Bytes × Dev) : DevAcc :=
  if a.dead then { a with devs := a.devs ++ [nd] } else
  let r := devStep p a.w a.oracle nd
  let x := applyOuts (afterStep a.w r.1) nd.1 r.2.2.1
  { w := x.1, ylines := a.ylines ++ showSys [] r.1.sys (nd.2.fd.getD 0), msgs := a.msgs ++ x.2, tmo := minOpt a.tmo r.2.2.2,
    oracle := r.2.1, devs := a.devs ++ [(nd.1, r.1.dev)], dead := r.1.aborted || isAbortMsg x.2 }

theorem devPass_eq (p : PassIn) (a : DevAcc) (nd : Bytes × Dev) : devPass p a nd = devPass' p a nd := by
  unfold devPass devPass' devStep devEnv afterStep isAbortMsg
  rfl

end Pm.Daemon
