import Pm.Dev2Fd
import Pm.Dev2Timer
/-! Several addresses per host (`device_tcp.c`: `tcp->addrs`, `tcp->cur`): what one connection *attempt* is.

* `walkTried`: ghost beside `connectWalk` — the addresses `tcp_connect_one` is called for, in call order;
* `connectWalk_tried`: they are consecutive, start at `tcp->cur`, and the walk ends on the first address whose
  `tcp_connect_one` returns true, or with every remaining address tried and the list exhausted (`C12_attempt_walks_all_addresses`);
* `tcpConnect_ignores_cur`: `tcp_connect` starts over at the first address whatever the last attempt left in `tcp->cur`
  (`C12_next_attempt_restarts_at_first`, fix b7c4c70);
* `WalkLog`: the system-call log of a walk, address by address — every socket opened for an address that fails is closed
  before the next `socket()` (`C20_fd_ledger_walk`). -/
namespace Pm.Dev2.Walk
open Pm.Dev2 Pm.Dev2.Fd

/-! ### which addresses are tried -/

/-- the indices `tcp_connect_one` is called for by `connectWalk`, in call order (same recursion, same tests) -/
def walkTried : Nat → CS → List Nat
  | 0, _ => []
  | fuel + 1, c =>
    match c.dev.cur with
    | none => []
    | some i =>
      if (connectOne c).2 then [i]
      else i :: walkTried fuel { (connectOne c).1 with dev := { (connectOne c).1.dev with cur := aiNext c.dev.naddr i } }

/-- one call of `tcp_connect_one` per `socket()` … or none at all when the harness has run out of answers -/
theorem connectOne_naddr (c : CS) : (connectOne c).1.dev.naddr = c.dev.naddr := (connectOne_frame c).dev.naddr

/-- **the shape of a walk** that starts at address `i` of `naddr` with enough fuel (`naddr - i` iterations; both callers give
    `naddr`): the addresses tried are `i, i+1, …` — consecutive, each once — and either
    (a) every one of them up to the last address of the list failed: `cur == NULL`, no descriptor; or
    (b) the last one tried, `j`, is the first whose `tcp_connect_one` returned true: `cur` stands on it, its descriptor is held,
        the state is CONNECTED (connected at once, clean `SO_ERROR`) or what it was (EINPROGRESS). -/
theorem connectWalk_tried (n : Nat) (c : CS) (i : Nat) (hcur : c.dev.cur = some i) (hi : i < c.dev.naddr)
    (hn : c.dev.naddr - i ≤ n) (hfd : c.dev.fd = none) :
    ((connectWalk n c).dev.cur = none ∧ walkTried n c = List.range' i (c.dev.naddr - i) ∧ (connectWalk n c).dev.fd = none ∧
        (connectWalk n c).dev.conn = c.dev.conn) ∨
    (∃ j, i ≤ j ∧ j < c.dev.naddr ∧ (connectWalk n c).dev.cur = some j ∧ walkTried n c = List.range' i (j - i + 1) ∧
        (connectWalk n c).dev.fd.isSome = true ∧
        ((connectWalk n c).dev.conn = 2 ∨ (connectWalk n c).dev.conn = c.dev.conn)) := by
  induction n generalizing c i with
  | zero => omega
  | succ n ih =>
    unfold connectWalk walkTried
    simp only [hcur]
    obtain ⟨hcu, hc⟩ := connectOne_cases c
    split
    · rename_i hok
      right
      rcases hc with ⟨_, h2, h3⟩ | ⟨h1, _⟩
      · exact ⟨i, Nat.le_refl _, hi, by rw [hcu, hcur], by simp [List.range'], h2, h3⟩
      · rw [h1] at hok; cases hok
    · rename_i hok
      rcases hc with ⟨h1, _⟩ | ⟨_, h2, h3⟩
      · rw [h1] at hok; exact absurd rfl hok
      · have hfd' : (connectOne c).1.dev.fd = none := by
          rcases h3 with h3 | ⟨_, h3⟩
          · exact h3
          · rw [h3]; exact hfd
        by_cases hlast : i + 1 < c.dev.naddr
        · -- there is a next address
          have hnext : aiNext c.dev.naddr i = some (i + 1) := by simp [aiNext, hlast]
          have := ih { (connectOne c).1 with dev := { (connectOne c).1.dev with cur := aiNext c.dev.naddr i } } (i + 1)
            (by simp [hnext]) (by show i + 1 < (connectOne c).1.dev.naddr; rw [connectOne_naddr]; exact hlast)
            (by show (connectOne c).1.dev.naddr - (i + 1) ≤ n; rw [connectOne_naddr]; omega) hfd'
          generalize hc' : ({ (connectOne c).1 with dev := { (connectOne c).1.dev with cur := aiNext c.dev.naddr i } } : CS) = c' at this ⊢
          have e1 : c'.dev.naddr = c.dev.naddr := by rw [← hc']; exact connectOne_naddr c
          have e2 : c'.dev.conn = c.dev.conn := by rw [← hc']; exact h2
          rw [e1, e2] at this
          rcases this with ⟨a1, a2, a3, a4⟩ | ⟨j, b1, b2, b3, b4, b5, b6⟩
          · left
            refine ⟨a1, ?_, a3, a4⟩
            have : c.dev.naddr - i = (c.dev.naddr - (i + 1)) + 1 := by omega
            rw [a2, this, List.range'_succ]
          · right
            refine ⟨j, by omega, b2, b3, ?_, b5, b6⟩
            have : j - i + 1 = (j - (i + 1) + 1) + 1 := by omega
            rw [b4, this]; simp [List.range'_succ]
        · -- `i` was the last address: `cur = cur->ai_next = NULL`
          have hnext : aiNext c.dev.naddr i = none := by simp [aiNext, hlast]
          left
          have hw : ∀ m (c' : CS), c'.dev.cur = none → (connectWalk m c').dev.cur = none ∧
              (connectWalk m c').dev.fd = c'.dev.fd ∧ (connectWalk m c').dev.conn = c'.dev.conn ∧ walkTried m c' = [] := by
            intro m c' h'
            cases m with
            | zero => exact ⟨rfl, rfl, rfl, rfl⟩
            | succ m => simp [connectWalk, walkTried, h']
          obtain ⟨w1, w2, w3, w4⟩ := hw n { (connectOne c).1 with dev := { (connectOne c).1.dev with cur := aiNext c.dev.naddr i } } (by simp [hnext])
          rw [w4]
          refine ⟨w1, ?_, w2.trans hfd', w3.trans h2⟩
          have : c.dev.naddr - i = 1 := by omega
          rw [this]; simp [List.range']

/-! ### `tcp_connect` starts over at the first address -/

/-- the addresses one call of `tcp_connect` tries -/
def attemptTried (c : CS) : List Nat := walkTried c.dev.naddr { c with dev := { c.dev with conn := 1, cur := some 0 } }

/-- `tcp_connect` (past its two asserts) does not read `tcp->cur`: `tcp->cur = tcp->addrs` comes first (fix b7c4c70) -/
theorem tcpConnect_ignores_cur (c : CS) (v : Option Nat) (h0 : c.dev.conn = 0) (hfd : c.dev.fd = none) :
    tcpConnect { c with dev := { c.dev with cur := v } } = tcpConnect c ∧
    attemptTried { c with dev := { c.dev with cur := v } } = attemptTried c := by
  constructor
  · unfold tcpConnect
    simp only [h0, hfd, bne_self_eq_false, Bool.false_eq_true, ↓reduceIte, Option.isSome_none]
  · unfold attemptTried; rfl

/-- **one attempt**: `tcp_connect` on a device that is NOT_CONNECTED without a descriptor (what its two asserts demand) and has at
    least one address (`tcp_create` exits otherwise) tries the addresses `0, 1, 2, …` in order, each once, and
    * ends NOT_CONNECTED ("connection refused", `cur == NULL`, no descriptor) only after **every** address was tried, or
    * ends on the first address `j` whose `tcp_connect_one` did not fail at once: `cur` stands on `j`, the descriptor is held,
      the device is CONNECTING (EINPROGRESS) or CONNECTED; the addresses behind `j` were not touched. -/
theorem tcpConnect_attempt (c : CS) (h0 : c.dev.conn = 0) (hfd : c.dev.fd = none) (hna : 0 < c.dev.naddr) :
    ((tcpConnect c).1.dev.conn = 0 ∧ (tcpConnect c).1.dev.cur = none ∧ (tcpConnect c).1.dev.fd = none ∧
        attemptTried c = List.range c.dev.naddr) ∨
    (∃ j, j < c.dev.naddr ∧ (tcpConnect c).1.dev.cur = some j ∧ (tcpConnect c).1.dev.fd.isSome = true ∧
        ((tcpConnect c).1.dev.conn = 1 ∨ (tcpConnect c).1.dev.conn = 2) ∧ attemptTried c = List.range (j + 1)) := by
  unfold tcpConnect attemptTried
  have hfs : c.dev.fd.isSome = false := by simp [hfd]
  simp only [h0, bne_self_eq_false, Bool.false_eq_true, ↓reduceIte, hfs]
  have h := connectWalk_tried c.dev.naddr { c with dev := { c.dev with conn := 1, cur := some 0 } } 0 rfl hna (by simp) hfd
  simp only [Nat.sub_zero] at h
  generalize connectWalk c.dev.naddr _ = r at *
  generalize walkTried c.dev.naddr _ = t at *
  rcases h with ⟨a1, a2, a3, _⟩ | ⟨j, _, b2, b3, b4, b5, b6⟩
  · left
    have e : r.dev.cur.isNone = true := by rw [a1]; rfl
    rw [if_pos e]
    exact ⟨rfl, a1, a3, by rw [a2, List.range_eq_range']⟩
  · right
    have e : ¬ r.dev.cur.isNone = true := by rw [b3]; simp
    rw [if_neg e]
    exact ⟨j, b2, b3, b5, b6.elim Or.inr Or.inl, by rw [b4, List.range_eq_range']⟩

/-- the addresses `tcp_finish_connect` tries after `SO_ERROR` reported that the pending connect (on address `i`) failed -/
def finishTried (c : CS) (i : Nat) : List Nat :=
  walkTried (closeFd c).dev.naddr { closeFd c with dev := { (closeFd c).dev with cur := aiNext (closeFd c).dev.naddr i } }

/-- **an attempt goes on** when the asynchronous connect on address `i` has failed: the pending socket is closed, then the
    addresses `i+1, i+2, …` are tried in order, each once; the attempt ends NOT_CONNECTED ("connection refused") only when every
    address behind `i` has failed as well, otherwise on the first address `j > i` that did not fail at once -/
theorem finishConnectFail_attempt (c : CS) (i : Nat) (hcur : c.dev.cur = some i) (hi : i < c.dev.naddr) (h1 : c.dev.conn = 1) :
    ((finishConnectFail c).dev.conn = 0 ∧ (finishConnectFail c).dev.cur = none ∧ (finishConnectFail c).dev.fd = none ∧
        finishTried c i = List.range' (i + 1) (c.dev.naddr - (i + 1))) ∨
    (∃ j, i < j ∧ j < c.dev.naddr ∧ (finishConnectFail c).dev.cur = some j ∧ (finishConnectFail c).dev.fd.isSome = true ∧
        ((finishConnectFail c).dev.conn = 1 ∨ (finishConnectFail c).dev.conn = 2) ∧
        finishTried c i = List.range' (i + 1) (j - i)) := by
  unfold finishConnectFail finishTried
  obtain ⟨_, a2, _, _, a5, a6, a7⟩ := closeFd_shape c
  generalize closeFd c = c1 at *
  rw [a6, hcur]
  dsimp only
  by_cases hlast : i + 1 < c.dev.naddr
  · have hnext : aiNext c1.dev.naddr i = some (i + 1) := by simp [aiNext, a7, hlast]
    have h := connectWalk_tried c1.dev.naddr { c1 with dev := { c1.dev with cur := aiNext c1.dev.naddr i } } (i + 1)
      (by simp [hnext]) (by show i + 1 < c1.dev.naddr; rw [a7]; exact hlast) (by show c1.dev.naddr - (i + 1) ≤ c1.dev.naddr; omega) a2
    generalize connectWalk c1.dev.naddr _ = r at *
    generalize walkTried c1.dev.naddr _ = t at *
    dsimp only at h
    rw [a5, h1] at h
    rcases h with ⟨b1, b2, b3, _⟩ | ⟨j, b1, b2, b3, b4, b5, b6⟩
    · left
      have e : r.dev.cur.isNone = true := by rw [b1]; rfl
      rw [if_pos e]
      exact ⟨rfl, b1, b3, by rw [b2, a7]⟩
    · right
      have e : ¬ r.dev.cur.isNone = true := by rw [b3]; simp
      rw [if_neg e]
      refine ⟨j, by omega, by omega, b3, b5, b6.elim Or.inr Or.inl, ?_⟩
      rw [b4]; congr 1; omega
  · have hnext : aiNext c1.dev.naddr i = none := by simp [aiNext, a7, hlast]
    left
    rw [hnext]
    have hz : c.dev.naddr - (i + 1) = 0 := by omega
    rw [hz]
    cases hn : c1.dev.naddr with
    | zero => omega
    | succ m =>
      simp only [connectWalk, walkTried, Option.isNone_none, ↓reduceIte, List.range'_zero]
      simp [a2]

/-! ### the log of a walk -/

/-- the system-call log of an address walk and the descriptor it ends with: for every address that failed, its `socket x`, some
    entries that neither open nor close anything (`connect`, `SO_ERROR`), and the `close x` of that very socket — and only then
    the next address; at the end possibly one socket that stays open (`ok`).  (`noans`: the scripted kernel of the harness
    has no answer left — a modelled abort, nothing was opened.) -/
inductive WalkLog : List Sys → Option Nat → Prop
  | done : WalkLog [] none
  | fail (x : Nat) (ν rest : List Sys) (fd : Option Nat) : ν.all neutral = true → WalkLog rest fd →
      WalkLog (Sys.socket x :: ν ++ Sys.close x :: rest) fd
  | noans (ν rest : List Sys) (fd : Option Nat) : ν.all neutral = true → WalkLog rest fd → WalkLog (ν ++ rest) fd
  | ok (x : Nat) (ν : List Sys) : ν.all neutral = true → WalkLog (Sys.socket x :: ν) (some x)

theorem connectWalk_log (n : Nat) (c : CS) (hfd : c.dev.fd = none) :
    ∃ δ, (connectWalk n c).sys = c.sys ++ δ ∧ WalkLog δ (connectWalk n c).dev.fd := by
  induction n generalizing c with
  | zero => exact ⟨[], by simp [connectWalk], by simpa [connectWalk, hfd] using WalkLog.done⟩
  | succ n ih =>
    unfold connectWalk
    split
    · exact ⟨[], by simp, by rw [hfd]; exact .done⟩
    · rename_i i hcur
      obtain ⟨_, _, _, x, ν, hν, hsh⟩ := connectOne_shape c
      split
      · rename_i hok
        simp only [hok, reduceCtorEq, false_and, or_false, true_and] at hsh
        obtain ⟨hs, hf, _⟩ := hsh
        exact ⟨_, hs, by rw [hf]; exact .ok x ν hν⟩
      · rename_i hok
        have hok' : (connectOne c).2 = false := by simpa using hok
        simp only [hok', reduceCtorEq, false_and, false_or, true_and] at hsh
        have hfd2 : (connectOne c).1.dev.fd = none := by
          rcases hsh with ⟨_, hf, _⟩ | ⟨_, hf, _⟩
          · exact hf
          · rw [hf]; exact hfd
        obtain ⟨δ, e1, e2⟩ := ih { (connectOne c).1 with dev := { (connectOne c).1.dev with cur := aiNext c.dev.naddr i } } hfd2
        rcases hsh with ⟨hs, _, _⟩ | ⟨hs, _, _⟩
        · refine ⟨Sys.socket x :: ν ++ Sys.close x :: δ, ?_, .fail x ν δ _ hν e2⟩
          rw [e1]; show (connectOne c).1.sys ++ δ = _; rw [hs]; simp
        · refine ⟨ν ++ δ, ?_, .noans ν δ _ hν e2⟩
          rw [e1]; show (connectOne c).1.sys ++ δ = _; rw [hs]; simp

/-- replayed from no open descriptor, the log of a walk never closes a descriptor that is not open and ends with exactly the
    descriptor the walk ends with -/
theorem WalkLog.ledger {δ : List Sys} {fd : Option Nat} (h : WalkLog δ fd) : fdRun [] δ = some fd.toList := by
  induction h with
  | done => rfl
  | fail x ν rest fd hν _ ih =>
    have : fdRun [] (Sys.socket x :: ν ++ Sys.close x :: rest) = fdRun [] rest := by
      show fdRun [] (Sys.socket x :: (ν ++ Sys.close x :: rest)) = _
      simp [fdRun, fdStep, fdRun_append, fdRun_neutral _ _ hν]
    rw [this, ih]
  | noans ν rest fd hν _ ih => rw [fdRun_append, fdRun_neutral _ _ hν]; exact ih
  | ok x ν hν => simp [fdRun, fdStep, fdRun_neutral _ _ hν]

theorem neutral_not_socket (ν : List Sys) (hν : ν.all neutral = true) (x : Nat) : Sys.socket x ∉ ν := by
  intro hm
  have := List.all_eq_true.1 hν _ hm
  simp [neutral] at this

/-- a `socket` entry of `p ++ socket x :: r = ν ++ m` with `ν` neutral lies in `m` -/
theorem split_socket (p r ν m : List Sys) (x : Nat) (hν : ν.all neutral = true) (e : p ++ Sys.socket x :: r = ν ++ m) :
    ∃ m', p = ν ++ m' ∧ m' ++ Sys.socket x :: r = m := by
  rcases List.append_eq_append_iff.1 e with ⟨a', e1, e2⟩ | ⟨c', e1, e2⟩
  · -- ν = p ++ a', socket x :: r = a' ++ m
    cases a' with
    | nil => exact ⟨[], by simpa using e1.symm, by simpa using e2⟩
    | cons b a'' =>
      simp only [List.cons_append, List.cons.injEq] at e2
      exfalso
      exact neutral_not_socket ν hν x (by rw [e1, ← e2.1]; simp)
  · exact ⟨c', e1, e2.symm⟩

/-- **no two sockets at once**: at every `socket()` of a walk all sockets opened before it in the walk have been closed -/
theorem WalkLog.one_at_a_time {δ : List Sys} {fd : Option Nat} (h : WalkLog δ fd) :
    ∀ (p r : List Sys) (x : Nat), δ = p ++ Sys.socket x :: r → fdRun [] p = some [] := by
  induction h with
  | done => intro p r x e; simp at e
  | fail y ν rest fd hν _ ih =>
    intro p r x e
    cases p with
    | nil => rfl
    | cons a p' =>
      simp only [List.cons_append, List.cons.injEq] at e
      obtain ⟨ea, e⟩ := e
      subst ea
      obtain ⟨m', e1, e2⟩ := split_socket p' r ν (Sys.close y :: rest) x hν e.symm
      cases m' with
      | nil => simp at e2
      | cons b m'' =>
        simp only [List.cons_append, List.cons.injEq] at e2
        obtain ⟨eb, e3⟩ := e2
        have := ih m'' r x e3.symm
        subst eb e1
        show fdRun [] (Sys.socket y :: (ν ++ Sys.close y :: m'')) = some []
        simp [fdRun, fdStep, fdRun_append, fdRun_neutral _ _ hν, this]
  | noans ν rest fd hν _ ih =>
    intro p r x e
    obtain ⟨m', e1, e2⟩ := split_socket p r ν rest x hν e.symm
    have := ih m' r x e2.symm
    rw [e1, fdRun_append, fdRun_neutral _ _ hν]; exact this
  | ok y ν hν =>
    intro p r x e
    cases p with
    | nil => rfl
    | cons a p' =>
      simp only [List.cons_append, List.cons.injEq] at e
      exfalso
      exact neutral_not_socket ν hν x (by rw [e.2]; simp)

/-! ### concrete devices for the non-vacuity examples -/

/-- a tcp device with three addresses, not connected -/
def ex3 : Dev := { exDev with naddr := 3 }
/-- the first address is unreachable at once, the second refuses at once, the third is in progress -/
def env221 : Env := { now := 0, revents := 0, sockets := [2000, 2001, 2002], connects := [2, 2, 1], soerrs := [], read := none, writeOk := true }
/-- every address fails at once -/
def env222 : Env := { env221 with connects := [2, 2, 2] }
/-- the pending connect on the first address failed (`SO_ERROR`), the second connects at once with a clean `SO_ERROR` -/
def envFin : Env := { now := 0, revents := 2, sockets := [2001, 2002], connects := [0], soerrs := [111, 0], read := none, writeOk := true }

end Pm.Dev2.Walk

#print axioms Pm.Dev2.Walk.connectWalk_tried
#print axioms Pm.Dev2.Walk.tcpConnect_attempt
#print axioms Pm.Dev2.Walk.finishConnectFail_attempt
#print axioms Pm.Dev2.Walk.connectWalk_log
#print axioms Pm.Dev2.Walk.WalkLog.ledger
#print axioms Pm.Dev2.Walk.WalkLog.one_at_a_time
